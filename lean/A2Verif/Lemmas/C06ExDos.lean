import A2Verif.Lemmas.C06DosOps
/-!
# C06, DOS 3.x: the example object (non-vacuity, negative witness), evaluated in the kernel
-/
namespace A2Verif.Reload.Dos
open A2Verif.Fs.Dos3x

theorem coh_closed {raw : Raw} {c : Nat} (h : Shaped 256 raw) : Coh ⟨raw, c, none⟩ := ⟨h, fun _ hv => by cases hv⟩

theorem exec_coh {d : Disk} (h : Coh d) (steps : List Step) (rp : Repairs := {}) : Coh (exec d steps rp).2 :=
  (exec_sim steps (DSim.same h) rp).2.coh'

/-- a blank 35-track image with `c` sectors per track -/
def blank (c : Nat) : Disk :=
  { raw := { unitLen := 256, units := Array.replicate (35 * c) (List.replicate 256 0) }, c := c, vtoc := none }

theorem blank_coh (c : Nat) : Coh (blank c) := by
  refine coh_closed ⟨by decide, rfl, ?_⟩
  intro u hu
  rw [Array.toList_replicate] at hu
  rw [List.eq_of_mem_replicate hu, List.length_replicate]

def exA : FImg := { fullPath := [72, 105], fsType := [4], chunks := [(0, [7, 7, 7, 7]), (2, [1, 2, 3])] }
/-- `init32` on a blank D13 image, then a sparse file of two data sectors: three sectors are reserved in the buffer -/
def exD : Disk := (exec (blank 13) [.op (.init 254 13), .op (.put exA)]).2

theorem exD_coh : Coh exD := by
  unfold exD
  exact exec_coh (blank_coh 13) _

def freeOf (x : R Nat × Disk) : Nat := match x.1 with | .ok n => n | .error _ => 99999

/-- the variant of `get_img` that forgets the buffer, followed by `load` -/
def reloadForgetful (d : Disk) : Disk := match saveForgetful d with | .ok b => load d.c b | .error _ => d

theorem reloadForgetful_eq {d : Disk} (h : Coh d) : reloadForgetful d = ⟨d.raw, d.c, none⟩ := by
  unfold reloadForgetful saveForgetful load
  simp only
  rw [ofBytes_toBytes h.shaped]

set_option maxRecDepth 1000000 in
/-- the example object has 426 free sectors, 3 fewer than the image underneath it shows: the allocations of the `put`
live only in the VTOC buffer -/
theorem exD_free : freeOf (statFree exD) = 426 ∧ freeOf (statFree ⟨exD.raw, exD.c, none⟩) = 429 := by decide +kernel


set_option maxRecDepth 1000000 in
/-- `init33(254)` on the blank DO image succeeds -/
theorem init16_ok : (init (blank 16) 254 16).1 ≠ .error .panic := by
  have h : (match (init (blank 16) 254 16).1 with | .ok _ => true | .error _ => false) = true := by decide +kernel
  intro e
  rw [e] at h
  cases h

end A2Verif.Reload.Dos
