import A2Verif.Lemmas.Detok
/-! panic freedom / fuel adequacy of `detokA` and `detokI` on streams that end in the terminator byte -/
namespace A2Verif.Detok
open A2Verif.Gen.Tokens

theorem Good.mono {α : Type} {P Q : α → Prop} {o : Outcome α} (h : Good P o) (hf : ∀ a, P a → Q a) : Good Q o := by
  cases o <;> simp_all [Good]

/-- the list is empty or its last element is `z` -/
def endsIn (z : Nat) : List Nat → Bool
  | [] => true
  | [b] => b == z
  | _ :: c :: t => endsIn z (c :: t)

theorem endsIn_tail {z b : Nat} {t : List Nat} (h : endsIn z (b :: t) = true) : endsIn z t = true := by
  cases t with
  | nil => rfl
  | cons c t' => simpa [endsIn] using h

theorem endsIn_drop {z : Nat} : ∀ (n : Nat) (s : List Nat), endsIn z s = true → endsIn z (s.drop n) = true := by
  intro n
  induction n with
  | zero => intro s h; simpa using h
  | succ k ih =>
    intro s h
    cases s with
    | nil => simp [endsIn]
    | cons b t => simpa using ih t (endsIn_tail h)

/-! ### Applesoft -/

theorem escA_rest (ctx : Ctx) (term : List Nat) : ∀ (s : List Nat) (q : Nat), endsIn 0 s = true →
    endsIn 0 (escA ctx term s q).2 = true ∧ (escA ctx term s q).2.length ≤ s.length := by
  intro s
  induction s with
  | nil => intro q _; simp [escA, endsIn]
  | cons b rest ih =>
    intro q h
    unfold escA
    split
    · exact ⟨h, Nat.le_refl _⟩
    · split
      · exact ⟨h, Nat.le_refl _⟩
      · split
        · exact ⟨h, Nat.le_refl _⟩
        · have := ih (if b = aQuote then q + 1 else q) (endsIn_tail h)
          simp only [List.length_cons]
          exact ⟨this.1, by omega⟩

/-- in a string the scan stops at or before the final `00`: the rest is never empty -/
theorem escA_str_nonempty : ∀ (s : List Nat) (q : Nat), s ≠ [] → endsIn 0 s = true →
    (escA .str [34, 0] s q).2 ≠ [] := by
  intro s
  induction s with
  | nil => intro q h; exact absurd rfl h
  | cons b rest ih =>
    intro q _ h
    unfold escA
    split
    · simp
    · split
      · simp
      · split
        · simp
        · rename_i _ _ hnt
          cases rest with
          | nil =>
            -- b is the last byte, hence 0, hence a terminator: contradiction
            simp [endsIn] at h
            subst h
            simp at hnt
          | cons c t =>
            exact ih _ (by simp) (endsIn_tail h)

/-- invariant of a line: not a panic; the rest still ends in `00` and did not grow -/
def LineInv (s : List Nat) (x : List Nat × List Nat) : Prop :=
  endsIn 0 x.2 = true ∧ x.2.length ≤ s.length

theorem LineInv.weaken {s s' : List Nat} {x : List Nat × List Nat} {c : List Nat}
    (h : LineInv s' x) (hl : s'.length ≤ s.length) : LineInv s (c, x.2) :=
  ⟨h.1, Nat.le_trans h.2 hl⟩

theorem lineA_good : ∀ (fuel : Nat) (s : List Nat) (n : Nat), s.length < fuel → endsIn 0 s = true →
    Good (LineInv s) (lineA fuel s n) := by
  intro fuel
  induction fuel with
  | zero => intro s n hf; simp at hf
  | succ f ih =>
    intro s n hf hz
    cases s with
    | nil => simp [lineA, Good, LineInv, endsIn]
    | cons b rest =>
      have hrest : rest.length < f := by simp at hf; omega
      have hzr : endsIn 0 rest = true := endsIn_tail hz
      unfold lineA
      split
      · exact ⟨hz, Nat.le_refl _⟩
      · split
        · -- string
          rename_i hq
          dsimp only
          split
          · rename_i heq
            exfalso
            cases rest with
            | nil =>
              simp [endsIn] at hz
              simp [aQuote] at hq
              omega
            | cons c t => exact escA_str_nonempty (c :: t) 1 (by simp) hzr heq
          · rename_i c r' heq
            have hr := escA_rest .str [34, 0] rest 1 hzr
            rw [heq] at hr
            split
            · have hz' : endsIn 0 r' = true := endsIn_tail hr.1
              have hl' : r'.length < f := by simp at hr; omega
              refine (ih r' _ hl' hz').map ?_
              intro a ha
              exact ⟨ha.1, by have := ha.2; simp at hr ⊢; omega⟩
            · have hl' : (c :: r').length < f := by omega
              refine (ih (c :: r') _ hl' hr.1).map ?_
              intro a ha
              exact ⟨ha.1, Nat.le_trans ha.2 (Nat.le_trans hr.2 (by simp))⟩
        · split
          · -- REM
            have hr := escA_rest .rem [0] rest 0 hzr
            refine (ih _ _ (by omega) hr.1).map ?_
            intro a ha
            exact ⟨ha.1, by have := ha.2; simp; omega⟩
          · split
            · -- DATA
              have hr := escA_rest .data [58, 0] rest 0 hzr
              refine (ih _ _ (by omega) hr.1).map ?_
              intro a ha
              exact ⟨ha.1, by have := ha.2; simp; omega⟩
            · split
              · split
                · refine (ih rest _ hrest hzr).map ?_
                  intro a ha
                  exact ⟨ha.1, by have := ha.2; simp; omega⟩
                · trivial
              · refine (ih rest _ hrest hzr).map ?_
                intro a ha
                exact ⟨ha.1, by have := ha.2; simp; omega⟩

theorem progA_good : ∀ (fuel : Nat) (s : List Nat) (addr lines : Nat), s.length < fuel → endsIn 0 s = true →
    Good (fun _ => True) (progA fuel s addr lines) := by
  intro fuel
  induction fuel with
  | zero => intro s _ _ hf; simp at hf
  | succ f ih =>
    intro s addr lines hf hz
    unfold progA
    split
    · rename_i a b s2
      split
      · split
        · rename_i lo hi body
          have hzb : endsIn 0 body = true := endsIn_tail (endsIn_tail (endsIn_tail (endsIn_tail hz)))
          have hl := lineA_good (body.length + 1) body 0 (by omega) hzb
          refine hl.bind ?_
          intro x hx
          have hz' : endsIn 0 (x.2.drop 1) = true := endsIn_drop 1 _ hx.1
          have hlen : (x.2.drop 1).length < f := by
            have := hx.2
            simp at hf ⊢
            omega
          exact (ih _ _ _ hlen hz').map (fun _ _ => trivial)
        · trivial
      · trivial
    · trivial

/-! ### Integer BASIC -/

theorem escI_rest (term : List Nat) : ∀ (s : List Nat), endsIn 1 s = true →
    endsIn 1 (escI term s).2 = true ∧ (escI term s).2.length ≤ s.length := by
  intro s
  induction s with
  | nil => intro _; simp [escI, endsIn]
  | cons b rest ih =>
    intro h
    unfold escI
    split
    · exact ⟨h, Nat.le_refl _⟩
    · have := ih (endsIn_tail h)
      simp only [List.length_cons]
      exact ⟨this.1, by omega⟩

theorem escI_str_nonempty : ∀ (s : List Nat), s ≠ [] → endsIn 1 s = true →
    (escI [iCloseQuote, iEol] s).2 ≠ [] := by
  intro s
  induction s with
  | nil => intro h; exact absurd rfl h
  | cons b rest ih =>
    intro _ h
    unfold escI
    split
    · simp
    · rename_i hnt
      cases rest with
      | nil =>
        simp [endsIn] at h
        subst h
        simp [iCloseQuote, iEol] at hnt
      | cons c t => exact ih (by simp) (endsIn_tail h)

theorem varNameI_good : ∀ (s : List Nat), endsIn 1 s = true →
    Good (fun x : List Nat × List Nat => endsIn 1 x.2 = true ∧ x.2.length ≤ s.length ∧
      (∀ b rest, s = b :: rest → b ≥ 128 → x.2.length < s.length)) (varNameI s) := by
  intro s
  induction s with
  | nil => intro _; simp [varNameI, Good]
  | cons b rest ih =>
    intro h
    unfold varNameI
    split
    · refine (ih (endsIn_tail h)).map ?_
      intro a ha
      refine ⟨ha.1, by have := ha.2.1; simp; omega, ?_⟩
      intro _ _ _ _
      have := ha.2.1
      simp; omega
    · rename_i hb
      refine ⟨h, Nat.le_refl _, ?_⟩
      intro b' rest' he hge
      simp at he
      omega

theorem lineI_good : ∀ (fuel : Nat) (rep : Nat) (s code : List Nat), s.length < fuel → endsIn 1 s = true →
    Good (fun x : List Nat × List Nat => endsIn 1 x.2 = true ∧ x.2.length ≤ s.length) (lineI fuel rep s code) := by
  intro fuel
  induction fuel with
  | zero => intro _ s _ hf; simp at hf
  | succ f ih =>
    intro rep s code hf hz
    unfold lineI
    split
    · trivial
    · split
      · trivial
      · rename_i b rest
        have hrest : rest.length < f := by simp at hf; omega
        have hzr : endsIn 1 rest = true := endsIn_tail hz
        split
        · exact ⟨hzr, by simp⟩
        · split
          · -- string
            rename_i hq
            dsimp only
            split
            · rename_i heq
              exfalso
              cases rest with
              | nil =>
                simp [endsIn] at hz
                simp [iOpenQuote] at hq
                omega
              | cons c t => exact escI_str_nonempty (c :: t) (by simp) hzr heq
            · rename_i c r' heq
              have hr := escI_rest [iCloseQuote, iEol] rest hzr
              rw [heq] at hr
              split
              · have hz' : endsIn 1 r' = true := endsIn_tail hr.1
                have hl' : r'.length < f := by simp at hr; omega
                refine (ih _ r' _ hl' hz').mono ?_
                intro a ha
                exact ⟨ha.1, by have := ha.2; simp at hr ⊢; omega⟩
              · have hl' : (c :: r').length < f := by omega
                refine (ih _ (c :: r') _ hl' hr.1).mono ?_
                intro a ha
                exact ⟨ha.1, Nat.le_trans ha.2 (Nat.le_trans hr.2 (by simp))⟩
          · split
            · -- REM
              have hr := escI_rest [iEol] rest hzr
              dsimp only
              refine (ih _ _ _ (by omega) hr.1).mono ?_
              intro a ha
              exact ⟨ha.1, by have := ha.2; simp; omega⟩
            · split
              · split
                · dsimp only
                  refine (ih _ rest _ hrest hzr).mono ?_
                  intro a ha
                  exact ⟨ha.1, by have := ha.2; simp; omega⟩
                · trivial
              · split
                · split
                  · rename_i lo hi rest'
                    have hz' : endsIn 1 rest' = true := endsIn_tail (endsIn_tail hzr)
                    refine (ih _ rest' _ (by simp at hrest; omega) hz').mono ?_
                    intro a ha
                    exact ⟨ha.1, by have := ha.2; simp; omega⟩
                  · trivial
                · -- variable name
                  rename_i hnl hnd
                  have hv := varNameI_good (b :: rest) hz
                  refine hv.bind ?_
                  intro r hr
                  have hb128 : b ≥ 128 := by omega
                  have hlt : r.2.length < (b :: rest).length := hr.2.2 b rest rfl hb128
                  refine (ih _ r.2 _ (by simp at hlt; omega) hr.1).mono ?_
                  intro a ha
                  exact ⟨ha.1, by have := ha.2; omega⟩

theorem progI_good : ∀ (fuel : Nat) (s : List Nat) (addr lines : Nat) (code : List Nat), s.length < fuel →
    endsIn 1 s = true → Good (fun _ => True) (progI fuel s addr lines code) := by
  intro fuel
  induction fuel with
  | zero => intro s _ _ _ hf; simp at hf
  | succ f ih =>
    intro s addr lines code hf hz
    unfold progI
    split
    · rename_i l lo hi rest
      split
      · have hzb : endsIn 1 rest = true := endsIn_tail (endsIn_tail (endsIn_tail hz))
        have hl := lineI_good (rest.length + 2) 0 rest (code ++ dec (lo + 256 * hi) ++ [32]) (by omega) hzb
        refine hl.bind ?_
        intro x hx
        have hlen : x.2.length < f := by
          have := hx.2
          simp at hf
          omega
        exact ih _ _ _ _ hlen hx.1
      · trivial
    · trivial

end A2Verif.Detok
