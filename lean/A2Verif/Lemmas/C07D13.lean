import A2Verif.Model.AddrMap
/-!
# C07: Apple 5.25 inch 13-sector kind (DOS 3.2): D13, NIB, WOZ1, WOZ2
`Block::D13([t,s])` carries the sector id of the address field directly: both the flat D13 image and the
nibble containers use it unchanged, so the address map is the identity on (track, sector).
-/
namespace A2Verif.C07
open A2Verif.Gen A2Verif.Model.AddrMap
open A2Verif.Model.AddrMap.Out (ok err panic)

/-- C07, DOS 3.2 sectors: block `[t,s]` of a D13 image is exactly the bytes `read_sector(t,0,s)` shows, and
the nibble containers address sector id `s` of track `t`: the same physical sector in all four containers.
Every other block type is refused by D13. -/
theorem d13_sector_same_place :
    ∀ t : Fin 35, ∀ s : Fin 13,
      wozPieces 35 .dos32 (.d13 t.val s.val) = ok ([(t.val, s.val)], 256) ∧
      wozSector 35 .dos32 t.val 0 s.val = ok (t.val, s.val) ∧
      d13Pieces 35 (.d13 t.val s.val) = (do let o ← d13SectorOffset 35 t.val 0 s.val; pure [(o, 256)]) ∧
      d13SectorOffset 35 t.val 0 s.val = ok ((t.val * 13 + s.val) * 256) ∧
      d13Pieces 35 (.dos t.val s.val) = err ∧ d13Pieces 35 (.po t.val) = err := by
  decide +kernel

/-- the order in which a 13-sector track is laid down (`DOS32_PHYSICAL`, used when formatting NIB/WOZ tracks)
contains every sector id `0..12` exactly once, so each address exists once per track -/
theorem dos32_physical_permutation :
    Skew.DOS32_PHYSICAL.length = 13 ∧ ∀ s : Fin 13, Skew.DOS32_PHYSICAL.count s.val = 1 := by
  decide +kernel

example : d13Pieces 35 (.d13 17 12) = ok [(17 * 3328 + 12 * 256, 256)] := by decide +kernel

end A2Verif.C07
