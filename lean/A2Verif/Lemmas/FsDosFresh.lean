import A2Verif.Lemmas.FsDosInit
import A2Verif.Lemmas.FsDosPutD
/-!
# A freshly initialised DOS 3.3 volume, evaluated (for the non-vacuity examples of `Props/FsDos.lean`)

`fresh16` is the disk object after `init33(254)` on a blank image.  Four closed facts about it are evaluated by the
kernel (buffer, geometry, a free catalog entry, 528 free sectors); together with `init_winv` they give the invariant
in the form the acceptance theorem wants.  `exB` is a sparse file image that needs two T/S lists.  Core Lean only.
-/
namespace A2Verif.Fs.Dos3x
open A2Verif.FsDos

def fresh16 : Disk := (init (blank 16) 254 16).2

theorem fresh16_vtoc : fresh16.vtoc = some (initVtoc 254 16) := by decide +kernel
theorem fresh16_c : fresh16.c = 16 := by decide +kernel
theorem fresh16_slot : (slotIn (W.mk 16 fresh16.raw (initVtoc 254 16)).img 16 (initLay 16).cat).isSome = true := by decide +kernel
theorem fresh16_free : nfree (initVtoc 254 16) 16 = 528 := by decide +kernel

/-- the invariant of the fresh volume, stated on the evaluated components, and its reading -/
theorem fresh16_winv : WInv (W.mk fresh16.c fresh16.raw (initVtoc 254 16)) (initSys 16) (initLay 16) ∧
    volOf (W.mk fresh16.c fresh16.raw (initVtoc 254 16)).img fresh16.c (initSys 16) (initLay 16) = initVol 16 := by
  obtain ⟨w, h, hi, hc, hvol⟩ := init_winv (c := 16) (Or.inr rfl)
  have hd : fresh16 = w.toDisk := by unfold fresh16; rw [h]
  have hv : w.v = initVtoc 254 16 := by
    have := fresh16_vtoc; rw [hd] at this; exact (Option.some.inj this)
  have hraw : w.raw = fresh16.raw := by rw [hd]; rfl
  have hw : w = W.mk 16 fresh16.raw (initVtoc 254 16) := by
    obtain ⟨wc, wraw, wv⟩ := w
    rw [W.mk.injEq]; exact ⟨hc, hraw, hv⟩
  rw [fresh16_c, ← hw]
  exact ⟨hi, by rw [hc] at hvol; exact hvol⟩

/-- a file image without a type byte: `write_file` answers RANGE ERROR after it has reserved the T/S list sector -/
def exN : FImg := { fullPath := [78], fsType := [], chunks := [(0, [1])] }

def errOf {α : Type} (r : R α) : Option Err := match r with | .ok _ => none | .error e => some e

theorem errOf_some {α : Type} {r : R α} {e : Err} (h : errOf r = some e) : r = .error e := by
  cases r with
  | ok a => cases h
  | error e' => unfold errOf at h; simp only [Option.some.injEq] at h; rw [h]

theorem fresh16_exN : errOf (put fresh16 exN).1 = some .range := by decide +kernel

/-- a file image with one chunk of 257 bytes: longer than the chunk length -/
def exL : FImg := { fullPath := [76], fsType := [4], chunks := [(0, List.replicate 257 7)] }

/-- the source as written accepts `exL` and `get` then returns a chunk that does **not** begin with the stored bytes -/
def truncWitness : Bool :=
  match (put fresh16 exL).1, (get (put fresh16 exL).2 exL.fullPath).1 with
  | .ok _, .ok g => !(chunksMatch (putChunks exL) g.chunks)
  | _, _ => false

theorem fresh16_exL_truncated : truncWitness = true := by decide +kernel

/-- the repaired source refuses `exN` (no type byte) with RANGE ERROR -/
theorem fresh16_exN_repaired : errOf (put fresh16 exN Repairs.repaired).1 = some .range := by decide +kernel

/-- the repaired source refuses `exL` with RANGE ERROR -/
theorem fresh16_exL_refused : errOf (put fresh16 exL Repairs.repaired).1 = some .range := by decide +kernel

theorem initSys_lt : ∀ u ∈ initSys 16, u < 35 * 16 := by decide +kernel

theorem paths_of_no_tsls {r : Raw} {c : Nat} {sb : List Nat} {L : Lay} (h : L.tsls = []) : (volOf r c sb L).paths = [] := by
  unfold Vol.paths volOf filesOf
  simp only [h, List.zipWith_nil_right, List.map_nil]

/-- a sparse file image with chunks 0 and 123: two T/S lists (the second holds one pair), 4 sectors -/
def exB : FImg := { fullPath := [66], fsType := [0], chunks := [(0, [1]), (123, [2, 3])] }

theorem exB_fit : ChunksFit exB := by
  intro k d hd
  unfold exB at hd
  simp only [List.lookup] at hd
  split at hd
  · cases hd; decide
  · split at hd
    · cases hd; decide
    · cases hd

theorem exB_needs : sectorsNeeded exB = 4 ∧ 122 < exB.endIdx := by decide

end A2Verif.Fs.Dos3x
