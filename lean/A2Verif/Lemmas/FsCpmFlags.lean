import A2Verif.Lemmas.FsCpmBytes
/-!
# Rewriting the entries of one file without touching key, extent counters or block pointers
(`lock`, `unlock`, `retype`: the flag bits of `modify`)
-/
namespace A2Verif.FsCpm
open A2Verif.Fs.Cpm
open A2Verif.Read.Cpm (Dpb fileKey extNum entryPtrs pathOf slots)

theorem ext_getD {a b : Bytes} (hl : a.length = b.length) (h : ∀ i, a.getD i 0 = b.getD i 0) : a = b := by
  apply List.ext_getElem hl
  intro i h1 h2
  have := h i
  simp only [List.getD_eq_getElem?_getD, List.getElem?_eq_getElem h1, List.getElem?_eq_getElem h2, Option.getD_some] at this
  exact this

/-- an entry transformer that keeps status, 7-bit name, and everything from offset 12 on -/
structure KeepsBody (g : Bytes → Bytes) : Prop where
  tail : ∀ e, e.length = 32 → SameTail e (g e)
  status : ∀ e, e.length = 32 → (g e).getD 0 0 = e.getD 0 0
  name : ∀ e, e.length = 32 → ∀ i, 1 ≤ i → i < 12 → (g e).getD i 0 % 128 = e.getD i 0 % 128
  b9 : ∀ e, e.length = 32 → e.getD 9 0 < 256 → (g e).getD 9 0 < 256

theorem slice_map_congr {e e' : Bytes} {off n : Nat} (hl : e.length = 32) (hl' : e'.length = 32) (hn : off + n ≤ 32)
    (h : ∀ i, off ≤ i → i < off + n → e'.getD i 0 % 128 = e.getD i 0 % 128) :
    (slice e' off n).map (· % 128) = (slice e off n).map (· % 128) := by
  apply ext_getD
  · rw [List.length_map, List.length_map, slice_length (by omega), slice_length (by omega)]
  · intro i
    by_cases c : i < n
    · have a := getD_slice e' off n i c
      have b := getD_slice e off n i c
      simp only [List.getD_eq_getElem?_getD, List.getElem?_map] at a b ⊢
      have la : i < (slice e' off n).length := by rw [slice_length (by omega)]; exact c
      have lb : i < (slice e off n).length := by rw [slice_length (by omega)]; exact c
      rw [List.getElem?_eq_getElem la] at a ⊢
      rw [List.getElem?_eq_getElem lb] at b ⊢
      simp only [Option.getD_some, Option.map_some] at a b ⊢
      rw [a, b]
      have := h (off + i) (by omega) (by omega)
      simp only [List.getD_eq_getElem?_getD] at this
      exact this
    · have la : (slice e' off n).length ≤ i := by rw [slice_length (by omega)]; omega
      have lb : (slice e off n).length ≤ i := by rw [slice_length (by omega)]; omega
      simp only [List.getD_eq_getElem?_getD, List.getElem?_map, List.getElem?_eq_none la, List.getElem?_eq_none lb]

theorem kb_name7 {g : Bytes → Bytes} (kb : KeepsBody g) {e : Bytes} (he : e.length = 32) : name7 (g e) = name7 e :=
  slice_map_congr he (kb.tail e he).len' (by decide) (fun i a b => kb.name e he i a (by omega))

theorem kb_typ7 {g : Bytes → Bytes} (kb : KeepsBody g) {e : Bytes} (he : e.length = 32) : typ7 (g e) = typ7 e :=
  slice_map_congr he (kb.tail e he).len' (by decide) (fun i a b => kb.name e he i (by omega) (by omega))

theorem kb_fileKey {g : Bytes → Bytes} (kb : KeepsBody g) {e : Bytes} (he : e.length = 32) : fileKey (g e) = fileKey e := by
  rw [key_split, key_split, kb.status e he, kb_name7 kb he, kb_typ7 kb he]

theorem kb_pathOf {g : Bytes → Bytes} (kb : KeepsBody g) {e : Bytes} (he : e.length = 32) : pathOf (g e) = pathOf e := by
  unfold Read.Cpm.pathOf
  simp only []
  have a : (slice (g e) 1 8).map (· % 128) = (slice e 1 8).map (· % 128) := kb_name7 kb he
  have b : (slice (g e) 9 3).map (· % 128) = (slice e 9 3).map (· % 128) := kb_typ7 kb he
  rw [kb.status e he, a, b]

theorem kb_clean {g : Bytes → Bytes} (kb : KeepsBody g) {e : Bytes} (he : e.length = 32) (c : CleanEntry e) : CleanEntry (g e) :=
  ⟨by rw [kb_name7 kb he]; exact c.name, by rw [kb_typ7 kb he]; exact c.typ, by rw [(kb.tail e he).tail 12 (by omega)]; exact c.ex,
    by rw [(kb.tail e he).tail 14 (by omega)]; exact c.s2, kb.b9 e he c.b9⟩

/-- the transformer applied to the file entries with key `K0` only -/
def onKey (K0 : List Nat) (g : Bytes → Bytes) (e : Bytes) : Bytes := if e.getD 0 0 < 16 ∧ fileKey e = K0 then g e else e

theorem lastOf_map {g : Bytes → Bytes} : ∀ (es : List Bytes), (∀ e ∈ es, extNum (g e) = extNum e) → es ≠ [] →
    lastOf (es.map g) = g (lastOf es) := by
  intro es hx hne
  unfold lastOf
  cases es with
  | nil => exact absurd rfl hne
  | cons e0 rest =>
    simp only [List.map_cons, List.headD_cons]
    have key : ∀ (l : List Bytes) (b : Bytes), (∀ x ∈ b :: l, extNum (g x) = extNum x) →
        List.foldl (fun best e => if extNum e ≥ extNum best then e else best) (g b) (l.map g) =
          g (List.foldl (fun best e => if extNum e ≥ extNum best then e else best) b l) := by
      intro l
      induction l with
      | nil => intro b _; rfl
      | cons x xs ih =>
        intro b hb
        simp only [List.map_cons, List.foldl_cons, hb x (by simp), hb b (by simp)]
        by_cases c : extNum x ≥ extNum b
        · rw [if_pos c, if_pos c]
          exact ih x (fun y hy => hb y (by
            rcases List.mem_cons.1 hy with rfl | hy
            · simp
            · simp [hy]))
        · rw [if_neg c, if_neg c]
          exact ih b (fun y hy => hb y (by
            rcases List.mem_cons.1 hy with rfl | hy
            · simp
            · simp [hy]))
    have := key (e0 :: rest) e0 (fun x hx' => hx x (by
      rcases List.mem_cons.1 hx' with rfl | hx'
      · exact List.mem_cons_self
      · exact hx'))
    simpa using this

theorem kb_onKey {g : Bytes → Bytes} (kb : KeepsBody g) (K0 : List Nat) : KeepsBody (onKey K0 g) := by
  refine ⟨fun e he => ?_, fun e he => ?_, fun e he i a b => ?_, fun e he h9 => ?_⟩ <;> unfold onKey <;> split
  · exact kb.tail e he
  · exact ⟨he, he, fun _ _ => rfl⟩
  · exact kb.status e he
  · rfl
  · exact kb.name e he i a b
  · rfl
  · exact kb.b9 e he h9
  · exact h9

theorem onKey_nonfile (K0 : List Nat) (g : Bytes → Bytes) {e : Bytes} (h : ¬ e.getD 0 0 < 16) : onKey K0 g e = e := by
  unfold onKey; rw [if_neg (fun c => h c.1)]

theorem physOf_map {d : Dpb} {φ : Bytes → Bytes} {es : List Bytes} (h : ∀ e ∈ es, extNum (φ e) = extNum e) :
    physOf d (es.map φ) = physOf d es := by
  unfold physOf
  rw [List.map_map]
  apply List.map_congr_left
  intro e he
  simp only [Function.comp, h e he]

/-- the reading after every directory entry has been passed through a body-keeping transformer -/
theorem keepmap_spec {d : Dpb} {r r' : Raw} (h : Inv d r) (φ : Bytes → Bytes) (kb : KeepsBody φ)
    (hnf : ∀ e, ¬ e.getD 0 0 < 16 → φ e = e) (hs' : Shape d r')
    (hfr : ∀ i, dirBlocks d ≤ i → r'.units[i]? = r.units[i]?) (hd' : dirOf d r' = (dirOf d r).map φ) :
    Inv d r' ∧ filesOf d r' = (keys d r).map (fun k => recOf r d (dirOf d r) ((esOf d r k).map φ)) := by
  have hl := dirOf_entry_length h.shape h.dpb
  have hlf : ∀ e ∈ fents d r, e.length = 32 := fun e he => hl e (mem_fents.1 he).1
  have hf : fents d r' = (fents d r).map φ := by
    unfold fents fentsOf
    rw [hd', List.filter_map]
    congr 1
    apply List.filter_congr
    intro e he
    simp only [Function.comp, kb.status e (hl e he)]
  have hk : keys d r' = keys d r := by
    unfold keys keysOf
    rw [hf, List.map_map]
    congr 1
    apply List.map_congr_left
    intro e he
    simp only [Function.comp, kb_fileKey kb (hlf e he)]
  have hes : ∀ k, esOf d r' k = (esOf d r k).map φ := by
    intro k
    unfold esOf
    rw [hf, List.filter_map]
    congr 1
    apply List.filter_congr
    intro e he
    simp only [Function.comp, kb_fileKey kb (hlf e he)]
  have hlen_es : ∀ k, ∀ e ∈ esOf d r k, e.length = 32 := fun k e he => hlf e (mem_esOf.1 he).1
  have hinv : Inv d r' := by
    refine ⟨h.dpb, hs', ?_, ?_, ?_⟩
    · intro k hk'
      rw [hk] at hk'
      obtain ⟨a, b⟩ := h.good k hk'
      rw [hes k]
      refine ⟨?_, ?_⟩
      · unfold dupFree
        rw [physOf_map (fun e he => (kb.tail e (hlen_es k e he)).extNum)]
        exact a
      · rw [List.all_map]
        rw [List.all_eq_true] at b ⊢
        intro e he
        simp only [Function.comp, (kb.tail e (hlen_es k e he)).ptrsOkB]
        exact b e he
    · intro e' he'
      rw [hf, List.mem_map] at he'
      obtain ⟨e, he, rfl⟩ := he'
      exact kb_clean kb (hlf e he) (h.clean e he)
    · rw [hf, List.flatMap_map]
      have : (fents d r).flatMap (fun a => ownedE d (φ a)) = (fents d r).flatMap (ownedE d) :=
        flatMap_congr_mem (fun e he => (kb.tail e (hlf e he)).ownedE d)
      rw [this]
      exact h.noShare
  refine ⟨hinv, ?_⟩
  unfold filesOf
  rw [hk]
  apply List.map_congr_left
  intro k _
  rw [hes k]
  apply recOf_congr
  · intro e' he' p hp
    rw [List.mem_map] at he'
    obtain ⟨e, he, rfl⟩ := he'
    rw [(kb.tail e (hlen_es k e he)).ownedE] at hp
    exact hfr p (owned_not_dir h (mem_esOf.1 he).1 hp)
  · rw [hd']
    apply pwOf_map
    · intro e he
      by_cases c : e.getD 0 0 < 16
      · exact Or.inr ⟨c, Or.inl (by rw [kb.status e (hl e he)]; exact c)⟩
      · exact Or.inl (hnf e c)
    · cases hh : esOf d r k with
      | nil => simp
      | cons e0 rest =>
        have hm : e0 ∈ esOf d r k := by rw [hh]; exact List.mem_cons_self
        rw [List.map_cons, List.headD_cons, kb.status e0 (hlen_es k e0 hm)]
        exact (mem_fents.1 (mem_esOf.1 hm).1).2

end A2Verif.FsCpm
