import A2Verif.Lemmas.FsCpmGet4
/-!
# `get` after `put`: the stored file is fetched (C01 at the level of the two operations of the model)
-/
namespace A2Verif.FsCpm
open A2Verif.Fs.Cpm
open A2Verif.Read.Cpm (Dpb fileKey extNum entryPtrs pathOf slots trimR)

variable {d : Dpb} {r r' sr : Raw} {f : FImg} {user : Nat} {base typ : Bytes} {dir2 : Dir}

/-- the entries `put` writes: every one but the last is numbered by the last logical extent of its physical extent -/
theorem put_midfull (h' : Inv d r') (ha : PutArgsOk d f) (c : PutCtx d r r' sr f user base typ dir2) :
    MidFull d (esOf d r' (newKey user base typ)) := by
  intro e he e' he' hlt
  obtain ⟨_, _, _, _, _, _, _, x, hx⟩ := esK_new c he
  obtain ⟨_, _, _, _, _, _, _, x', hx'⟩ := esK_new c he'
  have hkeyK : newKey user base typ ∈ keys d r' := (mem_keys' c ha).2 (Or.inl rfl)
  by_cases hfull : x + 1 < putMaxX d f
  · rw [hx.phys, hx.full hfull, Nat.add_mul, Nat.one_mul]
    omega
  · exfalso
    have h1 := hx.lt
    have h2 := hx'.lt
    have hle : extNum e / (d.exm + 1) ≤ extNum e' / (d.exm + 1) := Nat.div_le_div_right (Nat.le_of_lt hlt)
    rw [hx.phys, hx'.phys] at hle
    have hxx : x = x' := by omega
    have hphys := dupFree_nodup (h'.good _ hkeyK).1
    have := nodup_map_inj (g := fun e => extNum e / (d.exm + 1)) hphys he he'
      (by show extNum e / (d.exm + 1) = extNum e' / (d.exm + 1); rw [hx.phys, hx'.phys, hxx])
    rw [this] at hlt
    exact Nat.lt_irrefl _ hlt

theorem new_path (ha : PutArgsOk d f) (c : PutCtx d r r' sr f user base typ dir2) {P : Bytes}
    (hpath : ∀ e, Hdr user base typ e → pathOf e = P) :
    (recOf r' d (dirOf d r') (esOf d r' (newKey user base typ))).path = P := by
  obtain ⟨e1, r1, hes1, hm1, hkey1⟩ := esOf_head ((mem_keys' c ha).2 (Or.inl rfl))
  have hmem : e1 ∈ esOf d r' (newKey user base typ) := by rw [hes1]; exact List.mem_cons_self
  obtain ⟨_, _, _, _, _, _, hh, _⟩ := esK_new c hmem
  show pathOf ((esOf d r' (newKey user base typ)).headD []) = P
  rw [hes1]
  exact hpath e1 hh

/-- **`get` after `put`**: when `put` accepted the image and a2kit's `build_files` accepts the directory afterwards (it does unless
the image set an interface attribute — the defect `cpm-put-interface-flags`), `get` of the same name succeeds and returns every stored
chunk at its index (beginning with the stored bytes), no other chunk, and the stored length as CP/M records it — for both variants
of `read_file` -/
theorem get_after_put {now : Bytes} {absIdx : Bool} (h : Inv d r) (hr : ResvOk d) (hd : DpbPut d) (ha : PutArgsOk d f)
    (hop : put d r f now = (.ok (), r')) (hb' : okB (buildFiles d d.v3 (dirOf d r')) = true) :
    ∃ g, Fs.Cpm.get d r' f.fullPath absIdx = .ok g ∧ chunksMatch (putChunks f) g.chunks = true ∧
      g.eof = (cpmParams d).eofRule f.eof % 4294967296 := by
  obtain ⟨user, name, sr, dir2, base, ext, hsplit, hvalid, np, hck, c⟩ := put_ctx h hr hd ha hop
  have h' := put_inv h hr ha c
  have hP := new_path ha c (fun e hh => hdr_path c.hu np hck hh)
  have hkeyK : newKey user (stringToFileName name).1 (stringToFileName name).2 ∈ keys d r' := (mem_keys' c ha).2 (Or.inl rfl)
  have hx : isXnameValid f.fullPath = true := by
    unfold isXnameValid
    rw [hsplit]
    simp [hvalid, c.hu]
  have hl : (volOf d r').lookup (canon f.fullPath) = some (recOf r' d (dirOf d r') (esOf d r' (newKey user (stringToFileName name).1 (stringToFileName name).2))) := by
    rw [← hP]
    unfold Vol.lookup
    exact find_path_of_mem (wfB_paths_nodup (volOf_wf h'))
      (List.mem_map_of_mem (f := fun k => recOf r' d (dirOf d r') (esOf d r' k)) hkeyK)
  have ndpost : ((keys d r').map (fun k => (recOf r' d (dirOf d r') (esOf d r' k)).path)).Nodup := by
    have := wfB_paths_nodup (volOf_wf h')
    unfold Vol.paths at this
    have e : (volOf d r').files = (keys d r').map (fun k => recOf r' d (dirOf d r') (esOf d r' k)) := rfl
    rw [e, List.map_map] at this
    exact this
  obtain ⟨g, e1, e2, e3⟩ := get_is_reading (absIdx := absIdx) h' hd hb' hx hl (Or.inr (by
    intro k hk hp
    have : k = newKey user (stringToFileName name).1 (stringToFileName name).2 := nodup_map_inj ndpost hk hkeyK (by rw [hp, hP])
    rw [this]
    exact put_midfull h' ha c))
  refine ⟨g, e1, ?_, ?_⟩
  · rw [e2]; exact new_chunks h h' hr ha c
  · rw [e3, new_eof hd ha c]

end A2Verif.FsCpm
