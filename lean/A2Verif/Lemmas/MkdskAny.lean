import A2Verif.Model.Mkdsk
import A2Verif.Lemmas.MkdskDomain
/-!
Facts about the model of `mkdsk` for *arbitrary* volume and extension strings (not only the enumerated classes):
what an accepted run implies about its arguments, and that no string can drive the formatter stage into a panic.
The finite side conditions (tables) are discharged by `decide`; everything else is by unfolding the model.
-/
namespace A2Verif.Lemmas.MkdskAny
open A2Verif.Gen.Mkdsk A2Verif.Model.Mkdsk A2Verif.Lemmas.MkdskDomain

/-- case analysis of a hypothesis `f … = .ok p`: close the refusing branches, finish the accepting ones by `rfl` -/
syntax "ok_field " ident : tactic
macro_rules
  | `(tactic| ok_field $h) =>
    `(tactic| first | (cases $h:ident <;> rfl) | (split at $h:ident <;> ok_field $h) | (dsimp only at $h:ident; ok_field $h))

/-- the same, leaving the accepting branches to `simp_all` (for facts about the arguments) -/
syntax "ok_args " ident : tactic
macro_rules
  | `(tactic| ok_args $h) =>
    `(tactic| first | (cases $h:ident; done) | (split at $h:ident <;> ok_args $h) | (dsimp only at $h:ident; ok_args $h) | simp_all)

/-! ## the plan carries the image type of the image it was made for -/

theorem mkpascal_typ {vol boot img k p} (h : mkpascal vol boot img k = .ok p) : p.typ = img.typ := by
  unfold mkpascal at h; ok_field h
theorem mkprodos_typ {vol boot img k p} (h : mkprodos vol boot img k = .ok p) : p.typ = img.typ := by
  unfold mkprodos mkprodosWith at h; ok_field h
theorem mkdos3x_typ {vol boot img k p} (h : mkdos3x vol boot img k = .ok p) : p.typ = img.typ := by
  unfold mkdos3x mkdos3xWith at h; simp only at h; ok_field h
theorem mkcpm_typ {vol boot img k v p} (h : mkcpm vol boot k img v = .ok p) : p.typ = img.typ := by
  unfold mkcpm mkcpmWith at h; ok_field h
theorem mkfat_typ {vol boot img k p} (h : mkfat vol boot img k = .ok p) : p.typ = img.typ := by
  unfold mkfat at h; ok_field h

theorem mkpascal_fs {vol boot img k p} (h : mkpascal vol boot img k = .ok p) : p.fs = .pascal := by
  unfold mkpascal at h; ok_field h
theorem mkprodos_fs {vol boot img k p} (h : mkprodos vol boot img k = .ok p) : p.fs = .prodos := by
  unfold mkprodos mkprodosWith at h; ok_field h
theorem mkdos3x_fs {vol boot img k p} (h : mkdos3x vol boot img k = .ok p) : p.fs = .dos := by
  unfold mkdos3x mkdos3xWith at h; simp only at h; ok_field h
theorem mkcpm_fs {vol boot img k v p} (h : mkcpm vol boot k img v = .ok p) : p.fs = .cpm := by
  unfold mkcpm mkcpmWith at h; ok_field h
theorem mkfat_fs {vol boot img k p} (h : mkfat vol boot img k = .ok p) : p.fs = .fat := by
  unfold mkfat at h; ok_field h

/-- an accepted plan comes out of the formatter stage applied to the image of the image stage -/
theorem plan_ok_perOs {c : Config} {p : Plan} (h : plan c = .ok p) :
    ∃ x, pre c.os c.kind c.typ c.wrap c.ext = .ok x ∧ perOs c.os x.1 x.2 c.boot c.vol = .ok p := by
  unfold plan at h
  split at h
  · cases h
  split at h
  · cases h
  cases hpre : pre c.os c.kind c.typ c.wrap c.ext with
  | err s => rw [hpre] at h; cases h
  | panic s => rw [hpre] at h; cases h
  | ok x => rw [hpre] at h; exact ⟨x, rfl, h⟩

theorem perOs_typ {os k img boot vol p} (h : perOs os k img boot vol = .ok p) : p.typ = img.typ := by
  unfold perOs at h
  split at h
  · exact mkcpm_typ h
  · exact mkdos3x_typ h
  · exact mkprodos_typ h
  · exact mkpascal_typ h
  · exact mkfat_typ h
  · cases h

/-- for any strings: an accepted configuration's extension (lower-cased) is one of the extensions of the image type of
the plan -/
theorem accepted_extension (c : Config) (p : Plan) (h : plan c = .ok p) :
    (fileExts p.typ).contains (c.ext.map lower) = true := by
  unfold plan at h
  split at h
  · cases h
  split at h
  · cases h
  cases hpre : pre c.os c.kind c.typ c.wrap c.ext with
  | err s => rw [hpre] at h; cases h
  | panic s => rw [hpre] at h; cases h
  | ok x =>
    rw [hpre] at h
    simp only [Outcome.bind] at h
    rw [perOs_typ h]
    unfold pre at hpre
    cases hi : preImg c.os c.kind c.typ c.wrap with
    | err s => rw [hi] at hpre; cases hpre
    | panic s => rw [hi] at hpre; cases hpre
    | ok y =>
      rw [hi] at hpre
      simp only [Outcome.bind] at hpre
      split at hpre
      · cases hpre
      · rename_i hne
        cases hpre
        simpa using hne

/-! ## the volume argument of an accepted configuration, for any string -/

theorem digitsU8_le {ds v} (h : digitsU8 ds = some v) : v ≤ 255 := by
  unfold digitsU8 at h
  split at h
  · cases h
  · split at h
    · split at h
      · cases h; assumption
      · cases h
    · cases h

theorem parseU8_le {s v} (h : parseU8 s = some v) : v ≤ 255 := by
  unfold parseU8 at h
  split at h <;> exact digitsU8_le h

/-- DOS 3.x: an accepted volume argument is a number that passes the guard of `mkdos3x` and the assertion of `init`,
and is the boot volume if boot tracks are wanted -/
theorem mkdos3x_volume {vol boot img k p} (h : mkdos3x vol boot img k = .ok p) :
    ∃ s v, vol = some s ∧ parseU8 s = some v ∧ dos3xVolGuard v = true ∧ dos3xInitAssert v = true ∧
      (boot = true → v = dos3xBootVol) := by
  unfold mkdos3x mkdos3xWith at h
  simp only at h
  split at h
  · cases h
  split at h
  · cases h
  split at h
  · cases h
  split at h
  · cases h
  · rename_i s
    split at h
    · cases h
    · rename_i v hv
      split at h
      · cases h
      · rename_i hg
        split at h
        · cases h
        · rename_i hb
          refine ⟨s, v, rfl, hv, by simpa using hg, ?_, ?_⟩
          · split at h
            · split at h
              · cases h
              · rename_i ha; simpa using ha
            · split at h
              · split at h
                · cases h
                · rename_i ha; simpa using ha
              · cases h
          · intro hboot
            by_cases hv' : v = dos3xBootVol
            · exact hv'
            · exact absurd ⟨hboot, hv'⟩ hb

/-- the guard as it stands in the source today admits exactly 1..254 -/
theorem dos3xVolGuard_range (v : Nat) : dos3xVolGuard v = true ↔ 1 ≤ v ∧ v ≤ 254 := by
  unfold dos3xVolGuard
  simp [Bool.and_eq_true, decide_eq_true_eq]

theorem mkprodos_volume {vol boot img k p} (h : mkprodos vol boot img k = .ok p) :
    boot = false ∧ ∃ s, vol = some s ∧ prodosNameValid s = true := by
  unfold mkprodos mkprodosWith at h
  ok_args h

theorem mkpascal_volume {vol boot img k p} (h : mkpascal vol boot img k = .ok p) :
    boot = false ∧ ∃ s, vol = some s ∧ pascalVolValid s = true := by
  unfold mkpascal at h
  ok_args h

theorem mkfat_volume {vol boot img k p} (h : mkfat vol boot img k = .ok p) :
    boot = false ∧ (0 < (vol.getD []).length → fatLabelValid (vol.getD []) = true) := by
  unfold mkfat at h
  ok_args h

theorem mkcpm_volume {vol boot img k v p} (h : mkcpm vol boot k img v = .ok p) :
    boot = false ∧ (3 ≤ v → 0 < (cpmLabel v vol).length → cpmNameValid (cpmLabel v vol) = true) := by
  unfold mkcpm mkcpmWith at h
  ok_args h

/-! ## no string can make the formatter stage panic -/

/-- finite side conditions on the generated tables -/
def tablesOk : Bool :=
  -- every value that passes the DOS 3.x guard satisfies the assertion of `init`
  (List.range 256).all (fun v => !dos3xVolGuard v || dos3xInitAssert v) &&
  -- prodos `format` refuses a bad name itself
  prodosFormatChecksName &&
  -- every kind the `mkcpm` guard lets through has a DPB
  Kind.all.all (fun k => cpmGuardRejects cpmKindGuard k ||
    (dpbArms.find? (fun a => a.1.same k)).isSome) &&
  -- the OS dispatch names CP/M 2 and 3 only
  Os.all.all (fun os => match osHandler os with | .cpm v => v == 2 || v == 3 | .unreachable => false | _ => true)

theorem tablesOk_holds : tablesOk = true := by decide +kernel

theorem mkdos3x_no_panic (vol boot img k) : (mkdos3x vol boot img k).isPanic = false := by
  have ht := tablesOk_holds
  unfold tablesOk at ht
  simp only [Bool.and_eq_true] at ht
  have hrange := List.all_eq_true.mp ht.1.1.1
  unfold mkdos3x mkdos3xWith
  simp only
  split
  · rfl
  split
  · rfl
  split
  · rfl
  split
  · rfl
  · split
    · rfl
    · rename_i v hv
      have hle := parseU8_le hv
      have hr := hrange v (List.mem_range.mpr (by omega))
      split
      · rfl
      · rename_i hg
        have hassert : dos3xInitAssert v = true := by
          cases hgd : dos3xVolGuard v
          · simp [hgd] at hg
          · simpa [hgd] using hr
        split
        · rfl
        · split
          · simp [hassert]
            split <;> rfl
          · split
            · simp [hassert]
              split <;> rfl
            · rfl

theorem mkprodos_no_panic (vol boot img k) : (mkprodos vol boot img k).isPanic = false := by
  have ht := tablesOk_holds
  unfold tablesOk at ht
  simp only [Bool.and_eq_true] at ht
  have hc : prodosFormatChecksName = true := ht.1.1.2
  unfold mkprodos mkprodosWith
  rw [hc]
  split
  · rfl
  split
  · rfl
  · dsimp only
    split
    · rfl
    · rename_i hv
      split
      · rfl
      · split
        · rename_i hinv
          exact absurd ⟨rfl, hinv⟩ hv
        · rfl

theorem mkpascal_no_panic (vol boot img k) : (mkpascal vol boot img k).isPanic = false := by
  unfold mkpascal
  repeat (first | rfl | split)

theorem mkfat_no_panic (vol boot img k) : (mkfat vol boot img k).isPanic = false := by
  unfold mkfat
  repeat (first | rfl | split | dsimp only)

theorem kind_complete (k : Kind) : k ∈ Kind.all := by cases k <;> decide

theorem mkcpm_no_panic (vol boot k img v) (hv : v = 2 ∨ v = 3) : (mkcpm vol boot k img v).isPanic = false := by
  have ht := tablesOk_holds
  unfold tablesOk at ht
  simp only [Bool.and_eq_true] at ht
  have hk := List.all_eq_true.mp ht.1.2 k (kind_complete k)
  unfold mkcpm mkcpmWith
  split
  · rfl
  split
  · rename_i hne; exact absurd hv (by omega)
  split
  · rfl
  · rename_i hg
    have hsome : (dpbArms.find? (fun a => a.1.same k)).isSome = true := by
      cases hgd : cpmGuardRejects cpmKindGuard k
      · simpa [hgd] using hk
      · exact absurd hgd hg
    split
    · rename_i hnone; rw [hnone] at hsome; cases hsome
    · repeat (first | rfl | split | dsimp only)

theorem perOs_no_panic (os k img boot vol) : (perOs os k img boot vol).isPanic = false := by
  have ht := tablesOk_holds
  unfold tablesOk at ht
  simp only [Bool.and_eq_true] at ht
  have ho := List.all_eq_true.mp ht.2 os (os_complete os)
  unfold perOs
  split
  · rename_i v hh
    rw [hh] at ho
    exact mkcpm_no_panic vol boot k img v (by simpa using ho)
  · exact mkdos3x_no_panic vol boot img k
  · exact mkprodos_no_panic vol boot img k
  · exact mkpascal_no_panic vol boot img k
  · exact mkfat_no_panic vol boot img k
  · rename_i hh; rw [hh] at ho; cases ho

/-- the image stage cannot panic for any (os, kind, type, wrap): finite -/
theorem preImg_no_panic : (Os.all.all fun os => KindArg.all.all fun kind => TypeArg.all.all fun typ => wraps.all fun wrap =>
    !(preImg os kind typ wrap).isPanic) = true := by decide +kernel

/-- for *any* configuration — any volume string, any extension, any state of the destination — the model of
`mkdsk` does not panic -/
theorem plan_no_panic (c : Config) : (plan c).isPanic = false := by
  unfold plan
  split
  · rfl
  split
  · rfl
  · have h1 := List.all_eq_true.mp preImg_no_panic c.os (os_complete c.os)
    have h2 := List.all_eq_true.mp h1 c.kind (kindArg_complete c.kind)
    have h3 := List.all_eq_true.mp h2 c.typ (typeArg_complete c.typ)
    have h4 := List.all_eq_true.mp h3 c.wrap (wrap_complete c.wrap)
    unfold pre
    cases hi : preImg c.os c.kind c.typ c.wrap with
    | panic s => rw [hi] at h4; cases h4
    | err s => rfl
    | ok x =>
      simp only [Outcome.bind]
      by_cases hext : (!(fileExts x.2.typ).contains (c.ext.map lower)) = true
      · rw [if_pos hext]; rfl
      · rw [if_neg hext]; exact perOs_no_panic c.os x.1 x.2 c.boot c.vol

end A2Verif.Lemmas.MkdskAny
