import A2Verif.Lemmas.C07LawsFlat
import A2Verif.Lemmas.C07LawsMulti
import A2Verif.Lemmas.C07IbmSector
/-!
# C07 store laws of the IBM sector dump IMG, over the physical addresses of the IMD/TD0 geometry of the same layout

From `IbmImg.sector_laws` / `sector_refuses` (property C08).  The point of this file is the address space: an IMG image
created for a (single-zone) layout accepts exactly the `(cylinder, head, sector id)` triples that occur in the track
records `Imd::create` / `Td0::create` lay out for that layout (`Regular` geometry, `C07.imd_geometry_regular`).
-/
namespace A2Verif.C07All
open A2Verif.Model.Flat
open A2Verif.Model.AddrMap (TrackRec)
open A2Verif.C07 (Regular)

/-- on a regular geometry the physical addresses are the box `cyl < cyls`, `head < H`, `1 ≤ id ≤ n` -/
theorem validG_regular (g : List TrackRec) (H n sz cyls : Nat) (hH : 0 < H) (hreg : Regular g H n sz)
    (hlen : g.length = cyls * H) (c h s : Nat) :
    validG g (c, h, s) = true ↔ c < cyls ∧ h < H ∧ 1 ≤ s ∧ s ≤ n := by
  rw [validG_spec]
  constructor
  · rintro ⟨k, hk, hc, hh, hs⟩
    obtain ⟨r1, r2, r3, _⟩ := hreg k hk
    rw [r1] at hc; rw [r2] at hh; rw [r3] at hs
    have hs' := (A2Verif.C07.mem_ids_iff n s).1 (List.contains_iff_mem.2 hs)
    refine ⟨?_, ?_, hs'.1, hs'.2⟩
    · rw [← hc]; exact Nat.div_lt_of_lt_mul (by rw [Nat.mul_comm, ← hlen]; exact hk)
    · rw [← hh]; exact Nat.mod_lt _ hH
  · rintro ⟨hc, hh, h1, h2⟩
    have hk : c * H + h < g.length := by
      rw [hlen]
      have : (c + 1) * H ≤ cyls * H := Nat.mul_le_mul_right _ hc
      rw [Nat.add_mul, Nat.one_mul] at this
      omega
    obtain ⟨r1, r2, r3, _⟩ := hreg (c * H + h) hk
    refine ⟨c * H + h, hk, ?_, ?_, ?_⟩
    · rw [r1, Nat.mul_comm, Nat.mul_add_div hH, Nat.div_eq_of_lt hh, Nat.add_zero]
    · rw [r2, Nat.mul_comm, Nat.mul_add_mod, Nat.mod_eq_of_lt hh]
    · rw [r3]; exact List.contains_iff_mem.1 ((A2Verif.C07.mem_ids_iff n s).2 ⟨h1, h2⟩)

theorem geomOk_regular (g : List TrackRec) (H n sz : Nat) (hreg : Regular g H n sz) : GeomOk g := by
  unfold GeomOk
  apply List.pairwise_iff_getElem.2
  intro i j hi hj hij
  rw [List.getElem_map, List.getElem_map]
  have hi' : i < g.length := by simpa using hi
  have hj' : j < g.length := by simpa using hj
  obtain ⟨a1, a2, _⟩ := hreg i hi'
  obtain ⟨b1, b2, _⟩ := hreg j hj'
  rw [a1, a2, b1, b2]
  intro he
  have e1 : i / H = j / H := congrArg Prod.fst he
  have e2 : i % H = j % H := congrArg Prod.snd he
  have hi2 := Nat.div_add_mod i H
  have hj2 := Nat.div_add_mod j H
  rw [e1, e2] at hi2
  omega

/-- images of one geometry -/
def IImg (sz cyls H n : Nat) (i : IbmImg) : Prop :=
  i.secSize = sz ∧ i.cylinders = cyls ∧ i.heads = H ∧ i.sectors = n ∧ i.data.length = cyls * H * n * sz

theorem IbmImg_writeSector_geom (g : Bool) (i i' : IbmImg) (c h s : Nat) (d : List Nat)
    (hw : i.writeSector g c h s d = .ok i') :
    i'.secSize = i.secSize ∧ i'.cylinders = i.cylinders ∧ i'.heads = i.heads ∧ i'.sectors = i.sectors := by
  unfold IbmImg.writeSector at hw
  split at hw
  · cases hw
  · split at hw
    · cases hw
    · injection hw with hw; subst hw; exact ⟨rfl, rfl, rfl, rfl⟩

/-- an IMG image (with the head check of the current source) as a sector store over the geometry `g` -/
def imgSecStore (g : List TrackRec) (sz cyls H n : Nat) : SecStore :=
  flatStore (IImg sz cyls H n) (validG g) (fun _ => sz)
    (fun i a => i.readSector true a.1 a.2.1 a.2.2) (fun i a d => i.writeSector true a.1 a.2.1 a.2.2 d)

theorem img_laws (g : List TrackRec) (sz cyls H n : Nat) (hH : 0 < H) (hreg : Regular g H n sz)
    (hlen : g.length = cyls * H) : SecLaws (imgSecStore g sz cyls H n) := by
  apply flat_laws IbmImg.wf IbmImg.validCHS (fun i _ => i.secSize) _ _ (IbmImg.sector_laws true) IbmImg.sector_refuses
  · intro i ⟨h1, h2, h3, h4, h5⟩
    refine ⟨by unfold IbmImg.wf; rw [h1, h2, h3, h4]; exact h5, ?_, fun _ => h1⟩
    intro ⟨c, h, s⟩
    rw [validG_regular g H n sz cyls hH hreg hlen]
    show c < i.cylinders ∧ h < i.heads ∧ 1 ≤ s ∧ s ≤ i.sectors ↔ _
    rw [h2, h3, h4]
  · intro i a d i' ⟨h1, h2, h3, h4, _⟩ hw hwf
    obtain ⟨e1, e2, e3, e4⟩ := IbmImg_writeSector_geom true i i' _ _ _ d hw
    refine ⟨by rw [e1, h1], by rw [e2, h2], by rw [e3, h3], by rw [e4, h4], ?_⟩
    unfold IbmImg.wf at hwf
    rw [e1, e2, e3, e4, h1, h2, h3, h4] at hwf
    exact hwf

/-- `Img::create(kind)`: zero filled -/
def imgBlank (sz cyls H n : Nat) : IbmImg :=
  { secSize := sz, cylinders := cyls, heads := H, sectors := n, data := List.replicate (cyls * H * n * sz) 0 }

theorem img_blank_shows (g : List TrackRec) (sz cyls H n : Nat) (hH : 0 < H) (hreg : Regular g H n sz)
    (hlen : g.length = cyls * H) : Shows (imgSecStore g sz cyls H n) (imgBlank sz cyls H n) (zeros fun _ => sz) := by
  have hi : IImg sz cyls H n (imgBlank sz cyls H n) := ⟨rfl, rfl, rfl, rfl, List.length_replicate⟩
  refine ⟨hi, ?_⟩
  intro a ha
  obtain ⟨x, s', e, hl, _, _⟩ := (img_laws g sz cyls H n hH hreg hlen).rd_valid _ a hi ha
  rw [e]
  have hx : rOpt ((imgBlank sz cyls H n).readSector true a.1 a.2.1 a.2.2) = some x := congrArg Prod.fst e
  obtain ⟨c, h, s⟩ := a
  have hv : (imgBlank sz cyls H n).validCHS (c, h, s) := (validG_regular g H n sz cyls hH hreg hlen c h s).1 ha
  rw [IbmImg.readSector_eq true _ c h s hv] at hx
  cases hr : readExts (imgBlank sz cyls H n).data [(imgBlank sz cyls H n).uidx c h s * (imgBlank sz cyls H n).secSize]
      (imgBlank sz cyls H n).secSize with
  | ok y =>
    rw [hr] at hx
    simp only [rOpt, Option.some.injEq] at hx
    subst hx
    have := zeros_of_blank _ y sz hl (readExts_mem _ _ _ _ hr)
    rw [this]; rfl
  | err => rw [hr] at hx; cases hx
  | panic => rw [hr] at hx; cases hx

end A2Verif.C07All
