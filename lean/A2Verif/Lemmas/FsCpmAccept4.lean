import A2Verif.Lemmas.FsCpmAccept3
import A2Verif.Lemmas.FsCpmQuery
import A2Verif.Lemmas.FsCpmPutAbs1
/-!
# `put` is accepted when it fits (C04, acceptance)

`put_accepts`: on a volume satisfying the invariant whose directory a2kit's own `build_files` accepts, a file image in `PutArgsOk`
with a valid name that is not in the listing, with no more chunks than the reader finds free units and no more extents than the
directory has unused entries, is stored: `put` reports success.
-/
namespace A2Verif.FsCpm
open A2Verif.Fs.Cpm
open A2Verif.Read.Cpm (Dpb fileKey extNum entryPtrs pathOf slots)

/-! ## what is free for the reader is free for `get_available_block` -/

theorem free_le_freeBlocks {d : Dpb} {r : Raw} (h : Inv d r) (hr : ResvOk d) : (volOf d r).free ≤ (freeBlocks d (dirOf d r)).length := by
  have hl := dirOf_entry_length h.shape h.dpb
  show ((List.range (d.dsm + 1)).filter (fun u => !((filesOf d r).flatMap (·.owned) ++ Read.Cpm.dirBlocks d).contains u)).length ≤ _
  unfold freeBlocks userBlocks
  apply filter_length_mono
  intro u hu hp
  rw [List.mem_range] at hu
  simp only [Bool.not_eq_true', List.contains_eq_mem, decide_eq_false_iff_not, List.mem_append, not_or] at hp
  simp only [Bool.and_eq_true, Bool.not_eq_true', List.contains_eq_mem, decide_eq_false_iff_not]
  have hnr : isReserved d u = false := by
    cases hc : isReserved d u with
    | false => rfl
    | true => exact absurd ((hr u hu).1 hc) hp.2
  refine ⟨hnr, fun hm => ?_⟩
  unfold usedPtrs at hm
  rw [List.mem_flatMap] at hm
  obtain ⟨e, he, hue⟩ := hm
  by_cases cx : isExtent e = true
  · rw [if_pos cx, blockList_eq (hl e he)] at hue
    by_cases c0 : u = 0
    · rw [c0, resv_zero h.dpb hr] at hnr; cases hnr
    · obtain ⟨k, hk⟩ := List.mem_iff_getElem?.1 hue
      have ho : u ∈ ownedE d e := ownedE_mem_of hk c0
      have hf : e ∈ fents d r := mem_fents.2 ⟨he, (isExtent_iff e).1 cx⟩
      exact hp.1 ((owned_perm d r).symm.subset (List.mem_flatMap.2 ⟨e, hf, ho⟩))
  · rw [if_neg cx] at hue; cases hue

/-! ## the extents `write_file` asks for cover the extents the loop opens -/

theorem extNeed_le_extentsNeeded (f : FImg) (S maxX : Nat) : extNeed f S 0 maxX ≤ extentsNeeded f maxX S := by
  unfold extNeed extentsNeeded
  simp only []
  rw [← List.range_eq_range']
  have hle : ((List.range maxX).filter (fun x' => decide (0 < need f (x' * S) S))).length ≤
      ((List.range maxX).filter (fun i => (List.range S).any (fun k => (f.chunks.lookup (i * S + k)).isSome))).length := by
    apply filter_length_mono
    intro x _ hp
    have hp' : 0 < need f (x * S) S := by simpa using hp
    obtain ⟨g, c, h1, h2, h3⟩ := need_pos_ex hp'
    rw [List.any_eq_true]
    refine ⟨g - x * S, List.mem_range.2 (by omega), ?_⟩
    rw [show x * S + (g - x * S) = g by omega, h3]
    rfl
  split <;> omega

/-! ## time stamps -/

/-- when the label asks for time stamps, every fourth entry is a time-stamp entry (as `add_timestamps` lays the directory out) -/
def tsLayoutB (dir : Dir) : Bool :=
  match findLabel dir with
  | none => true
  | some lab => !Lab.isTimestamped lab ||
      (dir.length % 4 == 0 && (List.range dir.length).all (fun i => i % 4 != 3 || match dir[i]? with
        | some ts => isTimestamp ts
        | none => false))

theorem tsLayout_spec {dir : Dir} {lab : Bytes} (h : tsLayoutB dir = true) (hl : findLabel dir = some lab)
    (ht : Lab.isTimestamped lab = true) :
    dir.length % 4 = 0 ∧ ∀ i, i < dir.length → i % 4 = 3 → ∃ ts, dir[i]? = some ts ∧ isTimestamp ts = true := by
  unfold tsLayoutB at h
  rw [hl] at h
  simp only [ht, Bool.not_true, Bool.false_or, Bool.and_eq_true, beq_iff_eq, List.all_eq_true, List.mem_range, Bool.or_eq_true,
    bne_iff_ne, ne_eq] at h
  refine ⟨h.1, fun i hi h3 => ?_⟩
  rcases h.2 i hi with h4 | h4
  · exact absurd h3 h4
  · cases hd : dir[i]? with
    | none => rw [hd] at h4; cases h4
    | some ts => rw [hd] at h4; exact ⟨ts, rfl, h4⟩

theorem tsMaybeSet_plain {dir : Dir} {lab now : Bytes} {lx0 : Nat} (h : Lab.isTimestamped lab = false) :
    tsMaybeSet dir lab lx0 now 4 = .ok dir ∧ tsMaybeSet dir lab lx0 now 5 = .ok dir := by
  unfold Lab.isTimestamped at h
  simp only [Bool.or_eq_false_iff] at h
  obtain ⟨⟨h1, h2⟩, h3⟩ := h
  unfold tsMaybeSet
  simp [h1, h2, h3]

theorem tsMaybeSet_some {dir : Dir} {lab now : Bytes} {lx0 which : Nat}
    (hts : ∃ ts, dir[4 * (1 + lx0 / 4) - 1]? = some ts ∧ isTimestamp ts = true) (hsub : lx0 % 4 ≠ 3) :
    ∃ dir', tsMaybeSet dir lab lx0 now which = .ok dir' := by
  obtain ⟨ts, h1, h2⟩ := hts
  unfold tsMaybeSet
  split
  · exact ⟨_, rfl⟩
  · split
    · exact ⟨_, rfl⟩
    · simp only [h1, h2, Bool.not_true, Bool.false_eq_true, ↓reduceIte]
      rw [if_neg (by omega)]
      exact ⟨_, rfl⟩

theorem ts_kept {sdir dir' : Dir} {lab now : Bytes} {lx0 which : Nat} (hl : ∀ e ∈ sdir, e.length = 32)
    (h : tsMaybeSet sdir lab lx0 now which = .ok dir') {i : Nat}
    (hts : ∃ ts, sdir[i]? = some ts ∧ isTimestamp ts = true) : ∃ ts, dir'[i]? = some ts ∧ isTimestamp ts = true := by
  rcases tsMaybeSet_shape hl h with rfl | ⟨idx, t0, t1, a, _, c, _, rfl⟩
  · exact hts
  · obtain ⟨ts, h1, h2⟩ := hts
    by_cases ci : idx = i
    · subst ci
      have hlt : idx < sdir.length := (List.getElem?_eq_some_iff.1 a).1
      refine ⟨t1, List.getElem?_set_self hlt, ?_⟩
      unfold isTimestamp; rw [c]; rfl
    · exact ⟨ts, by rw [List.getElem?_set_ne ci]; exact h1, h2⟩

theorem find_pos {α : Type} (p : α → Bool) : ∀ (l1 l2 : List α), l1.length = l2.length →
    (∀ (j : Nat) (a b : α), l1[j]? = some a → l2[j]? = some b → (p a = true ∨ p b = true) → a = b) → l1.find? p = l2.find? p
  | [], [], _, _ => rfl
  | [], _ :: _, h, _ => by simp at h
  | _ :: _, [], h, _ => by simp at h
  | a :: l1, b :: l2, h, hp => by
    have ih := find_pos p l1 l2 (by simpa using h) (fun j x y hx hy => hp (j + 1) x y (by simpa using hx) (by simpa using hy))
    by_cases ca : p a = true
    · have := hp 0 a b rfl rfl (Or.inl ca)
      rw [← this, List.find?_cons_of_pos (h := ca), List.find?_cons_of_pos (h := ca)]
    · by_cases cb : p b = true
      · have := hp 0 a b rfl rfl (Or.inr cb)
        rw [this] at ca; exact absurd cb ca
      · rw [List.find?_cons_of_neg (h := ca), List.find?_cons_of_neg (h := cb), ih]

theorem label_not_free {e : Bytes} (h : isLabel e = true) : isExtentFree e = false ∧ isExtent e = false := by
  unfold isLabel at h
  have hs : status e = 32 := by simpa using h
  unfold isExtentFree getType typeOfStatus isExtent
  rw [hs]
  exact ⟨rfl, rfl⟩

theorem ts_not_free {e : Bytes} (h : isTimestamp e = true) : isExtentFree e = false := by
  unfold isTimestamp at h
  have hs : status e = 33 := by simpa using h
  unfold isExtentFree getType typeOfStatus
  rw [hs]
  rfl

/-- the time-stamp stage of `put` does not fail on a directory laid out by `add_timestamps` -/
theorem ts_stage {d : Dpb} {r : Raw} {s : WState} {now : Bytes} (hE : EOk d r s) (hk : KeepsFiles (dirOf d r) s.dir)
    (hlen : ∀ e ∈ s.dir, e.length = 32)
    (hsame : ∀ (j : Nat) (e0 e : Bytes), (dirOf d r)[j]? = some e0 → s.dir[j]? = some e → isExtent e = false → e = e0)
    (hts : tsLayoutB (dirOf d r) = true) :
    ∃ dir2, KeepsFiles (dirOf d r) dir2 ∧ (∀ e ∈ dir2, e.length = 32) ∧
      (∀ lab lx0, findLabel s.dir = some lab → s.entry1 = some lx0 → tsMaybeSetCreate s.dir lab lx0 now = .ok dir2) ∧
      ((findLabel s.dir = none ∨ s.entry1 = none) → dir2 = s.dir) := by
  have hfl : findLabel s.dir = findLabel (dirOf d r) := by
    unfold findLabel
    apply find_pos _ _ _ hk.1
    intro j a b ha hb hp
    rcases hp with hp | hp
    · exact hsame j b a hb ha (label_not_free hp).2
    · have := hE.nf j b hb (label_not_free hp).1
      rw [ha] at this; cases this; rfl
  cases hlab : findLabel s.dir with
  | none => exact ⟨s.dir, hk, hlen, fun _ _ hc => (by cases hc), fun _ => rfl⟩
  | some lab =>
    cases he1 : s.entry1 with
    | none => exact ⟨s.dir, hk, hlen, fun _ _ _ hc => (by cases hc), fun _ => rfl⟩
    | some lx0 =>
      have fin : ∀ dirB, tsMaybeSetCreate s.dir lab lx0 now = .ok dirB → KeepsFiles (dirOf d r) dirB → (∀ e ∈ dirB, e.length = 32) →
          ∃ dir2, KeepsFiles (dirOf d r) dir2 ∧ (∀ e ∈ dir2, e.length = 32) ∧
            (∀ lab' lx0', some lab = some lab' → some lx0 = some lx0' → tsMaybeSetCreate s.dir lab' lx0' now = .ok dir2) ∧
            ((some lab = none ∨ some lx0 = none) → dir2 = s.dir) := by
        intro dirB hB kB lB
        refine ⟨dirB, kB, lB, ?_, ?_⟩
        · intro lab' lx0' e1 e2; cases e1; cases e2; exact hB
        · rintro (hc | hc) <;> cases hc
      unfold tsMaybeSetCreate at fin
      by_cases ct : Lab.isTimestamped lab = true
      · obtain ⟨hm4, hall⟩ := tsLayout_spec hts (by rw [← hfl]; exact hlab) ct
        obtain ⟨e0, h0, hfree⟩ := hE.e1 lx0 he1
        have hlt : lx0 < (dirOf d r).length := (List.getElem?_eq_some_iff.1 h0).1
        have hsub : lx0 % 4 ≠ 3 := by
          intro h3
          obtain ⟨ts, q1, q2⟩ := hall lx0 hlt h3
          rw [h0] at q1; cases q1
          rw [ts_not_free q2] at hfree; cases hfree
        have hidx : 4 * (1 + lx0 / 4) - 1 < (dirOf d r).length ∧ (4 * (1 + lx0 / 4) - 1) % 4 = 3 := by omega
        obtain ⟨ts, q1, q2⟩ := hall _ hidx.1 hidx.2
        have hts1 : ∃ ts, s.dir[4 * (1 + lx0 / 4) - 1]? = some ts ∧ isTimestamp ts = true :=
          ⟨ts, hE.nf _ ts q1 (ts_not_free q2), q2⟩
        obtain ⟨dirA, hA⟩ := tsMaybeSet_some (lab := lab) (now := now) (which := 4) hts1 hsub
        obtain ⟨kA, lA⟩ := tsMaybeSet_spec hk hlen hA
        obtain ⟨dirB, hB⟩ := tsMaybeSet_some (lab := lab) (now := now) (which := 5) (ts_kept hlen hA hts1) hsub
        obtain ⟨kB, lB⟩ := tsMaybeSet_spec kA lA hB
        exact fin dirB (by rw [hA]; exact hB) kB lB
      · have ct' : Lab.isTimestamped lab = false := by simpa using ct
        obtain ⟨p4, p5⟩ := tsMaybeSet_plain (dir := s.dir) (lab := lab) (now := now) (lx0 := lx0) ct'
        exact fin s.dir (by rw [p4]; exact p5) hk hlen

end A2Verif.FsCpm
