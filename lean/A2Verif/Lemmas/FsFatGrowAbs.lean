import A2Verif.Lemmas.FsDosAbs
/-!
# Abstract side of a directory that grows by one previously free unit

`grown v F1 F2 dr nc free'`: the volume in which the directory record `dr` owns the additional unit `nc` and the free list is
`free'`.  It is well formed and leak free again, every record of `v` is found "unchanged" in it in the sense of the
specification (`sameFiles`: a directory may have grown), so a refused step that grew a directory is allowed, and so is an
accepted `put` into the grown volume.
-/
set_option linter.unusedSimpArgs false
namespace A2Verif.FsFat
open A2Verif A2Verif.FsDos

def growRec (dr : FileRec) (nc : Nat) : FileRec := { dr with owned := dr.owned ++ [nc] }

def grown (v : Vol) (F1 F2 : List FileRec) (dr : FileRec) (nc : Nat) (free' : List Nat) : Vol :=
  { v with files := F1 ++ growRec dr nc :: F2, freeUnits := free' }

section grow
variable {v : Vol} {F1 F2 : List FileRec} {dr : FileRec} {nc : Nat} {free' : List Nat}

theorem grown_paths : (grown v F1 F2 dr nc free').paths = (F1 ++ dr :: F2).map (·.path) := by
  unfold Vol.paths grown growRec
  simp

theorem wfB_grown (hv : v.files = F1 ++ dr :: F2) (hw : v.wfB = true) (hnc : nc ∈ v.freeUnits) (hnd : free'.Nodup)
    (hfree : ∀ x, x ∈ free' ↔ x ∈ v.freeUnits ∧ x ≠ nc) : (grown v F1 F2 dr nc free').wfB = true := by
  obtain ⟨h1, h2, h3, h4, h5, h6, h7⟩ := wfB_iff.1 hw
  have hao : v.allOwned = F1.flatMap (·.owned) ++ (dr.owned ++ F2.flatMap (·.owned)) := by
    unfold Vol.allOwned; rw [hv]; exact allOwned_split F1 F2 dr
  have hao' : (grown v F1 F2 dr nc free').allOwned = F1.flatMap (·.owned) ++ ((dr.owned ++ [nc]) ++ F2.flatMap (·.owned)) := by
    unfold Vol.allOwned grown growRec; simp [List.flatMap_append, List.flatMap_cons]
  have hncown : nc ∉ v.allOwned := fun h => h3 nc h hnc
  have hncsys : nc ∉ v.sys := fun h => h4 nc h hnc
  have hmem : ∀ u, u ∈ (grown v F1 F2 dr nc free').allOwned ↔ u ∈ v.allOwned ∨ u = nc := by
    intro u
    rw [hao, hao']
    simp only [List.mem_append, List.mem_singleton]
    constructor
    · rintro (h | (h | h) | h)
      · exact Or.inl (Or.inl h)
      · exact Or.inl (Or.inr (Or.inl h))
      · exact Or.inr h
      · exact Or.inl (Or.inr (Or.inr h))
    · rintro ((h | h | h) | h)
      · exact Or.inl h
      · exact Or.inr (Or.inl (Or.inl h))
      · exact Or.inr (Or.inr h)
      · exact Or.inr (Or.inl (Or.inr h))
  rw [wfB_iff]
  refine ⟨?_, ?_, ?_, ?_, ⟨hnd, ?_⟩, ?_, ?_⟩
  · intro u hu
    rcases (hmem u).1 hu with h | h
    · exact h1 u h
    · rw [h]; exact h5.2 nc hnc
  · -- no unit owned twice
    rw [hao']
    rw [hao] at h2 hncown
    have hn := List.nodup_append.1 h2
    have hnA := List.nodup_append.1 hn.1
    have hnB := List.nodup_append.1 hnA.2.1
    simp only [List.mem_append, not_or] at hncown
    show ((F1.flatMap (·.owned) ++ ((dr.owned ++ [nc]) ++ F2.flatMap (·.owned))) ++ v.sys).Nodup
    refine List.nodup_append.2 ⟨List.nodup_append.2 ⟨hnA.1, List.nodup_append.2 ⟨List.nodup_append.2 ⟨hnB.1, by simp, ?_⟩, hnB.2.1, ?_⟩, ?_⟩, hn.2.1, ?_⟩
    · intro a ha b hb e; simp at hb; subst hb; exact hncown.2.1 (e ▸ ha)
    · intro a ha b hb e
      rcases List.mem_append.1 ha with h | h
      · exact hnB.2.2 a h b hb e
      · simp at h; subst h; exact hncown.2.2 (e ▸ hb)
    · intro a ha b hb e
      rcases List.mem_append.1 hb with h | h
      · rcases List.mem_append.1 h with h' | h'
        · exact hnA.2.2 a ha b (List.mem_append_left _ h') e
        · simp at h'; subst h'; exact hncown.1 (e ▸ ha)
      · exact hnA.2.2 a ha b (List.mem_append_right _ h) e
    · intro a ha b hb e
      have : a ∈ F1.flatMap (·.owned) ++ (dr.owned ++ F2.flatMap (·.owned)) ∨ a = nc := by
        simp only [List.mem_append, List.mem_singleton] at ha ⊢
        rcases ha with h | (h | h) | h
        · exact Or.inl (Or.inl h)
        · exact Or.inl (Or.inr (Or.inl h))
        · exact Or.inr h
        · exact Or.inl (Or.inr (Or.inr h))
      rcases this with h | h
      · exact hn.2.2 a h b hb e
      · subst h; exact hncsys (e ▸ hb)
  · intro u hu hf
    have hf' := (hfree u).1 hf
    rcases (hmem u).1 hu with h | h
    · exact h3 u h hf'.1
    · exact hf'.2 h
  · intro u hu hf; exact h4 u hu ((hfree u).1 hf).1
  · intro u hu; exact h5.2 u ((hfree u).1 hu).1
  · show ((F1 ++ growRec dr nc :: F2).map (·.path)).Nodup
    have : (F1 ++ growRec dr nc :: F2).map (·.path) = (F1 ++ dr :: F2).map (·.path) := by simp [growRec]
    rw [this, ← hv]; exact h6
  · intro x hx
    have hx' : x ∈ F1 ++ growRec dr nc :: F2 := hx
    rcases List.mem_append.1 hx' with h | h
    · exact h7 x (by rw [hv]; exact List.mem_append_left _ h)
    · rcases List.mem_cons.1 h with rfl | h
      · exact h7 dr (by rw [hv]; simp)
      · exact h7 x (by rw [hv]; exact List.mem_append_right _ (List.mem_cons_of_mem _ h))

theorem noLeak_grown (hv : v.files = F1 ++ dr :: F2) (hn : v.noLeak = true)
    (hfree : ∀ x, x ∈ free' ↔ x ∈ v.freeUnits ∧ x ≠ nc) : (grown v F1 F2 dr nc free').noLeak = true := by
  unfold Vol.noLeak at hn ⊢
  rw [List.all_eq_true] at hn ⊢
  intro u hu
  have := hn u hu
  have hao : v.allOwned = F1.flatMap (·.owned) ++ (dr.owned ++ F2.flatMap (·.owned)) := by
    unfold Vol.allOwned; rw [hv]; exact allOwned_split F1 F2 dr
  have hao' : (grown v F1 F2 dr nc free').allOwned = F1.flatMap (·.owned) ++ ((dr.owned ++ [nc]) ++ F2.flatMap (·.owned)) := by
    unfold Vol.allOwned grown growRec; simp [List.flatMap_append, List.flatMap_cons]
  simp only [Bool.or_eq_true, List.contains_iff_mem, hao, List.mem_append] at this
  simp only [Bool.or_eq_true, List.contains_iff_mem, hao', List.mem_append, List.mem_singleton]
  show ((u ∈ F1.flatMap (·.owned) ∨ (u ∈ dr.owned ∨ u = nc) ∨ u ∈ F2.flatMap (·.owned)) ∨ u ∈ v.sys) ∨ u ∈ free'
  rw [hfree]
  rcases this with ((h | h | h) | h) | h
  · exact Or.inl (Or.inl (Or.inl h))
  · exact Or.inl (Or.inl (Or.inr (Or.inl (Or.inl h))))
  · exact Or.inl (Or.inl (Or.inr (Or.inr h)))
  · exact Or.inl (Or.inr h)
  · by_cases hnc : u = nc
    · exact Or.inl (Or.inl (Or.inr (Or.inl (Or.inr hnc))))
    · exact Or.inr ⟨h, hnc⟩

/-- every record of `v` is found in the grown volume, unchanged in the sense of the specification -/
theorem sameFiles_grown (hv : v.files = F1 ++ dr :: F2) (hw : v.wfB = true) (hd : dr.isDir = true) :
    sameFiles v.files (grown v F1 F2 dr nc free').files = true := by
  have nd := wfB_paths_nodup hw
  have nd' : ((grown v F1 F2 dr nc free').files.map (·.path)).Nodup := by
    show ((F1 ++ growRec dr nc :: F2).map (·.path)).Nodup
    have : (F1 ++ growRec dr nc :: F2).map (·.path) = (F1 ++ dr :: F2).map (·.path) := by simp [growRec]
    rw [this, ← hv]; exact nd
  rw [sameFiles_iff]
  constructor
  · intro f hf
    rw [hv] at hf
    rcases List.mem_append.1 hf with h | h
    · refine ⟨f, find_path_of_mem nd' (by show f ∈ F1 ++ growRec dr nc :: F2; exact List.mem_append_left _ h), sameRec_refl f⟩
    · rcases List.mem_cons.1 h with rfl | h
      · refine ⟨growRec f nc, ?_, ?_⟩
        · have := find_path_of_mem nd' (f := growRec f nc) (by show growRec f nc ∈ F1 ++ growRec f nc :: F2; simp)
          exact this
        · unfold sameRec
          simp [hd, growRec]
          exact fun x hx => Or.inl hx
      · refine ⟨f, find_path_of_mem nd' (by show f ∈ F1 ++ growRec dr nc :: F2; exact List.mem_append_right _ (List.mem_cons_of_mem _ h)), sameRec_refl f⟩
  · intro g hg
    have hg' : g ∈ F1 ++ growRec dr nc :: F2 := hg
    have : g.path ∈ v.files.map (·.path) := by
      rw [hv]
      rcases List.mem_append.1 hg' with h | h
      · exact List.mem_map_of_mem (List.mem_append_left _ h)
      · rcases List.mem_cons.1 h with rfl | h
        · show dr.path ∈ _; exact List.mem_map_of_mem (by simp)
        · exact List.mem_map_of_mem (List.mem_append_right _ (List.mem_cons_of_mem _ h))
    exact find_path_isSome.2 this

/-- a refused operation during which a directory grew is allowed -/
theorem stepOk_refused_grown {P : FsParams} (hv : v.files = F1 ++ dr :: F2) (hw : v.wfB = true) (hd : dr.isDir = true)
    (hnc : nc ∈ v.freeUnits) (hnd : free'.Nodup) (hfree : ∀ x, x ∈ free' ↔ x ∈ v.freeUnits ∧ x ≠ nc) (op : FsOp) :
    stepOk P v op false (grown v F1 F2 dr nc free') = true := by
  have hw' := wfB_grown hv hw hnc hnd hfree
  have hs := sameFiles_grown (nc := nc) (free' := free') hv hw hd
  cases op <;> simp [stepOk, stepConds, hw', hs]

end grow

/-- an accepted `put` whose post-volume is the insertion of the new record into a volume `vg` that differs from `v` by a
grown directory -/
theorem stepOk_put_via {P : FsParams} {v vg : Vol} {G1 G2 : List FileRec} {g : FileRec} {free'' : List Nat}
    (hs : sameFiles v.files vg.files = true) (hpaths : vg.paths = v.paths) (hsub : ∀ x ∈ vg.freeUnits, x ∈ v.freeUnits)
    (hv : vg.files = G1 ++ G2) (hw : vg.wfB = true) (hgn : g.owned.Nodup) (hgf : ∀ x ∈ g.owned, x ∈ vg.freeUnits)
    (hnd : free''.Nodup) (hfree : ∀ x, x ∈ free'' ↔ x ∈ vg.freeUnits ∧ x ∉ g.owned) (hp : g.path ∉ vg.paths)
    (hc : (g.chunks.map (·.1)).Pairwise (· < ·)) (hd : g.isDir = false) {cs : List (Nat × Bytes)} {eof ty aux : Nat}
    (hcm : chunksMatch cs g.chunks = true) (he : g.eof = P.eofRule eof) (ht : P.keepsType = true → g.ftype = ty)
    (ha : P.keepsAux = true → g.aux = aux) :
    stepOk P v (.put g.path cs eof ty aux) true (inserted vg G1 G2 g free'') = true := by
  have hw' := wfB_insert hv hw hgn hgf hnd hfree hp hc
  have h1 : v.lookup g.path = none := by
    apply not_mem_paths_iff.1
    rw [← hpaths]; exact hp
  have h2 : (inserted vg G1 G2 g free'').lookup g.path = some g := lookup_mid (v := inserted vg G1 G2 g free'') rfl (wfB_paths_nodup hw')
  have hwo : without (inserted vg G1 G2 g free'').files [g.path] = vg.files := by
    show without (G1 ++ g :: G2) [g.path] = vg.files
    rw [hv]
    unfold without
    rw [List.filter_append, List.filter_cons]
    unfold Vol.paths at hp
    rw [hv, List.map_append, List.mem_append, not_or] at hp
    have e1 : G1.filter (fun f => !([g.path] : List Bytes).contains f.path) = G1 := by
      rw [List.filter_eq_self]
      intro f hf
      have : f.path ≠ g.path := fun e => hp.1 (e ▸ List.mem_map_of_mem hf)
      simpa using this
    have e2 : G2.filter (fun f => !([g.path] : List Bytes).contains f.path) = G2 := by
      rw [List.filter_eq_self]
      intro f hf
      have : f.path ≠ g.path := fun e => hp.2 (e ▸ List.mem_map_of_mem hf)
      simpa using this
    rw [e1, e2]
    simp
  have h3 : sameFiles v.files (without (inserted vg G1 G2 g free'').files [g.path]) = true := by rw [hwo]; exact hs
  have hkt : (!P.keepsType || g.ftype == ty) = true := by
    cases hk : P.keepsType with
    | false => rfl
    | true => simp [ht hk]
  have hka : (!P.keepsAux || g.aux == aux) = true := by
    cases hk : P.keepsAux with
    | false => rfl
    | true => simp [ha hk]
  have hown : g.owned.all (fun u => v.freeUnits.contains u) = true := by
    rw [List.all_eq_true]; intro u hu; simpa using hsub u (hgf u hu)
  simp [stepOk, stepConds, hw', h1, h2, h3, hcm, hd, he, hkt, hka, hown]
  exact fun u hu => hsub u (hgf u hu)

end A2Verif.FsFat
