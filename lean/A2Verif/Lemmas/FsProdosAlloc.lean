import A2Verif.Lemmas.FsProdosBitmap
/-!
# The allocator of the concrete ProDOS model on a disk whose bitmap buffer is open

`allocate`/`deallocate` change exactly one bit of the buffer and nothing else of the disk; `numFreeBlocks`
is the number of blocks the buffer marks free; `getAvailableBlock` is first fit: it returns the least
block marked free, and `none` only if no block is (soundness and completeness).
-/
namespace A2Verif.FsProdos
open A2Verif.Fs.Prodos

theorem bind_def {α β : Type} (m : M α) (f : α → M β) : (m >>= f) = M.bind m f := rfl
theorem pure_def {α : Type} (a : α) : (pure a : M α) = M.pure a := rfl

/-- the buffer is open and large enough for every block of the volume -/
structure BufOpen (d : Disk) (buf : Array Nat) : Prop where
  isOpen : d.bitmap = some buf
  bytes : BytesOk buf
  covers : d.total ≤ 8 * buf.size

theorem openBitmap_open (d : Disk) (buf : Array Nat) (h : d.bitmap = some buf) : openBitmap d = (.ok (), d) := by
  unfold openBitmap; rw [h]

theorem getBitmap_open (d : Disk) (buf : Array Nat) (h : d.bitmap = some buf) : getBitmap d = (.ok buf, d) := by
  unfold getBitmap
  simp only [M.bind, openBitmap_open d buf h, M.get, M.ofOption, h]

/-- `allocate_block(i)` on an open buffer: the bit of `i` is cleared, nothing else changes -/
theorem allocate_open (d : Disk) (buf : Array Nat) (i : Nat) (h : d.bitmap = some buf) (hi : i / 8 < buf.size) :
    allocate i d = (.ok (), { d with bitmap := some (clearBit buf i) }) := by
  unfold allocate
  simp only [bind_def, M.bind, getBitmap_open d buf h]
  rw [Array.getElem?_eq_getElem hi]
  simp only [setBitmap, clearBit, Array.getElem?_eq_getElem hi]

/-- `deallocate_block(i)` on an open buffer: the bit of `i` is set, nothing else changes -/
theorem deallocate_open (d : Disk) (buf : Array Nat) (i : Nat) (h : d.bitmap = some buf) (hi : i / 8 < buf.size) :
    deallocate i d = (.ok (), { d with bitmap := some (setBit buf i) }) := by
  unfold deallocate
  simp only [bind_def, M.bind, getBitmap_open d buf h]
  rw [Array.getElem?_eq_getElem hi]
  simp only [setBitmap, setBit, Array.getElem?_eq_getElem hi]

/-- outside the buffer `allocate_block` is the Rust's index panic -/
theorem allocate_out_of_range (d : Disk) (buf : Array Nat) (i : Nat) (h : d.bitmap = some buf) (hi : ¬ i / 8 < buf.size) :
    allocate i d = (.error .panic, d) := by
  unfold allocate
  simp only [bind_def, M.bind, getBitmap_open d buf h]
  have : buf[i / 8]? = none := by simp; omega
  rw [this]; rfl

/-- the blocks of the volume the buffer marks free -/
def freeBlocks (buf : Array Nat) (total : Nat) : List Nat := (List.range total).filter (freeB buf)

theorem range_eq_range' (n : Nat) : List.range n = List.range' 0 n := by
  simp [List.range_eq_range']

/-- `num_free_blocks` is the number of blocks marked free; the disk is unchanged -/
theorem numFreeBlocks_open (d : Disk) (buf : Array Nat) (h : BufOpen d buf) :
    numFreeBlocks d = (.ok (freeBlocks buf d.total).length, d) := by
  unfold numFreeBlocks
  simp only [bind_def, M.bind, M.get]
  by_cases ht : d.total = 0
  · simp [ht, pure_def, M.pure, freeBlocks]
  · simp only [ht, ↓reduceIte, bind_def, M.bind, getBitmap_open d buf h.isOpen, M.lift]
    rw [countFreeFrom_eq buf d.total 0 0 (by have := h.covers; omega)]
    simp [freeBlocks, range_eq_range']

/-- `get_available_block` is first fit: the least block marked free (as `u16`); the disk is unchanged -/
theorem getAvailableBlock_open (d : Disk) (buf : Array Nat) (h : BufOpen d buf) :
    getAvailableBlock d = (.ok (((List.range d.total).find? (freeB buf)).map (· % 65536)), d) := by
  unfold getAvailableBlock
  simp only [bind_def, M.bind, M.get]
  by_cases ht : d.total = 0
  · simp [ht, pure_def, M.pure]
  · simp only [ht, ↓reduceIte, bind_def, M.bind, getBitmap_open d buf h.isOpen, M.lift]
    rw [firstFreeFrom_eq buf d.total 0 (by have := h.covers; omega)]
    simp [range_eq_range']

/-- soundness of first fit: the block returned is in range and marked free, every smaller block is not -/
theorem getAvailableBlock_sound (d : Disk) (buf : Array Nat) (h : BufOpen d buf) (ht : d.total ≤ 65536) (b : Nat)
    (hr : getAvailableBlock d = (.ok (some b), d)) :
    b < d.total ∧ freeB buf b = true ∧ ∀ j, j < b → freeB buf j = false := by
  rw [getAvailableBlock_open d buf h] at hr
  have hr' : ((List.range d.total).find? (freeB buf)).map (· % 65536) = some b := by
    injection hr with h1 _; injection h1
  cases hf : (List.range d.total).find? (freeB buf) with
  | none => rw [hf] at hr'; cases hr'
  | some c =>
    rw [hf] at hr'
    have hc : c % 65536 = b := by simpa using hr'
    have hmem : c ∈ List.range d.total := List.mem_of_find?_eq_some hf
    have hcl : c < d.total := List.mem_range.mp hmem
    have hcb : c = b := by omega
    subst hcb
    refine ⟨hcl, List.find?_some hf, ?_⟩
    intro j hj
    rw [List.find?_eq_some_iff_append] at hf
    obtain ⟨_, as, bs, hsplit, hall⟩ := hf
    -- `j` lies in the prefix `as` of `range total` before `c`
    have hjmem : j ∈ List.range d.total := List.mem_range.mpr (by omega)
    rw [hsplit] at hjmem
    rcases List.mem_append.mp hjmem with hja | hjb
    · simpa using hall j hja
    · exfalso
      -- `range` is strictly increasing: nothing smaller than `c` follows it
      have hsorted : (List.range d.total).Pairwise (· < ·) := List.pairwise_lt_range
      rw [hsplit] at hsorted
      have := (List.pairwise_append.mp hsorted).2.1
      rcases List.mem_cons.mp hjb with hjc | hjt
      · omega
      · have := (List.pairwise_cons.mp this).1 j hjt; omega

/-- completeness of first fit (the allocator half of the C04 acceptance clause): if some block of the volume is
marked free, `get_available_block` finds one -/
theorem getAvailableBlock_complete (d : Disk) (buf : Array Nat) (h : BufOpen d buf) (c : Nat) (hc : c < d.total)
    (hfree : freeB buf c = true) : ∃ b, getAvailableBlock d = (.ok (some b), d) := by
  rw [getAvailableBlock_open d buf h]
  cases hf : (List.range d.total).find? (freeB buf) with
  | none =>
    exfalso
    have := List.find?_eq_none.mp hf c (List.mem_range.mpr hc)
    simp [hfree] at this
  | some x => exact ⟨x % 65536, rfl⟩

/-- `num_free_blocks = 0` iff no block is marked free: "disk full" is never reported while a block is free -/
theorem numFree_pos_of_free (buf : Array Nat) (total c : Nat) (hc : c < total) (hfree : freeB buf c = true) :
    0 < (freeBlocks buf total).length := by
  have : c ∈ freeBlocks buf total := by
    unfold freeBlocks; exact List.mem_filter.mpr ⟨List.mem_range.mpr hc, hfree⟩
  exact List.length_pos_of_mem this

end A2Verif.FsProdos
