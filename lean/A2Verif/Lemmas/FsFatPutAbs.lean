import A2Verif.Lemmas.FsFatPutRun
/-!
# The reading after a root-level `put`

`owned_nonfree`: a cluster a well-formed reading reports as owned is in range and not free.  `old_entry_kept`: the records
of the entries that were there are read unchanged from the state after the cluster loop, the write-back and the flush.
`new_file_rec`: the new entry is read as a file that owns exactly the clusters the loop took, holds the chunks, and has
the length of the file image.  `noLeak_inserted`.
-/
namespace A2Verif.FsFat
open A2Verif A2Verif.Fs.Fat A2Verif.Read.Fat A2Verif.Read.FatT
open A2Verif.FsDos (inserted)

theorem isFree12_iff (f : Array Nat) (x : Nat) : isFree12 f x = true ↔ nxt f x = 0 := by
  unfold isFree12 nxt
  simp

/-- a cluster that a well-formed reading of the state reports as owned is a data cluster and is not free -/
theorem owned_nonfree {b : Fs.Fat.Bpb} {f : Array Nat} {files : List FileRec} (hw : (mkVol b f files).wfB = true) {x : Nat}
    (hx : x ∈ files.flatMap (·.owned)) : 2 ≤ x ∧ x < hiOf b ∧ isFree12 f x = false := by
  obtain ⟨h1, _, h3, _⟩ := wfB_iff.1 hw
  have hr := h1 x hx
  have hnf := h3 x hx
  refine ⟨hr.1, hr.2, ?_⟩
  cases hfx : isFree12 f x with
  | false => rfl
  | true =>
    exfalso
    apply hnf
    show x ∈ freeUnitsOf b f
    rw [mem_freeUnitsOf]
    have := hr.2
    unfold hiOf at this
    exact ⟨⟨hr.1, this⟩, (isFree12_iff f x).mp hfx⟩

/-- how the state `d3` after the write-back and the flush relates to the state `d1` the cluster loop left -/
structure After (d d1 d3 : Disk) : Prop where
  bpb : d3.bpb = d.bpb
  data : ∀ u, d.bpb.firstDataSec ≤ u → d3.raw.units[u]? = d1.raw.units[u]?

theorem clusterData_after {d d1 d3 : Disk} {f f1 : Array Nat} {chunks : List (Nat × Bytes)} {entry entry' : Bytes} {s n : Nat} {cl : List Nat}
    (g : Geo d) (o : WrOut chunks d f entry 0 s n entry' d1 f1 cl) (af : After d d1 d3) {x : Nat} (hx2 : 2 ≤ x) (hxcl : x ∉ cl) :
    clusterData d3.raw (rbpb d.bpb) x = clusterData d.raw (rbpb d.bpb) x := by
  apply clusterData_congr_at
  intro i hi
  rw [firstData_eq g]
  have hspc : (rbpb d.bpb).spc = d.bpb.spc := rfl
  rw [hspc] at hi ⊢
  have e : d.bpb.firstDataSec + (x - 2) * d.bpb.spc + i = d.bpb.firstClusterSec x + i := by unfold Bpb.firstClusterSec; omega
  rw [e, af.data _ (by unfold Bpb.firstClusterSec; omega)]
  apply o.units
  intro c hc
  have hc2 := (clusInRng_bounds (o.wasFree c hc).1).1
  exact secs_disjoint hx2 hc2 (fun e => hxcl (e ▸ hc)) (by rw [List.mem_range'_1]; omega)

/-- the records of an entry that was there are read unchanged after the `put` -/
theorem old_entry_kept {d d1 d3 : Disk} {f f1 : Array Nat} {chunks : List (Nat × Bytes)} {entry entry' : Bytes} {s n : Nat} {cl : List Nat}
    (g : Geo d) (o : WrOut chunks d f entry 0 s n entry' d1 f1 cl) (af : After d d1 d3) {files : List FileRec}
    (hw : (mkVol d.bpb f files).wfB = true) {e : Bytes} {y : List FileRec} (hy : rd d f e = .ok y)
    (hsub : ∀ x ∈ y.flatMap (·.owned), x ∈ files.flatMap (·.owned)) : rd d3 f1 e = .ok y := by
  unfold rd at hy ⊢
  rw [af.bpb]
  apply rdEnt_congr_owned hy
  intro x hx
  obtain ⟨h2, _, hnf⟩ := owned_nonfree hw (hsub x hx)
  have hxcl : x ∉ cl := by
    intro hc
    have := (o.wasFree x hc).2
    rw [hnf] at this
    cases this
  exact ⟨o.others x hxcl (by omega), clusterData_after g o af h2 hxcl⟩

theorem mapM_ok_idx {ε α β : Type} (F : α → Except ε β) : ∀ (l : List α) (G : Nat → β),
    (∀ j c, l[j]? = some c → F c = .ok (G j)) → l.mapM F = .ok ((List.range l.length).map G) := by
  intro l
  induction l with
  | nil => intro G _; rfl
  | cons a t ih =>
    intro G h
    rw [List.mapM_cons, h 0 a rfl, ih (fun j => G (j + 1)) (fun j c hj => h (j + 1) c (by simpa using hj))]
    simp only [List.length_cons, List.range_succ_eq_map, List.map_cons, List.map_map]
    rfl

/-- the content of the `j`-th cluster of a stored file -/
def blockOf (b : Fs.Fat.Bpb) (chunks : List (Nat × Bytes)) (j : Nat) : Bytes :=
  quantize (takeN (chunkAt chunks j) b.blockSize) (b.spc * 512)

/-- the record the reader makes of the new entry -/
def newRec (b : Fs.Fat.Bpb) (chunks : List (Nat × Bytes)) (e : Bytes) (cl : List Nat) : FileRec :=
  { path := entPath [] e, access := e.getD 11 0, locked := decide (e.getD 11 0 % 2 = 1), eof := le32 e 28,
    chunks := (((List.range cl.length).map (blockOf b chunks)).zipIdx.map (fun (d, i) => (i, d))), owned := cl }

/-- **the new entry is read as the stored file** -/
theorem new_file_rec {d d1 d3 : Disk} {f f1 : Array Nat} {chunks : List (Nat × Bytes)} {entry entry' : Bytes} {n : Nat} {cl : List Nat}
    (g : Geo d) (g3 : Geo d3) (o : WrOut chunks d f entry 0 0 n entry' d1 f1 cl) (af : After d d1 d3) {e : Bytes}
    (hbit : (e.getD 11 0 / 16) % 2 = 0)
    (hc1 : (cl = [] ∧ le16 e 26 = 0 ∧ le32 e 28 = 0) ∨ (∃ c0 rest, cl = c0 :: rest ∧ le16 e 26 = c0))
    (hsize : le32 e 28 ≤ n * d.bpb.blockSize) :
    rd d3 f1 e = .ok [newRec d.bpb chunks e cl] := by
  have hb3 := af.bpb
  -- the chain
  have hchain : fileChain f1 false (hiOf d.bpb) (le16 e 26) (le32 e 28) = .ok cl := by
    unfold fileChain
    rcases hc1 with ⟨h1, h2, h3⟩ | ⟨c0, rest, h1, h2⟩
    · rw [h2, h3, h1]; rfl
    · have hc0 := (clusInRng_bounds (o.wasFree c0 (by rw [h1]; simp)).1).1
      rw [h2, if_neg (by omega)]
      obtain ⟨q1, _, _⟩ := o.chain c0 rest h1
      have hlen := chain_length_le q1 o.nodup
      have := chain_of_isChain q1 (hiOf d.bpb + 1) [] o.nodup (by simp) (by omega)
      simpa using this
  -- the data
  have hdata : cl.mapM (clusterData d3.raw (rbpb d.bpb)) = .ok ((List.range cl.length).map (blockOf d.bpb chunks)) := by
    apply mapM_ok_idx
    intro j c hj
    have hc2 := (clusInRng_bounds (o.wasFree c (List.mem_of_getElem? hj)).1).1
    have := clusterData_of_units g3 (c := c) hc2 (Q := blockOf d.bpb chunks j)
      (by rw [hb3]; unfold blockOf; exact quantize_length _ _)
      (by
        intro i hi
        rw [hb3] at hi ⊢
        rw [af.data _ (by unfold Bpb.firstClusterSec; omega)]
        have := o.data j c hj i hi
        simp only [Nat.zero_add] at this
        exact this)
    rw [hb3] at this
    exact this
  unfold rd
  rw [hb3, rdEnt_file hbit]
  unfold fileRec
  simp only [hchain, hdata]
  have hsz : ¬ (le32 e 28 > cl.length * (rbpb d.bpb).spc * (rbpb d.bpb).bps) := by
    rw [o.len]
    have : n * (rbpb d.bpb).spc * (rbpb d.bpb).bps = n * d.bpb.blockSize := by
      unfold Bpb.blockSize rbpb
      simp only [Nat.mul_assoc]
    omega
  rw [if_neg hsz]
  rfl

/-- the record the reader makes of a new file entry below the prefix `pfx` -/
def newRecAt (b : Fs.Fat.Bpb) (chunks : List (Nat × Bytes)) (pfx e : Bytes) (cl : List Nat) : FileRec :=
  { path := entPath pfx e, access := e.getD 11 0, locked := decide (e.getD 11 0 % 2 = 1), eof := le32 e 28,
    chunks := (((List.range cl.length).map (blockOf b chunks)).zipIdx.map (fun (d, i) => (i, d))), owned := cl }

/-- **a new file entry is read as the stored file**, at any level: the clusters `cl` form a link chain in the final FAT (or
there is none), and in the final image cluster `j` of it holds block `j` -/
theorem new_file_rec_at {d3 : Disk} {b : Fs.Fat.Bpb} {f1 : Array Nat} {chunks : List (Nat × Bytes)} {cl : List Nat}
    (g3 : Geo d3) (hb3 : d3.bpb = b) (hnd : cl.Nodup) (hin : ∀ c ∈ cl, 2 ≤ c)
    (hch : cl = [] ∨ ∃ c0, cl.head? = some c0 ∧ IsChain f1 (hiOf b) c0 cl)
    (hdat : ∀ j c, cl[j]? = some c → ∀ i, i < b.spc → d3.raw.units[b.firstClusterSec c + i]? =
      some (((blockOf b chunks j).drop (i * 512)).take 512))
    {e : Bytes} (fuel : Nat) (pfx : Bytes) (hbit : (e.getD 11 0 / 16) % 2 = 0)
    (hc1 : (cl = [] ∧ le16 e 26 = 0 ∧ le32 e 28 = 0) ∨ (∃ c0 rest, cl = c0 :: rest ∧ le16 e 26 = c0))
    (hsize : le32 e 28 ≤ cl.length * b.blockSize) :
    rdEnt d3.raw (rbpb d3.bpb) f1 false (hiOf d3.bpb) fuel pfx e = .ok [newRecAt b chunks pfx e cl] := by
  subst hb3
  have hchain : fileChain f1 false (hiOf d3.bpb) (le16 e 26) (le32 e 28) = .ok cl := by
    unfold fileChain
    rcases hc1 with ⟨h1, h2, h3⟩ | ⟨c0, rest, h1, h2⟩
    · rw [h2, h3, h1]; rfl
    · have hc0 := hin c0 (by rw [h1]; simp)
      rw [h2, if_neg (by omega)]
      rcases hch with h0 | ⟨c0', hh, q1⟩
      · rw [h0] at h1; cases h1
      · rw [h1] at hh
        simp only [List.head?_cons, Option.some.injEq] at hh
        subst hh
        have hlen := chain_length_le q1 hnd
        have := chain_of_isChain q1 (hiOf d3.bpb + 1) [] hnd (by simp) (by omega)
        simpa using this
  have hdata : cl.mapM (clusterData d3.raw (rbpb d3.bpb)) = .ok ((List.range cl.length).map (blockOf d3.bpb chunks)) := by
    apply mapM_ok_idx
    intro j c hj
    exact clusterData_of_units g3 (c := c) (hin c (List.mem_of_getElem? hj)) (Q := blockOf d3.bpb chunks j)
      (by unfold blockOf; exact quantize_length _ _) (hdat j c hj)
  rw [rdEnt_file hbit]
  unfold fileRec
  simp only [hchain, hdata]
  have hsz : ¬ (le32 e 28 > cl.length * (rbpb d3.bpb).spc * (rbpb d3.bpb).bps) := by
    have : cl.length * (rbpb d3.bpb).spc * (rbpb d3.bpb).bps = cl.length * d3.bpb.blockSize := by
      unfold Bpb.blockSize rbpb
      simp only [Nat.mul_assoc]
    omega
  rw [if_neg hsz]
  rfl

theorem noLeak_inserted {v : Vol} {F1 F2 : List FileRec} {g : FileRec} {free' : List Nat} (hv : v.files = F1 ++ F2)
    (hn : v.noLeak = true) (hfree : ∀ x, x ∈ free' ↔ x ∈ v.freeUnits ∧ x ∉ g.owned) : (inserted v F1 F2 g free').noLeak = true := by
  unfold Vol.noLeak at hn ⊢
  rw [List.all_eq_true] at hn ⊢
  intro u hu
  have := hn u hu
  have hao : v.allOwned = F1.flatMap (·.owned) ++ F2.flatMap (·.owned) := by
    unfold Vol.allOwned; rw [hv, List.flatMap_append]
  have hao' : (inserted v F1 F2 g free').allOwned = F1.flatMap (·.owned) ++ (g.owned ++ F2.flatMap (·.owned)) := by
    unfold Vol.allOwned inserted; simp [List.flatMap_append, List.flatMap_cons]
  simp only [Bool.or_eq_true, List.contains_iff_mem, hao, List.mem_append] at this
  simp only [Bool.or_eq_true, List.contains_iff_mem, hao', List.mem_append]
  show ((u ∈ F1.flatMap (·.owned) ∨ u ∈ g.owned ∨ u ∈ F2.flatMap (·.owned)) ∨ u ∈ v.sys) ∨ u ∈ free'
  rw [hfree]
  rcases this with ((h | h) | h) | h
  · exact Or.inl (Or.inl (Or.inl h))
  · exact Or.inl (Or.inl (Or.inr (Or.inr h)))
  · exact Or.inl (Or.inr h)
  · by_cases hg : u ∈ g.owned
    · exact Or.inl (Or.inl (Or.inr (Or.inl hg)))
    · exact Or.inr ⟨h, hg⟩

end A2Verif.FsFat
