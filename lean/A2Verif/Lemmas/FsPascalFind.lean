import A2Verif.Lemmas.FsPascalInv
/-!
# Names and directory search of the concrete Pascal model under the invariant

`file_name_to_string` of a valid stored name is the name itself (no panic, nothing trimmed);
`get_file_entry` finds exactly the slot whose stored name is the upper-cased argument, or nothing when no
slot has that name — i.e. a2kit's search and the abstract `lookup` by path agree.  Core Lean only.
-/
namespace A2Verif.Fs.Pascal

/-! ## characters and names -/

theorem validChar_props {c : Nat} (h : validChar c = true) : c < 128 ∧ isAsciiSpace c = false := by
  unfold validChar at h
  simp only [Bool.and_eq_true, decide_eq_true_eq, Bool.not_eq_true'] at h
  obtain ⟨⟨h1, h2⟩, h3⟩ := h
  refine ⟨h1, ?_⟩
  unfold isAsciiControl at h3
  unfold invalidChars at h2
  simp only [Bool.or_eq_false_iff, decide_eq_false_iff_not, beq_eq_false_iff_ne] at h3
  unfold isAsciiSpace
  have : c ≠ 32 := by
    intro e; subst e; simp at h2
  simp only [Bool.or_eq_false_iff, beq_eq_false_iff_ne, Bool.and_eq_false_iff, decide_eq_false_iff_not]
  exact ⟨this, by omega⟩

theorem trimEnd_id {s : Bytes} (h : ∀ c ∈ s, isAsciiSpace c = false) : trimEnd s = s := by
  unfold trimEnd
  cases hr : s.reverse with
  | nil => rw [List.reverse_eq_nil_iff] at hr; subst hr; rfl
  | cons x xs =>
    have hx : x ∈ s := by
      have : x ∈ s.reverse := by rw [hr]; exact List.mem_cons_self
      simpa using this
    rw [List.dropWhile_cons, h x hx]
    simp only [Bool.false_eq_true, if_false]
    rw [← hr, List.reverse_reverse]

theorem slice_take {e : Bytes} {off n m : Nat} (h : n ≤ m) : (slice e off m).take n = slice e off n := by
  unfold slice
  rw [List.take_take, Nat.min_eq_left h]

/-- `file_name_to_string` of a valid stored name: the name, untrimmed -/
theorem fileNameToString_ok {dEnd tot : Nat} {e : Bytes} (ok : EntryOk dEnd tot e) :
    fileNameToString e = some (entryPath e) := by
  have hs : (Entry.name e).take (Entry.nameLen e) = entryPath e := by
    unfold Entry.name Entry.nameLen entryPath
    exact slice_take ok.nl_le
  have hall : ∀ c ∈ entryPath e, validChar c = true := by
    have := ok.chars
    rw [List.all_eq_true] at this
    exact this
  unfold fileNameToString
  rw [if_neg (by unfold Entry.nameLen; have := ok.nl_le; omega)]
  simp only [hs]
  have hany : (entryPath e).any (fun c => decide (c ≥ 128)) = false := by
    rw [List.any_eq_false]
    intro c hc
    have := (validChar_props (hall c hc)).1
    simp; omega
  rw [hany]
  simp only [Bool.false_eq_true, if_false]
  rw [trimEnd_id (fun c hc => (validChar_props (hall c hc)).2)]

theorem upperByte_valid {c : Nat} (h : validChar c = true) : validChar (upperByte c) = true := by
  unfold upperByte
  by_cases hc : 97 ≤ c ∧ c ≤ 122
  · rw [if_pos hc]
    have h1 : 65 ≤ c - 32 ∧ c - 32 ≤ 90 := by omega
    generalize c - 32 = d at h1
    unfold validChar invalidChars isAsciiControl
    have hd : d < 128 := by omega
    have : ([32, 36, 61, 63, 44, 91, 35, 58] : List Nat).contains d = false := by
      simp only [List.contains_eq_mem, List.mem_cons, List.not_mem_nil, or_false, decide_eq_false_iff_not]
      omega
    rw [this]
    simp only [Bool.and_eq_true, decide_eq_true_eq, Bool.not_false, Bool.not_eq_true', Bool.or_eq_false_iff,
      decide_eq_false_iff_not, beq_eq_false_iff_ne]
    exact ⟨⟨hd, trivial⟩, by omega, by omega⟩
  · rw [if_neg hc]; exact h

theorem upper_length (s : Bytes) : (upper s).length = s.length := by unfold upper; simp

/-- what `is_name_valid(name, false)` gives about the stored (upper-cased) name -/
theorem upper_valid {n : Bytes} (h : isNameValid n false = true) :
    (upper n).all validChar = true ∧ 1 ≤ n.length ∧ n.length ≤ 15 := by
  unfold isNameValid at h
  simp only [Bool.and_eq_true, decide_eq_true_eq, Bool.not_eq_true', Bool.and_eq_false_iff, decide_eq_false_iff_not,
    Bool.and_false, Bool.not_false, Bool.and_true] at h
  obtain ⟨⟨h1, h2⟩, h3⟩ := h
  refine ⟨?_, h2, by omega⟩
  rw [List.all_eq_true] at h1 ⊢
  intro c hc
  unfold upper at hc
  obtain ⟨b, hb, rfl⟩ := List.mem_map.1 hc
  apply upperByte_valid
  have := h1 b hb
  unfold validChar
  exact this

/-! ## `get_file_entry` -/

theorem entryLive_ok {dEnd tot : Nat} {e : Bytes} (ok : EntryOk dEnd tot e) (hd : 2 < dEnd) : entryLive e tot = true := by
  unfold entryLive Entry.beginBlock Entry.endBlock
  have := ok.beg_ge; have := ok.beg_lt; have := ok.end_le
  simp only [Bool.and_eq_true, decide_eq_true_eq]
  omega

/-- no slot has the name: the search answers `None` -/
theorem findEntry_none {dEnd tot : Nat} (hd : 2 < dEnd) {u : Bytes} : ∀ {l : List Bytes} (i : Nat),
    (∀ e ∈ l, EntryOk dEnd tot e) → u ∉ l.map entryPath → findEntry u tot l i = .ok none := by
  intro l
  induction l with
  | nil => intro i _ _; rfl
  | cons e l ih =>
    intro i hok hn
    have ok := hok e List.mem_cons_self
    simp only [List.map_cons, List.mem_cons, not_or] at hn
    unfold findEntry
    rw [entryLive_ok ok hd, if_pos rfl, fileNameToString_ok ok]
    simp only []
    rw [if_neg hn.1]
    exact ih (i + 1) (fun x hx => hok x (List.mem_cons_of_mem _ hx)) hn.2

/-- slot `k` is the first with the name: the search answers `Some(i + k)` -/
theorem findEntry_some {dEnd tot : Nat} (hd : 2 < dEnd) {u : Bytes} : ∀ {l : List Bytes} (i k : Nat) (hk : k < l.length),
    (∀ e ∈ l, EntryOk dEnd tot e) → entryPath l[k] = u → (∀ j (hj : j < l.length), j < k → entryPath l[j] ≠ u) →
    findEntry u tot l i = .ok (some (i + k)) := by
  intro l
  induction l with
  | nil => intro i k hk; cases hk
  | cons e l ih =>
    intro i k hk hok hu hfirst
    have ok := hok e List.mem_cons_self
    unfold findEntry
    rw [entryLive_ok ok hd, if_pos rfl, fileNameToString_ok ok]
    simp only []
    cases k with
    | zero =>
      have : entryPath e = u := hu
      rw [if_pos this.symm]
      rfl
    | succ k =>
      have hne : entryPath e ≠ u := hfirst 0 (by simp) (by omega)
      rw [if_neg (fun h => hne h.symm)]
      have := ih (i + 1) k (by simpa using hk) (fun x hx => hok x (List.mem_cons_of_mem _ hx)) (by simpa using hu)
        (fun j hj hjk => by
          have := hfirst (j + 1) (by simp; omega) (by omega)
          simpa using this)
      rw [this]
      congr 2
      omega

/-- `get_directory` under the invariant -/
theorem getDirectory_inv {r : Raw} (h : Inv r) : getDirectory r = .ok { header := hdr r, entries := allEntries r } := by
  have d := h.d
  apply getDirectory_eq h.blocks d.beg0 d.dirEnd_gt d.dirEnd_total
  · have := d.dirEnd_total; have := d.total_size; unfold dirEnd; omega
  · exact d.nf_le

/-- the name is not stored: `get_file_entry` answers `(None, dir)` -/
theorem getFileEntry_none {r : Raw} (h : Inv r) {name : Bytes} (hn : upper name ∉ (volOf r).paths) :
    getFileEntry r name = .ok (none, { header := hdr r, entries := allEntries r }) := by
  have d := h.d
  unfold getFileEntry
  rw [getDirectory_inv h]
  simp only [Dir.totalBlocks, Dir.numFiles, Hdr.totalBlocks, Hdr.numFiles]
  have : findEntry (upper name) (le16 (hdr r) 14) ((allEntries r).take (le16 (hdr r) 16)) 0 = .ok none := by
    apply findEntry_none d.dirEnd_gt 0 d.live
    unfold Vol.paths at hn
    rw [paths_volOf] at hn
    exact hn
  rw [this]

/-- slot `idx` stores the name: `get_file_entry` answers `(Some(idx), dir)` -/
theorem getFileEntry_some {r : Raw} (h : Inv r) {name : Bytes} {idx : Nat} (hi : idx < (liveEntries r).length)
    (hp : entryPath (liveEntries r)[idx] = upper name) :
    getFileEntry r name = .ok (some idx, { header := hdr r, entries := allEntries r }) := by
  have d := h.d
  unfold getFileEntry
  rw [getDirectory_inv h]
  simp only [Dir.totalBlocks, Dir.numFiles, Hdr.totalBlocks, Hdr.numFiles]
  have : findEntry (upper name) (le16 (hdr r) 14) ((allEntries r).take (le16 (hdr r) 16)) 0 = .ok (some (0 + idx)) := by
    apply findEntry_some d.dirEnd_gt 0 idx hi d.live hp
    intro j hj hjk he
    have nd := d.names
    rw [List.nodup_iff_pairwise_ne, List.pairwise_map, List.pairwise_iff_getElem] at nd
    exact nd j idx hj hi hjk (he.trans hp.symm)
  rw [this, Nat.zero_add]

/-- the abstract volume has a file of path `p` iff some live slot stores `p` -/
theorem mem_paths_iff_slot {r : Raw} {p : Bytes} :
    p ∈ (volOf r).paths ↔ ∃ idx, ∃ (hi : idx < (liveEntries r).length), entryPath (liveEntries r)[idx] = p := by
  unfold Vol.paths
  rw [paths_volOf, List.mem_map]
  constructor
  · rintro ⟨e, he, rfl⟩
    obtain ⟨i, hi, rfl⟩ := List.mem_iff_getElem.1 he
    exact ⟨i, hi, rfl⟩
  · rintro ⟨i, hi, rfl⟩
    exact ⟨_, List.getElem_mem hi, rfl⟩

end A2Verif.Fs.Pascal
