import A2Verif.Model.AddrMap
/-!
# C07, part 5: equal address maps + per-address store laws ⇒ equal content after ANY write history

A container format is seen as a store of fixed-size units addressed by normal-form addresses `A`
(for the Apple 5.25 inch kind: (track, physical sector, half); for 3.5 inch: (track, sector); for IBM
kinds: (cylinder, head, sector id)), together with its *address map* `locate : R → Option (List A)`
from requests `R` (file-system blocks and physical sectors) to the ordered units they touch.
The store laws (`get_put_same`, `get_put_other`) are fields, i.e. hypotheses: proving them for each
real format is property C08.  The theorem then says: two formats with the same address map on the
requests of a history hold the same content in every unit, return the same data for every block,
after that history — for every history.
-/
namespace A2Verif.C07

/-- `img::quantize_block(src, quantum)`: pad with zeros / truncate -/
def quantize (src : List Nat) (quantum : Nat) : List Nat :=
  (List.range quantum).map fun i => (src[i]?).getD 0

/-- the `n` consecutive `unit`-byte slices `padded[k*unit .. (k+1)*unit]` every `write_block` hands
to its sector/record writer -/
def unitsOf (unit n : Nat) (dat : List Nat) : List (List Nat) :=
  let padded := quantize dat (n * unit)
  (List.range n).map fun k => (padded.drop (k * unit)).take unit

structure Container (A R : Type) where
  /-- image state -/
  St : Type
  /-- addresses that exist on this kind of disk -/
  valid : A → Prop
  /-- content of one unit -/
  get : St → A → List Nat
  /-- overwrite one unit -/
  put : St → A → List Nat → St
  /-- address map: `none` = the request is refused (nothing is written) -/
  locate : R → Option (List A)
  get_put_same : ∀ s a v, valid a → get (put s a v) a = v
  get_put_other : ∀ s a b v, valid a → a ≠ b → get (put s a v) b = get s b
  locate_valid : ∀ r as, locate r = some as → ∀ a ∈ as, valid a

namespace Container
variable {A R : Type}

def putAll (C : Container A R) (s : C.St) : List (A × List Nat) → C.St
  | [] => s
  | (a, v) :: rest => C.putAll (C.put s a v) rest

/-- `write_block(addr, dat)` / `write_sector(.., dat)` -/
def write (C : Container A R) (unit : Nat) (s : C.St) (r : R) (dat : List Nat) : C.St :=
  match C.locate r with
  | none => s
  | some as => C.putAll s (as.zip (unitsOf unit as.length dat))

/-- `read_block(addr)` / `read_sector(..)` -/
def read (C : Container A R) (s : C.St) (r : R) : Option (List Nat) :=
  (C.locate r).map fun as => (as.map (C.get s)).flatten

/-- state after a history of writes -/
def run (C : Container A R) (unit : Nat) (s : C.St) : List (R × List Nat) → C.St
  | [] => s
  | (r, d) :: rest => C.run unit (C.write unit s r d) rest

end Container

variable {A R : Type}

/-- two states (of possibly different formats) show the same content in every valid unit -/
def SameView (C D : Container A R) (s : C.St) (t : D.St) : Prop :=
  ∀ a, C.valid a → C.get s a = D.get t a

theorem putAll_sameView (C D : Container A R) (hv : ∀ a, C.valid a ↔ D.valid a)
    (ops : List (A × List Nat)) (hops : ∀ p ∈ ops, C.valid p.1) :
    ∀ (s : C.St) (t : D.St), SameView C D s t → SameView C D (C.putAll s ops) (D.putAll t ops) := by
  induction ops with
  | nil => intro s t h; exact h
  | cons p rest ih =>
    intro s t h
    obtain ⟨a, v⟩ := p
    have ha : C.valid a := hops (a, v) (List.mem_cons_self ..)
    have ha' : D.valid a := (hv a).mp ha
    simp only [Container.putAll]
    apply ih (fun q hq => hops q (List.mem_cons_of_mem _ hq))
    intro b hb
    by_cases hab : a = b
    · subst hab
      rw [C.get_put_same s a v ha, D.get_put_same t a v ha']
    · rw [C.get_put_other s a b v ha hab, D.get_put_other t a b v ha' hab]
      exact h b hb

theorem write_sameView (C D : Container A R) (hv : ∀ a, C.valid a ↔ D.valid a) (unit : Nat)
    (r : R) (dat : List Nat) (hloc : C.locate r = D.locate r)
    (s : C.St) (t : D.St) (h : SameView C D s t) :
    SameView C D (C.write unit s r dat) (D.write unit t r dat) := by
  unfold Container.write
  rw [← hloc]
  cases hl : C.locate r with
  | none => exact h
  | some as =>
    apply putAll_sameView C D hv _ _ s t h
    intro p hp
    exact C.locate_valid r as hl p.1 (List.of_mem_zip hp).1

/-- **C07, all histories.** If two container formats have the same valid addresses, satisfy the
store laws, start from the same content, and locate every request of the history at the same
normal-form addresses, then after the history they hold the same content in every unit. -/
theorem same_view_after_any_history (C D : Container A R) (hv : ∀ a, C.valid a ↔ D.valid a) (unit : Nat)
    (hist : List (R × List Nat)) (hloc : ∀ op ∈ hist, C.locate op.1 = D.locate op.1) :
    ∀ (s : C.St) (t : D.St), SameView C D s t → SameView C D (C.run unit s hist) (D.run unit t hist) := by
  induction hist with
  | nil => intro s t h; exact h
  | cons op rest ih =>
    intro s t h
    obtain ⟨r, d⟩ := op
    simp only [Container.run]
    apply ih (fun o ho => hloc o (List.mem_cons_of_mem _ ho))
    exact write_sameView C D hv unit r d (hloc (r, d) (List.mem_cons_self ..)) s t h

/-- … hence every block / sector read returns the same bytes from both (or is refused by both). -/
theorem same_reads_after_any_history (C D : Container A R) (hv : ∀ a, C.valid a ↔ D.valid a) (unit : Nat)
    (hist : List (R × List Nat)) (hloc : ∀ op ∈ hist, C.locate op.1 = D.locate op.1)
    (s : C.St) (t : D.St) (h0 : SameView C D s t) (r : R) (hr : C.locate r = D.locate r) :
    C.read (C.run unit s hist) r = D.read (D.run unit t hist) r := by
  have h := same_view_after_any_history C D hv unit hist hloc s t h0
  unfold Container.read
  rw [← hr]
  cases hl : C.locate r with
  | none => rfl
  | some as =>
    simp only [Option.map_some]
    congr 2
    apply List.map_congr_left
    intro a ha
    exact h a (C.locate_valid r as hl a ha)

/-- the simplest store satisfying the laws: a function from addresses to unit contents.  Used for
non-vacuity examples: any address map can be put on top of it. -/
def funContainer [DecidableEq A] (valid : A → Prop) (locate : R → Option (List A))
    (hl : ∀ r as, locate r = some as → ∀ a ∈ as, valid a) : Container A R where
  St := A → List Nat
  valid := valid
  get := fun s a => s a
  put := fun s a v => fun b => if b = a then v else s b
  locate := locate
  get_put_same := by intro s a v _; simp
  get_put_other := by intro s a b v _ hab; simp [Ne.symm hab]
  locate_valid := hl

end A2Verif.C07
