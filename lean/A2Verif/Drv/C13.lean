import A2Verif.Model.Hex
import A2Verif.Model.Packing
import A2Verif.Model.PackText
import A2Verif.Model.PackRec
import A2Verif.Model.PackFs
/-! driver family `c13`: evaluates the packing model on the requests written by `harness/src/fam/c13.rs`
and renders the answer exactly as the harness renders what the real code did. -/
namespace A2Verif.Drv.C13
open A2Verif.Hex A2Verif.Packing

def fnv64 (bs : List Nat) : UInt64 :=
  bs.foldl (fun h b => (h ^^^ b.toUInt64) * 0x100000001b3) 0xcbf29ce484222325

def hex16 (v : UInt64) : String :=
  let n := v.toNat
  String.ofList ((List.range 16).map (fun i => hexDigit ((n / 16 ^ (15 - i)) % 16)))

def digest (b : List Nat) : String :=
  if b.length ≤ 24 then s!"{b.length}:{toHex b}" else s!"{b.length}:#{hex16 (fnv64 b)}"

def le8 (v : Nat) : List Nat := leBytes 8 v

def imgDigest (f : FImg) : String :=
  let canon := f.chunks.foldr (fun (p : Nat × Bytes) acc => le8 p.1 ++ le8 p.2.length ++ p.2 ++ acc) []
  s!"eof={toHex f.eof} typ={toHex f.fsType} aux={toHex f.aux} acc={toHex f.access} n={f.chunks.length} ch={digest canon}"

/-- literal hex, or `@len,a,b` (byte i = (a*i+b) mod 256) -/
def parseData (s : String) : Option (List Nat) :=
  if s.startsWith "@" then
    match ((s.drop 1).toString.splitOn ",").mapM (·.toNat?) with
    | some [len, a, b] => some ((List.range len).map (fun i => (a * i + b) % 256))
    | _ => none
  else ofHex s

def parseFs : String → Option Fs
  | "dos" => some .dos | "prodos" => some .prodos | "pascal" => some .pascal
  | "cpm" => some .cpm | "fat" => some .fat | _ => none

/-- fourth (optional) letter of the variant word: the Pascal text decoder (`p` panicking, `s` saturating) -/
def parsePas (s : String) : PasIndent :=
  match s.toList with
  | [_, _, _, 's'] => .saturating
  | _ => .panicking

def parseVariant (s : String) : Option Variant :=
  match s.toList.take 3 with
  | [a, b, c] =>
    match (if a = 'w' then some DosLen.wrapping else if a = 'c' then some DosLen.checked else none),
          (if b = 'w' then some EofLen.wrapping else if b = 'c' then some EofLen.checked else none),
          (if c = 'p' then some Deduce.panicking else if c = 't' then some Deduce.total else none) with
    | some x, some y, some z => some ⟨x, y, z⟩
    | _, _, _ => none
  | _ => none

/-- initial image: `eof/typ/aux/acc` of what the real `new_fimg` returned -/
def parseInit (fs : Fs) (chunk : Nat) (s : String) : Option FImg :=
  match (s.splitOn "/").mapM ofHex with
  | some [eof, typ, aux, acc] => some { newFimg fs chunk [] with eof := eof, fsType := typ, aux := aux, access := acc }
  | _ => none

def parseAddr (s : String) : Option (Option Nat) :=
  if s == "none" then some none else (s.toNat?).map some

def parseLang : String → Option Lang
  | "a" => some .applesoft | "i" => some .integer | "o" => some .other | _ => none

def resBytes : Res Bytes → String
  | .ok v => s!"ok:{digest v}"
  | .err => "err"
  | .panic => "panic"

def optNat : Option Nat → String
  | some v => toString v
  | none => "panic"

def hangs (f : FImg) : Bool := f.chunkLen == 0

/-- `k:hex,k:hex` (or `-`) -/
def parsePairs (s : String) : Option (List (Nat × Bytes)) :=
  if s == "-" then some [] else
  (s.splitOn ",").mapM (fun e =>
    match e.splitOn ":" with
    | [k, v] => match k.toNat?, ofHex v with
      | some k, some v => some (k, v)
      | _, _ => none
    | _ => none)

def renderPairs (m : List (Nat × Bytes)) : String :=
  if m.isEmpty then "-" else ",".intercalate (m.map (fun p => s!"{p.1}:{digest p.2}"))

/-- canonical text form of a JSON tree -/
partial def renderJ : J → String
  | .null => "z"
  | .str s => "s" ++ toHex s
  | .num n => "n" ++ toString n
  | .arr xs => "a[" ++ "|".intercalate (xs.map renderJ) ++ "]"
  | .obj kvs => "o{" ++ ",".intercalate (kvs.map (fun p => toHex p.1 ++ "=" ++ renderJ p.2)) ++ "}"

def isHexish (c : Char) : Bool := c.isDigit || ('A' ≤ c && c ≤ 'F') || c == '-'

mutual
partial def parseJ (cs : List Char) : Option (J × List Char) :=
  match cs with
  | 'z' :: r => some (.null, r)
  | 's' :: r =>
    let h := r.takeWhile isHexish
    (ofHex (String.ofList h)).map (fun b => (J.str b, r.dropWhile isHexish))
  | 'n' :: r =>
    let d := r.takeWhile Char.isDigit
    ((String.ofList d).toNat?).map (fun n => (J.num n, r.dropWhile Char.isDigit))
  | 'a' :: '[' :: r => parseArr r []
  | 'o' :: '{' :: r => parseObj r []
  | _ => none
partial def parseArr (cs : List Char) (acc : List J) : Option (J × List Char) :=
  match cs with
  | ']' :: r => some (.arr acc.reverse, r)
  | '|' :: r => parseArr r acc
  | _ => match parseJ cs with
    | some (v, r) => parseArr r (v :: acc)
    | none => none
partial def parseObj (cs : List Char) (acc : List (List Nat × J)) : Option (J × List Char) :=
  match cs with
  | '}' :: r => some (.obj acc.reverse, r)
  | ',' :: r => parseObj r acc
  | _ =>
    let h := cs.takeWhile isHexish
    match ofHex (String.ofList h), cs.dropWhile isHexish with
    | some k, '=' :: r =>
      match parseJ r with
      | some (v, r') => parseObj r' ((k, v) :: acc)
      | none => none
    | _, _ => none
end

def parseTree (s : String) : Option J :=
  match parseJ s.toList with
  | some (j, []) => some j
  | _ => none

def fullDigest (f : FImg) : String :=
  s!"ver={toHex f.fimgVersion} fs={toHex f.fileSystem} cl={f.chunkLen} {imgDigest f} accd={toHex f.accessed} cr={toHex f.created} md={toHex f.modified} vs={toHex f.version} mv={toHex f.minVersion} path={toHex f.fullPath}"

def renderAuto : Res Unpacked → String
  | .ok (.binary b) => s!"B:{digest b}"
  | .ok (.text t) => s!"T:{digest t}"
  | .ok (.records m) => s!"R:{renderPairs m}"
  | .err => "err"
  | .panic => "panic"

/-- everything the real code can be asked about an image that came back from a file system -/
def renderReturned (gv : RecGather) (pv : PasIndent) (fs : Fs) (h : FImg) (trunc : Bool) : String :=
  s!"ok {imgDigest h} la={loadAddrV fs h} bin={resBytes (unpackBinV fs h)} tok={resBytes (unpackTokV fs h)} txt={resBytes (unpackTxtV pv fs h)} raw={resBytes (unpackRawV fs h trunc)} auto={renderAuto (unpackAuto gv pv fs h)}"

def handle (toks : List String) : String :=
  match toks with
  | ["ret", fs, var, chunk, init, kind, data, a1, a2, tbits, tset, pad, round, acc, trunc, gv] =>
    -- pack (kind ∈ bin tok raw txt), decorate as the file system does, then every unpacker
    match parseFs fs, parseVariant var, chunk.toNat?, parseData data, ofHex tbits, parseData pad, round.toNat? with
    | some fs, some v, some n, some d, some tb, some pd, some rd =>
      match ofHex acc, trunc.toNat?, (if gv == "s" then some RecGather.strict else if gv == "z" then some RecGather.zeroFill else none),
            parseInit fs n init with
      | some ac, some tr, some gv, some f =>
        if hangs f then "hang" else
        let packed : Option (Res FImg) :=
          match kind with
          | "bin" => (match parseAddr a1, ofHex a2 with | some a, some t => some (packBin v fs f d a t) | _, _ => none)
          | "tok" => (match parseLang a1, ofHex a2 with | some l, some t => some (packTok v fs f d l t) | _, _ => none)
          | "raw" => some (packRaw v fs f d)
          | "txt" => some (packTxt v fs f d)
          | _ => none
        match packed with
        | some (.ok g) =>
          let dc : Deco := { typeBits := tb, typeSet := (if tset == "=" then none else ofHex tset), pad := pd, eofRound := rd, access := ac, version := g.version,
                             minVersion := g.minVersion, created := g.created, modified := g.modified,
                             accessed := g.accessed, fullPath := g.fullPath }
          renderReturned gv (parsePas var) fs (decorate fs dc g) (tr != 0)
        | some .err => "err"
        | some .panic => "panic"
        | none => "bad-request"
      | _, _, _, _ => "bad-request"
    | _, _, _, _, _, _, _ => "bad-request"
  | ["newfimg", fs] =>
    match parseFs fs with
    | some fs => let f := newFimg fs 256 []; s!"fs={toHex f.fileSystem} eof={toHex f.eof} aux={toHex f.aux}"
    | none => "bad-request"
  | ["bin", fs, var, chunk, init, data, addr, trailing] =>
    match parseFs fs, parseVariant var, chunk.toNat?, parseData data, parseAddr addr, ofHex trailing with
    | some fs, some v, some n, some d, some a, some t =>
      match parseInit fs n init with
      | some f =>
        if hangs f then "hang" else
        match packBin v fs f d a t with
        | .ok g => s!"ok {imgDigest g} la={optNat (loadAddr fs g)} un={resBytes (unpackBin fs g)}"
        | .err => "err"
        | .panic => "panic"
      | none => "bad-request"
    | _, _, _, _, _, _ => "bad-request"
  | ["tok", fs, var, chunk, init, data, lang, trailing] =>
    match parseFs fs, parseVariant var, chunk.toNat?, parseData data, parseLang lang, ofHex trailing with
    | some fs, some v, some n, some d, some l, some t =>
      match parseInit fs n init with
      | some f =>
        if hangs f then "hang" else
        match packTok v fs f d l t with
        | .ok g => s!"ok {imgDigest g} un={resBytes (unpackTok fs g)}"
        | .err => "err"
        | .panic => "panic"
      | none => "bad-request"
    | _, _, _, _, _, _ => "bad-request"
  | ["raw", fs, var, chunk, init, data, trunc] =>
    match parseFs fs, parseVariant var, chunk.toNat?, parseData data, trunc.toNat? with
    | some fs, some v, some n, some d, some tr =>
      match parseInit fs n init with
      | some f =>
        if hangs f then "hang" else
        match packRaw v fs f d with
        | .ok g => s!"ok {imgDigest g} un={resBytes (unpackRaw fs g (tr != 0))} seq={digest (sequence g)}"
        | .err => "err"
        | .panic => "panic"
      | none => "bad-request"
    | _, _, _, _, _ => "bad-request"
  | ["txt", fs, var, chunk, init, text] =>
    match parseFs fs, parseVariant var, chunk.toNat?, ofHex text with
    | some fs, some v, some n, some t =>
      match parseInit fs n init with
      | some f =>
        if hangs f then "hang" else
        match packTxt v fs f t with
        | .ok g => s!"ok {imgDigest g} un={resBytes (unpackTxtP (parsePas var) fs g)}"
        | .err => "err"
        | .panic => "panic"
      | none => "bad-request"
    | _, _, _, _ => "bad-request"
  | ["conv", fs, term, text] =>
    match parseFs fs, ofHex term, ofHex text with
    | some fs, some tm, some t =>
      let r : Res Bytes := match fs with
        | .dos => (match dosFromUtf8 tm t with | some b => .ok b | none => .err)
        | .prodos => (match prodosFromUtf8 tm t with | some b => .ok b | none => .err)
        | .pascal => pasFromUtf8 tm t
        | .cpm | .fat => (match cpmFromUtf8 tm t with | some b => .ok b | none => .err)
      resBytes r
    | _, _, _ => "bad-request"
  | "toutf8" :: fs :: src :: pvs =>
    match parseFs fs, ofHex src with
    | some fs, some b =>
      let r : Res Bytes := match fs with
        | .dos => .ok (dosToUtf8 b)
        | .prodos => .ok (prodosToUtf8 b)
        | .pascal =>
          if pvs == ["s"] then .ok (pasToLoopSat false b)
          else (match pasToUtf8 b with | some x => .ok x | none => .panic)
        | .cpm | .fat => .ok (cpmToUtf8 b)
      resBytes r
    | _, _ => "bad-request"
  | ["esc", bs, cc, inv, src] =>
    match bs.toNat?, cc.toNat?, inv.toNat?, ofHex src with
    | some e, some c, some i, some b => digest (escapeBytes (e != 0) (c != 0) (i != 0) b)
    | _, _, _, _ => "bad-request"
  | ["unesc", inv, caps, src] =>
    match inv.toNat?, caps.toNat?, ofHex src with
    | some i, some c, some b => digest (parseEscaped (i != 0) (c != 0) b)
    | _, _, _ => "bad-request"
  | ["rec", gv, fs, chunk, init, recLen, recs, unLen] =>
    match (if gv == "s" then some RecGather.strict else if gv == "z" then some RecGather.zeroFill else none),
          parseFs fs, chunk.toNat?, recLen.toNat?, parsePairs recs, parseAddr unLen with
    | some gv, some fs, some n, some rl, some rs, some ul =>
      match parseInit fs n init with
      | some f =>
        match packRec fs f rl rs with
        | .ok g =>
          let un := match unpackRec gv fs g ul with
            | .ok m => "ok:" ++ renderPairs m
            | .err => "err"
            | .panic => "panic"
          s!"ok {imgDigest g} un={un}"
        | .err => "err"
        | .panic => "panic"
      | none => "bad-request"
    | _, _, _, _, _, _ => "bad-request"
  | "reuse" :: fs :: var :: chunk :: init :: kind :: args =>
    match parseFs fs, parseVariant var, chunk.toNat?, (if var.length == 3 || var.length == 4 then some () else none) with
    | some fs, some v, some n, some _ =>
      match parseInit fs n init with
      | some f =>
        if hangs f then "hang" else
        let fin : Res FImg → (FImg → String) → String := fun r k =>
          match r with | .ok g => k g | .err => "err" | .panic => "panic"
        match kind, args with
        | "bin", [da, aa, db, ab] =>
          match parseData da, parseAddr aa, parseData db, parseAddr ab with
          | some da, some aa, some db, some ab =>
            match packBin v fs f da aa [] with
            | .ok g1 => fin (packBin v fs g1 db ab []) (fun g =>
                s!"ok {imgDigest g} la={optNat (loadAddr fs g)} un={resBytes (unpackBin fs g)}")
            | _ => "errA"
          | _, _, _, _ => "bad-request"
        | "raw", [da, db] =>
          match parseData da, parseData db with
          | some da, some db =>
            match packRaw v fs f da with
            | .ok g1 => fin (packRaw v fs g1 db) (fun g =>
                s!"ok {imgDigest g} un={resBytes (unpackRaw fs g false)} seq={digest (sequence g)}")
            | _ => "errA"
          | _, _ => "bad-request"
        | "txt", [ta, tb] =>
          match ofHex ta, ofHex tb with
          | some ta, some tb =>
            match packTxt v fs f ta with
            | .ok g1 => fin (packTxt v fs g1 tb) (fun g => s!"ok {imgDigest g} un={resBytes (unpackTxtP (parsePas var) fs g)}")
            | _ => "errA"
          | _, _ => "bad-request"
        | "tok", [l, da, db] =>
          match parseLang l, parseData da, parseData db with
          | some l, some da, some db =>
            match packTok v fs f da l [] with
            | .ok g1 => fin (packTok v fs g1 db l []) (fun g => s!"ok {imgDigest g} un={resBytes (unpackTok fs g)}")
            | _ => "errA"
          | _, _, _ => "bad-request"
        | "rec", [gv, la, ra, lb, rb] =>
          match (if gv == "s" then some RecGather.strict else if gv == "z" then some RecGather.zeroFill else none),
                la.toNat?, parsePairs ra, lb.toNat?, parsePairs rb with
          | some gv, some la, some ra, some lb, some rb =>
            match packRec fs f la ra with
            | .ok g1 => fin (packRec fs g1 lb rb) (fun g =>
                let un := match unpackRec gv fs g (some lb) with
                  | .ok m => "ok:" ++ renderPairs m
                  | .err => "err"
                  | .panic => "panic"
                s!"ok {imgDigest g} un={un}")
            | _ => "errA"
          | _, _, _, _, _ => "bad-request"
        | _, _ => "bad-request"
      | none => "bad-request"
    | _, _, _, _ => "bad-request"
  | ["fimg2json", jc, ver, fsn, cl, eof, typ, aux, acc, accd, cr, md, vs, mv, path, chunks] =>
    match ofHex ver, ofHex fsn, cl.toNat?, ofHex eof, ofHex typ, ofHex aux, ofHex acc with
    | some ver, some fsn, some cl, some eof, some typ, some aux, some acc =>
      match ofHex accd, ofHex cr, ofHex md, ofHex vs, ofHex mv, ofHex path, parsePairs chunks with
      | some accd, some cr, some md, some vs, some mv, some path, some cs =>
        let f : FImg := { fimgVersion := ver, fileSystem := fsn, chunkLen := cl, eof := eof, fsType := typ, aux := aux,
                          access := acc, accessed := accd, created := cr, modified := md, version := vs,
                          minVersion := mv, fullPath := path, chunks := cs }
        let j := fimgToJson f
        let back := match fimgFromJson (if jc == "b" then JsonChk.bounded else JsonChk.legacy) j with
          | .ok g => if g == f then "same" else "differs"
          | .err => "err"
          | .panic => "panic"
        s!"{digest ((renderJ j).toList.map Char.toNat)} back={back}"
      | _, _, _, _, _, _, _ => "bad-request"
    | _, _, _, _, _, _, _ => "bad-request"
  | ["json2fimg", jc, tree] =>
    match parseTree tree with
    | some j =>
      match fimgFromJson (if jc == "b" then JsonChk.bounded else JsonChk.legacy) j with
      | .ok g => "ok " ++ fullDigest g
      | .err => "err"
      | .panic => "panic"
    | none => "bad-request"
  | ["recs2json", recLen, recs] =>
    match recLen.toNat?, parsePairs recs with
    | some rl, some rs =>
      let j := recsToJson rl rs
      let back := match recsFromJson j with
        | .ok (l, m) => if l == rl && m == rs then "same" else "differs"
        | .err => "err"
        | .panic => "panic"
      s!"{digest ((renderJ j).toList.map Char.toNat)} back={back}"
    | _, _ => "bad-request"
  | ["json2recs", tree] =>
    match parseTree tree with
    | some j =>
      match recsFromJson j with
      | .ok (l, m) => s!"ok len={l} {renderPairs m}"
      | .err => "err"
      | .panic => "panic"
    | none => "bad-request"
  | _ => "bad-request"

end A2Verif.Drv.C13
