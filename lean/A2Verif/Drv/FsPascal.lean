import A2Verif.Model.Hex
import A2Verif.Model.Fs.Pascal
/-!
Driver family `fsp` (stateful): the byte-exact tie of the concrete Pascal model (`Model/Fs/Pascal.lean`).

The harness mirrors the real saved image into the driver with `fs set` (state of family `fs`, passed in
here as `mirror`).  For a Pascal volume on a flat `PO` container it additionally sends every operation,
with its arguments and the result class the real code reported, to this family.  The model applies the
operation to **its own** image; the answer is `ok` iff the model's result class equals the real one and the
model's image equals the mirror unit for unit, otherwise the first difference.  After a disagreement the
model image is re-synchronised with the mirror so that one defect is reported once.

  fsp format <volname> <fill> <date> <real>              → ok | bad …      (blocks 0,1 — boot code — are taken from the mirror)
  fsp put <name> <ftype> <eof> <date> <real> <chunks>    → ok | bad …      chunks: `i:hex,…` (`i:-` = data omitted)
  fsp delete <name> <real>                               → ok | bad …
  fsp rename <old> <new> <real>                          → ok | bad …
  fsp retype <name> <code|none> <real>                   → ok | bad …
  fsp get <name>                                         → ok <ftype> <eof> <nchunks> <adler> | err:<class>
  fsp free                                               → ok <n> | err:<class>
  fsp q                                                  → ok <free> <name>:<blocks>:<type>,… | err:<class>   (free + cat)
  fsp cat                                                → ok <name>:<blocks>:<type>,… | err:<class>

`<real>` is `ok` or `err:<class>` with the classes of `Err.token`.  Names and dates are hex.
-/
namespace A2Verif.Drv.FsPascal
open A2Verif.Fs.Pascal

structure St where
  raw : Raw := { unitLen := 512, units := #[] }
  deriving Inhabited

def eqBytes : List Nat → List Nat → Bool
  | [], [] => true
  | x :: xs, y :: ys => x == y && eqBytes xs ys
  | _, _ => false

/-- index of the first unit in which the two images differ, from `i` on (`fuel` = units left) -/
def diffFrom (a b : Array Bytes) : Nat → Nat → Option Nat
  | 0, _ => none
  | fuel + 1, i =>
    match a[i]?, b[i]? with
    | some x, some y => if eqBytes x y then diffFrom a b fuel (i + 1) else some i
    | none, none => none
    | _, _ => some i

def firstDiff (a b : Raw) : Option Nat :=
  if a.units.size ≠ b.units.size then some (min a.units.size b.units.size)
  else diffFrom a.units b.units a.units.size 0

def resTok {α : Type} (r : R α) : String :=
  match r with
  | .ok _ => "ok"
  | .error e => s!"err:{e.token}"

/-- compare result class and image; on disagreement adopt the mirror -/
def verdict (mirror : Raw) (real : String) (model : String) (r' : Raw) : St × String :=
  if model ≠ real then ({ raw := mirror }, s!"bad result model={model} real={real}")
  else match firstDiff r' mirror with
    | some i => ({ raw := mirror }, s!"bad block {i}")
    -- equal unit for unit: keep the mirror (shares its units with family `fs`; a second copy of the image in
    -- memory measurably slows every later request of the driver)
    | none => ({ raw := mirror }, "ok")

def parseChunks (s : String) : Option (List (Nat × Bytes)) :=
  if s == "-" then some [] else
  (s.splitOn ",").mapM (fun it => match it.splitOn ":" with
    | [i, h] => match i.toNat?, Hex.ofHex h with
      | some n, some b => some (n, b)
      | _, _ => none
    | _ => none)

def adler (bs : List Bytes) : Nat :=
  let (a, b) := bs.foldl (fun (s : Nat × Nat) blk => blk.foldl (fun (s : Nat × Nat) x => let a := (s.1 + x) % 65521; (a, (s.2 + a) % 65521)) s) (1, 0)
  b * 65536 + a

def handle (mirror : Raw) (st : St) (toks : List String) : St × String :=
  match toks with
  | ["format", vn, fill, date, real] =>
    match Hex.ofHex vn, fill.toNat?, Hex.ofHex date with
    | some vn, some fill, some date =>
      let blank : Raw := { unitLen := 512, units := Array.replicate mirror.units.size (List.replicate 512 0) }
      let (res, r') := format blank vn fill date (mirror.units[0]?.getD []) (mirror.units[1]?.getD [])
      verdict mirror real (resTok res) r'
    | _, _, _ => (st, "bad-request")
  | ["put", name, ftype, eof, date, real, cs] =>
    match Hex.ofHex name, ftype.toNat?, eof.toNat?, Hex.ofHex date, parseChunks cs with
    | some name, some ftype, some eof, some date, some cs =>
      let (res, r') := put st.raw { fullPath := name, fsType := ftype, eof := eof, chunks := cs } date
      verdict mirror real (resTok res) r'
    | _, _, _, _, _ => (st, "bad-request")
  | ["delete", name, real] =>
    match Hex.ofHex name with
    | some name => let (res, r') := delete st.raw name; verdict mirror real (resTok res) r'
    | none => (st, "bad-request")
  | ["rename", old, new, real] =>
    match Hex.ofHex old, Hex.ofHex new with
    | some old, some new => let (res, r') := rename st.raw old new; verdict mirror real (resTok res) r'
    | _, _ => (st, "bad-request")
  | ["retype", name, code, real] =>
    match Hex.ofHex name with
    | some name =>
      let ty : Option Nat := if code == "none" then none else code.toNat?
      let (res, r') := retype st.raw name ty
      verdict mirror real (resTok res) r'
    | none => (st, "bad-request")
  | ["get", name] =>
    match Hex.ofHex name with
    | some name =>
      match get st.raw name with
      | .ok g => (st, s!"ok {g.fsType} {g.eof} {g.chunks.length} {adler (g.chunks.map (·.2))}")
      | .error e => (st, s!"err:{e.token}")
    | none => (st, "bad-request")
  | ["free"] =>
    match statFree st.raw with
    | .ok n => (st, s!"ok {n}")
    | .error e => (st, s!"err:{e.token}")
  | ["q"] =>
    -- free count and catalog in one round trip
    match statFree st.raw, catalog st.raw with
    | .ok n, .ok rows => (st, s!"ok {n} " ++ (if rows.isEmpty then "-" else ",".intercalate (rows.map (fun (n, b, t) => s!"{Hex.toHex n}:{b}:{t}"))))
    | .error e, _ => (st, s!"err:{e.token}")
    | _, .error e => (st, s!"err:{e.token}")
  | ["cat"] =>
    match catalog st.raw with
    | .ok rows => (st, "ok " ++ (if rows.isEmpty then "-" else ",".intercalate (rows.map (fun (n, b, t) => s!"{Hex.toHex n}:{b}:{t}"))))
    | .error e => (st, s!"err:{e.token}")
  | _ => (st, "bad-request")

end A2Verif.Drv.FsPascal
