import A2Verif.Model.Hex
import A2Verif.Model.Fs.Dos3x
/-!
Driver family `fsd` (stateful): the byte-exact tie of the concrete DOS 3.x model (`Model/Fs/Dos3x.lean`).

The harness mirrors the real saved image (taken with `get_img().to_bytes()`, i.e. after the VTOC buffer has
been written back) into the driver with `fs set` (state of family `fs`, passed in here as `mirror`).  For a
DOS 3.3 / 3.2 volume on a flat `DO` / `D13` container it additionally sends every operation, with its arguments
and the result class the real code reported, to this family.  The model applies the operation to **its own**
disk (image + VTOC buffer) and flushes the buffer as `get_img` does; the answer is `ok` iff the model's result
class equals the real one and the flushed image equals the mirror unit for unit, otherwise the first
difference.  Afterwards the model adopts the mirror (one defect is reported once; the buffer is the first 196
bytes of the mirrored VTOC sector, which is what the real buffer holds after a write-back).

  fsd variant <slotFirst> <chunkGuard>          → ok              (0/1 each: which repairs the real source contains, probed by
                                                                  the harness, `harness/src/fam/fs_dos.rs`; until it is sent
                                                                  the source as written at the pinned commit is modelled)
  fsd init <spt> <vol> <real>                   → ok | bad …      (blank image of the mirror's size)
  fsd put <name> <fstype-hex> <real> <chunks>   → ok | bad …      chunks: `i:hex,…` (`i:-` = data omitted)
  fsd delete <name> <real>                      → ok | bad …
  fsd rename <old> <new> <real>                 → ok | bad …
  fsd lock <name> <real> | fsd unlock <name> <real>
  fsd retype <name> <code|none> <real>          → ok | bad …
  fsd get <name>                                → ok <type> <nchunks> <adler> | err:<class>
  fsd free                                      → ok <n> | err:<class>
  fsd cat                                       → ok <name>:<sectors>:<label>,… | err:<class>

`<real>` is `ok` or `err:<class>` with the classes of `Err.token`.  Names are hex.
-/
namespace A2Verif.Drv.FsDos
open A2Verif.Fs.Dos3x

structure St where
  disk : Disk := { raw := { unitLen := 256, units := #[] }, c := 16, vtoc := none }
  /-- the variant of the source the real code was probed to be (`fsd variant`) -/
  rp : Repairs := {}
  deriving Inhabited

def eqBytes : List Nat → List Nat → Bool
  | [], [] => true
  | x :: xs, y :: ys => x == y && eqBytes xs ys
  | _, _ => false

/-- index of the first unit in which the two images differ, from `i` on (`fuel` = units left) -/
def diffFrom (a b : Array Bytes) : Nat → Nat → Option Nat
  | 0, _ => none
  | fuel + 1, i =>
    match a[i]?, b[i]? with
    | some x, some y => if eqBytes x y then diffFrom a b fuel (i + 1) else some i
    | none, none => none
    | _, _ => some i

def firstDiff (a b : Raw) : Option Nat :=
  if a.units.size ≠ b.units.size then some (min a.units.size b.units.size)
  else diffFrom a.units b.units a.units.size 0

def resTok {α : Type} (r : R α) : String :=
  match r with
  | .ok _ => "ok"
  | .error e => s!"err:{e.token}"

/-- the disk the real object is in after `get_img()`: the mirrored image, buffer = its VTOC sector -/
def adopt (c : Nat) (mirror : Raw) : Disk :=
  { raw := mirror, c := c, vtoc := (mirror.units[vtocTrack * c]?).map (·.take vtocLen) }

/-- compare result class and flushed image; adopt the mirror -/
def verdict {α : Type} (st : St) (mirror : Raw) (real : String) (out : R α × Disk) : St × String :=
  let (res, d') := out
  let st' : St := { st with disk := adopt d'.c mirror }
  if resTok res ≠ real then (st', s!"bad result model={resTok res} real={real}")
  else match d'.flush with
    | .error e => (st', s!"bad flush {e.token}")
    | .ok r' =>
      match firstDiff r' mirror with
      | some i => (st', s!"bad sector {i} (track {i / d'.c} sector {i % d'.c})")
      | none => (st', "ok")

def parseChunks (s : String) : Option (List (Nat × Bytes)) :=
  if s == "-" then some [] else
  (s.splitOn ",").mapM (fun it => match it.splitOn ":" with
    | [i, h] => match i.toNat?, Hex.ofHex h with
      | some n, some b => some (n, b)
      | _, _ => none
    | _ => none)

/-- Adler-32 over (index low, index high, data…) of every chunk -/
def adler (cs : List (Nat × Bytes)) : Nat :=
  let step := fun (s : Nat × Nat) (x : Nat) => let a := (s.1 + x) % 65521; (a, (s.2 + a) % 65521)
  let (a, b) := cs.foldl (fun s c => c.2.foldl step (step (step s (c.1 % 256)) (c.1 / 256 % 256))) (1, 0)
  b * 65536 + a

/-- the type column of `catalog_to_vec` -/
def typeLabel (t : Nat) : String :=
  if t = 0 ∨ t = 128 then "TXT" else if t = 1 ∨ t = 129 then "INT" else if t = 2 ∨ t = 130 then "BAS"
  else if t = 4 ∨ t = 132 then "BIN" else "$" ++ Hex.toHex [t]

def bit (s : String) : Option Bool := if s == "1" then some true else if s == "0" then some false else none

def handle (mirror : Raw) (st : St) (toks : List String) : St × String :=
  match toks with
  | ["variant", a, b] =>
    match bit a, bit b with
    | some a, some b => ({ st with rp := { slotFirst := a, chunkGuard := b } }, "ok")
    | _, _ => (st, "bad-request")
  | ["init", spt, vol, real] =>
    match spt.toNat?, vol.toNat? with
    | some spt, some vol =>
      let blank : Disk := { raw := { unitLen := 256, units := Array.replicate mirror.units.size (List.replicate 256 0) }, c := spt, vtoc := none }
      verdict st mirror real (init blank vol spt)
    | _, _ => (st, "bad-request")
  | ["put", name, fstype, real, cs] =>
    match Hex.ofHex name, Hex.ofHex fstype, parseChunks cs with
    | some name, some fstype, some cs => verdict st mirror real (put st.disk { fullPath := name, fsType := fstype, chunks := cs } st.rp)
    | _, _, _ => (st, "bad-request")
  | ["delete", name, real] =>
    match Hex.ofHex name with
    | some name => verdict st mirror real (delete st.disk name)
    | none => (st, "bad-request")
  | ["rename", old, new, real] =>
    match Hex.ofHex old, Hex.ofHex new with
    | some old, some new => verdict st mirror real (rename st.disk old new)
    | _, _ => (st, "bad-request")
  | ["lock", name, real] =>
    match Hex.ofHex name with
    | some name => verdict st mirror real (lock st.disk name)
    | none => (st, "bad-request")
  | ["unlock", name, real] =>
    match Hex.ofHex name with
    | some name => verdict st mirror real (unlock st.disk name)
    | none => (st, "bad-request")
  | ["retype", name, code, real] =>
    match Hex.ofHex name with
    | some name =>
      let ty : Option Nat := if code == "none" then none else code.toNat?
      verdict st mirror real (retype st.disk name ty)
    | none => (st, "bad-request")
  | ["get", name] =>
    match Hex.ofHex name with
    | some name =>
      match (get st.disk name).1 with
      | .ok g => (st, s!"ok {g.fsType} {g.chunks.length} {adler g.chunks}")
      | .error e => (st, s!"err:{e.token}")
    | none => (st, "bad-request")
  | ["free"] =>
    match (statFree st.disk).1 with
    | .ok n => (st, s!"ok {n}")
    | .error e => (st, s!"err:{e.token}")
  | ["cat"] =>
    match (catalog st.disk).1 with
    | .ok rows => (st, "ok " ++ (if rows.isEmpty then "-" else ",".intercalate (rows.map (fun (n, b, t) => s!"{Hex.toHex n}:{b}:{typeLabel t}"))))
    | .error e => (st, s!"err:{e.token}")
  | _ => (st, "bad-request")

end A2Verif.Drv.FsDos
