import A2Verif.Model.Hex
import A2Verif.Model.Renumber
/-!
driver family `c16`

* `c16 renum <maxNum> <flags> <beg> <end> <first> <step> <src-hex> <defs> <refs>` →
  `ok <hex>` | `err` | `panic` — `Model.Renumber.renumber` (the code with the proposed fix);
  `c16 renum-legacy …` the same for `renumberLegacy` (HEAD: empty selection = whole document)
* `c16 labelsok <src-hex> <defs> <refs>` → `true` | `false` — `Model.Renumber.labelsOK`

`<defs>`/`<refs>`: `-` or `;`-separated entries `num,sl,sc,el,ec,lead,trail` in gather order.
-/
namespace A2Verif.Drv.C16
open A2Verif.Model.Renumber

def parseLabel (s : String) : Option (Nat × Label) :=
  match (s.splitOn ",").mapM (·.toNat?) with
  | some [n, sl, sc, el, ec, ld, tr] => some (n, ⟨⟨⟨sl, sc⟩, ⟨el, ec⟩⟩, ld, tr⟩)
  | _ => none

def parseLabels (s : String) : Option (List (Nat × Label)) :=
  if s == "-" then some [] else (s.splitOn ";").mapM parseLabel

def showRes : Res (List Nat) → String
  | .ok t => "ok " ++ A2Verif.Hex.toHex t
  | .err => "err"
  | .panic => "panic"

def handle (toks : List String) : String :=
  match toks with
  | [op, maxNum, flags, beg, end_, first, step, src, defs, refs] =>
    if op != "renum" && op != "renum-legacy" then "bad-request" else
    match maxNum.toNat?, flags.toNat?, beg.toNat?, end_.toNat?, first.toNat?, step.toNat?,
          A2Verif.Hex.ofHex src, parseLabels defs, parseLabels refs with
    | some maxNum, some flags, some beg, some end_, some first, some step, some src, some defs, some refs =>
      showRes (renumberWith (op == "renum-legacy") { src, defs, refs, beg, end_, first, step, flags, maxNum })
    | _, _, _, _, _, _, _, _, _ => "bad-request"
  | ["labelsok", src, defs, refs] =>
    match A2Verif.Hex.ofHex src, parseLabels defs, parseLabels refs with
    | some src, some defs, some refs => toString (labelsOK src defs refs)
    | _, _, _ => "bad-request"
  | _ => "bad-request"

end A2Verif.Drv.C16
