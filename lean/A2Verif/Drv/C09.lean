import A2Verif.Model.Hex
import A2Verif.Model.C09Crc
import A2Verif.Model.C09Imd
import A2Verif.Model.C09Td0
import A2Verif.Model.C09Dot2mg
import A2Verif.Model.C09Woz
import A2Verif.Model.C09Meta
import A2Verif.Drv.C08Img
/-!
Driver family `c09`.  Requests (blank separated tokens, bytes as hex, empty = `-`):

* `c09 crc32 <hex>`                      → decimal CRC-32 of the bytes (seed 0) | `panic`
* `c09 crc16 <hex>`                      → decimal TD0 CRC-16 of the bytes (seed 0)
* `c09 td0pack <shift> <hex>`            → hex of the sector record | `err`
* `c09 td0unpack <shift> <hex>`          → hex of the sector content | `err`
* `c09 imdcompress <shift> <n> <hex>`    → hex | `panic`      (`Track::compress` on a track buffer)
* `c09 imdexpand <shift> <n> <hex>`      → hex | `panic`
* `c09 imdrecompress <shift> <n> <hex>`  → hex of `compress (expand buf)` | `panic`  (what load + save makes of a stored track)
* `c09 imdimg <hdr> <comment> <ntrk> {<mode> <cyl> <head> <nsec> <shift> <smap> <cmap> <hmap> <sec>*nsec}*`
     with `<sec>` = `N` (code 0) | `U<code>:<byte>` (uniform sector) | `R<code>:<hex>`
                                          → `<hex of toBytes> <rt>` where `<rt>` = `rt-ok` iff the model's
                                            `fromBytes (toBytes x) = x` on this image | `panic`
* `c09 td0img <hdr8> <comment|none> <ntrk> {<nsec> <cyl> <head> {<c> <h> <id> <shift> <flags> <crc> <datahex>}*nsec}*`
     with `<comment>` = `<stamp6hex>:<texthex>`
                                          → `<hex of toBytesNormal> <rt>`
* `c09 mgfinal <hdr64> <commentlen> <creatorlen>` → hex of the header `to_bytes` writes | `bad-request`
* `c09 woz2save <hex>`                   → `<offset after load> <offset after to_bytes> <length> <crc field> stable|unstable reparse-ok|…`
                                            of the WOZ2 object model (`fromBytes2`, `toBytes2` twice) | `err` | `panic`
* `c09 metaput <type> </key/path> <hex of the UTF-8 value>` → `refused` | `skipped` (read-only) | `ok <hex of the leaf get_metadata shows>`
* `c09 imdseq <hex file> <ops>`, `c09 td0seq <hex file> <ops>` → op sequences (sector writes, metadata edits, save,
                                            reload) on a loaded image, see `Drv/C08Img.lean`
* `c09 mgforeign <file> <vc:0|1> <vr:0|1> <fixLen:0|1>` → `from_bytes` of a 2MG file another program wrote, then `to_bytes`: `err` |
                                            `<hex of the 64 header bytes saved> <length saved> <fnv1a-64 of the bytes saved>`;
                                            `<file>` = `,`-separated pieces, each hex or `z<n>` (n zero bytes); `vc`/`vr` =
                                            the comment / creator extent is valid UTF-8; `fixLen` = the tree resets the
                                            header-length field on save (probed by the harness)
* `c09 wozchunks <hex>`                  → chunk walk of `get_next_chunk` from offset 12:
                                            `<id>@<ptr>+<size>[!]` … (`!` = unknown id)
-/
namespace A2Verif.Drv.C09
open A2Verif.Hex A2Verif.Model

/-- tail recursive hex decoder (images are hundreds of kilobytes) -/
def ofHexFast (s : String) : Option (List Nat) :=
  if s == "-" then some [] else
  let rec go (cs : List Char) (acc : List Nat) : Option (List Nat) :=
    match cs with
    | [] => some acc.reverse
    | [_] => none
    | a :: b :: rest =>
      match hexVal a, hexVal b with
      | some x, some y => go rest ((16 * x + y) :: acc)
      | _, _ => none
  go s.toList []

def toHexFast (bs : List Nat) : String :=
  if bs.isEmpty then "-" else
  String.ofList (bs.foldr (fun b acc => hexDigit ((b / 16) % 16) :: hexDigit (b % 16) :: acc) [])

def optHex : Option (List Nat) → String → String
  | some bs, _ => toHexFast bs
  | none, dflt => dflt

/-- parse one IMD sector description -/
def parseSec (shift : Nat) (tok : String) : Option (List Nat) :=
  if tok == "N" then some [0] else
  match tok.splitOn ":" with
  | [k, v] =>
    match k.toList with
    | 'U' :: c =>
      match (String.ofList c).toNat?, ofHexFast v with
      | some code, some [b] => some (code :: List.replicate (C09Imd.secSize shift) b)
      | _, _ => none
    | 'R' :: c =>
      match (String.ofList c).toNat?, ofHexFast v with
      | some code, some bs => some (code :: bs)
      | _, _ => none
    | _ => none
  | _ => none

def parseSecs (shift : Nat) : Nat → List String → Option (List Nat × List String)
  | 0, toks => some ([], toks)
  | n + 1, toks =>
    match toks with
    | [] => none
    | t :: rest =>
      match parseSec shift t, parseSecs shift n rest with
      | some s, some (b, r) => some (s ++ b, r)
      | _, _ => none

def parseImdTracks : Nat → List String → Option (List C09Imd.Track)
  | 0, [] => some []
  | 0, _ => none
  | n + 1, mode :: cyl :: head :: nsec :: shift :: smap :: cmap :: hmap :: rest =>
    match mode.toNat?, cyl.toNat?, head.toNat?, nsec.toNat?, shift.toNat?, ofHexFast smap, ofHexFast cmap, ofHexFast hmap with
    | some m, some c, some h, some ns, some sh, some sm, some cm, some hm =>
      match parseSecs sh ns rest with
      | some (buf, rest') =>
        match parseImdTracks n rest' with
        | some ts => some ({ mode := m, cylinder := c, head := h, sectors := ns, shift := sh, sectorMap := sm,
                             cylMap := cm, headMap := hm, buf := buf } :: ts)
        | none => none
      | none => none
    | _, _, _, _, _, _, _, _ => none
  | _, _ => none

def imdImg (toks : List String) : String :=
  match toks with
  | hdr :: com :: ntrk :: rest =>
    match ofHexFast hdr, ofHexFast com, ntrk.toNat? with
    | some h, some c, some n =>
      match parseImdTracks n rest with
      | some ts =>
        let x : C09Imd.Image := { header := h, comment := c, tracks := ts }
        match C09Imd.toBytes x with
        | some bs =>
          let rt := match C09Imd.fromBytes bs with
            | some (some y) => if y = x then "rt-ok" else "rt-differs"
            | some none => "rt-err"
            | none => "rt-panic"
          toHexFast bs ++ " " ++ rt
        | none => "panic"
      | none => "bad-request"
    | _, _, _ => "bad-request"
  | _ => "bad-request"

def parseTd0Secs : Nat → List String → Option (List C09Td0.Sector × List String)
  | 0, toks => some ([], toks)
  | n + 1, c :: h :: i :: sh :: fl :: crc :: dat :: rest =>
    match c.toNat?, h.toNat?, i.toNat?, sh.toNat?, fl.toNat?, crc.toNat?, ofHexFast dat with
    | some c, some h, some i, some sh, some fl, some crc, some d =>
      match parseTd0Secs n rest with
      | some (ss, r) => some ({ cyl := c, head := h, id := i, shift := sh, flags := fl, crc := crc, data := d } :: ss, r)
      | none => none
    | _, _, _, _, _, _, _ => none
  | _, _ => none

def parseTd0Tracks : Nat → List String → Option (List C09Td0.Track)
  | 0, [] => some []
  | 0, _ => none
  | n + 1, nsec :: cyl :: head :: rest =>
    match nsec.toNat?, cyl.toNat?, head.toNat? with
    | some ns, some c, some h =>
      match parseTd0Secs ns rest with
      | some (ss, rest') =>
        match parseTd0Tracks n rest' with
        | some ts => some ({ nsec := ns, cyl := c, head := h, crc := 0, sectors := ss } :: ts)
        | none => none
      | none => none
    | _, _, _ => none
  | _, _ => none

def td0Img (toks : List String) : String :=
  match toks with
  | hdr :: com :: ntrk :: rest =>
    let comment : Option (Option C09Td0.Comment) :=
      if com == "none" then some none else
      match com.splitOn ":" with
      | [st, tx] =>
        match ofHexFast st, ofHexFast tx with
        | some s, some t =>
          -- the request carries the notes as held in memory (decoded)
          some (some { crc := [0, 0], len := [0, 0], stamp := s, text := t })
        | _, _ => none
      | _ => none
    match ofHexFast hdr, comment, ntrk.toNat? with
    | some h, some c, some n =>
      match parseTd0Tracks n rest with
      | some ts =>
        let x : C09Td0.Image := { hdr := h, hcrc := [0, 0], comment := c, tracks := ts }
        let bs := C09Td0.toBytesNormal x
        let rt := match C09Td0.fromBytesNormal bs with
          | some y => if y = C09Td0.canon x ∧ C09Td0.toBytesNormal y = bs then "rt-ok" else "rt-differs"
          | none => "rt-err"
        toHexFast bs ++ " " ++ rt
      | none => "bad-request"
    | _, _, _ => "bad-request"
  | _ => "bad-request"

/-- a file as `,`-separated pieces: hex, or `z<n>` for `n` zero bytes -/
def ofPieces (s : String) : Option (List Nat) :=
  (s.splitOn ",").foldr (fun p acc =>
    match acc with
    | none => none
    | some rest =>
      match p.toList with
      | 'z' :: n => (String.ofList n).toNat?.map (fun k => List.replicate k 0 ++ rest)
      | _ => (ofHexFast p).map (· ++ rest)) (some [])

def handle (toks : List String) : String :=
  match toks with
  | ["mgforeign", f, vc, vr, fx] =>
    match ofPieces f with
    | some bs =>
      match C09Dot2mg.fromBytesV (vc == "1") (vr == "1") bs with
      | some x =>
        let b := C09Dot2mg.toBytesF (fx == "1") x
        s!"{toHexFast (b.take 64)} {b.length} {C08Img.fnv b}"
      | none => "err"
    | none => "bad-request"
  | ["crc32", h] =>
    match ofHexFast h with
    | some bs => match C09Crc.crc32 0 bs with
      | some c => toString c
      | none => "panic"
    | none => "bad-request"
  | ["crc16", h] =>
    match ofHexFast h with
    | some bs => toString (C09Crc.crc16 0 bs)
    | none => "bad-request"
  | ["td0pack", sh, h] =>
    match sh.toNat?, ofHexFast h with
    | some s, some bs => optHex (C09Td0.pack s bs) "err"
    | _, _ => "bad-request"
  | ["td0unpack", sh, h] =>
    match sh.toNat?, ofHexFast h with
    | some s, some bs => optHex (C09Td0.unpack s bs) "err"
    | _, _ => "bad-request"
  | ["imdcompress", sh, n, h] =>
    match sh.toNat?, n.toNat?, ofHexFast h with
    | some s, some n, some bs => optHex (C09Imd.compressGo s n bs) "panic"
    | _, _, _ => "bad-request"
  | ["imdexpand", sh, n, h] =>
    match sh.toNat?, n.toNat?, ofHexFast h with
    | some s, some n, some bs => optHex (C09Imd.expandGo s n bs) "panic"
    | _, _, _ => "bad-request"
  | ["imdrecompress", sh, n, h] =>
    match sh.toNat?, n.toNat?, ofHexFast h with
    | some s, some n, some bs => optHex ((C09Imd.expandGo s n bs).bind (C09Imd.compressGo s n)) "panic"
    | _, _, _ => "bad-request"
  | "imdimg" :: rest => imdImg rest
  | "td0img" :: rest => td0Img rest
  | ["mgfinal", h, cl, rl] =>
    match ofHexFast h, cl.toNat?, rl.toNat? with
    | some bs, some c, some r =>
      match C09Dot2mg.Header.fromBytes bs with
      | some hd =>
        let x : C09Dot2mg.Image := { header := hd, data := [], comment := List.replicate c 0, creator := List.replicate r 0 }
        toHexFast x.finalize.toBytes
      | none => "bad-request"
    | _, _, _ => "bad-request"
  | ["woz2save", h] =>
    -- load a WOZ2 file into the object model, serialise it, serialise the resulting object again
    match ofHexFast h with
    | some bs =>
      match C09Woz.fromBytes2 bs with
      | some x =>
        match C09Woz.toBytes2 x with
        | some (b, y) =>
          let again := match C09Woz.toBytes2 y with
            | some (b2, y2) => if b2 = b ∧ y2 = y then "stable" else "unstable"
            | none => "panic"
          let re := if C09Woz.fromBytes2 b = some y then "reparse-ok" else "reparse-differs"
          s!"{x.off} {y.off} {b.length} {C09Woz.rd32At b 8} {again} {re}"
        | none => "panic"
      | none => "err"
    | none => "bad-request"
  | ["metaput", typ, key, h] =>
    match ofHexFast h with
    | some val =>
      let path := (key.splitOn "/").filter (· ≠ "")
      match C09Meta.put (C09Meta.table typ) [] path val with
      | .refused => "refused"
      | .skipped => "skipped"
      | .stored st =>
        match C09Meta.get (C09Meta.table typ) st path with
        | some v => "ok " ++ toHexFast v
        | none => "ok ?"
    | none => "bad-request"
  | "imdseq" :: _ => (C08Img.handle toks).getD "bad-request"
  | "td0seq" :: _ => (C08Img.handle toks).getD "bad-request"
  | "imdseqx" :: _ => (C08Img.handle toks).getD "bad-request"
  | "td0seqx" :: _ => (C08Img.handle toks).getD "bad-request"
  | ["wozchunks", h] =>
    match ofHexFast h with
    | some bs => C09Woz.showWalk (C09Woz.walk bs)
    | none => "bad-request"
  | _ => "bad-request"

end A2Verif.Drv.C09
