import A2Verif.Model.Hex
import A2Verif.Model.SrvCfg
/-!
driver family `c18`: replay of an implementation event trace through the protocol model with settings
and analyzer object (`Srv.stepC`).

`c18 trace <errs> <tok>…` where `<errs>` is the list of text ids whose analysis returns `Err`
(`-` = none; the diagnostics token of text `t` is `t` itself) and each token is one observed event:

* `O:u:v:t` didOpen, `C:u:v:t` didChange, `S:u:t` didSave, `X:u` didClose, `R` request, `T` idle pass
* `W:c` the client has sent settings `c` in answer to `workspace/configuration`: from here on the main
  thread is in (or on its way into) the first half of the handler, which runs at the first moment at
  which no job holds the analyzer — that moment is not observable through the hooks, so every placement
  up to the matching `G` is tried; `L:c` = the first half observed exactly
* `G:c:live:u1,u2,…` second half of the handler (`live` 0/1, relaunch order as logged, `-` = no document)
* `A:id` job returned from `lock()` with the guard, `E:id` `lock()` returned `Err`
* `F:id:r` job left the closure normally with `Some` (`r`=1) / `None` (`r`=0), `D:id` job panicked
* `H:id:k` main loop popped job `id` (`k` = `p` joined `Ok(Some)`, `n` `Ok(None)`, `e` `Err`)
* `K:i:c1,c2,…` observation about the `i`-th publication (0-based): the settings under which a *new*
  analyzer reproduces the published diagnostics from that publication's text alone (`-` = none does)

Every event must be enabled in the model *and* lead to the observed outcome, and the settings the model
says the publishing job saw must be among the observed ones; the answer is
`ok pub=<u:v:t,…> lock=<free|held|poisoned> queue=<n>`, `stuck <index> <token>` or
`settings <i> model=<c> observed=<…>`.
-/
namespace A2Verif.Drv.C18
open A2Verif.Srv

def showVer : Ver → String
  | some v => toString v
  | none => "-"

def parseVer (s : String) : Option Ver :=
  if s == "-" then some none else s.toNat?.map some

def jobSt (s : State) (id : Nat) : Option JobSt := (findJob s.queue id).map (·.st)

abbrev St := CState Nat

/-- the analyzer of the replay: resets (the result is a function of settings and text), texts in `errs`
fail; the diagnostics token is the text id, the settings are recovered from the ghost record -/
def analyzer (errs : List Nat) : CAnalyzer Nat :=
  { fresh := 0, setCfg := fun _ a => a, run := fun _ _ t => (if errs.contains t then none else some t, t) }

/-- one observed event: step the model and check the observed outcome -/
def replay1 (A : CAnalyzer Nat) (cs : St) (tok : String) : Option St :=
  let s := cs.srv
  match tok.splitOn ":" with
  | ["O", u, v, t] => do stepC A cs (.opn (← u.toNat?) (← v.toNat?) (← t.toNat?))
  | ["C", u, v, t] => do stepC A cs (.chg (← u.toNat?) (← v.toNat?) (← t.toNat?))
  | ["S", u, t] => do stepC A cs (.save (← u.toNat?) (← t.toNat?))
  | ["X", u] => do stepC A cs (.close (← u.toNat?))
  | ["R"] => stepC A cs .request
  | ["L", c] => do stepC A cs (.configLock (← c.toNat?))
  | ["T"] =>
    -- an idle pass: the front job, if any, must be unfinished
    match s.queue with
    | j :: _ => if j.st.finished then none else stepC A cs .tick
    | [] => stepC A cs .tick
  | ["G", c, live, order] => do
    let l ← if live == "1" then some true else if live == "0" then some false else none
    stepC A cs (.config (← c.toNat?) l (← A2Verif.Hex.parseNatList order))
  | ["A", id] => do
    let i ← id.toNat?
    let cs' ← stepC A cs (.acquire i)
    if jobSt cs'.srv i == some .holding then some cs' else none
  | ["E", id] => do
    let i ← id.toNat?
    let cs' ← stepC A cs (.acquire i)
    if jobSt cs'.srv i == some (.done none) then some cs' else none
  | ["F", id, r] => do
    let i ← id.toNat?
    let cs' ← stepC A cs (.finish i)
    match jobSt cs'.srv i with
    | some (.done x) => if (x.isSome && r == "1") || (x.isNone && r == "0") then some cs' else none
    | _ => none
  | ["D", id] => do stepC A cs (.die (← id.toNat?))
  | ["H", id, k] => do
    let i ← id.toNat?
    match s.queue with
    | j :: _ =>
      if j.id ≠ i then none
      else
        let okk := match j.st with
          | .done (some _) => k == "p"
          | .done none => k == "n"
          | .dead => k == "e"
          | _ => false
        if okk then stepC A cs .tick else none
    | [] => none
  | _ => none

/-- settings the model says the job behind the `i`-th publication saw -/
def pubCfg (cs : St) (i : Nat) : Option Cfg := do
  let p ← cs.srv.published[i]?
  let f ← cs.fin.find? (fun f => f.id = p.id)
  some f.cfg

/-- check the `K` observations against the final state -/
def checkObs (cs : St) : List (Nat × List Nat) → Except (Nat × String) Unit
  | [] => .ok ()
  | (i, cands) :: rest =>
    match pubCfg cs i with
    | none => .error (1000000, s!"settings {i} model=none")
    | some c =>
      if cands.contains c then checkObs cs rest
      else .error (1000000, s!"settings {i} model={c} observed={cands}")

def better (a b : Except (Nat × String) St) : Except (Nat × String) St :=
  match a, b with
  | .ok s, _ => .ok s
  | _, .ok s => .ok s
  | .error (i, m), .error (j, n) => if j > i then .error (j, n) else .error (i, m)

/-- replay with the unobservable moment of the first half of the configuration handler (`want`)
placed at every enabled position up to the matching `G`; the error reported is the one of the
placement that got furthest -/
def replay (A : CAnalyzer Nat) (obs : List (Nat × List Nat)) : St → Option Cfg → Nat → List String → Except (Nat × String) St
  | cs, _, _, [] => (checkObs cs obs).map (fun _ => cs)
  | cs, want, i, tok :: rest =>
    let here : Except (Nat × String) St :=
      match tok.splitOn ":" with
      | ["W", c] =>
        match c.toNat?, want with
        | some c, none => replay A obs cs (some c) (i + 1) rest
        | _, _ => .error (i, s!"stuck {i} {tok}")
      | "K" :: _ => replay A obs cs want (i + 1) rest
      | _ =>
        match replay1 A cs tok with
        | some cs' => replay A obs cs' want (i + 1) rest
        | none => .error (i, s!"stuck {i} {tok}")
    match want with
    | none => here
    | some c =>
      -- the first half of the handler runs now (if it can) …
      let now : Except (Nat × String) St :=
        match stepC A cs (.configLock c) with
        | some cs' =>
          match replay1 A cs' tok with
          | some cs'' => replay A obs cs'' none (i + 1) rest
          | none => .error (i, s!"stuck {i} {tok}")
        | none => .error (i, s!"stuck {i} {tok} (analyzer held)")
      -- … or later; `G` itself cannot precede it
      match tok.splitOn ":" with
      | "G" :: _ => now
      | _ => better now here

def showLock : Lock → String
  | .free => "free"
  | .held _ => "held"
  | .poisoned => "poisoned"

def showPubs (ps : List Pub) : String :=
  if ps.isEmpty then "-" else ",".intercalate (ps.map (fun p => s!"{p.uri}:{showVer p.ver}:{p.diags}"))

def parseObs : List String → Option (List (Nat × List Nat))
  | [] => some []
  | tok :: rest =>
    match tok.splitOn ":" with
    | ["K", i, cs] => do
      let i ← i.toNat?
      let l ← A2Verif.Hex.parseNatList cs
      let r ← parseObs rest
      some ((i, l) :: r)
    | _ => parseObs rest

def handle (toks : List String) : String :=
  match toks with
  | "trace" :: errs :: evs =>
    match A2Verif.Hex.parseNatList errs, parseObs evs with
    | some es, some obs =>
      let A := analyzer es
      match replay A obs (cinit A) none 0 evs with
      | .ok cs => s!"ok pub={showPubs cs.srv.published} lock={showLock cs.srv.lock} queue={cs.srv.queue.length}"
      | .error (_, e) => e
    | _, _ => "bad-request"
  | _ => "bad-request"

end A2Verif.Drv.C18
