import A2Verif.Model.Hex
import A2Verif.Model.Srv
/-!
driver family `c18`: replay of an implementation event trace through the protocol model.

`c18 trace <errs> <tok>…` where `<errs>` is the list of text ids whose analysis returns `Err`
(`-` = none; the diagnostics token of text `t` is `t` itself) and each token is one observed event:

* `O:u:v:t` didOpen, `C:u:v:t` didChange, `S:u:t` didSave, `X:u` didClose, `R` request, `T` idle pass
* `G:live:u1,u2,…` configuration response, relaunch part (`live` 0/1, relaunch order as logged, `-` = no
  document); `L` its lock part (not observable through the hooks, never emitted by the harness)
* `A:id` job returned from `lock()` with the guard, `E:id` `lock()` returned `Err`
* `F:id:r` job left the closure normally with `Some` (`r`=1) / `None` (`r`=0), `D:id` job panicked
* `H:id:k` main loop popped job `id` (`k` = `p` joined `Ok(Some)`, `n` `Ok(None)`, `e` `Err`)

Every event must be enabled in the model *and* lead to the observed outcome; the answer is
`ok pub=<u:v:t,…> lock=<free|held|poisoned> queue=<n>` or `stuck <index> <token>`.
-/
namespace A2Verif.Drv.C18
open A2Verif.Srv

def showVer : Ver → String
  | some v => toString v
  | none => "-"

def parseVer (s : String) : Option Ver :=
  if s == "-" then some none else s.toNat?.map some

def jobSt (s : State) (id : Nat) : Option JobSt := (findJob s.queue id).map (·.st)

/-- one observed event: step the model and check the observed outcome -/
def replay1 (an : Text → Option Diags) (s : State) (tok : String) : Option State :=
  match tok.splitOn ":" with
  | ["O", u, v, t] => do step an s (.opn (← u.toNat?) (← v.toNat?) (← t.toNat?))
  | ["C", u, v, t] => do step an s (.chg (← u.toNat?) (← v.toNat?) (← t.toNat?))
  | ["S", u, t] => do step an s (.save (← u.toNat?) (← t.toNat?))
  | ["X", u] => do step an s (.close (← u.toNat?))
  | ["R"] => step an s .request
  | ["L"] => step an s .configLock
  | ["T"] =>
    -- an idle pass: the front job, if any, must be unfinished
    match s.queue with
    | j :: _ => if j.st.finished then none else step an s .tick
    | [] => step an s .tick
  | ["G", live, order] => do
    let l ← if live == "1" then some true else if live == "0" then some false else none
    step an s (.config l (← A2Verif.Hex.parseNatList order))
  | ["A", id] => do
    let i ← id.toNat?
    let s' ← step an s (.acquire i)
    if jobSt s' i == some .holding then some s' else none
  | ["E", id] => do
    let i ← id.toNat?
    let s' ← step an s (.acquire i)
    if jobSt s' i == some (.done none) then some s' else none
  | ["F", id, r] => do
    let i ← id.toNat?
    let s' ← step an s (.finish i)
    match jobSt s' i with
    | some (.done x) => if (x.isSome && r == "1") || (x.isNone && r == "0") then some s' else none
    | _ => none
  | ["D", id] => do step an s (.die (← id.toNat?))
  | ["H", id, k] => do
    let i ← id.toNat?
    match s.queue with
    | j :: _ =>
      if j.id ≠ i then none
      else
        let okk := match j.st with
          | .done (some _) => k == "p"
          | .done none => k == "n"
          | .dead => k == "e"
          | _ => false
        if okk then step an s .tick else none
    | [] => none
  | _ => none

def replay (an : Text → Option Diags) : State → Nat → List String → Except String State
  | s, _, [] => .ok s
  | s, i, tok :: rest =>
    match replay1 an s tok with
    | some s' => replay an s' (i + 1) rest
    | none => .error s!"stuck {i} {tok}"

def showLock : Lock → String
  | .free => "free"
  | .held _ => "held"
  | .poisoned => "poisoned"

def showPubs (ps : List Pub) : String :=
  if ps.isEmpty then "-" else ",".intercalate (ps.map (fun p => s!"{p.uri}:{showVer p.ver}:{p.diags}"))

def handle (toks : List String) : String :=
  match toks with
  | "trace" :: errs :: evs =>
    match A2Verif.Hex.parseNatList errs with
    | none => "bad-request"
    | some es =>
      let an : Text → Option Diags := fun t => if es.contains t then none else some t
      match replay an init 0 evs with
      | .ok s => s!"ok pub={showPubs s.published} lock={showLock s.lock} queue={s.queue.length}"
      | .error e => e
  | _ => "bad-request"

end A2Verif.Drv.C18
