import A2Verif.Model.Hex
/-! driver family `c12fs` (stub until the family is built) -/
namespace A2Verif.Drv.C12Fs

def handle (_toks : List String) : String := "bad-request"

end A2Verif.Drv.C12Fs
