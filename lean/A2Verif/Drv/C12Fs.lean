import A2Verif.Model.Hex
import A2Verif.Model.C12FsId
import A2Verif.Gen.C12FsFlags
/-!
driver family `c12fs` (stateless): outcome classes of identification, mount and the read-only queries of one
file-system module on one image, from the concrete panic-explicit models.

  c12fs pas <units> <i:hex,…> <getnames> <fixed>
     → `id=T:ok|id=F:ok|id:panic mount:ok stat:<c> cat:<c> tree:<c> glob:<c> get:<hexname>:<c> …`
  c12fs dos <units> <i:hex,…> <getnames> <sectors per track: 16|13>
     → the same tokens from the DOS 3.x model
  c12fs cpm <blocks> <i:hex,…> <getnames> <bsh> <exm> <dsm> <drm> <al0> <al1> <free repair 0|1> <overlap repair 0|1>
     → `id… mount:ok stat:<c> cat:<c> glob:<c> get:…` from the CP/M model (units = allocation blocks as the image
       layer returns them, so any container; mounted with `cpm_vers = [3,1,0]`)
  c12fs pro <units> <i:hex,…> <getnames>
     → the same tokens (+ `glob2:<c>` for the pattern `*/*`) from the ProDOS model; the repair flags come from
       `Gen.C12FsFlags` (the source as it is now)

  c12fs fat <units> <i:hex,…> <getnames> <sector-size repair 0|1> <wildcard repair 0|1> <label is a file 0|1> <impl tokens, comma separated>
     → `id=T:ok|id=F:ok mount:<c> stat:<c> cat:<c> tree:<c> glob:<c> glob2:<c> get:<hexname>:<c> …` from the FAT model (`Model/Fs/Fat.lean` + `C12FsId.Fat`), the
       queries run in sequence on one state (the FAT buffer opened by one query is there for the next).  Where the model answers
       `unmodelled` (a stored name byte ≥ 128 on the path of that query, FAT32) the class of the implementation token is echoed:
       that query is not compared.

`<units>` = `<number of units of the flat image>:<fill byte>`, `<i:hex,…>` = the units that are not filled with the fill
byte (`-` = none; `i:~XX` = a unit filled with the byte XX),
`<getnames>` = hex names (comma separated, `-` = none) whose `get` the harness called, `<fixed>` = `1` if the real
code has the repair (probed by the harness on the witness image), `<c>` ∈ ok | err | panic.
-/
namespace A2Verif.Drv.C12Fs

/-- `<units>:<fill>` -/
def parseCount (s : String) : Option (Nat × Nat) :=
  match s.splitOn ":" with
  | [n, f] => match n.toNat?, f.toNat? with
    | some n, some f => some (n, f)
    | _, _ => none
  | _ => none

def parseUnits (nf : Nat × Nat) (unitLen : Nat) (s : String) : Option (Array (List Nat)) :=
  let blank : Array (List Nat) := Array.replicate nf.1 (List.replicate unitLen nf.2)
  if s == "-" then some blank else
  (s.splitOn ",").foldlM (fun (a : Array (List Nat)) it =>
    match it.splitOn ":" with
    | [i, h] =>
      -- `~XX` = a unit filled with the byte XX
      let dat : Option (List Nat) :=
        if h.startsWith "~" then (Hex.ofHex (String.ofList (h.toList.drop 1))).bind (fun b => match b with | [x] => some (List.replicate unitLen x) | _ => none)
        else Hex.ofHex h
      match i.toNat?, dat with
      | some k, some b => if k < a.size then some (a.set! k b) else none
      | _, _ => none
    | _ => none) blank

def parseNames (s : String) : Option (List (String × List Nat)) :=
  if s == "-" then some [] else (s.splitOn ",").mapM (fun h => (Hex.ofHex h).map (fun b => (h, b)))

section Pas
open A2Verif.Fs.Pascal A2Verif.C12FsId.Pascal

def pasCls {α : Type} (x : R α) : String := (cls x).token

def pas (r : Raw) (names : List (String × List Nat)) (fixed : Bool) : String :=
  let idTok := match testImg r with
    | .ok true => "id=T:ok"
    | .ok false => "id=F:ok"
    | .error _ => "id:panic"
  let gets := names.map (fun (h, nm) => s!"get:{h}:{pasCls (getV fixed r nm)}")
  " ".intercalate ([idTok, "mount:ok", s!"stat:{pasCls (statV fixed r)}", s!"cat:{pasCls (catalogV fixed r)}",
    s!"tree:{pasCls (treeV fixed r)}", s!"glob:{pasCls (globV fixed r)}"] ++ gets)

end Pas

section Dos
open A2Verif.Fs.Dos3x A2Verif.C12FsId.Dos

def dosCls {α : Type} (x : R α) : String := (A2Verif.C12FsId.Dos.cls x).token

def dos (c : Nat) (r : Raw) (names : List (String × List Nat)) : String :=
  let d : Disk := { raw := r, c := c, vtoc := none }
  let gets := names.map (fun (h, nm) => s!"get:{h}:{dosCls (get d nm).1}")
  " ".intercalate ([if testImg c r then "id=T:ok" else "id=F:ok", "mount:ok", s!"stat:{dosCls (statFree d).1}",
    s!"cat:{dosCls (catalog d).1}", s!"tree:{dosCls (tree d).1}", s!"glob:{dosCls (glob d).1}"] ++ gets)

end Dos

section Pro
open A2Verif.Fs.Prodos A2Verif.C12FsId.Prodos

def proCls {α : Type} (x : R α) : String := (A2Verif.C12FsId.Prodos.cls x).token

/-- the flags of the current source (`Gen.C12FsFlags`) select the variant, as in family `c12` -/
def pro (r : Raw) (names : List (String × List Nat)) : String :=
  let idTok := match testImg r with
    | .ok true => "id=T:ok"
    | .ok false => "id=F:ok"
    | .error _ => "id:panic"
  let g := glob Gen.C12FsFlags.prodosVisitBudget Gen.C12FsFlags.prodosGlobCapErr r
  let gets := names.map (fun (h, nm) => s!"get:{h}:{proCls (getV Gen.C12FsFlags.prodosIndexEofSaturating nm (fresh r)).1}")
  " ".intercalate ([idTok, "mount:ok", s!"stat:{proCls (statFree (fresh r)).1}", s!"cat:{proCls (catalog [47] (fresh r)).1}",
    s!"tree:{proCls (tree Gen.C12FsFlags.prodosVisitBudget Gen.C12FsFlags.prodosTreeCapErr r).1}",
    s!"glob:{proCls g.1}", s!"glob2:{proCls g.1}"] ++ gets)

end Pro

section CpmS
open A2Verif.Fs.Cpm A2Verif.C12FsId.Cpm
open A2Verif.Read.Cpm (Dpb)

def cpmCls {α : Type} (x : R α) : String := (A2Verif.C12FsId.Cpm.cls x).token

/-- `tree` goes through `display.rs`, which is not modelled: the harness does not send it -/
def cpm (d : Dpb) (r : Raw) (names : List (String × List Nat)) (fixFree fixOverlap : Bool) : String :=
  let idTok := match testImg d r with
    | .ok true => "id=T:ok"
    | .ok false => "id=F:ok"
    | .error _ => "id:panic"
  let gets := names.map (fun (h, nm) => s!"get:{h}:{cpmCls (getV fixOverlap d r nm)}")
  " ".intercalate ([idTok, "mount:ok", s!"stat:{cpmCls (statV fixFree d r)}", s!"cat:{cpmCls (catalog d r)}",
    s!"glob:{cpmCls (globV d r)}"] ++ gets)

end CpmS


section FatS
open A2Verif.Fs.Fat A2Verif.C12FsId.Fat

/-- class of the implementation token `key:<class>` -/
def implCls (impl : List String) (key : String) : String :=
  match impl.find? (fun t => t.startsWith (key ++ ":")) with
  | some t => String.ofList (t.toList.drop (key.length + 1))
  | none => "none"

/-- the model's class; outside the model the implementation's class is echoed -/
def fatTok {α : Type} (x : Fs.Fat.R α) (impl : String) : String :=
  match x with
  | .error .unmodelled => impl
  | _ => (A2Verif.C12FsId.Fat.cls x).token

def fat (r : Raw) (names : List (String × List Nat)) (sz wf lf : Bool) (impl : List String) : String :=
  let idTok := if testImg sz r then "id=T:ok" else "id=F:ok"
  match mount lf (replFor r) r with
  | .error e => " ".intercalate [idTok, s!"mount:{(A2Verif.C12FsId.Fat.cls (.error e : Fs.Fat.R Unit)).token}"]
  | .ok d0 =>
    let (s, d1) := statFree d0
    let (c, d2) := catalog [47] d1
    let (t, d2) := treeV Gen.C12FsFlags.fatVisitBudget d2
    let (gl, d2) := globV Gen.C12FsFlags.fatVisitBudget d2
    let (gets, _) := names.foldl (fun (acc : List String × Disk) (hn : String × List Nat) =>
      let (g, d') := getV wf hn.2 acc.2
      (acc.1 ++ [s!"get:{hn.1}:{fatTok g (implCls impl s!"get:{hn.1}")}"], d')) ([], d2)
    " ".intercalate ([idTok, "mount:ok", s!"stat:{fatTok s (implCls impl "stat")}", s!"cat:{fatTok c (implCls impl "cat")}",
      s!"tree:{fatTok t (implCls impl "tree")}", s!"glob:{fatTok gl (implCls impl "glob")}", s!"glob2:{fatTok gl (implCls impl "glob2")}"] ++ gets)

end FatS

def handle (toks : List String) : String :=
  match toks with
  | ["cpm", n, units, names, bsh, exm, dsm, drm, al0, al1, fixFree, fixOverlap] =>
    match parseCount n, parseNames names, [bsh, exm, dsm, drm, al0, al1].mapM (·.toNat?) with
    | some n, some names, some [bsh, exm, dsm, drm, al0, al1] =>
      let d : A2Verif.Read.Cpm.Dpb := { bsh := bsh, exm := exm, dsm := dsm, drm := drm, al0 := al0, al1 := al1, v3 := true }
      match parseUnits n (128 * 2 ^ bsh) units with
      | some us => cpm d { unitLen := 128 * 2 ^ bsh, units := us } names (fixFree == "1") (fixOverlap == "1")
      | none => "bad-request"
    | _, _, _ => "bad-request"
  | ["fat", n, units, names, sz, wf, lf, impl] =>
    match parseCount n, parseNames names with
    | some n, some names =>
      match parseUnits n 512 units with
      | some us => fat { unitLen := 512, units := us } names (sz == "1") (wf == "1") (lf == "1") (impl.splitOn ",")
      | none => "bad-request"
    | _, _ => "bad-request"
  | ["pro", n, units, names] =>
    match parseCount n, parseNames names with
    | some n, some names =>
      match parseUnits n 512 units with
      | some us => pro { unitLen := 512, units := us } names
      | none => "bad-request"
    | _, _ => "bad-request"
  | ["dos", n, units, names, c] =>
    match parseCount n, parseNames names, c.toNat? with
    | some n, some names, some c =>
      match parseUnits n 256 units with
      | some us => dos c { unitLen := 256, units := us } names
      | none => "bad-request"
    | _, _, _ => "bad-request"
  | ["pas", n, units, names, fixed] =>
    match parseCount n, parseNames names with
    | some n, some names =>
      match parseUnits n 512 units with
      | some us => pas { unitLen := 512, units := us } names (fixed == "1")
      | none => "bad-request"
    | _, _ => "bad-request"
  | _ => "bad-request"

end A2Verif.Drv.C12Fs
