import A2Verif.Model.Hex
import A2Verif.Model.C12FsId
/-!
driver family `c12fs` (stateless): outcome classes of identification, mount and the read-only queries of one
file-system module on one image, from the concrete panic-explicit models.

  c12fs pas <units> <i:hex,…> <getnames> <fixed>
     → `id=T:ok|id=F:ok|id:panic mount:ok stat:<c> cat:<c> tree:<c> glob:<c> get:<hexname>:<c> …`
  c12fs dos <units> <i:hex,…> <getnames> <sectors per track: 16|13>
     → the same tokens from the DOS 3.x model

`<units>` = number of units of the flat image, `<i:hex,…>` = the units that are not all zero (`-` = none),
`<getnames>` = hex names (comma separated, `-` = none) whose `get` the harness called, `<fixed>` = `1` if the real
code has the repair (probed by the harness on the witness image), `<c>` ∈ ok | err | panic.
-/
namespace A2Verif.Drv.C12Fs

def parseUnits (n unitLen : Nat) (s : String) : Option (Array (List Nat)) :=
  let blank : Array (List Nat) := Array.replicate n (List.replicate unitLen 0)
  if s == "-" then some blank else
  (s.splitOn ",").foldlM (fun (a : Array (List Nat)) it =>
    match it.splitOn ":" with
    | [i, h] =>
      match i.toNat?, Hex.ofHex h with
      | some k, some b => if k < a.size then some (a.set! k b) else none
      | _, _ => none
    | _ => none) blank

def parseNames (s : String) : Option (List (String × List Nat)) :=
  if s == "-" then some [] else (s.splitOn ",").mapM (fun h => (Hex.ofHex h).map (fun b => (h, b)))

section Pas
open A2Verif.Fs.Pascal A2Verif.C12FsId.Pascal

def pasCls {α : Type} (x : R α) : String := (cls x).token

def pas (r : Raw) (names : List (String × List Nat)) (fixed : Bool) : String :=
  let idTok := match testImg r with
    | .ok true => "id=T:ok"
    | .ok false => "id=F:ok"
    | .error _ => "id:panic"
  let gets := names.map (fun (h, nm) => s!"get:{h}:{pasCls (getV fixed r nm)}")
  " ".intercalate ([idTok, "mount:ok", s!"stat:{pasCls (statV fixed r)}", s!"cat:{pasCls (catalogV fixed r)}",
    s!"tree:{pasCls (treeV fixed r)}", s!"glob:{pasCls (globV fixed r)}"] ++ gets)

end Pas

section Dos
open A2Verif.Fs.Dos3x A2Verif.C12FsId.Dos

def dosCls {α : Type} (x : R α) : String := (A2Verif.C12FsId.Dos.cls x).token

def dos (c : Nat) (r : Raw) (names : List (String × List Nat)) : String :=
  let d : Disk := { raw := r, c := c, vtoc := none }
  let gets := names.map (fun (h, nm) => s!"get:{h}:{dosCls (get d nm).1}")
  " ".intercalate ([if testImg c r then "id=T:ok" else "id=F:ok", "mount:ok", s!"stat:{dosCls (statFree d).1}",
    s!"cat:{dosCls (catalog d).1}", s!"tree:{dosCls (tree d).1}", s!"glob:{dosCls (glob d).1}"] ++ gets)

end Dos

def handle (toks : List String) : String :=
  match toks with
  | ["dos", n, units, names, c] =>
    match n.toNat?, parseNames names, c.toNat? with
    | some n, some names, some c =>
      match parseUnits n 256 units with
      | some us => dos c { unitLen := 256, units := us } names
      | none => "bad-request"
    | _, _, _ => "bad-request"
  | ["pas", n, units, names, fixed] =>
    match n.toNat?, parseNames names with
    | some n, some names =>
      match parseUnits n 512 units with
      | some us => pas { unitLen := 512, units := us } names (fixed == "1")
      | none => "bad-request"
    | _, _ => "bad-request"
  | _ => "bad-request"

end A2Verif.Drv.C12Fs
