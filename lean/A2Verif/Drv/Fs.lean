import A2Verif.Model.Hex
import A2Verif.Model.Raw
import A2Verif.Model.Read.Pascal
/-!
Driver family `fs` (stateful): the harness mirrors the saved volume into `Raw` unit by unit and asks
for the independent reading.

  fs open <fsid> <unitLen> <count> <params…>   → ok
  fs set <i>:<hex> …                           → ok
  fs read                                      → ok free=<n> noleak=<0|1> files=<hexpath>:<isdir>:<nowned>:<eof>,…
                                                 | bad <reason>
-/
namespace A2Verif.Drv.Fs

structure St where
  fsid : String := ""
  raw : Raw := { unitLen := 256, units := #[] }
  params : List (String × Nat) := []
  deriving Inhabited

def parseParams (toks : List String) : List (String × Nat) :=
  toks.filterMap (fun t => match t.splitOn "=" with
    | [k, v] => v.toNat?.map (fun n => (k, n))
    | _ => none)

def readVol (st : St) : Except String Vol :=
  match st.fsid with
  | "pascal" => Read.Pascal.read st.raw
  | _ => .error "unsupported-fs"

def fileSummary (f : FileRec) : String :=
  s!"{Hex.toHex f.path}:{if f.isDir then 1 else 0}:{f.owned.length}:{f.eof}"

def handle (st : St) (toks : List String) : St × String :=
  match toks with
  | "open" :: fsid :: ul :: cnt :: rest =>
    match ul.toNat?, cnt.toNat? with
    | some u, some c => ({ fsid := fsid, raw := { unitLen := u, units := Array.replicate c (List.replicate u 0) }, params := parseParams rest }, "ok")
    | _, _ => (st, "bad-request")
  | "set" :: items =>
    let r := items.foldl (fun (acc : Option Raw) it =>
      match acc, it.splitOn ":" with
      | some raw, [i, h] => match i.toNat?, Hex.ofHex h with
        | some idx, some b => some (raw.set idx b)
        | _, _ => none
      | _, _ => none) (some st.raw)
    match r with
    | some raw => ({ st with raw := raw }, "ok")
    | none => (st, "bad-request")
  | ["read"] =>
    match readVol st with
    | .error e => (st, s!"bad {e}")
    | .ok v =>
      match v.check with
      | .error e => (st, s!"bad {e}")
      | .ok _ =>
        let fl := if v.files.isEmpty then "-" else ",".intercalate (v.files.map fileSummary)
        (st, s!"ok free={v.free} noleak={if v.noLeak then 1 else 0} files={fl}")
  | _ => (st, "bad-request")

end A2Verif.Drv.Fs
