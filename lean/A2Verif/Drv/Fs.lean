import A2Verif.Model.Hex
import A2Verif.Model.Raw
import A2Verif.Model.Read.Pascal
import A2Verif.Model.Read.Dos3x
import A2Verif.Model.Read.Prodos
import A2Verif.Model.Read.Cpm
import A2Verif.Model.Read.Fat
import A2Verif.Model.VolSpec
/-!
Driver family `fs` (stateful): the harness mirrors the saved volume into `Raw` unit by unit and asks
for the independent reading.

  fs open <fsid> <unitLen> <count> <params…>   → ok
  fs set <i>:<hex> …                           → ok
  fs read                                      → ok free=<n> noleak=<0|1> files=<hexpath>:<isdir>:<nowned>:<eof>,…
                                                 | bad <reason>
-/
namespace A2Verif.Drv.Fs

structure St where
  fsid : String := ""
  raw : Raw := { unitLen := 256, units := #[] }
  params : List (String × Nat) := []
  /-- DOS 3.x: units marked used at format time that no file leads to (recorded at the first reading) -/
  sysBase : Option (List Nat) := none
  /-- the previous reading (state before the step being checked) -/
  prev : Option Vol := none
  deriving Inhabited

def parseParams (toks : List String) : List (String × Nat) :=
  toks.filterMap (fun t => match t.splitOn "=" with
    | [k, v] => v.toNat?.map (fun n => (k, n))
    | _ => none)

def param (st : St) (k : String) : Nat := ((st.params.find? (·.1 == k)).map (·.2)).getD 0

def readVol (st : St) : Except String Vol :=
  match st.fsid with
  | "pascal" => Read.Pascal.read st.raw
  | "dos33" | "dos32" => Read.Dos3x.read st.raw st.sysBase
  | "prodos" => Read.Prodos.read st.raw
  | "cpm2" | "cpm3" => Read.Cpm.read st.raw { bsh := param st "bsh", exm := param st "exm", dsm := param st "dsm", drm := param st "drm",
                                                al0 := param st "al0", al1 := param st "al1", v3 := param st "v3" == 1 }
  | "fat" => Read.Fat.read st.raw
  | _ => .error "unsupported-fs"

def fsParams (fsid : String) : FsParams :=
  match fsid with
  | "dos33" | "dos32" => { eofRule := fun _ => 0, keepsType := true, keepsAux := false, hasLock := true }
  | "prodos" => { eofRule := id, keepsType := true, keepsAux := true, hasLock := true }
  | "pascal" => { eofRule := id, keepsType := true, keepsAux := false, hasLock := false }
  | "cpm2" => { eofRule := fun n => (n + 127) / 128 * 128, keepsType := false, keepsAux := false, hasLock := true }
  | "cpm3" => { eofRule := id, keepsType := false, keepsAux := false, hasLock := true }
  | _ => { eofRule := id, keepsType := false, keepsAux := false, hasLock := true }

def parseChunks (s : String) : Option (List (Nat × Bytes)) :=
  if s == "-" then some [] else
  (s.splitOn ",").mapM (fun it => match it.splitOn ":" with
    | [i, h] => match i.toNat?, Hex.ofHex h with
      | some n, some b => some (n, b)
      | _, _ => none
    | _ => none)

def parseOp (toks : List String) : Option (FsOp × Bool) :=
  let res (r : String) : Option Bool := if r == "ok" then some true else if r == "err" then some false else none
  match toks with
  | ["put", p, r, eof, ty, aux, cs] => do
    let p ← Hex.ofHex p; let r ← res r; let eof ← eof.toNat?; let ty ← ty.toNat?; let aux ← aux.toNat?; let cs ← parseChunks cs
    pure (.put p cs eof ty aux, r)
  | ["delete", p, r] => do let p ← Hex.ofHex p; let r ← res r; pure (.delete p, r)
  | ["rename", p, q, r] => do let p ← Hex.ofHex p; let q ← Hex.ofHex q; let r ← res r; pure (.rename p q, r)
  | ["lock", p, r] => do let p ← Hex.ofHex p; let r ← res r; pure (.lock p, r)
  | ["unlock", p, r] => do let p ← Hex.ofHex p; let r ← res r; pure (.unlock p, r)
  | ["retype", p, r] => do let p ← Hex.ofHex p; let r ← res r; pure (.retype p, r)
  | ["mkdir", p, r] => do let p ← Hex.ofHex p; let r ← res r; pure (.mkdir p, r)
  | ["other", r] => do let r ← res r; pure (.other, r)
  | _ => none

def fileSummary (f : FileRec) : String :=
  s!"{Hex.toHex f.path}:{if f.isDir then 1 else 0}:{f.owned.length}:{f.eof}"

def summary (v : Vol) : String :=
  match v.check with
  | .error e => s!"bad {e}"
  | .ok _ =>
    let fl := if v.files.isEmpty then "-" else ",".intercalate (v.files.map fileSummary)
    s!"ok free={v.free} noleak={if v.noLeak then 1 else 0} files={fl}"

def readAnswer (st : St) : St × String :=
  match readVol st with
  | .error e => (st, s!"bad {e}")
  | .ok v =>
    let st' := if st.sysBase.isNone && (st.fsid == "dos33" || st.fsid == "dos32") then
        { st with sysBase := some (v.sys) } else st
    ({ st' with prev := some v }, summary v)

def handle (st : St) (toks : List String) : St × String :=
  match toks with
  | "open" :: fsid :: ul :: cnt :: rest =>
    match ul.toNat?, cnt.toNat? with
    | some u, some c => ({ fsid := fsid, raw := { unitLen := u, units := Array.replicate c (List.replicate u 0) }, params := parseParams rest }, "ok")
    | _, _ => (st, "bad-request")
  | "set" :: items =>
    let r := items.foldl (fun (acc : Option Raw) it =>
      match acc, it.splitOn ":" with
      | some raw, [i, h] => match i.toNat?, Hex.ofHex h with
        | some idx, some b => some (raw.set idx b)
        | _, _ => none
      | _, _ => none) (some st.raw)
    match r with
    | some raw => ({ st with raw := raw }, "ok")
    | none => (st, "bad-request")
  | ["read"] =>
    let (st', a) := readAnswer st
    (st', a)
  | "step" :: rest =>
    -- refinement check of one real transition: previous reading --op/res--> current reading;
    -- the answer carries the verdict and, after ` ;; `, the reading itself (as for `read`)
    match parseOp rest, st.prev with
    | none, _ => (st, "bad-request")
    | _, none => (st, "bad no-previous-reading")
    | some (op, ok), some pre =>
      match readVol st with
      | .error e => (st, s!"bad unreadable:{e} ;; bad {e}")
      | .ok post =>
        let verdict := match stepWhy (fsParams st.fsid) pre op ok post with
          | some why => s!"bad {why}"
          | none => "ok"
        ({ st with prev := some post }, s!"{verdict} ;; {summary post}")
  | _ => (st, "bad-request")

end A2Verif.Drv.Fs
