import A2Verif.Model.Hex
/-! driver family `c03` (stub until the family is built) -/
namespace A2Verif.Drv.C03

def handle (_toks : List String) : String := "bad-request"

end A2Verif.Drv.C03
