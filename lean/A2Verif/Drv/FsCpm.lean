import A2Verif.Model.Hex
import A2Verif.Model.Fs.Cpm
/-!
Driver family `fsc` (stateful): the byte-exact tie of the concrete CP/M model (`Model/Fs/Cpm.lean`).

The harness mirrors the real volume into the driver with `fs set` (state of family `fs`, passed in here as
`mirror`; one unit = one CP/M allocation block as `DiskFS::read_block` returns it, so the tie works on every
container).  The disk parameter block is taken from the `fs open` line (`bsh exm dsm drm al0 al1 v3`).  After every
executed operation the harness sends the operation, its arguments and the result class the real code reported
to this family.  The model applies the operation to **its own** image; the answer is `ok` iff the model's
result class equals the real one and the model's image equals the mirror block for block, otherwise the first
difference.  After a disagreement the model image is re-synchronised with the mirror so that one defect is
reported once.

  fsc state                                                → empty | ready
  fsc format <volname> <time|-> <real>                     → ok | bad …   format a blank image, compare with the mirror
  fsc init <volname> <time|->                              → ok | bad …   format a blank image, no comparison (the mirror
                                                             already holds the first operation; it is compared after that)
  fsc put <xname> <fstype> <access> <eof> <now> <real> <chunks> → ok | bad …   chunks: `i:hex,…` (`i:-` = data omitted)
  fsc delete <xname> <real>                                → ok | bad …
  fsc rename <old> <new> <real>                            → ok | bad …
  fsc lock <xname> <real> / fsc unlock <xname> <real>      → ok | bad …
  fsc retype <xname> <type> <real>                         → ok | bad …
  fsc protect <xname> <password> <r> <w> <d> <real>        → ok | bad …   r, w, d: 0 | 1
  fsc unprotect <xname> <real>                             → ok | bad …
  fsc get <xname>                                          → ok <eof> <access> <created> <modified> <nchunks> <adler> | err:<class>
  fsc free                                                 → ok <n> | err:<class>
  fsc cat                                                  → ok <type>:<blocks>:<name>,… | err:<class>
  fsc q                                                    → ok <n> <type>:<blocks>:<name>,… | err:<class>   (free + cat)
  fsc variant ifaceguard <0|1>                             → ok   the tree has `proposed_fixes/cpm-put-interface-flags.diff`
                                                             (`put` refuses an image that sets F5–F8); default 0 = as written
  fsc variant absidx <0|1>                                 → ok   the tree has `proposed_fixes/cpm-get-partial-extent.diff`
                                                             (`get`: block count restarts at every physical extent); default 0

`<real>` is `ok` or `err:<class>` with the classes of `Err.token`.  Names, types, passwords, times are hex.
-/
namespace A2Verif.Drv.FsCpm
open A2Verif.Fs.Cpm
open A2Verif.Read.Cpm (Dpb)

structure St where
  raw : Raw := { unitLen := 1024, units := #[] }
  ready : Bool := false
  /-- code variant: `write_file` refuses file images that set an interface attribute -/
  guard : Bool := false
  /-- code variant: `read_file` restarts the block count at every physical extent -/
  absIdx : Bool := false
  deriving Inhabited

def eqBytes : List Nat → List Nat → Bool
  | [], [] => true
  | x :: xs, y :: ys => x == y && eqBytes xs ys
  | _, _ => false

theorem eqBytes_refl (a : List Nat) : eqBytes a a = true := by
  induction a with
  | nil => rfl
  | cons x xs ih => simp [eqBytes, ih]

/-- `eqBytes`, answered at once when both blocks are the same object in memory: the model's image shares every
block it did not write with the mirror it started from (`withPtrEq` is core Lean's safe pointer-equality shortcut) -/
def eqBlock (a b : List Nat) : Bool := withPtrEq a b (fun _ => eqBytes a b) (fun h => by subst h; exact eqBytes_refl a)

/-- index of the first unit in which the two images differ, from `i` on (`fuel` = units left) -/
def diffFrom (a b : Array Bytes) : Nat → Nat → Option Nat
  | 0, _ => none
  | fuel + 1, i =>
    match a[i]?, b[i]? with
    | some x, some y => if eqBlock x y then diffFrom a b fuel (i + 1) else some i
    | none, none => none
    | _, _ => some i

def firstDiff (a b : Raw) : Option Nat :=
  if a.units.size ≠ b.units.size then some (min a.units.size b.units.size)
  else diffFrom a.units b.units a.units.size 0

/-- offset of the first differing byte of two blocks -/
def byteDiff : List Nat → List Nat → Nat → Nat
  | x :: xs, y :: ys, i => if x == y then byteDiff xs ys (i + 1) else i
  | _, _, i => i

def resTok {α : Type} (r : R α) : String :=
  match r with
  | .ok _ => "ok"
  | .error e => s!"err:{e.token}"

/-- compare result class and image; on disagreement adopt the mirror -/
def verdict (st0 : St) (mirror : Raw) (real : String) (model : String) (r' : Raw) : St × String :=
  if model ≠ real then ({ st0 with raw := mirror, ready := true }, s!"bad result model={model} real={real}")
  else match firstDiff r' mirror with
    | some i =>
      let a := r'.units[i]?.getD []
      let b := mirror.units[i]?.getD []
      let o := byteDiff a b 0
      ({ st0 with raw := mirror, ready := true }, s!"bad block {i} offset {o} model={a.getD o 256} real={b.getD o 256}")
    -- equal block for block: keep the mirror (shares its units with family `fs`)
    | none => ({ st0 with raw := mirror, ready := true }, "ok")

def parseChunks (s : String) : Option (List (Nat × Bytes)) :=
  if s == "-" then some [] else
  (s.splitOn ",").mapM (fun it => match it.splitOn ":" with
    | [i, h] => match i.toNat?, Hex.ofHex h with
      | some n, some b => some (n, b)
      | _, _ => none
    | _ => none)

/-- Adler-32 over (index low, index high, data…) of every chunk in index order -/
def adler (cs : List (Nat × Bytes)) : Nat :=
  let (a, b) := cs.foldl (fun (s : Nat × Nat) (c : Nat × Bytes) =>
    ([c.1 % 256, c.1 / 256 % 256] ++ c.2).foldl (fun (s : Nat × Nat) x => let a := (s.1 + x) % 65521; (a, (s.2 + a) % 65521)) s) (1, 0)
  b * 65536 + a

def bool01 (s : String) : Option Bool := if s == "1" then some true else if s == "0" then some false else none

def parseTime (s : String) : Option (Option Bytes) :=
  if s == "-" then some none else (Hex.ofHex s).map some

def blank (d : Dpb) (mirror : Raw) : Raw :=
  { unitLen := blockSize d, units := Array.replicate mirror.units.size (List.replicate (blockSize d) 0) }

def handle (d : Dpb) (mirror : Raw) (st : St) (toks : List String) : St × String :=
  match toks with
  | ["state"] => (st, if st.ready then "ready" else "empty")
  | ["variant", "ifaceguard", v] =>
    match bool01 v with
    | some b => ({ st with guard := b }, "ok")
    | none => (st, "bad-request")
  | ["variant", "absidx", v] =>
    match bool01 v with
    | some b => ({ st with absIdx := b }, "ok")
    | none => (st, "bad-request")
  | ["format", vn, time, real] =>
    match Hex.ofHex vn, parseTime time with
    | some vn, some time =>
      let (res, r') := format d (blank d mirror) vn time
      verdict st mirror real (resTok res) r'
    | _, _ => (st, "bad-request")
  | ["init", vn, time] =>
    match Hex.ofHex vn, parseTime time with
    | some vn, some time =>
      let (res, r') := format d (blank d mirror) vn time
      match res with
      | .ok _ => ({ st with raw := r', ready := true }, "ok")
      | .error e => (st, s!"bad init err:{e.token}")
    | _, _ => (st, "bad-request")
  | ["put", name, fstype, access, eof, now, real, cs] =>
    match Hex.ofHex name, Hex.ofHex fstype, Hex.ofHex access, eof.toNat?, Hex.ofHex now, parseChunks cs with
    | some name, some fstype, some access, some eof, some now, some cs =>
      let (res, r') := put d st.raw { chunkLen := blockSize d, fullPath := name, fsType := fstype, access := access, eof := eof, chunks := cs, guardIface := st.guard } now
      verdict st mirror real (resTok res) r'
    | _, _, _, _, _, _ => (st, "bad-request")
  | ["delete", name, real] =>
    match Hex.ofHex name with
    | some name => let (res, r') := delete d st.raw name; verdict st mirror real (resTok res) r'
    | none => (st, "bad-request")
  | ["rename", old, new, real] =>
    match Hex.ofHex old, Hex.ofHex new with
    | some old, some new => let (res, r') := rename d st.raw old new; verdict st mirror real (resTok res) r'
    | _, _ => (st, "bad-request")
  | ["lock", name, real] =>
    match Hex.ofHex name with
    | some name => let (res, r') := lock d st.raw name; verdict st mirror real (resTok res) r'
    | none => (st, "bad-request")
  | ["unlock", name, real] =>
    match Hex.ofHex name with
    | some name => let (res, r') := unlock d st.raw name; verdict st mirror real (resTok res) r'
    | none => (st, "bad-request")
  | ["retype", name, ty, real] =>
    match Hex.ofHex name, Hex.ofHex ty with
    | some name, some ty => let (res, r') := retype d st.raw name ty; verdict st mirror real (resTok res) r'
    | _, _ => (st, "bad-request")
  | ["protect", name, pw, rd, wr, del, real] =>
    match Hex.ofHex name, Hex.ofHex pw, bool01 rd, bool01 wr, bool01 del with
    | some name, some pw, some rd, some wr, some del =>
      let (res, r') := protect d st.raw name pw rd wr del
      verdict st mirror real (resTok res) r'
    | _, _, _, _, _ => (st, "bad-request")
  | ["unprotect", name, real] =>
    match Hex.ofHex name with
    | some name => let (res, r') := unprotect d st.raw name; verdict st mirror real (resTok res) r'
    | none => (st, "bad-request")
  | ["get", name] =>
    match Hex.ofHex name with
    | some name =>
      match get d st.raw name st.absIdx with
      | .ok g => (st, s!"ok {g.eof} {Hex.toHex g.access} {Hex.toHex g.created} {Hex.toHex g.modified} {g.chunks.length} {adler g.chunks}")
      | .error e => (st, s!"err:{e.token}")
    | none => (st, "bad-request")
  | ["free"] =>
    match statFree d st.raw with
    | .ok n => (st, s!"ok {n}")
    | .error e => (st, s!"err:{e.token}")
  | ["cat"] =>
    match catalog d st.raw with
    | .ok rows => (st, "ok " ++ (if rows.isEmpty then "-" else ",".intercalate (rows.map (fun (t, b, n) => s!"{Hex.toHex t}:{b}:{Hex.toHex n}"))))
    | .error e => (st, s!"err:{e.token}")
  | ["q"] =>
    -- free count and catalog in one round trip
    match statFree d st.raw, catalog d st.raw with
    | .ok n, .ok rows => (st, s!"ok {n} " ++ (if rows.isEmpty then "-" else ",".intercalate (rows.map (fun (t, b, n) => s!"{Hex.toHex t}:{b}:{Hex.toHex n}"))))
    | .error e, _ => (st, s!"err:{e.token}")
    | _, .error e => (st, s!"err:{e.token}")
  | _ => (st, "bad-request")

end A2Verif.Drv.FsCpm
