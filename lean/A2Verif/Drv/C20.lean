import A2Verif.Model.Hex
import A2Verif.Model.Determinism
/-!
driver family `c20`.  Entries of a map are passed in iteration order as `k:HEX;k:HEX;…` (`-` = empty map,
`HEX` = `-` for an empty value).

* `c20 to-json <recLen> <entries>`                       → hex of the JSON text (`Model.Determinism.toJson`)
* `c20 display <entries>`                                → hex of the `Display` text
* `c20 update-fimg <recLen> <chunkLen> <requireFirst 0|1> <clear 0|1> <init chunks> <entries>`
                                                         → `refused` | `eof=<n> <chunks ascending>`
* `c20 chunks-json <entries>`                            → hex of the `chunks` object of `FileImage::to_json`
* `c20 dasm-map`                                         → 256 mnemonics (`?` = unassigned), comma separated
* `c20 flags`                                            → the three translator flags
-/
namespace A2Verif.Drv.C20
open A2Verif.Model.Determinism

def parseEntry (s : String) : Option (Nat × List Nat) :=
  match s.splitOn ":" with
  | [k, v] => do
    let k ← k.toNat?
    let v ← Hex.ofHex v
    pure (k, v)
  | _ => none

def parseEntries (s : String) : Option (List (Nat × List Nat)) :=
  if s == "-" then some [] else (s.splitOn ";").mapM parseEntry

def showEntries (es : List (Nat × List Nat)) : String :=
  if es.isEmpty then "-" else ";".intercalate (es.map fun e => toString e.1 ++ ":" ++ Hex.toHex e.2)

def parseBool (s : String) : Option Bool :=
  if s == "0" then some false else if s == "1" then some true else none

def keysDistinct (es : List (Nat × List Nat)) : Bool :=
  let ks := es.map (·.1)
  ks.eraseDups.length == ks.length

def bytesToString (bs : List Nat) : String := String.ofList (bs.map Char.ofNat)

def handle (toks : List String) : String :=
  match toks with
  | ["to-json", n, es] =>
    match n.toNat?, parseEntries es with
    | some n, some es => if keysDistinct es then Hex.toHex (toJson n es) else "bad-request"
    | _, _ => "bad-request"
  | ["display", es] =>
    match parseEntries es with
    | some es => if keysDistinct es then Hex.toHex (display es) else "bad-request"
    | none => "bad-request"
  | ["update-fimg", n, cl, rf, clr, init, es] =>
    match n.toNat?, cl.toNat?, parseBool rf, parseBool clr, parseEntries init, parseEntries es with
    | some n, some cl, some rf, some clr, some init, some es =>
      if cl == 0 || !keysDistinct es || !keysDistinct init then "bad-request" else
      match updateFimg n cl rf clr init es with
      | none => "refused"
      | some f => "eof=" ++ toString f.eof ++ " " ++ showEntries f.chunks
    | _, _, _, _, _, _ => "bad-request"
  | ["chunks-json", es] =>
    match parseEntries es with
    | some es => if keysDistinct es then Hex.toHex (chunksJson es) else "bad-request"
    | none => "bad-request"
  | ["dasm-map"] =>
    let names := Gen.DasmTable.mnemonicNames
    ",".intercalate ((List.range 256).map fun code =>
      match dasmMap (List.range Gen.DasmTable.mnemonicCount) code with
      | some (m, _) => bytesToString (names.getD m [63])
      | none => "?")
  | ["flags"] =>
    s!"to_json={Gen.C20Flags.recsToJsonSorted} display={Gen.C20Flags.recsDisplaySorted} update_fimg={Gen.C20Flags.recsUpdateFimgSorted}"
  | _ => "bad-request"

end A2Verif.Drv.C20
