import A2Verif.Model.Hex
import A2Verif.Model.Dasm
import A2Verif.Model.Asm
import A2Verif.Model.DasmLabel
/-!
driver family `c15`: answers for the harness family `c15`.

  c15 dasm  <proc> <mx> <brk> <org-hex> <bytes-hex>   rendered line list of the model, `;` separated
  c15 spans <proc> <mx> <brk> <org-hex> <bytes-hex>   start address of every emitted unit (hex, `,` separated)
  c15 rt    <proc> <mx> <brk> <org-hex> <bytes-hex>   per unit: bytes the assembler model emits for it (hex), or `E`
                                                      (refused), or `E:<hex>` for a refused `LUP` group with its Merlin reading

  c15 ldasm <lab> <key> <proc> <mx> <brk> <org-hex> <bytes-hex>   labelled listing (`lab` ∈ none some all; `key` ∈ cur exact
                                                      masked = look-up key of the substitution guard, `cur` = the one the
                                                      translator found in the source): `label|text` per line, `;` separated
  c15 lasm <lab> <key> <ver> <proc> <mx> <brk> <org-hex> <bytes-hex>   bytes the assembler model emits for the whole labelled
                                                      listing (`ver` ∈ m8 m16 m16+ m32), or `E`

`proc` ∈ 6502 65c02 65802 65816, `mx` two binary digits, `brk` 0/1.  The rendering below is the text layer
of `format_lines` reduced to `MNEMONIC+suffix OPERAND` (single blank), which is how the harness
canonicalises the real output.
-/
namespace A2Verif.Drv.C15
open A2Verif.Gen.Opcodes A2Verif.Gen.DasmLabels A2Verif.Dasm A2Verif.Asm

def parseProc : String → Option Proc
  | "6502" => some .p6502
  | "65c02" => some .p65c02
  | "65802" => some .p65802
  | "65816" => some .p65816
  | _ => none

def parseBit : Char → Option Bool
  | '0' => some false
  | '1' => some true
  | _ => none

def parseHexNat (s : String) : Option Nat :=
  s.toList.foldl (fun acc c => match acc, A2Verif.Hex.hexVal c with
    | some a, some d => some (16 * a + d)
    | _, _ => none) (if s.isEmpty then none else some 0)

def hexN (v n : Nat) : String :=
  String.join ((List.range n).reverse.map (fun i => A2Verif.Hex.byteToHex ((v / 256 ^ i) % 256)))

def upper (c : Nat) : Char := Char.ofNat (if 97 ≤ c ∧ c ≤ 122 then c - 32 else c)

/-- `snip.replace(digit, hex)` on the upper-cased snippet -/
def fillSnippet (snip : List Nat) (digit : Nat) (hex : String) : String :=
  String.join (snip.map (fun c => if c == 48 + digit then hex else String.singleton (upper c)))

def strOf (cs : List Nat) : String := String.ofList (cs.map Char.ofNat)

def renderLine : Line → List String
  | .instr _ m md wide sfx pfx op =>
    let name := strOf (mnemName m) ++ (match sfx with | .none => "" | .colon => ":" | .long => "L")
    match op with
    | .none => [name]
    | .mov a b => [name ++ " $" ++ hexN a 1 ++ ",$" ++ hexN b 1]
    | .rel d =>
      let n := if md == .rell then 2 else 1
      [name ++ " " ++ fillSnippet (snippet md) n ("$" ++ hexN d 2)]
    | .val v n =>
      let snip := if wide then [35, 50] else snippet md
      [name ++ " " ++ (if pfx then ">" else "") ++ fillSnippet snip n ("$" ++ hexN v n)]
  | .hex _ reps bytes =>
    let h := "HEX " ++ String.join (bytes.map A2Verif.Hex.byteToHex)
    if reps > 1 then ["LUP " ++ toString reps, h, "--^"] else [h]
  | .ds _ n v => ["DS " ++ toString n ++ ",$" ++ hexN v 1]
  | .asc _ neg s zero =>
    let d := delimOf neg s
    ["ASC " ++ strOf ([d] ++ s ++ [d]) ++ (if zero then ",00" else "")]
  | .dci _ neg s =>
    let d := delimOf neg s
    ["DCI " ++ strOf ([d] ++ s ++ [d])]
  | .dfb _ v => ["DFB $" ++ hexN v 1]

/-- a line of the labelled listing: column 1 (`_HEX` or empty) `|` the text; an operand that `format_lines`
replaces by a label is printed as `_` + `pc_bytes`-byte hex (`addr_pattern.replace` hits the number, which is the
first run of hex digits of every snippet) -/
def renderLabelled (k : LabelKey) (labels : List Nat) (pcb : Nat) (l : Line) : List String :=
  let col1 := if hasLineLabel labels l then "_" ++ hexN l.addr pcb else ""
  let body : List String :=
    match labelSubst k labels pcb l, l with
    | some _, .instr _ m md wide sfx pfx (.rel d) =>
      let name := strOf (mnemName m) ++ (match sfx with | .none => "" | .colon => ":" | .long => "L")
      let n := if md == .rell then 2 else 1
      let _ := wide; let _ := pfx
      [name ++ " " ++ fillSnippet (snippet md) n ("_" ++ hexN d pcb)]
    | some _, .instr _ m md wide sfx pfx (.val v n) =>
      let name := strOf (mnemName m) ++ (match sfx with | .none => "" | .colon => ":" | .long => "L")
      let snip := if wide then [35, 50] else snippet md
      [name ++ " " ++ (if pfx then ">" else "") ++ fillSnippet snip n ("_" ++ hexN v pcb)]
    | _, _ => renderLine l
  match body with
  | [] => []
  | first :: more => (col1 ++ "|" ++ first) :: more.map (fun x => "|" ++ x)

def parseLab : String → Option Labeling
  | "none" => some .none | "some" => some .some | "all" => some .all | _ => none

def parseKey : String → Option LabelKey
  | "cur" => some labelKey | "exact" => some .exact | "masked" => some .masked | _ => none

def parseVer : String → Option Ver
  | "m8" => some .m8 | "m16" => some .m16 | "m16+" => some .m16p | "m32" => some .m32 | _ => none

def primaryVer : Proc → Ver
  | .p65816 => .m16
  | _ => .m8

def join (sep : String) (xs : List String) : String :=
  if xs.isEmpty then "-" else sep.intercalate xs

def handle (toks : List String) : String :=
  match toks with
  | [op, p, mx, brk, org, hex] =>
    match parseProc p, mx.toList, brk.toList, parseHexNat org, A2Verif.Hex.ofHex hex with
    | some proc, [mc, xc], [bc], some o, some bytes =>
      match parseBit mc, parseBit xc, parseBit bc with
      | some m8, some x8, some b =>
        let cfg : Cfg := ⟨proc, m8, x8, b⟩
        let lines := dasm Quirks.fixed cfg o bytes
        if op == "dasm" then join ";" (lines.flatMap renderLine)
        else if op == "spans" then join "," (lines.map (fun l => (String.ofList (Nat.toDigits 16 l.addr)).toUpper))
        else if op == "rt" then
          let ac : ACfg := ⟨proc, primaryVer proc, m8, x8⟩
          join "," (lines.map (fun l => match lineBytes Quirks.fixed ac l.addr l with
            | .ok b => A2Verif.Hex.toHex b
            | .error _ =>
              match l with
              | .hex _ reps body => "E:" ++ A2Verif.Hex.toHex (lupBytes reps body)
              | _ => "E"))
        else "bad-request"
      | _, _, _ => "bad-request"
    | _, _, _, _, _ => "bad-request"
  | [op, lab, key, p, mx, brk, org, hex] =>
    match parseLab lab, parseKey key, parseProc p, mx.toList, brk.toList, parseHexNat org, A2Verif.Hex.ofHex hex with
    | some lab, some k, some proc, [mc, xc], [bc], some o, some bytes =>
      match parseBit mc, parseBit xc, parseBit bc with
      | some m8, some x8, some b =>
        if op == "ldasm" then
          let lines := dasm Quirks.fixed ⟨proc, m8, x8, b⟩ o bytes
          let labels := labelSet lab lines
          join ";" (lines.flatMap (renderLabelled k labels (pcBytes lines)))
        else "bad-request"
      | _, _, _ => "bad-request"
    | _, _, _, _, _, _, _ => "bad-request"
  | [op, lab, key, ver, p, mx, brk, org, hex] =>
    match parseLab lab, parseKey key, parseVer ver, parseProc p, mx.toList, brk.toList, parseHexNat org, A2Verif.Hex.ofHex hex with
    | some lab, some k, some ver, some proc, [mc, xc], [bc], some o, some bytes =>
      match parseBit mc, parseBit xc, parseBit bc with
      | some m8, some x8, some b =>
        if op == "lasm" then
          let lines := dasm Quirks.fixed ⟨proc, m8, x8, b⟩ o bytes
          match asmAll Quirks.fixed ⟨proc, ver, m8, x8⟩ o (labelled k lab lines) with
          | .ok out => if out.isEmpty then "-" else A2Verif.Hex.toHex out
          | .error _ => "E"
        else "bad-request"
      | _, _, _ => "bad-request"
    | _, _, _, _, _, _, _, _ => "bad-request"
  | _ => "bad-request"

end A2Verif.Drv.C15
