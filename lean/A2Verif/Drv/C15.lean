import A2Verif.Model.Hex
import A2Verif.Model.Dasm
import A2Verif.Model.Asm
import A2Verif.Model.DasmLabel
import A2Verif.Model.DasmRange
/-!
driver family `c15`: answers for the harness family `c15`.

  c15 dasm  <proc> <mx> <brk> <org-hex> <bytes-hex>   rendered line list of the model, `;` separated
  c15 spans <proc> <mx> <brk> <org-hex> <bytes-hex>   start address of every emitted unit (hex, `,` separated)
  c15 rt    <proc> <mx> <brk> <org-hex> <bytes-hex>   per unit: bytes the assembler model emits for it (hex), or `E`
                                                      (refused), or `E:<hex>` for a refused `LUP` group with its Merlin reading

  c15 ldasm <lab> <key> <proc> <mx> <brk> <org-hex> <bytes-hex>   labelled listing (`lab` ∈ none some all; `key` ∈ cur exact
                                                      masked = look-up key of the substitution guard, `cur` = the one the
                                                      translator found in the source): `label|text` per line, `;` separated
  c15 lasm <lab> <key> <ver> <proc> <mx> <brk> <org-hex> <bytes-hex>   bytes the assembler model emits for the whole labelled
                                                      listing (`ver` ∈ m8 m16 m16+ m32), or `E`

  every op above takes an optional last token `+<hex>`: the image bytes that FOLLOW the disassembled range (the
  range is then a proper sub-range of the image; what the look-ahead of a text run may see of them is
  `Gen.DasmLabels.lookBound`)
  c15 brange <dos|prodos> <image-length> <start-word-hex> <length-word-hex>   `beg,end` (hex) selected by LastBloadDos33 /
                                                      LastBloadProDos, or `E`

`proc` ∈ 6502 65c02 65802 65816, `mx` two binary digits, `brk` 0/1.  The rendering below is the text layer
of `format_lines` reduced to `MNEMONIC+suffix OPERAND` (single blank), which is how the harness
canonicalises the real output.
-/
namespace A2Verif.Drv.C15
open A2Verif.Gen.Opcodes A2Verif.Gen.DasmLabels A2Verif.Dasm A2Verif.Asm

def parseProc : String → Option Proc
  | "6502" => some .p6502
  | "65c02" => some .p65c02
  | "65802" => some .p65802
  | "65816" => some .p65816
  | _ => none

def parseBit : Char → Option Bool
  | '0' => some false
  | '1' => some true
  | _ => none

def parseHexNat (s : String) : Option Nat :=
  s.toList.foldl (fun acc c => match acc, A2Verif.Hex.hexVal c with
    | some a, some d => some (16 * a + d)
    | _, _ => none) (if s.isEmpty then none else some 0)

def hexN (v n : Nat) : String :=
  String.join ((List.range n).reverse.map (fun i => A2Verif.Hex.byteToHex ((v / 256 ^ i) % 256)))

def upper (c : Nat) : Char := Char.ofNat (if 97 ≤ c ∧ c ≤ 122 then c - 32 else c)

/-- `snip.replace(digit, hex)` on the upper-cased snippet -/
def fillSnippet (snip : List Nat) (digit : Nat) (hex : String) : String :=
  String.join (snip.map (fun c => if c == 48 + digit then hex else String.singleton (upper c)))

def strOf (cs : List Nat) : String := String.ofList (cs.map Char.ofNat)

def renderLine : Line → List String
  | .instr _ m md wide sfx pfx op =>
    let name := strOf (mnemName m) ++ (match sfx with | .none => "" | .colon => ":" | .long => "L")
    match op with
    | .none => [name]
    | .mov a b => [name ++ " $" ++ hexN a 1 ++ ",$" ++ hexN b 1]
    | .rel d =>
      let n := if md == .rell then 2 else 1
      [name ++ " " ++ fillSnippet (snippet md) n ("$" ++ hexN d 2)]
    | .val v n =>
      let snip := if wide then [35, 50] else snippet md
      [name ++ " " ++ (if pfx then ">" else "") ++ fillSnippet snip n ("$" ++ hexN v n)]
  | .hex _ reps bytes =>
    let h := "HEX " ++ String.join (bytes.map A2Verif.Hex.byteToHex)
    if reps > 1 then ["LUP " ++ toString reps, h, "--^"] else [h]
  | .ds _ n v => ["DS " ++ toString n ++ ",$" ++ hexN v 1]
  | .asc _ neg s zero =>
    let d := delimOf neg s
    ["ASC " ++ strOf ([d] ++ s ++ [d]) ++ (if zero then ",00" else "")]
  | .dci _ neg s =>
    let d := delimOf neg s
    ["DCI " ++ strOf ([d] ++ s ++ [d])]
  | .dfb _ v => ["DFB $" ++ hexN v 1]

/-- a line of the labelled listing: column 1 (`_HEX` or empty) `|` the text; an operand that `format_lines`
replaces by a label is printed as `_` + `pc_bytes`-byte hex (`addr_pattern.replace` hits the number, which is the
first run of hex digits of every snippet) -/
def renderLabelled (k : LabelKey) (labels : List Nat) (pcb : Nat) (l : Line) : List String :=
  let col1 := if hasLineLabel labels l then "_" ++ hexN l.addr pcb else ""
  let body : List String :=
    match labelSubst k labels pcb l, l with
    | some _, .instr _ m md wide sfx pfx (.rel d) =>
      let name := strOf (mnemName m) ++ (match sfx with | .none => "" | .colon => ":" | .long => "L")
      let n := if md == .rell then 2 else 1
      let _ := wide; let _ := pfx
      [name ++ " " ++ fillSnippet (snippet md) n ("_" ++ hexN d pcb)]
    | some _, .instr _ m md wide sfx pfx (.val v n) =>
      let name := strOf (mnemName m) ++ (match sfx with | .none => "" | .colon => ":" | .long => "L")
      let snip := if wide then [35, 50] else snippet md
      [name ++ " " ++ (if pfx then ">" else "") ++ fillSnippet snip n ("_" ++ hexN v pcb)]
    | _, _ => renderLine l
  match body with
  | [] => []
  | first :: more => (col1 ++ "|" ++ first) :: more.map (fun x => "|" ++ x)

def parseLab : String → Option Labeling
  | "none" => some .none | "some" => some .some | "all" => some .all | _ => none

def parseKey : String → Option LabelKey
  | "cur" => some labelKey | "exact" => some .exact | "masked" => some .masked | _ => none

def parseVer : String → Option Ver
  | "m8" => some .m8 | "m16" => some .m16 | "m16+" => some .m16p | "m32" => some .m32 | _ => none

def primaryVer : Proc → Ver
  | .p65816 => .m16
  | _ => .m8

def join (sep : String) (xs : List String) : String :=
  if xs.isEmpty then "-" else sep.intercalate xs

/-- a trailing token `+<hex>` gives the image bytes that follow the disassembled range -/
def splitAfter (toks : List String) : List String × Option (List Nat) :=
  match toks.getLast? with
  | some t => if t.startsWith "+" then (toks.dropLast, A2Verif.Hex.ofHex (t.drop 1).toString) else (toks, some [])
  | none => (toks, some [])

def parseCfg (p mx brk org hex : String) : Option (Cfg × Nat × List Nat) :=
  match parseProc p, mx.toList, brk.toList, parseHexNat org, A2Verif.Hex.ofHex hex with
  | some proc, [mc, xc], [bc], some o, some bytes =>
    match parseBit mc, parseBit xc, parseBit bc with
    | some m8, some x8, some b => some (⟨proc, m8, x8, b⟩, o, bytes)
    | _, _, _ => none
  | _, _, _, _, _ => none

def handle (toks0 : List String) : String :=
  match splitAfter toks0 with
  | (_, none) => "bad-request"
  | (toks, some after) =>
  match toks with
  | ["brange", which, len, sw, lw] =>
    -- `dos33_bload_range` / `prodos_bload_range` on a zeroed image of `len` bytes with the two words poked in
    match len.toNat?, parseHexNat sw, parseHexNat lw with
    | some n, some s, some l =>
      let (sa, la) := if which == "dos" then (0xaa72, 0xaa60) else (0xbeb9, 0xbec8)
      let img := ((((List.replicate n 0).set sa (s % 256)).set (sa + 1) (s / 256)).set la (l % 256)).set (la + 1) (l / 256)
      match bloadRange img sa la with
      | some (b, e) => (String.ofList (Nat.toDigits 16 b)).toUpper ++ "," ++ (String.ofList (Nat.toDigits 16 e)).toUpper
      | none => "E"
    | _, _, _ => "bad-request"
  | [op, p, mx, brk, org, hex] =>
    match parseCfg p mx brk org hex with
    | some (cfg, o, bytes) =>
      let lines := dasmR Quirks.fixed cfg lookBound o bytes after
      if op == "dasm" then join ";" (lines.flatMap renderLine)
      else if op == "spans" then join "," (lines.map (fun l => (String.ofList (Nat.toDigits 16 l.addr)).toUpper))
      else if op == "rt" then
        let ac : ACfg := ⟨cfg.proc, primaryVer cfg.proc, cfg.m8, cfg.x8⟩
        join "," (lines.map (fun l => match lineBytes Quirks.fixed ac l.addr l with
          | .ok b => A2Verif.Hex.toHex b
          | .error _ =>
            match l with
            | .hex _ reps body => "E:" ++ A2Verif.Hex.toHex (lupBytes reps body)
            | _ => "E"))
      else "bad-request"
    | none => "bad-request"
  | ["ldasm", lab, key, p, mx, brk, org, hex] =>
    match parseLab lab, parseKey key, parseCfg p mx brk org hex with
    | some lab, some k, some (cfg, o, bytes) =>
      let lines := dasmR Quirks.fixed cfg lookBound o bytes after
      let labels := labelSet lab lines
      join ";" (lines.flatMap (renderLabelled k labels (pcBytes lines)))
    | _, _, _ => "bad-request"
  | ["lasm", lab, key, ver, p, mx, brk, org, hex] =>
    match parseLab lab, parseKey key, parseVer ver, parseCfg p mx brk org hex with
    | some lab, some k, some ver, some (cfg, o, bytes) =>
      let lines := dasmR Quirks.fixed cfg lookBound o bytes after
      match asmAll Quirks.fixed ⟨cfg.proc, ver, cfg.m8, cfg.x8⟩ o (labelled k lab lines) with
      | .ok out => if out.isEmpty then "-" else A2Verif.Hex.toHex out
      | .error _ => "E"
    | _, _, _, _ => "bad-request"
  | _ => "bad-request"

end A2Verif.Drv.C15
