import A2Verif.Model.Hex
import A2Verif.Model.Mkdsk
/-!
Driver family `c10`: `c10 decide <os> <kind> <type> <wrap|none> <boot 0|1> <volume hex|none> <ext hex> <dest-exists 0|1>`
answers what the model of `mkdsk` decides: `ok wrote type=… fs=… cap=… bs=… total=… free=…`, `err nowrite` or `panic nowrite`.
-/
namespace A2Verif.Drv.C10
open A2Verif.Gen.Mkdsk A2Verif.Model.Mkdsk

def fsName : Fs → String
  | .dos => "dos" | .prodos => "prodos" | .pascal => "pascal" | .cpm => "cpm" | .fat => "fat"

def bool? : String → Option Bool
  | "0" => some false
  | "1" => some true
  | _ => none

def render (r : Result) : String :=
  let w := if r.wrote then "wrote" else "nowrite"
  match r.outcome with
  | .ok p => s!"ok {w} type={p.typ.name} fs={fsName p.fs} cap={p.cap} bs={p.blockSize} total={p.total} free={p.free}"
  | .err _ => s!"err {w}"
  | .panic _ => s!"panic {w}"

def handle (toks : List String) : String :=
  match toks with
  | ["decide", os, kind, typ, wrap, boot, vol, ext, dest] =>
    let wrap? : Option (Option WrapArg) := if wrap == "none" then some none else (WrapArg.ofString wrap).map some
    let vol? : Option (Option (List Nat)) := if vol == "none" then some none else (A2Verif.Hex.ofHex vol).map some
    match Os.ofString os, KindArg.ofString kind, TypeArg.ofString typ, wrap?, bool? boot, vol?, A2Verif.Hex.ofHex ext, bool? dest with
    | some o, some k, some t, some w, some b, some v, some e, some d =>
      render (run { os := o, kind := k, typ := t, wrap := w, boot := b, vol := v, ext := e, destExists := d })
    | _, _, _, _, _, _, _, _ => "bad-request"
  | _ => "bad-request"

end A2Verif.Drv.C10
