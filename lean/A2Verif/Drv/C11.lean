import A2Verif.Model.Hex
import A2Verif.Model.CmdSkel
import A2Verif.Gen.CmdSkel
/-!
driver family `c11`:

* `c11 admits <cmd> <failcats|-> <failAt|-> <n> <ok|err|panic> <0|1>` → `yes` / `no`:
  does the generated skeleton of `<cmd>` have a path, under the scenario "the fallible steps of the
  listed categories fail (at iteration `failAt` of the innermost loop), nothing else fails, every
  loop runs `n` times", that ends with the given exit class and (if the last field is `1`) has
  written the file?
* `c11 props <cmd>` → `savelast=<0|1> readonly=<0|1>`
-/
namespace A2Verif.Drv.C11
open A2Verif.CmdSkel

def b (x : Bool) : String := if x then "1" else "0"

def handle (toks : List String) : String :=
  match toks with
  | ["props", cmd] =>
    match A2Verif.Gen.CmdSkel.names.lookup cmd with
    | none => "unknown-command"
    | some c =>
      match A2Verif.Gen.CmdSkel.all.lookup c with
      | none => "unknown-command"
      | some k => s!"savelast={b (SaveLast k)} readonly={b (ReadOnly k)}"
  | ["admits", cmd, cats, at_, n, ex, ch] =>
    match A2Verif.Gen.CmdSkel.names.lookup cmd, A2Verif.Hex.parseNatList cats, n.toNat? with
    | some c, some cs, some nn =>
      match A2Verif.Gen.CmdSkel.all.lookup c with
      | none => "unknown-command"
      | some k =>
        let failAt : Option (Option Nat) := if at_ == "-" then some none else at_.toNat?.map some
        let e : Option Nat := if ex == "ok" then some 1 else if ex == "err" then some 2 else if ex == "panic" then some 3 else none
        let changed : Option Bool := if ch == "1" then some true else if ch == "0" then some false else none
        match failAt, e, changed with
        | some fa, some e, some chg =>
          if admits { failCats := cs, failAt := fa, n := nn } k e chg then "yes" else "no"
        | _, _, _ => "bad-request"
    | none, _, _ => "unknown-command"
    | _, _, _ => "bad-request"
  | _ => "bad-request"

end A2Verif.Drv.C11
