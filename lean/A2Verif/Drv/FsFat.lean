import A2Verif.Model.Hex
import A2Verif.Model.Fs.Fat
import A2Verif.Model.Fs.FatReadT
import A2Verif.Drv.Fs
/-!
Driver family `fsf` (stateful): the byte-exact tie of the concrete FAT model (`Model/Fs/Fat.lean`).

The harness mirrors the real saved image into the driver with `fs set` (state of family `fs`, passed in here as
`mirror`).  For a FAT volume on a flat `IMG` container it additionally sends every operation, with its arguments
and the result class the real code reported, to this family.  The model applies the operation to **its own**
state (image + FAT buffer), flushes the FAT buffer as `get_img()` does, and answers `ok` iff its result class
equals the real one and its image equals the mirror unit for unit, otherwise the first difference.  After a
disagreement the model state is re-synchronised with the mirror so that one defect is reported once.

  fsf ready                                                     → yes | no      (no: `format` has to come first)
  fsf format <count> <label> <tenths> <time> <date> <lf> <real> <img…> → ok | bad …   lf: 1 = the label is addressable as a file (variant bit, probed on the real code); img: `a-b=BB` (units a..b uniformly BB) | `i:hex`;
                                                                                 the freshly formatted real image; its unit 0 is the boot sector parameter
  fsf put <path> <chunklen> <eof> <access> <created> <modified> <real> <chunks>  → ok | bad …   chunks: `i:hex,…` (`i:-` = data omitted)
  fsf delete <path> <real> | lock … | unlock …                  → ok | bad …
  fsf rename <old> <new> <real>                                 → ok | bad …
  fsf retype <path> <sys|reg|hid|vis|other> <real>              → ok | bad …
  fsf mkdir <path> <tenths> <time> <date> <real>                → ok | bad …
  fsf get <path>                                                → ok <ext> <attr> <eof> <nchunks> <adler> | err:<class>
  fsf free                                                      → ok <n> | err:<class>
  fsf readt                                                     → the answer of `fs read`, computed by the total reader `Read.FatT.readT`
  fsf cat <path>                                                → ok <type>:<blocks>:<name>,… | err:<class>

`<real>` is `ok` or `err:<class>` with the classes of `Err.token`.  Paths, names, labels, times are hex.
-/
namespace A2Verif.Drv.FsFat
open A2Verif.Fs.Fat

structure St where
  disk : Option Disk := none
  deriving Inhabited

def eqBytes : List Nat → List Nat → Bool
  | [], [] => true
  | x :: xs, y :: ys => x == y && eqBytes xs ys
  | _, _ => false

theorem eqBytes_refl (x : List Nat) : eqBytes x x = true := by
  induction x with
  | nil => rfl
  | cons a t ih => simp [eqBytes, ih]

/-- `eqBytes`, answered at once when both sides are the same object (a unit neither side has written) -/
def eqUnit (x y : List Nat) : Bool := withPtrEq x y (fun _ => eqBytes x y) (fun h => by subst h; exact eqBytes_refl x)

/-- index of the first unit in which the two images differ, from `i` on (`fuel` = units left) -/
def diffFrom (a b : Array Bytes) : Nat → Nat → Option Nat
  | 0, _ => none
  | fuel + 1, i =>
    match a[i]?, b[i]? with
    | some x, some y => if eqUnit x y then diffFrom a b fuel (i + 1) else some i
    | none, none => none
    | _, _ => some i

def firstDiff (a b : Raw) : Option Nat :=
  if a.units.size ≠ b.units.size then some (min a.units.size b.units.size)
  else diffFrom a.units b.units a.units.size 0

def resTok {α : Type} (r : R α) : String :=
  match r with
  | .ok _ => "ok"
  | .error e => s!"err:{e.token}"

/-- compare result class and flushed image; on disagreement adopt the mirror (and re-open the FAT buffer from it) -/
def verdict (mirror : Raw) (real : String) (model : String) (flushed : R Unit) (d' : Disk) : St × String :=
  let resync : St := { disk := some (Disk.ofImg mirror d'.bpb d'.labelFiles) }
  if model ≠ real then (resync, s!"bad result model={model} real={real}")
  else match flushed with
    | .error e => (resync, s!"bad flush {e.token}")
    | .ok _ =>
      match firstDiff d'.raw mirror with
      | some i => (resync, s!"bad sector {i}")
      -- equal unit for unit: keep the mirror's units (shared with family `fs`) and the model's FAT buffer
      | none => ({ disk := some { d' with raw := mirror } }, "ok")

/-- run a mutating operation on the model state and compare -/
def step {α : Type} (mirror : Raw) (st : St) (real : String) (m : M α) : St × String :=
  match st.disk with
  | none => (st, "bad not-formatted")
  | some d =>
    let (res, d1) := m d
    let (fl, d2) := flush d1
    verdict mirror real (resTok res) fl d2

/-- run a query; the state is not kept -/
def query {α : Type} (st : St) (m : M α) (show_ : α → String) : St × String :=
  match st.disk with
  | none => (st, "bad not-formatted")
  | some d =>
    match (m d).1 with
    | .ok a => (st, s!"ok {show_ a}")
    | .error e => (st, s!"err:{e.token}")

def nib (c : UInt8) : Nat :=
  if 48 ≤ c && c ≤ 57 then (c - 48).toNat else if 65 ≤ c && c ≤ 70 then (c - 55).toNat else if 97 ≤ c && c ≤ 102 then (c - 87).toNat else 256

/-- `Hex.ofHex` for long strings: one pass over the UTF-8 bytes from the end, no intermediate lists -/
def hexLoop (b : ByteArray) : Nat → List Nat → Option (List Nat)
  | 0, acc => some acc
  | k + 1, acc =>
    let hi := nib (b.get! (2 * k))
    let lo := nib (b.get! (2 * k + 1))
    if hi > 15 || lo > 15 then none else hexLoop b k ((16 * hi + lo) :: acc)

def ofHexFast (s : String) : Option (List Nat) :=
  if s == "-" then some [] else
  let b := s.toUTF8
  if b.size % 2 ≠ 0 then none else hexLoop b (b.size / 2) []

/-- `i:hex,i:hex,…` (`i:-` = no data) in one pass over the UTF-8 bytes from the end.  `k` = bytes left, `cur` = data
bytes of the item being read, `idx`/`mul` = its index once the `:` has been passed (`mul = 0`: still in the data). -/
def chunkLoop (b : ByteArray) : Nat → Nat → List Nat → Nat → Nat → List (Nat × Bytes) → Option (List (Nat × Bytes))
  | 0, _, _, _, _, _ => none
  | fuel + 1, k, cur, idx, mul, items =>
    if k = 0 then (if mul = 0 then none else some ((idx, cur) :: items)) else
    let c := b.get! (k - 1)
    if mul = 0 then
      if c = 58 then chunkLoop b fuel (k - 1) cur 0 1 items
      else if c = 45 then chunkLoop b fuel (k - 1) cur idx mul items
      else if k < 2 then none else
        let hi := nib (b.get! (k - 2))
        let lo := nib c
        if hi > 15 || lo > 15 then none else chunkLoop b fuel (k - 2) ((16 * hi + lo) :: cur) idx mul items
    else
      if c = 44 then chunkLoop b fuel (k - 1) [] 0 0 ((idx, cur) :: items)
      else if 48 ≤ c && c ≤ 57 then chunkLoop b fuel (k - 1) cur (idx + mul * (c - 48).toNat) (mul * 10) items
      else none

def parseChunks (s : String) : Option (List (Nat × Bytes)) :=
  if s == "-" then some [] else
  let b := s.toUTF8
  chunkLoop b (b.size + 1) b.size [] 0 0 []

/-- the image description of `format`: `a-b=BB` | `i:hex` -/
def parseImg (unitLen count : Nat) (items : List String) : Option Raw :=
  items.foldl (fun (acc : Option Raw) it =>
    match acc with
    | none => none
    | some raw =>
      match it.splitOn "=" with
      | [rng, bb] =>
        match rng.splitOn "-", Hex.ofHex bb with
        | [a, b], some [v] =>
          match a.toNat?, b.toNat? with
          | some a, some b =>
            let u := List.replicate unitLen v
            some ((List.range' a (b + 1 - a)).foldl (fun (r : Raw) i => r.set i u) raw)
          | _, _ => none
        | _, _ => none
      | _ =>
        match it.splitOn ":" with
        | [i, h] => match i.toNat?, Hex.ofHex h with
          | some idx, some bs => some (raw.set idx bs)
          | _, _ => none
        | _ => none)
    (some { unitLen := unitLen, units := Array.replicate count (List.replicate unitLen 0) })

def adler (bs : List Bytes) : Nat :=
  let (a, b) := bs.foldl (fun (s : Nat × Nat) blk => blk.foldl (fun (s : Nat × Nat) x => let a := (s.1 + x) % 65521; (a, (s.2 + a) % 65521)) s) (1, 0)
  b * 65536 + a

def parseType (s : String) : NewType :=
  if s == "sys" then .sys else if s == "reg" then .reg else if s == "hid" then .hid else if s == "vis" then .vis else .other

def handle (mirror : Raw) (st : St) (toks : List String) : St × String :=
  match toks with
  | ["ready"] => (st, if st.disk.isSome then "yes" else "no")
  | "format" :: count :: label :: tenths :: time :: date :: lfiles :: real :: img =>
    match count.toNat?, Hex.ofHex label, tenths.toNat?, Hex.ofHex time, Hex.ofHex date with
    | some count, some label, some tenths, some time, some date =>
      let lf := lfiles == "1"
      match parseImg 512 count img with
      | none => (st, "bad-request")
      | some realImg =>
        let boot := realImg.units[0]?.getD []
        let bpb := Bpb.ofBoot boot
        if !bpb.ok then (st, "bad bpb") else
        let blank : Disk := Disk.ofImg { unitLen := 512, units := Array.replicate count (List.replicate 512 0) } bpb lf
        let (res, d1) := format label boot { tenths := tenths, time := time, date := date } blank
        let (fl, d2) := flush d1
        let resync : St := { disk := some (Disk.ofImg realImg bpb lf) }
        if resTok res ≠ real then (resync, s!"bad result model={resTok res} real={real}")
        else match fl with
          | .error e => (resync, s!"bad flush {e.token}")
          | .ok _ =>
            match firstDiff d2.raw realImg with
            | some i => (resync, s!"bad sector {i}")
            | none => ({ disk := some d2 }, "ok")
    | _, _, _, _, _ => (st, "bad-request")
  | ["put", path, chunkLen, eof, access, created, modified, real, cs] =>
    match Hex.ofHex path, chunkLen.toNat?, Hex.ofHex eof, Hex.ofHex access, Hex.ofHex created, Hex.ofHex modified, parseChunks cs with
    | some path, some chunkLen, some eof, some access, some created, some modified, some cs =>
      step mirror st real (put { chunkLen := chunkLen, fullPath := path, eof := eof, access := access, created := created,
                                 modified := modified, chunks := cs } { tenths := 0, time := [0, 0], date := [0, 0] })
    | _, _, _, _, _, _, _ => (st, "bad-request")
  | ["delete", path, real] =>
    match Hex.ofHex path with
    | some path => step mirror st real (delete path)
    | none => (st, "bad-request")
  | ["lock", path, real] =>
    match Hex.ofHex path with
    | some path => step mirror st real (lock path)
    | none => (st, "bad-request")
  | ["unlock", path, real] =>
    match Hex.ofHex path with
    | some path => step mirror st real (unlock path)
    | none => (st, "bad-request")
  | ["rename", old, new, real] =>
    match Hex.ofHex old, Hex.ofHex new with
    | some old, some new => step mirror st real (rename old new)
    | _, _ => (st, "bad-request")
  | ["retype", path, typ, real] =>
    match Hex.ofHex path with
    | some path => step mirror st real (retype path (parseType typ))
    | none => (st, "bad-request")
  | ["mkdir", path, tenths, time, date, real] =>
    match Hex.ofHex path, tenths.toNat?, Hex.ofHex time, Hex.ofHex date with
    | some path, some tenths, some time, some date => step mirror st real (mkdir path { tenths := tenths, time := time, date := date })
    | _, _, _, _ => (st, "bad-request")
  | ["get", path] =>
    match Hex.ofHex path with
    | some path => query st (get path) (fun g => s!"{Hex.toHex g.ext} {g.attr} {g.eof} {g.chunks.length} {adler (g.chunks.map (·.2))}")
    | none => (st, "bad-request")
  | ["free"] => query st statFree (fun n => s!"{n}")
  | ["readt"] =>
    -- the total reader `readT` (the one the theorems are about) on the mirrored real image, rendered like `fs read`
    match Read.FatT.readT mirror with
    | .ok v => (st, Drv.Fs.summary v)
    | .error e => (st, s!"bad {e}")
  | ["cat", path] =>
    match Hex.ofHex path with
    | some path => query st (catalog path) (fun rows =>
        if rows.isEmpty then "-" else ",".intercalate (rows.map (fun (t, b, n) => s!"{Hex.toHex t}:{b}:{Hex.toHex n}")))
    | none => (st, "bad-request")
  | _ => (st, "bad-request")

end A2Verif.Drv.FsFat
