import A2Verif.Model.Hex
import A2Verif.Model.C08Imd
import A2Verif.Model.C08Td0
/-!
Op sequences on LOADED IMD / TD0 images (used by the driver families `c08`, `c09` and `c06img`):

* `<fam> imdseq <hex of the IMD file> <ops>`
* `<fam> td0seq <hex of the TD0 file without advanced compression (signature TD)> <ops>`

* `<fam> imdseqx <hex file> <valid:0|1> <ops>`  — a file of another program: `valid` = its comment bytes are UTF-8
* `<fam> td0seqx <hex file> <hex of from_utf8_lossy(comment bytes)> <fix:0|1> <ops>` — the lossy conversion of the comment is
  the harness' (std), not the model's; `fix` = the tree limits the notes to 65535 bytes (probed by the harness)

`<ops>` = `;`-separated (or `-` for none):
* `rs:<cyl>:<head>:<sector>`            → `ok:<hex>` | `err` | `panic`
* `ws:<cyl>:<head>:<sector>:<hex>`      → `ok` | `err` | `panic`
* `sv`                                  → `sv:<length>:<fnv1a-64>` of what `to_bytes` returns (TD0: before the LZHUF
                                          stage, cut behind the 7 trailer bytes) | `panic`
* `ld`                                  → the object is replaced by `from_bytes(to_bytes())`: `ok` | `err` | `panic`
* `nt:<stamp6 hex>:<hex of UTF-8 notes>` (TD0) → `put_metadata` of `/td0/comment/notes`: `ok` | `refused`
* `cm:<hex of UTF-8 comment>` (IMD)     → `put_metadata` of `/imd/comment`: `ok` | `refused`
* `mg`                                  → the notes / comment as `get_metadata` shows them: `mg:<hex>` | `mg:none`
The answer is `load:ok` | `load:err` | `load:panic` followed by one answer per op; a panic ends the sequence.
-/
namespace A2Verif.Drv.C08Img
open A2Verif.Hex A2Verif.Model A2Verif.Model.C08Ring

def fnv (bs : List Nat) : Nat :=
  bs.foldl (fun h b => ((h ^^^ b) * 0x100000001b3) % 18446744073709551616) 0xcbf29ce484222325

/-- tail recursive hex decoder (requests carry whole image files) -/
def ofHexFast (s : String) : Option (List Nat) :=
  if s == "-" then some [] else
  let rec go (cs : List Char) (acc : List Nat) : Option (List Nat) :=
    match cs with
    | [] => some acc.reverse
    | [_] => none
    | a :: b :: rest =>
      match hexVal a, hexVal b with
      | some x, some y => go rest ((16 * x + y) :: acc)
      | _, _ => none
  go s.toList []

def toHexFast (bs : List Nat) : String :=
  if bs.isEmpty then "-" else
  String.ofList (bs.foldr (fun b acc => hexDigit ((b / 16) % 16) :: hexDigit (b % 16) :: acc) [])

inductive Op
  | rs (c h s : Nat)
  | ws (c h s : Nat) (d : List Nat)
  | sv
  | ld
  | nt (stamp v : List Nat)
  | cm (v : List Nat)
  | mg

def parseOp (s : String) : Option Op :=
  match s.splitOn ":" with
  | ["rs", c, h, x] => do some (.rs (← c.toNat?) (← h.toNat?) (← x.toNat?))
  | ["ws", c, h, x, d] => do some (.ws (← c.toNat?) (← h.toNat?) (← x.toNat?) (← ofHexFast d))
  | ["sv"] => some .sv
  | ["ld"] => some .ld
  | ["nt", st, v] => do some (.nt (← ofHexFast st) (← ofHexFast v))
  | ["cm", v] => do some (.cm (← ofHexFast v))
  | ["mg"] => some .mg
  | _ => none

/-- what an image object offers to the interpreter; `none` in `save`/`reload` = panic, `some none` = `Err` -/
structure Iface (σ : Type) where
  rs : σ → Nat → Nat → Nat → Res (List Nat) × σ
  ws : σ → Nat → Nat → Nat → List Nat → Res Unit × σ
  save : σ → Option (List Nat × σ)
  reload : σ → Option (Option σ)
  notes : σ → List Nat → List Nat → Option σ
  comment : σ → List Nat → Option σ
  getMeta : σ → Option (List Nat)

def finish (acc : List String) : String := ";".intercalate acc.reverse

def runOps {σ : Type} (f : Iface σ) : σ → List Op → List String → String
  | _, [], acc => finish acc
  | st, op :: rest, acc =>
    match op with
    | .rs c h s =>
      match f.rs st c h s with
      | (.ok d, st') => runOps f st' rest (("ok:" ++ toHexFast d) :: acc)
      | (.err, st') => runOps f st' rest ("err" :: acc)
      | (.panic, _) => finish ("panic" :: acc)
    | .ws c h s d =>
      match f.ws st c h s d with
      | (.ok _, st') => runOps f st' rest ("ok" :: acc)
      | (.err, st') => runOps f st' rest ("err" :: acc)
      | (.panic, _) => finish ("panic" :: acc)
    | .sv =>
      match f.save st with
      | some (b, st') => runOps f st' rest (s!"sv:{b.length}:{fnv b}" :: acc)
      | none => finish ("panic" :: acc)
    | .ld =>
      match f.reload st with
      | some (some st') => runOps f st' rest ("ok" :: acc)
      | some none => runOps f st rest ("err" :: acc)
      | none => finish ("panic" :: acc)
    | .nt stamp v =>
      match f.notes st stamp v with
      | some st' => runOps f st' rest ("ok" :: acc)
      | none => runOps f st rest ("refused" :: acc)
    | .cm v =>
      match f.comment st v with
      | some st' => runOps f st' rest ("ok" :: acc)
      | none => runOps f st rest ("refused" :: acc)
    | .mg =>
      match f.getMeta st with
      | some v => runOps f st rest (("mg:" ++ toHexFast v) :: acc)
      | none => runOps f st rest ("mg:none" :: acc)

def ifImd : Iface C08Imd.Obj where
  rs := C08Imd.Obj.readSector
  ws := C08Imd.Obj.writeSector
  save := fun o => (C08Imd.Obj.save o).map (fun b => (b, o))
  reload := fun o => match C08Imd.Obj.save o with
    | none => none
    | some b => C08Imd.load b
  notes := fun _ _ _ => none
  -- `put_metadata(["imd","comment"], v)`: the terminator byte is refused
  comment := fun o v => if 0x1A ∈ v then none else some { o with comment := v }
  getMeta := fun o => some o.comment

def ifTd0 (fix : Bool) : Iface C08Td0.Obj where
  rs := C08Td0.Obj.readSector
  ws := C08Td0.Obj.writeSector
  save := fun o => some (C08Td0.Obj.save o)
  reload := fun o => some (C08Td0.load (C08Td0.Obj.save o).1)
  notes := fun o st v => C08Td0.Obj.putNotesL fix st o v
  comment := fun _ _ => none
  getMeta := fun o => o.comment.map (·.text)

def parseOps (s : String) : Option (List Op) := if s == "-" then some [] else (s.splitOn ";").mapM parseOp

def handle (toks : List String) : Option String :=
  match toks with
  | ["imdseq", file, ops] => do
    let bytes ← ofHexFast file
    let ops ← parseOps ops
    match C08Imd.load bytes with
    | none => some "load:panic"
    | some none => some "load:err"
    | some (some o) => some (runOps ifImd o ops ["load:ok"])
  | ["imdseqx", file, valid, ops] => do
    let bytes ← ofHexFast file
    let ops ← parseOps ops
    match C08Imd.loadV (valid == "1") bytes with
    | none => some "load:panic"
    | some none => some "load:err"
    | some (some o) => some (runOps ifImd o ops ["load:ok"])
  | ["td0seqx", file, lossy, fix, ops] => do
    let bytes ← ofHexFast file
    let lz ← ofHexFast lossy
    let ops ← parseOps ops
    match C08Td0.loadD (fun _ => lz) (fix == "1") bytes with
    | none => some "load:err"
    | some o => some (runOps (ifTd0 (fix == "1")) o ops ["load:ok"])
  | ["td0seq", file, ops] => do
    let bytes ← ofHexFast file
    let ops ← parseOps ops
    match C08Td0.load bytes with
    | none => some "load:err"
    | some o => some (runOps (ifTd0 false) o ops ["load:ok"])
  | _ => none

end A2Verif.Drv.C08Img
