import A2Verif.Model.Hex
import A2Verif.Model.Reload
/-!
driver family `c06`: the identification model of `Model/Reload.lean` (`Reload.Ident`), asked by the harness family
`c06id`.

* `c06 try <d13|do|po|img> <len> <off>:<hex> …` — the bytes of a flat image of `len` bytes, given by the segments the
  tests read (everything else is zero) → `reject` (the container's `from_bytes` refuses the size) or what the first
  four tests of `try_img` answer on that container: `dos32 | dos33 | prodos | pascal | fat | later`
* `c06 ident <none|d13|do|po|dsk|img> <len> <off>:<hex> …` → `none` (no flat container accepts) or the answer of
  the first accepting container in the order of `create_fs_from_bytestream`
-/
namespace A2Verif.Drv.C06
open A2Verif.Reload A2Verif.Reload.Ident

def fsTok : FsId → String
  | .dos32 => "dos32" | .dos33 => "dos33" | .prodos => "prodos" | .pascal => "pascal" | .fat => "fat" | .later => "later"

def parseSeg (s : String) : Option (Nat × List Nat) :=
  match s.splitOn ":" with
  | [o, h] => do
    let off ← o.toNat?
    let b ← Hex.ofHex h
    pure (off, b)
  | _ => none

/-- overwrite `new` at `off` (only inside the image) -/
def put (b : List Nat) (off : Nat) (new : List Nat) : List Nat :=
  if off + new.length ≤ b.length then b.take off ++ new ++ b.drop (off + new.length) else b

def build (len : Nat) (segs : List (Nat × List Nat)) : List Nat :=
  segs.foldl (fun b s => put b s.1 s.2) (List.replicate len 0)

def parseCont : String → Option Cont
  | "d13" => some .d13 | "do" => some .do_ | "po" => some .po | "img" => some .img | _ => none

def parseHint : String → Option Hint
  | "none" => some .none | "d13" => some .d13 | "do" => some .do_ | "po" => some .po | "dsk" => some .dsk | "img" => some .img
  | _ => none

def handle (toks : List String) : String :=
  match toks with
  | "try" :: c :: len :: segs =>
    match parseCont c, len.toNat?, segs.mapM parseSeg with
    | some c, some len, some segs =>
      if len > 4000000 then "bad-request" else
      match probeOf (build len segs) c with
      | some p => fsTok (tryImg p)
      | none => "reject"
    | _, _, _ => "bad-request"
  | "ident" :: h :: len :: segs =>
    match parseHint h, len.toNat?, segs.mapM parseSeg with
    | some h, some len, some segs =>
      if len > 4000000 then "bad-request" else
      match identify h (build len segs) with
      | some f => fsTok f
      | none => "none"
    | _, _, _ => "bad-request"
  | _ => "bad-request"

end A2Verif.Drv.C06
