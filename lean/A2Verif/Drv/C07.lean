import A2Verif.Model.Hex
import A2Verif.Model.AddrMap
/-!
driver family `c07`: address maps of the container formats (`A2Verif.Model.AddrMap`).

Block address tokens `<blk>`: `D13 t s` | `DO t s` | `PO b` | `CPM b bsh off` | `FAT sec1 secs`.
Kind tokens `<kind>`: `dos32` | `dos33` | `a400` | `a800` | `other`, or `L:<NAME>` = the `TrackLayout` const of names.rs.

* `lsecs <spt> <blk>`                 → `Block::get_lsecs`            `ok t.s,t.s,…`
* `tsprodos <kind> <b>`               → `ts_from_prodos_block`        `ok t.s,t.s`
* `blkfromts <t> <s>`                 → `prodos_block_from_ts`        `ok block.offset`
* `cpmblk <ssh> <heads> <t.s,…>`      → `cpm_blocking`                `ok c.h.s,…`
* `fatblk <heads> <t.s,…>`            → `fat_blocking`                `ok c.h.s,…`
* `flat <do|po|d13> <blk>`            → pieces as byte ranges of `to_bytes()`   `ok off.len,…`
* `pieces <do|d13|nib|img|imd|td0> <kind> <blk>` → pieces as physical sectors, i.e. where
  `read_sector(c,h,s)` shows the data: `ok c.h.s.off.len,…`
* `sector <do|d13|img> <kind> <c> <h> <s>` → byte offset of a physical sector in `to_bytes()` `ok off.len`
* `sector <nib|imd|td0> <kind> <c> <h> <s>` → `ok len` if the sector exists
Every answer is `ok …` or `refused`: the model distinguishes `err` from `panic`, but C07 does not constrain *how* an
address outside the disk is rejected (that is C08/C12), so both sides of the comparison report `refused`.
-/
namespace A2Verif.Drv.C07
open A2Verif.Model.AddrMap
open A2Verif.Gen.C07 (LayoutName)
open A2Verif.Model.AddrMap.Out (ok err)

def dots (xs : List Nat) : String := ".".intercalate (xs.map toString)

def render {α : Type} (f : α → String) : Out α → String
  | ok a => "ok " ++ f a
  | err => "refused"
  | .panic => "refused"

def commas (xs : List String) : String := if xs.isEmpty then "-" else ",".intercalate xs

def pairs (xs : List (Nat × Nat)) : String := commas (xs.map fun (a, b) => dots [a, b])
def triples (xs : List (Nat × Nat × Nat)) : String := commas (xs.map fun (a, b, c) => dots [a, b, c])

def parseBlock : List String → Option Block
  | ["D13", t, s] => do pure (.d13 (← t.toNat?) (← s.toNat?))
  | ["DO", t, s] => do pure (.dos (← t.toNat?) (← s.toNat?))
  | ["PO", b] => do pure (.po (← b.toNat?))
  | ["CPM", b, bsh, off] => do pure (.cpm (← b.toNat?) (← bsh.toNat?) (← off.toNat?))
  | ["FAT", a, n] => do pure (.fat (← a.toNat?) (← n.toNat?))
  | _ => none

def parseAKind : String → Option AKind
  | "dos32" => some .dos32
  | "dos33" => some .dos33
  | "a400" => some .a400
  | "a800" => some .a800
  | "other" => some .other
  | _ => none

def parseLayout (s : String) : Option LayoutName :=
  if s.startsWith "L:" then LayoutName.ofName (s.drop 2).toString else none

def parseTsList (s : String) : Option (List (Nat × Nat)) :=
  if s == "-" then some [] else
  (s.splitOn ",").mapM fun item =>
    match item.splitOn "." with
    | [a, b] => do pure ((← a.toNat?), (← b.toNat?))
    | _ => none

/-- physical sector (cyl, 0, sec) of a 35x16 DO image that holds flat range `(o, len)` -/
def doPhys (p : Nat × Nat) : Out (List Nat) :=
  let cands := (List.range 35).flatMap fun c => (List.range 16).map fun s => (c, s)
  match cands.find? (fun (c, s) => match doSectorOffset 35 16 c 0 s with
      | ok base => base ≤ p.1 ∧ p.1 + p.2 ≤ base + 256
      | _ => false) with
  | some (c, s) => match doSectorOffset 35 16 c 0 s with
      | ok base => ok [c, 0, s, p.1 - base, p.2]
      | _ => .panic
  | none => .panic

def d13Phys (p : Nat × Nat) : Out (List Nat) :=
  let cands := (List.range 35).flatMap fun c => (List.range 13).map fun s => (c, s)
  match cands.find? (fun (c, s) => match d13SectorOffset 35 c 0 s with
      | ok base => base ≤ p.1 ∧ p.1 + p.2 ≤ base + 256
      | _ => false) with
  | some (c, s) => match d13SectorOffset 35 c 0 s with
      | ok base => ok [c, 0, s, p.1 - base, p.2]
      | _ => .panic
  | none => .panic

/-- the observation cannot see piece boundaries inside one sector: merge neighbours `c.h.s.off.len`
that continue each other in the same sector (both sides of the comparison do this) -/
def mergePieces : List (List Nat) → List (List Nat)
  | [c1, h1, s1, o1, l1] :: [c2, h2, s2, o2, l2] :: rest =>
    if c1 = c2 ∧ h1 = h2 ∧ s1 = s2 ∧ o1 + l1 = o2 then mergePieces ([c1, h1, s1, o1, l1 + l2] :: rest)
    else [c1, h1, s1, o1, l1] :: mergePieces ([c2, h2, s2, o2, l2] :: rest)
  | xs => xs
termination_by xs => xs.length

/-- flat pieces `(off, len)`: merge neighbours that continue each other inside one `q`-byte sector/block -/
def mergeFlat (q : Nat) : List (Nat × Nat) → List (Nat × Nat)
  | (o1, l1) :: (o2, l2) :: rest =>
    if o1 + l1 = o2 ∧ o1 / q = o2 / q then mergeFlat q ((o1, l1 + l2) :: rest)
    else (o1, l1) :: mergeFlat q ((o2, l2) :: rest)
  | xs => xs
termination_by xs => xs.length

def numTracks : AKind → Nat
  | .a400 => 80
  | .a800 => 160
  | _ => 35

/-- (cyl, head) under which `read_sector` reaches nibble track `t` -/
def nibPhys (kind : AKind) (len : Nat) (p : Nat × Nat) : Out (List Nat) :=
  let cands := (List.range 80).flatMap fun c => [(c, 0), (c, 1)]
  match cands.find? (fun (c, h) => wozSector (numTracks kind) kind c h p.2 = ok (p.1, p.2)) with
  | some (c, h) => ok [c, h, p.2, 0, len]
  | none => .panic

def ibmOf : String → Option Ibm
  | "img" => some .img
  | "imd" => some .imd
  | "td0" => some .td0
  | _ => none

def handle (toks : List String) : String :=
  match toks with
  | "lsecs" :: spt :: blk =>
    match spt.toNat?, parseBlock blk with
    | some spt, some b => render pairs (getLsecs b spt)
    | _, _ => "bad-request"
  | ["tsprodos", kind, b] =>
    match parseAKind kind, b.toNat? with
    | some k, some b => render pairs (tsFromProdosBlock b k)
    | _, _ => "bad-request"
  | ["blkfromts", t, s] =>
    match t.toNat?, s.toNat? with
    | some t, some s => render (fun (p : Nat × Nat) => dots [p.1, p.2]) (prodosBlockFromTs t s)
    | _, _ => "bad-request"
  | ["cpmblk", ssh, heads, ts] =>
    match ssh.toNat?, heads.toNat?, parseTsList ts with
    | some ssh, some heads, some ts => render triples (cpmBlocking ts ssh heads)
    | _, _, _ => "bad-request"
  | ["fatblk", heads, ts] =>
    match heads.toNat?, parseTsList ts with
    | some heads, some ts => render triples (fatBlocking ts heads)
    | _, _ => "bad-request"
  | "flat" :: fmt :: blk =>
    match parseBlock blk with
    | none => "bad-request"
    | some b =>
      match fmt with
      | "do" => render (fun ps => pairs (mergeFlat 256 ps)) (doPieces 35 16 .dos33 b)
      | "po280" => render pairs (poPieces 280 b)
      | "po800" => render pairs (poPieces 800 b)
      | "po1600" => render pairs (poPieces 1600 b)
      | "d13" => render pairs (d13Pieces 35 b)
      | _ => "bad-request"
  | "pieces" :: fmt :: kind :: blk =>
    match parseBlock blk with
    | none => "bad-request"
    | some b =>
      let rl := fun (xs : List (List Nat)) => commas ((mergePieces xs).map dots)
      match fmt with
      | "do" => render rl (doPieces 35 16 .dos33 b >>= Out.mapM' doPhys)
      | "d13" => render rl (d13Pieces 35 b >>= Out.mapM' d13Phys)
      | "nib" =>
        match parseAKind kind with
        | some k => render rl (do
            let (ts, len) ← wozPieces (numTracks k) k b
            Out.mapM' (nibPhys k len) ts)
        | none => "bad-request"
      | f =>
        match ibmOf f, parseLayout kind with
        | some c, some ln => render (fun ps => commas (ps.map fun (p : Nat × Nat × Nat × Nat) => dots [p.1, p.2.1, p.2.2.1, 0, p.2.2.2]))
            (ibmPieces c ln b)
        | _, _ => "bad-request"
  | ["sector", fmt, kind, c, h, s] =>
    match c.toNat?, h.toNat?, s.toNat? with
    | some c, some h, some s =>
      match fmt with
      | "do" => render (fun o => dots [o, 256]) (doSectorOffset 35 16 c h s)
      | "d13" => render (fun o => dots [o, 256]) (d13SectorOffset 35 c h s)
      | "nib" =>
        match parseAKind kind with
        | some k => render (fun (p : Nat × Nat) => dots [p.1, p.2]) (wozSector (numTracks k) k c h s)
        | none => "bad-request"
      | "img" =>
        match parseLayout kind with
        | some ln => render (fun (p : Nat × Nat) => dots [p.1, p.2]) (imgSector ln c h s)
        | none => "bad-request"
      | f =>
        match ibmOf f, parseLayout kind with
        | some cc, some ln => render toString (ibmSector cc ln c h s)
        | _, _ => "bad-request"
    | _, _, _ => "bad-request"
  | _ => "bad-request"

end A2Verif.Drv.C07
