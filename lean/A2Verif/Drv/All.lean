import A2Verif.Model.Hex
import A2Verif.Drv.Fs
import A2Verif.Drv.FsPascal
import A2Verif.Drv.FsDos
import A2Verif.Drv.FsFat
import A2Verif.Drv.FsProdos
import A2Verif.Drv.FsCpm
import A2Verif.Drv.C01
import A2Verif.Drv.C02
import A2Verif.Drv.C03
import A2Verif.Drv.C04
import A2Verif.Drv.C05
import A2Verif.Drv.C06
import A2Verif.Drv.C07
import A2Verif.Drv.C08
import A2Verif.Drv.C09
import A2Verif.Drv.C10
import A2Verif.Drv.C11
import A2Verif.Drv.C12
import A2Verif.Drv.C13
import A2Verif.Drv.C14
import A2Verif.Drv.C15
import A2Verif.Drv.C16
import A2Verif.Drv.C17
import A2Verif.Drv.C18
import A2Verif.Drv.C19
import A2Verif.Drv.C20
import A2Verif.Drv.C08Trk
import A2Verif.Drv.C12Fs
import A2Verif.Drv.C06Img
/-!
Registration of driver families.  Stateless family `cNN` lives in `A2Verif/Drv/CNN.lean` and exports
`handle : List String → String`.  The file-system family `fs` is stateful (`Drv.Fs`).
-/
namespace A2Verif.Drv

structure State where
  fs : Fs.St := {}
  /-- concrete Pascal model (family `fsp`); compares its image with the mirror kept by family `fs` -/
  fsp : FsPascal.St := {}
  /-- concrete DOS 3.x model (family `fsd`); compares its flushed image with the mirror kept by family `fs` -/
  fsd : FsDos.St := {}
  /-- concrete FAT model (family `fsf`); compares its flushed image with the mirror kept by family `fs`
  (reset to the default by the structure literal of `fs open` below) -/
  fsf : FsFat.St := {}
  /-- concrete ProDOS model (family `fspd`); compares its written-back image with the mirror kept by family `fs`
  (reset to the default by the structure literal of `fs open` below) -/
  fspd : FsProdos.St := {}
  /-- concrete CP/M model (family `fsc`); compares its image with the mirror kept by family `fs`, DPB from the `fs open` line -/
  fsc : FsCpm.St := {}

def State.init : State := {}

def dispatch (st : State) (toks : List String) : State × String :=
  match toks with
  | "ping" :: _ => (st, "pong")
  | "fs" :: "open" :: rest => let (f, a) := Fs.handle st.fs ("open" :: rest); ({ fs := f, fsp := {}, fsd := {}, fsc := {} }, a)
  | "fs" :: rest => let (f, a) := Fs.handle st.fs rest; ({ st with fs := f }, a)
  | "fsp" :: rest => let (f, a) := FsPascal.handle st.fs.raw st.fsp rest; ({ st with fsp := f }, a)
  | "fsd" :: rest => let (f, a) := FsDos.handle st.fs.raw st.fsd rest; ({ st with fsd := f }, a)
  | "fsf" :: rest => let (f, a) := FsFat.handle st.fs.raw st.fsf rest; ({ st with fsf := f }, a)
  | "fspd" :: rest => let (f, a) := FsProdos.handle st.fs.raw st.fs.prev st.fspd rest; ({ st with fspd := f }, a)
  | "fsc" :: rest =>
    let dpb : Read.Cpm.Dpb := { bsh := Fs.param st.fs "bsh", exm := Fs.param st.fs "exm", dsm := Fs.param st.fs "dsm", drm := Fs.param st.fs "drm",
                                al0 := Fs.param st.fs "al0", al1 := Fs.param st.fs "al1", v3 := Fs.param st.fs "v3" == 1 }
    let (f, a) := FsCpm.handle dpb st.fs.raw st.fsc rest; ({ st with fsc := f }, a)
  | "c01" :: rest => (st, C01.handle rest)
  | "c02" :: rest => (st, C02.handle rest)
  | "c03" :: rest => (st, C03.handle rest)
  | "c04" :: rest => (st, C04.handle rest)
  | "c05" :: rest => (st, C05.handle rest)
  | "c06" :: rest => (st, C06.handle rest)
  | "c07" :: rest => (st, C07.handle rest)
  | "c08" :: rest => (st, C08.handle rest)
  | "c09" :: rest => (st, C09.handle rest)
  | "c10" :: rest => (st, C10.handle rest)
  | "c11" :: rest => (st, C11.handle rest)
  | "c12" :: rest => (st, C12.handle rest)
  | "c13" :: rest => (st, C13.handle rest)
  | "c14" :: rest => (st, C14.handle rest)
  | "c15" :: rest => (st, C15.handle rest)
  | "c16" :: rest => (st, C16.handle rest)
  | "c17" :: rest => (st, C17.handle rest)
  | "c18" :: rest => (st, C18.handle rest)
  | "c19" :: rest => (st, C19.handle rest)
  | "c20" :: rest => (st, C20.handle rest)
  | "c08trk" :: rest => (st, C08Trk.handle rest)
  | "c12fs" :: rest => (st, C12Fs.handle rest)
  | "c06img" :: rest => (st, C06Img.handle rest)
  | _ => (st, "bad-request")

end A2Verif.Drv
