import A2Verif.Model.Hex
import A2Verif.Model.Minify
import A2Verif.Model.MinifyVars
/-!
driver family `c17`

* `c17 min <cfg> <level> <line>*` — run the program-level minifier model.  `<cfg>` is four bits
  `remapRefs keepLast dataForbids remTopOnly`; each `<line>` is
  `num:rem:remNested:toks:data:len:endsStr:refs:lits` (booleans `0/1`, lists `a,b,…` or `-`;
  `toks` = codes of the token nodes pass 1 visits; `fnext`/`fany` are computed from the generated
  `FORBIDS_COMBINING_*` tables).
  Answer: `err` or `ok` followed by one `num:len:refs:lits` per output line.
* `c17 short <kind> <hex name> <needsGuard>` — the variable shortening rule; kind `r|s|i`
  (real / string / integer name node), name = node text without blanks; answer hex.
* `c17 guard <hex prefix> <follower kind>` — lookup in the generated guard table; answer `0/1`.
* `c17 guardnode <hex name> <next>` — `needs_guard` in full; `<next>` = what the climb from the name
  node finds: `none`, `sub`, `node1`/`node0` (other named node, adjacent or not) or a token code.
-/
namespace A2Verif.Drv.C17
open A2Verif.Model.Minify A2Verif.Hex A2Verif.Gen.MinifyGuards

def parseBool (s : String) : Option Bool :=
  if s == "1" then some true else if s == "0" then some false else none

def parseLine (s : String) : Option Line :=
  match s.splitOn ":" with
  | [num, rem, remN, toks, data, len, ends, refs, lits] => do
    let num ← num.toNat?
    let rem ← parseBool rem
    let remN ← parseBool remN
    let toks ← parseNatList toks
    let fnext := toks.any fun c => forbidsCombiningNext.any (·.code == c)
    let fany := toks.any fun c => forbidsCombiningAny.any (·.code == c)
    let data ← parseBool data
    let len ← len.toNat?
    let ends ← parseBool ends
    let refs ← parseNatList refs
    let lits ← parseNatList lits
    some ⟨num, rem, remN, refs, fnext, data, fany, lits, len, ends⟩
  | _ => none

def parseCfg (s : String) : Option Cfg :=
  match s.toList with
  | [a, b, c, d] => do
    let a ← parseBool (String.singleton a)
    let b ← parseBool (String.singleton b)
    let c ← parseBool (String.singleton c)
    let d ← parseBool (String.singleton d)
    some ⟨a, b, c, d⟩
  | _ => none

def showGroup (g : Group) : String :=
  s!"{g.num}:{g.len}:{natList g.refs}:{natList g.lits}"

def handle (toks : List String) : String :=
  match toks with
  | "min" :: cfg :: level :: lines =>
    match parseCfg cfg, level.toNat?, lines.mapM parseLine with
    | some cfg, some level, some p =>
      if level == 0 || level > 3 then "bad-request" else
      match minify cfg level p with
      | .err => "err"
      | .ok out => " ".intercalate ("ok" :: out.map showGroup)
    | _, _, _ => "bad-request"
  | ["short", kind, name, guard] =>
    match A2Verif.Model.MinifyVars.parseKind kind, ofHex name, parseBool guard with
    | some k, some nm, some g => toHex (A2Verif.Model.MinifyVars.shortText k g nm)
    | _, _, _ => "bad-request"
  | ["guardnode", name, nx] =>
    match ofHex name, A2Verif.Model.MinifyVars.parseNext nx with
    | some nm, some n => if A2Verif.Model.MinifyVars.needsGuardNode nm n then "1" else "0"
    | _, _ => "bad-request"
  | ["guard", pre, foll] =>
    match ofHex pre, A2Verif.Model.MinifyVars.parseFollower foll with
    | some p, some f => if A2Verif.Model.MinifyVars.needsGuard p f then "1" else "0"
    | _, _ => "bad-request"
  | _ => "bad-request"

end A2Verif.Drv.C17
