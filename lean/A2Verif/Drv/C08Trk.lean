import A2Verif.Model.Hex
/-! driver family `c08trk` (stub until the family is built) -/
namespace A2Verif.Drv.C08Trk

def handle (_toks : List String) : String := "bad-request"

end A2Verif.Drv.C08Trk
