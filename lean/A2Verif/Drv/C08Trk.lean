import A2Verif.Model.Hex
import A2Verif.Model.TrackImg
/-!
driver family `c08trk`: whole NIB / WOZ1 / WOZ2 5.25 inch images (`Model.TrackImg`, run with the array
track representation `ATrk`).

* `new <kind> <six> <vol>` — `create`: TMAP, TRKS entries, FNV-64 of every track buffer
* `fmt <kind> <six> <vol> <trk>` — the formatted buffer of one track, in hex
* `seq <kind> <six> <vol> <ops>` — ops `;`-separated: `rot:<k>` (rotate the `bit_count` bits of every track
  left by `k`), `rott:<k>:<t1>:<t2>` (only those two tracks), `r:<cyl>:<head>:<sec>`, `w:<cyl>:<head>:<sec>:<hex>`; answer per op, after every write
  `@<FNV-64 over the FNV-64 of every track buffer>`
-/
namespace A2Verif.Drv.C08Trk
open A2Verif.Hex A2Verif.Model.Track A2Verif.Model.TrackImg

def fnv64 (bs : List Nat) : UInt64 :=
  bs.foldl (fun h b => (h ^^^ b.toUInt64) * 0x100000001b3) 0xcbf29ce484222325

/-- container variant: the three `create`d kinds, and NB2 = a created NIB cut to 6384-byte tracks and loaded
with `Nib::from_bytes` -/
inductive Variant
  | plain (k : ImgKind)
  | nb2

def parseKind (s : String) : Option Variant :=
  match s with
  | "nib" => some (.plain .nib)
  | "woz1" => some (.plain .woz1)
  | "woz2" => some (.plain .woz2)
  | "nb2" => some .nb2
  | _ => none

def mkImage (v : Variant) (six : Bool) (vol : Nat) : Option TrackImg :=
  match v with
  | .plain k => some (create ATrk k six vol)
  | .nb2 => nibFromBytes six (nb2Bytes (create ATrk .nib six vol).bytes)

def flag (s : String) : Option Bool :=
  match s with
  | "0" => some false
  | "1" => some true
  | _ => none

def showTErr : TErr → String
  | .badTrack => "nib:bad-track"
  | .sectorNotFound => "nib:sector-not-found"
  | .invalidByte => "nib:invalid-byte"
  | .badChecksum => "nib:bad-checksum"

/-- buffers of the 35 whole tracks, through the image's own track lookup.  One pass over the byte list when
the located offsets are increasing (they are for every layout `create`/`from_bytes` make), else slice by slice. -/
def trackBufsSlow (img : TrackImg) : List (Option (List Nat)) :=
  (List.range 35).map fun t =>
    match locate img t with
    | .ok (off, blen, _) => some ((img.bytes.drop off).take blen)
    | _ => none

def trackBufsFast : List (Nat × Nat) → Nat → List Nat → List (Option (List Nat)) → Option (List (Option (List Nat)))
  | [], _, _, acc => some acc.reverse
  | (off, blen) :: rest, pos, bytes, acc =>
    if off < pos then none else
    let b := bytes.drop (off - pos)
    trackBufsFast rest (off + blen) (b.drop blen) (some (b.take blen) :: acc)

def trackBufs (img : TrackImg) : List (Option (List Nat)) :=
  let locs := (List.range 35).map fun t => locate img t
  match locs.mapM (fun r => match r with | .ok (off, blen, _) => some (off, blen) | _ => none) with
  | some ls => (trackBufsFast ls 0 img.bytes []).getD (trackBufsSlow img)
  | none => trackBufsSlow img

def digOf (b : Option (List Nat)) : UInt64 :=
  match b with
  | some bs => fnv64 bs
  | none => 0

def le64 (x : UInt64) : List Nat := (List.range 8).map fun i => ((x >>> (8 * i).toUInt64) &&& 0xff).toNat

def combine (ds : List UInt64) : UInt64 := fnv64 (ds.map le64).flatten

def handleNew (img : TrackImg) : String :=
  let ents := ",".intercalate (img.ents.map fun e => s!"{e.start}.{e.count}.{e.bitCount}")
  let digs := ",".intercalate ((trackBufs img).map fun b => toString (digOf b))
  s!"tmap:{toHex img.tmap};ents:{if ents.isEmpty then "-" else ents};off:{img.offset};len:{img.bytes.length};trk:{digs}"

def handleFmt (v : Variant) (six : Bool) (vol trk : Nat) : String :=
  let (f, cap, keep) : Fmt × Nat × Nat := match v with
    | .plain .nib => (⟨six, 8, nibCap⟩, nibCap, nibCap)
    | .nb2 => (⟨six, 8, nibCap⟩, nibCap, nb2Cap)
    | .plain .woz1 => (⟨six, wozSync six, woz1Cap⟩, woz1Cap, woz1Cap)
    | .plain .woz2 => (⟨six, wozSync six, woz2Blocks * 512⟩, woz2Blocks * 512, woz2Blocks * 512)
  toHex ((formatBuf ATrk f vol trk (cap * 8)).take keep)

inductive IOp
  | rot (k : Nat)
  | rott (k : Nat) (ts : List Nat)
  | r (c h s : Nat)
  | w (c h s : Nat) (d : List Nat)

def parseIOp (s : String) : Option IOp :=
  match s.splitOn ":" with
  | ["rot", k] => do some (.rot (← k.toNat?))
  | ["rott", k, a, b] => do some (.rott (← k.toNat?) [← a.toNat?, ← b.toNat?])
  | ["r", c, h, x] => do some (.r (← c.toNat?) (← h.toNat?) (← x.toNat?))
  | ["w", c, h, x, d] => do some (.w (← c.toNat?) (← h.toNat?) (← x.toNat?) (← ofHex d))
  | _ => none

/-- rotate the `bit_count` bits of every (whole) track left by `k` -/
def rotAll (img : TrackImg) (k : Nat) (ts : List Nat := List.range 35) : TrackImg :=
  ts.foldl (fun img t =>
    match locate img t with
    | .ok (off, blen, n) =>
      let buf := unpack ((img.bytes.drop off).take blen)
      { img with bytes := splice img.bytes off (pack (rot (k % n) (buf.take n) ++ buf.drop n)) }
    | _ => img) img

def showR : IRes (List Nat) → String
  | .ok d => "ok:" ++ toHex d
  | .err => "err"
  | .nib e => showTErr e
  | .panic => "panic"

def showW : IRes Unit → String
  | .ok _ => "ok"
  | .err => "err"
  | .nib e => showTErr e
  | .panic => "panic"

/-- per-track digests are recomputed only for buffers that differ from the previous state (the model
changes one buffer per write; comparing lists is cheaper than packing them) -/
def redig (old : List (Option (List Nat) × UInt64)) (img : TrackImg) : List (Option (List Nat) × UInt64) :=
  (old.zip (trackBufs img)).map fun ((ob, od), nb) => if ob == nb then (ob, od) else (nb, digOf nb)

def runIOps : TrackImg → List (Option (List Nat) × UInt64) → List IOp → List String → List String
  | _, _, [], acc => acc.reverse
  | img, ds, op :: rest, acc =>
    match op with
    | .rot k =>
      let img' := rotAll img k
      let ds' := redig ds img'
      runIOps img' ds' rest (("@" ++ toString (combine (ds'.map (·.2)))) :: acc)
    | .rott k ts =>
      let img' := rotAll img k ts
      let ds' := redig ds img'
      runIOps img' ds' rest (("@" ++ toString (combine (ds'.map (·.2)))) :: acc)
    | .r c h s =>
      let x := readSector ATrk img c h s
      runIOps x.2 ds rest (showR x.1 :: acc)
    | .w c h s d =>
      let x := writeSector ATrk img c h s d
      let ds' := redig ds x.2
      runIOps x.2 ds' rest ((showW x.1 ++ "@" ++ toString (combine (ds'.map (·.2)))) :: acc)

def handleSeq (v : Variant) (six : Bool) (vol : Nat) (o : String) : Option String := do
  let ops ← if o == "-" then some [] else (o.splitOn ";").mapM parseIOp
  let img ← mkImage v six vol
  let ds := (trackBufs img).map fun b => (b, digOf b)
  some (";".intercalate (runIOps img ds ops []))

def handle (toks : List String) : String :=
  match toks with
  | ["new", k, s, v] =>
    (do some (handleNew (← mkImage (← parseKind k) (← flag s) (← v.toNat?))) : Option String).getD "bad-request"
  | ["fmt", k, s, v, t] =>
    (do some (handleFmt (← parseKind k) (← flag s) (← v.toNat?) (← t.toNat?)) : Option String).getD "bad-request"
  | ["seq", k, s, v, o] =>
    (do handleSeq (← parseKind k) (← flag s) (← v.toNat?) o : Option String).getD "bad-request"
  | _ => "bad-request"

end A2Verif.Drv.C08Trk
