import A2Verif.Model.Hex
import A2Verif.Model.Detok
import A2Verif.Model.Retok
import A2Verif.Model.Merlin
import A2Verif.Model.ToolState
/-!
driver family `c14` — requests (bytes as upper-case hex, empty = `-`, numbers decimal):

* `c14 detokA <hex>`            → `ok <hex of text>` | `err` | `panic`   (Applesoft detokenizer)
* `c14 detokI <hex>`            → same for Integer BASIC
* `c14 wfA <addr> <hex>`        → `true <line numbers, comma separated>` | `false`
* `c14 wfI <hex>`               → `true <line numbers>` | `false`
* `c14 asmA <addr> <num>:<hex> …` → `ok <hex>` | `panic`   (Applesoft framing of tokenized lines)
* `c14 asmI <num>:<hex> …`      → `ok <hex>` | `err`       (Integer BASIC framing)
* `c14 retokA <addr> <hex of listing>` → `ok <hex>` | `err` | `panic`  (reference re-tokenizer, head blanks stripped)
* `c14 stripA <addr> <hex>`      → `ok <hex>` | `err`   (`stripHead`: blanks after REM/DATA removed, links recomputed)
* `c14 classA <addr> <hex>`      → `true` | `false`     (class of the model-level round-trip theorem)
* `c14 rtA <addr> <hex>`         → `holds` | `fails` | `out-of-class`  (`retokA (detokA t) = stripHead t` on the model)
* `c14 detokM <hex>`            → `ok <hex of text>` | `err`   (Merlin detokenizer + column formatter; runs of blanks collapsed)
* `c14 wfM <hex>`               → `true` | `false`
* `c14 numI <value>`            → `<hex>` of the Integer BASIC number token for the value
* `c14 sessI <line>* ( | <line>* )*` → results of a SESSION on one Integer BASIC tokenizer object, one per call, joined by
  ` | `: `ok <hex>` | `err`.  `<line>` = `<num>:<hex>` (tokens the walk produced for the source line) or `R` (the walk
  refused the line).  The object is the state machine `ToolState.tokenizeI` in the variant the translator read from the
  current source (`IVariant.current`).
* `c14 sessA <addr> <line>* ( | <addr> <line>* )*` → same for the Applesoft tokenizer object (`ok`/`err`/`panic`)
-/
namespace A2Verif.Drv.C14
open A2Verif.Detok A2Verif.Hex

def showOutcome : Outcome (List Nat) → String
  | .ok s => "ok " ++ toHex s
  | .err => "err"
  | .panic => "panic"

def bytesOK (bs : List Nat) : Bool := bs.all (· < 256)

def parseLine (s : String) : Option Line :=
  match s.splitOn ":" with
  | [n, h] =>
    match n.toNat?, ofHex h with
    | some num, some body => if num < 65536 then some { num := num, body := body } else none
    | _, _ => none
  | _ => none

def collapseBlanks : List Nat → List Nat
  | 32 :: 32 :: rest => collapseBlanks (32 :: rest)
  | c :: rest => c :: collapseBlanks rest
  | [] => []

def parseLineIn (s : String) : Option A2Verif.ToolState.LineIn :=
  if s == "R" then some .rej else (parseLine s).map .ok

/-- split a token list at the `|` tokens -/
def splitCalls : List String → List (List String)
  | [] => [[]]
  | t :: ts =>
    match splitCalls ts with
    | c :: cs => if t == "|" then [] :: c :: cs else (t :: c) :: cs
    | [] => [[t]]

def parseCallA (c : List String) : Option (Nat × List A2Verif.ToolState.LineIn) :=
  match c with
  | a :: ls =>
    match a.toNat?, ls.mapM parseLineIn with
    | some addr, some lines => if addr < 65536 then some (addr, lines) else none
    | _, _ => none
  | [] => none

def handle (toks : List String) : String :=
  match toks with
  | "sessI" :: rest =>
    match (splitCalls rest).mapM (fun c => c.mapM parseLineIn) with
    | some calls =>
      " | ".intercalate ((A2Verif.ToolState.sessionOutI A2Verif.ToolState.IVariant.current A2Verif.ToolState.TokSt.fresh calls).map showOutcome)
    | none => "bad-request"
  | "sessA" :: rest =>
    match (splitCalls rest).mapM parseCallA with
    | some calls =>
      " | ".intercalate ((A2Verif.ToolState.sessionOutA A2Verif.ToolState.AVariant.current A2Verif.ToolState.ATokSt.fresh calls).map showOutcome)
    | none => "bad-request"
  | ["detokA", h] =>
    match ofHex h with
    | some bs => showOutcome (detokA bs)
    | none => "bad-request"
  | ["detokI", h] =>
    match ofHex h with
    | some bs => showOutcome (detokI bs)
    | none => "bad-request"
  | ["wfA", a, h] =>
    match a.toNat?, ofHex h with
    | some addr, some bs =>
      if WF_A addr bs then "true " ++ natList (lineNumsA addr bs) else "false"
    | _, _ => "bad-request"
  | ["wfI", h] =>
    match ofHex h with
    | some bs => if WF_I bs then "true " ++ natList (lineNumsI bs) else "false"
    | none => "bad-request"
  | "asmA" :: a :: ls =>
    match a.toNat?, ls.mapM parseLine with
    | some addr, some lines => if addr < 65536 then showOutcome (assembleA addr lines) else "bad-request"
    | _, _ => "bad-request"
  | ["retokA", a, h] =>
    match a.toNat?, ofHex h with
    | some addr, some txt => if addr < 65536 then showOutcome (retokA addr txt) else "bad-request"
    | _, _ => "bad-request"
  | ["stripA", a, h] =>
    match a.toNat?, ofHex h with
    | some addr, some bs => if addr < 65536 then showOutcome (stripHeadA addr bs) else "bad-request"
    | _, _ => "bad-request"
  | ["classA", a, h] =>
    match a.toNat?, ofHex h with
    | some addr, some bs => if classA addr bs then "true" else "false"
    | _, _ => "bad-request"
  | ["rtA", a, h] =>
    -- the round-trip statement of the property on the model, evaluated on one stream
    match a.toNat?, ofHex h with
    | some addr, some bs =>
      if !(WF_A addr bs && classA addr bs) then "out-of-class"
      else match detokA bs with
        | .ok s => if retokA addr s == stripHeadA addr bs then "holds" else "fails"
        | _ => "fails"
    | _, _ => "bad-request"
  | ["detokM", h] =>
    -- listing compared modulo the amount of padding (runs of blanks collapsed): column widths are layout,
    -- not something the property constrains
    match ofHex h with
    | some bs => showOutcome ((A2Verif.Merlin.detokM bs).map collapseBlanks)
    | none => "bad-request"
  | ["wfM", h] =>
    match ofHex h with
    | some bs => if A2Verif.Merlin.WF_M bs then "true" else "false"
    | none => "bad-request"
  | ["numI", v] =>
    match v.toNat? with
    | some n => if n < 32768 then toHex (numTokI n) else "bad-request"
    | none => "bad-request"
  | "asmI" :: ls =>
    match ls.mapM parseLine with
    | some lines => showOutcome (assembleI lines)
    | none => "bad-request"
  | _ => "bad-request"

end A2Verif.Drv.C14
