import A2Verif.Model.Hex
/-! driver family `c14` (stub until the family is built) -/
namespace A2Verif.Drv.C14

def handle (_toks : List String) : String := "bad-request"

end A2Verif.Drv.C14
