import A2Verif.Model.Hex
import A2Verif.Model.Detok
/-!
driver family `c14` — requests (bytes as upper-case hex, empty = `-`, numbers decimal):

* `c14 detokA <hex>`            → `ok <hex of text>` | `err` | `panic`   (Applesoft detokenizer)
* `c14 detokI <hex>`            → same for Integer BASIC
* `c14 wfA <addr> <hex>`        → `true <line numbers, comma separated>` | `false`
* `c14 wfI <hex>`               → `true <line numbers>` | `false`
* `c14 asmA <addr> <num>:<hex> …` → `ok <hex>` | `panic`   (Applesoft framing of tokenized lines)
* `c14 asmI <num>:<hex> …`      → `ok <hex>` | `err`       (Integer BASIC framing)
-/
namespace A2Verif.Drv.C14
open A2Verif.Detok A2Verif.Hex

def showOutcome : Outcome (List Nat) → String
  | .ok s => "ok " ++ toHex s
  | .err => "err"
  | .panic => "panic"

def bytesOK (bs : List Nat) : Bool := bs.all (· < 256)

def parseLine (s : String) : Option Line :=
  match s.splitOn ":" with
  | [n, h] =>
    match n.toNat?, ofHex h with
    | some num, some body => if num < 65536 then some { num := num, body := body } else none
    | _, _ => none
  | _ => none

def handle (toks : List String) : String :=
  match toks with
  | ["detokA", h] =>
    match ofHex h with
    | some bs => showOutcome (detokA bs)
    | none => "bad-request"
  | ["detokI", h] =>
    match ofHex h with
    | some bs => showOutcome (detokI bs)
    | none => "bad-request"
  | ["wfA", a, h] =>
    match a.toNat?, ofHex h with
    | some addr, some bs =>
      if WF_A addr bs then "true " ++ natList (lineNumsA addr bs) else "false"
    | _, _ => "bad-request"
  | ["wfI", h] =>
    match ofHex h with
    | some bs => if WF_I bs then "true " ++ natList (lineNumsI bs) else "false"
    | none => "bad-request"
  | "asmA" :: a :: ls =>
    match a.toNat?, ls.mapM parseLine with
    | some addr, some lines => if addr < 65536 then showOutcome (assembleA addr lines) else "bad-request"
    | _, _ => "bad-request"
  | "asmI" :: ls =>
    match ls.mapM parseLine with
    | some lines => showOutcome (assembleI lines)
    | none => "bad-request"
  | _ => "bad-request"

end A2Verif.Drv.C14
