import A2Verif.Drv.C08Img
/-!
driver family `c06img`: volumes with a file system on IMD / TD0 whose image metadata is edited before the
image is saved and reloaded.  The requests are the op sequences of `Drv/C08Img.lean` on the image under the
file system:

* `c06img td0seq <hex of the TD0 file without advanced compression> <ops>`
* `c06img imdseq <hex of the IMD file> <ops>`
-/
namespace A2Verif.Drv.C06Img

def handle (toks : List String) : String := (C08Img.handle toks).getD "bad-request"

end A2Verif.Drv.C06Img
