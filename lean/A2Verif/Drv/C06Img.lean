import A2Verif.Model.Hex
/-! driver family `c06img` (stub until the family is built) -/
namespace A2Verif.Drv.C06Img

def handle (_toks : List String) : String := "bad-request"

end A2Verif.Drv.C06Img
