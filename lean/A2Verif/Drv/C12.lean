import A2Verif.Model.Hex
import A2Verif.Model.Robust
import A2Verif.Model.RobustWoz
import A2Verif.Model.RobustTrack
import A2Verif.Model.RobustDetok
import A2Verif.Model.RobustFatChain
import A2Verif.Model.RobustImd
import A2Verif.Model.RobustMg2
/-!
driver family `c12`: outcome class (`ok`/`err`/`panic`) of the modelled parsing fronts *for the code as it is
now* (models selected by `A2Verif.Gen.C12Flags`).

* `c12 fimgver <hex of the version string>` → `<classA> <classB>`: `FileImage::from_json` on a JSON object
  holding only `fimg_version` (A) and on a complete, well formed file image with that version (B)
* `c12 fatmount <hex of sector bytes 0..64> <hex of bytes 510,511>` → class of `fat::Disk::test_img` followed by
  `fat::Disk::from_img` on an image whose sector 0 is those bytes with zeros in between (`err` = not FAT)
* `c12 woz2 <hex of the file>` → class of `Woz2::from_bytes`
* `c12 woz1 <hex of the file>` → class (`ok`/`err`/`panic`/`hang`) of `Woz1::from_bytes`, the track-0 solution modelled as
  a search once around the buffer (`8·6646+1` bit reads)
* `c12 woz1trk <bytes_used> <bit_count>` → `safe` / `panic`: does a whole-track search of a WOZ1 `TRK` entry with these
  two fields leave the 6646-byte bit buffer (gate `get_trk_ref` as in the current source, `Gen.C12Flags`)
* `c12 fatget <typ> <n> <hex of the FAT buffer>` → `ok <value>` / `panic` of `bios::fat::get_cluster`
* `c12 mg2 <hex of the first 64 bytes> <file length> <0|1 nibble track 0 solvable>` → class of `Dot2mg::from_bytes`
* `c12 imd <hex of the file>` → class of `Imd::from_bytes`
* `c12 adetok <hex>` / `c12 idetok <hex>` → class of the Applesoft / Integer BASIC `detokenize` (default settings)
-/
namespace A2Verif.Drv.C12
open A2Verif.Model.Robust

def handle (toks : List String) : String :=
  match toks with
  | ["fimgver", h] =>
    match Hex.ofHex h with
    | some s =>
      let a := fromJsonNow (some s) ⟨false, false, false⟩
      let b := fromJsonNow (some s) ⟨true, true, true⟩
      a.cls ++ " " ++ b.cls
    | none => "bad-request"
  | ["fatmount", h, sg] =>
    match Hex.ofHex h, Hex.ofHex sg with
    | some hd, some sig =>
      if hd.length = 64 ∧ sig.length = 2 then
        (fatMountNow (hd ++ List.replicate 446 0 ++ sig)).cls
      else "bad-request"
    | _, _ => "bad-request"
  | ["adetok", h] =>
    match Hex.ofHex h with
    | some img => (aDetokNow img).cls
    | none => "bad-request"
  | ["idetok", h] =>
    match Hex.ofHex h with
    | some img => (iDetokNow img).cls
    | none => "bad-request"
  | ["woz1", h] =>
    match Hex.ofHex h with
    | some buf =>
      match woz1FromBytes woz1GuardNow buf (List.replicate (8 * woz1BufLen + 1) Op.next) with
      | .ok _ => "ok"
      | .err => "err"
      | .panic => "panic"
      | .hang => "hang"
    | none => "bad-request"
  | ["woz1trk", bu, bc] =>
    match bu.toNat?, bc.toNat? with
    | some bu, some bc =>
      match woz1TrackAccess woz1GuardNow bu bc woz1BufLen 0 (List.replicate (8 * woz1BufLen + 1) Op.next) with
      | .panic => "panic"
      | .hang => "hang"
      | _ => "safe"
    | _, _ => "bad-request"
  | ["fatget", t, n, h] =>
    match t.toNat?, n.toNat?, Hex.ofHex h with
    | some typ, some k, some fat =>
      match fatGet typ k fat with
      | .ok v => "ok " ++ toString v
      | .err => "err"
      | .panic => "panic"
    | _, _, _ => "bad-request"
  | ["imd", h] =>
    match Hex.ofHex h with
    | some buf => (imdFromBytes buf).cls
    | none => "bad-request"
  | ["mg2", h, n, nib] =>
    match Hex.ofHex h, n.toNat? with
    | some hdr, some fileLen => (mg2FromBytes hdr fileLen (nib == "1")).cls
    | _, _ => "bad-request"
  | ["woz2", h] =>
    match Hex.ofHex h with
    | some buf => (woz2FromBytesNow buf).cls
    | none => "bad-request"
  | _ => "bad-request"

end A2Verif.Drv.C12
