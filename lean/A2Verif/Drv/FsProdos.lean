import A2Verif.Model.Hex
import A2Verif.Model.Fs.Prodos
import A2Verif.Model.Read.ProdosT
/-!
Driver family `fspd` (stateful): the byte-exact tie of the concrete ProDOS model (`Model/Fs/Prodos.lean`).

The harness mirrors the real saved image (taken with `get_img().to_bytes()`, i.e. after the bitmap buffer has
been written back) into the driver with `fs set` (state of family `fs`, passed in here as `mirror`).  For a
ProDOS volume on a flat `PO` container it additionally sends every operation, with its arguments and the result
class the real code reported, to this family.  The model applies the operation to **its own** disk (image +
bitmap buffer) and writes the buffer back as `get_img` does; the answer is `ok` iff the model's result class
equals the real one and the image equals the mirror unit for unit, otherwise the first difference.
Afterwards the model adopts the mirror (one defect is reported once; the buffer is dropped and
`bitmap_blocks` is what a write-back leaves).

  fspd variant <dd> <pl> <bc> <fh> <ff>                → ok   (0/1 each: which repairs the real source contains, probed by
                                                          the harness on the real code: directory delete follows the chain,
                                                          put size limits, ⌈total/4096⌉ bitmap blocks, hole in index slot 0,
                                                          field lengths checked before the directory is touched;
                                                          every other request answers `need-variant` until this was sent)
  fspd format <volname> <time> <cmp|nocmp> <real>      → ok | bad …   (blank image of the mirror's size; block 0 — boot
                                                          code — is taken from the mirror; `nocmp`: do not compare)
  fspd put <path> <fstype> <aux> <access> <eof> <time> <real> <chunks>   → ok | bad … | need-format
                                                          chunks: `i:hex,…` (`i:-` = data omitted)
  fspd delete <path> <real> | fspd lock <path> <real> | fspd unlock <path> <real>
  fspd rename <path> <new> <real>
  fspd retype <path> <code|none> <aux|none> <real>
  fspd mkdir <path> <time> <real>
  fspd sync                → ok   (adopt the mirror without comparing)
  fspd get <path>          → ok <type> <aux> <eof> <access> <nchunks> <adler> | err:<class>
  fspd free                → ok <n> | err:<class>
  fspd cat <path>          → ok <name>:<blocks>:<label>,… | err:<class>
  fspd q <item> …          → the answers of the items `free` | `readers` | `cat=<path>` | `get=<path>`, joined by ` ;; ` (one round trip)

`<real>` is `ok` or `err:<class>` with the classes of `Err.token`.  Names, paths, times and field bytes are hex.
-/
namespace A2Verif.Drv.FsProdos
open A2Verif.Fs.Prodos

structure St where
  disk : Option Disk := none
  /-- the variant of the source the real code was probed to be (`fspd variant`) -/
  rp : Option Repairs := none
  deriving Inhabited

def eqBytes : List Nat → List Nat → Bool
  | [], [] => true
  | x :: xs, y :: ys => x == y && eqBytes xs ys
  | _, _ => false

theorem eqBytes_refl (x : List Nat) : eqBytes x x = true := by
  induction x with
  | nil => rfl
  | cons a t ih => simp [eqBytes, ih]

/-- unit comparison; units the operation did not touch are the same object in the model's image and in the mirror -/
def eqUnit (x y : List Nat) : Bool := withPtrEq x y (fun _ => eqBytes x y) (fun h => by subst h; exact eqBytes_refl x)

/-- chunk lists with the same indices and contents (contents are usually the same objects: units of the mirror) -/
def sameChunks : List (Nat × Bytes) → List (Nat × Bytes) → Bool
  | [], [] => true
  | a :: as, b :: bs => a.1 == b.1 && eqUnit a.2 b.2 && sameChunks as bs
  | _, _ => false

def sameRecs : List FileRec → List FileRec → Bool
  | [], [] => true
  | a :: as, b :: bs =>
    a.path == b.path && a.isDir == b.isDir && a.ftype == b.ftype && a.aux == b.aux && a.access == b.access &&
      a.locked == b.locked && a.eof == b.eof && a.owned == b.owned && sameChunks a.chunks b.chunks && sameRecs as bs
  | _, _ => false

/-- the two readings agree -/
def sameReading (a b : Except String Vol) : Bool :=
  match a, b with
  | .ok v, .ok w => v.lo == w.lo && v.hi == w.hi && v.sys == w.sys && sameRecs v.files w.files && v.freeUnits == w.freeUnits && v.label == w.label
  | .error x, .error y => x == y
  | _, _ => false

/-- index of the first unit in which the two images differ, from `i` on (`fuel` = units left) -/
def diffFrom (a b : Array Bytes) : Nat → Nat → Option Nat
  | 0, _ => none
  | fuel + 1, i =>
    match a[i]?, b[i]? with
    | some x, some y => if eqUnit x y then diffFrom a b fuel (i + 1) else some i
    | none, none => none
    | _, _ => some i

def firstDiff (a b : Raw) : Option Nat :=
  if a.units.size ≠ b.units.size then some (min a.units.size b.units.size)
  else diffFrom a.units b.units a.units.size 0

def resTok {α : Type} (r : R α) : String :=
  match r with
  | .ok _ => "ok"
  | .error e => s!"err:{e.token}"

/-- the disk the real object is in after `get_img()`: the mirrored image, the buffer dropped by the write-back,
`bitmap_blocks` as the last `open_bitmap_buffer` left it -/
def adopt (mirror : Raw) (rp : Repairs) : Disk :=
  let total := mirror.units.size
  let bptr := le16 (mirror.units[2]?.getD []) (4 + 35)
  let d0 : Disk := { raw := mirror, total := total, bitmap := none, bitmapBlocks := [], src := rp }
  { d0 with bitmapBlocks := List.range' bptr d0.bmCount }

/-- the disk right after `from_img` on a blank image -/
def fresh (n : Nat) (rp : Repairs) : Disk :=
  { raw := { unitLen := 512, units := Array.replicate n (List.replicate 512 0) }, total := n, bitmap := none, bitmapBlocks := [], src := rp }

/-- `none` = result class and written-back image agree with the real ones, otherwise the first difference -/
def disagreement {α : Type} (mirror : Raw) (real : String) (out : R α × Disk) : Option String :=
  let (res, d') := out
  if resTok res ≠ real then some s!"bad result model={resTok res} real={real}"
  else match d'.flush with
    | (.error e, _) => some s!"bad flush {e.token}"
    | (.ok _, d'') =>
      match firstDiff d''.raw mirror with
      | some i => some s!"bad block {i}"
      | none => none

/-- compare result class and written-back image; adopt the mirror -/
def verdict {α : Type} (st : St) (rp : Repairs) (mirror : Raw) (real : String) (out : R α × Disk) : St × String :=
  ({ st with disk := some (adopt mirror rp) }, (disagreement mirror real out).getD "ok")

/-- state of the backward scan of a chunk list `i:hex,i:hex,…` -/
inductive PSt where
  | data (acc : List Nat) (low : Option Nat)
  | index (acc : List Nat) (mult val : Nat)

def hexv (c : UInt8) : Option Nat :=
  if 48 ≤ c ∧ c ≤ 57 then some (c.toNat - 48)
  else if 65 ≤ c ∧ c ≤ 70 then some (c.toNat - 55)
  else if 97 ≤ c ∧ c ≤ 102 then some (c.toNat - 87)
  else none

/-- one pass from the end of the string to its start (lists are built without reversal; the puts of a pressure
fill carry megabytes of hex) -/
def parseBack (a : ByteArray) : Nat → PSt → List (Nat × Bytes) → Option (List (Nat × Bytes))
  | 0, .index acc _ val, items => some ((val, acc) :: items)
  | 0, _, _ => none
  | i + 1, st, items =>
    let c := a.get! i
    match st with
    | .data acc low =>
      if c == 58 then (if low.isSome then none else parseBack a i (.index acc 1 0) items)
      else if c == 45 then parseBack a i st items
      else match hexv c with
        | none => none
        | some v => match low with
          | none => parseBack a i (.data acc (some v)) items
          | some l => parseBack a i (.data ((16 * v + l) :: acc) none) items
    | .index acc mult val =>
      if c == 44 then parseBack a i (.data [] none) ((val, acc) :: items)
      else if 48 ≤ c ∧ c ≤ 57 then parseBack a i (.index acc (mult * 10) (val + mult * (c.toNat - 48))) items
      else none

def parseChunks (s : String) : Option (List (Nat × Bytes)) :=
  if s == "-" then some [] else
  let a := s.toUTF8
  parseBack a a.size (.data [] none) []

/-- Adler-32 over (index low, index high, data…) of every chunk -/
def adler (cs : List (Nat × Bytes)) : Nat :=
  let step := fun (s : Nat × Nat) (x : Nat) => let a := (s.1 + x) % 65521; (a, (s.2 + a) % 65521)
  let (a, b) := cs.foldl (fun s c => c.2.foldl step (step (step s (c.1 % 256)) (c.1 / 256 % 256))) (1, 0)
  b * 65536 + a

/-- `types.rs::TYPE_MAP_DISP` -/
def typeMap : List (Nat × String) :=
  [(0x00, "???"), (0x01, "BAD"), (0x02, "PCD"), (0x03, "PTX"), (0x04, "TXT"), (0x05, "PDA"), (0x06, "BIN"), (0x07, "FON"),
   (0x08, "FOT"), (0x09, "BAS"), (0x0a, "DAT"), (0x0b, "WRD"), (0x0c, "SYS"), (0x0f, "DIR"), (0x10, "RPD"), (0x11, "RPX"),
   (0x12, "AFD"), (0x13, "AFM"), (0x14, "AFR"), (0x15, "SLB"), (0x19, "AWD"), (0x1a, "AWW"), (0x1b, "AWS"), (0xef, "PSA"),
   (0xf0, "CMD"), (0xf1, "USR"), (0xf2, "USR"), (0xf3, "USR"), (0xf4, "USR"), (0xf5, "USR"), (0xf6, "USR"), (0xf7, "USR"),
   (0xf8, "USR"), (0xfa, "INT"), (0xfb, "IVR"), (0xfc, "BAS"), (0xfd, "VAR"), (0xfe, "REL"), (0xff, "SYS")]

/-- the type column of `universal_row` -/
def typeLabel (t : Nat) : String :=
  match typeMap.find? (·.1 == t) with
  | some p => p.2
  | none => "$" ++ Hex.toHex [t]

def optNat (s : String) : Option (Option Nat) := if s == "none" then some none else s.toNat?.map some

/-- one query against the model's disk (= the mirror): `free`, `readers`, `cat=<path>`, `get=<path>` -/
def query (prev : Option Vol) (disk : Disk) (item : String) : String :=
  match item.splitOn "=" with
  | ["free"] =>
    match (statFree disk).1 with
    | .ok n => s!"ok {n}"
    | .error e => s!"err:{e.token}"
  | ["readers"] =>
    -- the total reader (about which theorems can be stated) reads what the group's partial reader reads
    -- (`prev` is the reading family `fs` has just made of the same mirror; it is recomputed only on a mismatch)
    let t := Read.ProdosT.read disk.raw
    let quick := match prev with
      | some v => sameReading (.ok v) t
      | none => false
    if quick || sameReading (Read.Prodos.read disk.raw) t then "ok" else "bad readers-differ"
  | ["get", path] =>
    match Hex.ofHex path with
    | some path =>
      match (get path disk).1 with
      | .ok g => s!"ok {g.fsType} {g.aux} {g.eof} {g.access} {g.chunks.length} {adler g.chunks}"
      | .error e => s!"err:{e.token}"
    | none => "bad-request"
  | ["cat", path] =>
    match Hex.ofHex path with
    | some path =>
      match (catalog path disk).1 with
      | .ok rows => "ok " ++ (if rows.isEmpty then "-" else ",".intercalate (rows.map (fun (n, b, t) => s!"{Hex.toHex n}:{b}:{typeLabel t}")))
      | .error e => s!"err:{e.token}"
    | none => "bad-request"
  | _ => "bad-request"

def bit (s : String) : Option Bool := if s == "1" then some true else if s == "0" then some false else none

def handle (mirror : Raw) (prev : Option Vol) (st : St) (toks : List String) : St × String :=
  match toks with
  | ["variant", a, b, c, d, e] =>
    match bit a, bit b, bit c, bit d, bit e with
    | some a, some b, some c, some d, some e =>
      ({ st with rp := some { dirDelete := a, putLimits := b, bitmapCeil := c, firstHole := d, fieldsFirst := e } }, "ok")
    | _, _, _, _, _ => (st, "bad-request")
  | _ =>
  match st.rp with
  | none => (st, "need-variant")
  | some rp =>
  match toks with
  | ["format", vn, time, cmp, real] =>
    match Hex.ofHex vn, Hex.ofHex time with
    | some vn, some time =>
      let out := format vn (mirror.units[0]?.getD []) time (fresh mirror.units.size rp)
      if cmp == "cmp" then verdict st rp mirror real out
      else
        -- the mirror is already one operation further: keep the model's own formatted disk (written back)
        match out with
        | (.ok _, d') => match d'.flush with
          | (.ok _, d'') => ({ st with disk := some d'' }, "ok")
          | (.error e, _) => (st, s!"bad flush {e.token}")
        | (.error e, _) => (st, s!"bad result model=err:{e.token} real={real}")
    | _, _ => (st, "bad-request")
  | ["sync"] => ({ st with disk := some (adopt mirror rp) }, "ok")
  | _ =>
    match st.disk with
    | none => (st, "need-format")
    | some disk =>
      match toks with
      | ["put", path, fstype, aux, access, eof, time, real, cs] =>
        match Hex.ofHex path, Hex.ofHex fstype, Hex.ofHex aux, Hex.ofHex access, eof.toNat?, Hex.ofHex time, parseChunks cs with
        | some path, some fstype, some aux, some access, some eof, some time, some cs =>
          verdict st rp mirror real (put { fullPath := path, fsType := fstype, aux := aux, access := access, eof := eof, chunks := cs } time rp disk)
        | _, _, _, _, _, _, _ => (st, "bad-request")
      | ["delete", path, real] =>
        match Hex.ofHex path with
        | some path => verdict st rp mirror real (delete path rp disk)
        | none => (st, "bad-request")
      | ["lock", path, real] =>
        match Hex.ofHex path with
        | some path => verdict st rp mirror real (lock path disk)
        | none => (st, "bad-request")
      | ["unlock", path, real] =>
        match Hex.ofHex path with
        | some path => verdict st rp mirror real (unlock path disk)
        | none => (st, "bad-request")
      | ["rename", path, new, real] =>
        match Hex.ofHex path, Hex.ofHex new with
        | some path, some new => verdict st rp mirror real (rename path new disk)
        | _, _ => (st, "bad-request")
      | ["retype", path, code, aux, real] =>
        match Hex.ofHex path, optNat code, optNat aux with
        | some path, some code, some aux => verdict st rp mirror real (retype path code aux disk)
        | _, _, _ => (st, "bad-request")
      | ["mkdir", path, time, real] =>
        match Hex.ofHex path, Hex.ofHex time with
        | some path, some time => verdict st rp mirror real (mkdir path time disk)
        | _, _ => (st, "bad-request")
      | ["get", path] => (st, query prev disk ("get=" ++ path))
      | ["free"] => (st, query prev disk "free")
      | ["cat", path] => (st, query prev disk ("cat=" ++ path))
      | "q" :: items => (st, " ;; ".intercalate (items.map (query prev disk)))
      | _ => (st, "bad-request")

end A2Verif.Drv.FsProdos
