import A2Verif.Model.Hex
import A2Verif.Model.Nibble
import A2Verif.Model.Flat
import A2Verif.Model.Nibble35
import A2Verif.Model.Track
import A2Verif.Drv.C08Img
/-!
driver family `c08`

codec ops (bytes as hex):
* `c08 enc44 <1 byte>` → 2 bytes; `c08 dec44 <2 bytes>` → 1 byte
* `c08 enc62 <256 bytes>` → 343 disk bytes; `c08 dec62 <343 bytes>` → `ok <256 bytes>` | `err invalid-byte` | `err bad-checksum`
* `c08 enc53 <256 bytes>` → 411 disk bytes; `c08 dec53 <411 bytes>` → likewise
* `c08 enc35 <524 bytes>` → 703 disk bytes (3.5 inch); `c08 dec35 <703 bytes>` → `ok <524 bytes>` | `err …`

single 5.25 inch tracks (the real `TrackBits` object on a real track buffer):
* `c08 trk <six:0|1> <syncBits> <bitCount> <bitPtr> <hex buffer> <ops>` with `<ops>` = `;`-separated
  `r:<track>:<sector>`, `w:<track>:<sector>:<hex 256>`, `p:<bit pointer>`; answer: per op `ok:<hex>` / `ok` /
  `err:<kind>`, then `ptr:<bit pointer>` and `fnv:<fnv1a-64 of the whole buffer>`

flat image op sequences, starting from the freshly created (all zero) image:
* `c08 seq do <tracks> <dos33:0|1> <ops>`, `c08 seq po <blocks> <ops>`, `c08 seq d13 <tracks> <ops>`,
  `c08 seq img <secSize> <cyls> <heads> <sectors> <ops>`,
  `c08 seq mgdo <tracks> <dos33> <wp:0|1> <ops>`, `c08 seq mgpo <blocks> <wp> <ops>`
* `<ops>` = `;`-separated: `rb:<kind>:<a>:<b>`, `wb:<kind>:<a>:<b>:<hex>`, `rs:<c>:<h>:<s>`, `ws:<c>:<h>:<s>:<hex>`
  with `<kind>` ∈ `dos` (track a, sector b), `po` (block a), `d13`, `fat` (first sector a, count b)
* answer: `;`-separated results `ok:<hex>` / `ok` / `err` / `panic` (the sequence stops at a panic), then
  `fin:<fnv1a-64 of the image data>`
The bounds-check flags are those extracted from the current source (`A2Verif.Gen.C08Guards`).

loaded IMD / TD0 images with any mix of sector record types (see `Drv/C08Img.lean`):
* `c08 imdseq <hex file> <ops>`, `c08 td0seq <hex file> <ops>`
-/
namespace A2Verif.Drv.C08
open A2Verif A2Verif.Hex A2Verif.Model.Nibble

def bytesOk (bs : List Nat) : Bool := bs.all (· < 256)

def showDec (r : Except DecErr (List Nat)) : String :=
  match r with
  | .ok d => "ok " ++ toHex d
  | .error .invalidByte => "err invalid-byte"
  | .error .badChecksum => "err bad-checksum"
  | .error .length => "bad-request"

def handleCodec (toks : List String) : Option String :=
  match toks with
  | ["enc44", h] => do
    let bs ← ofHex h
    match bs with
    | [v] => some (toHex (encode44 v))
    | _ => none
  | ["dec44", h] => do
    let bs ← ofHex h
    match bs with
    | [a, b] => some (toHex [decode44 a b])
    | _ => none
  | ["enc62", h] => do
    let bs ← ofHex h
    if bs.length = 256 then some (toHex (enc62 bs)) else none
  | ["dec62", h] => do
    let bs ← ofHex h
    if bs.length = 343 then some (showDec (dec62 bs)) else none
  | ["enc53", h] => do
    let bs ← ofHex h
    if bs.length = 256 then some (toHex (enc53 bs)) else none
  | ["dec53", h] => do
    let bs ← ofHex h
    if bs.length = 411 then some (showDec (dec53 bs)) else none
  | ["enc35", h] => do
    let bs ← ofHex h
    if bs.length = 524 then (A2Verif.Model.Nibble35.enc35 bs).map toHex else none
  | ["dec35", h] => do
    let bs ← ofHex h
    if bs.length = 703 then some (showDec (A2Verif.Model.Nibble35.dec35 bs)) else none
  | _ => none

section flat
open A2Verif.Model.Flat A2Verif.Gen

def fnv (bs : List Nat) : Nat :=
  bs.foldl (fun h b => ((h ^^^ b) * 0x100000001b3) % 18446744073709551616) 0xcbf29ce484222325

inductive Op
  | rb (a : Block)
  | wb (a : Block) (d : List Nat)
  | rs (c h s : Nat)
  | ws (c h s : Nat) (d : List Nat)

def parseBlock (k a b : String) : Option Block := do
  let x ← a.toNat?
  let y ← b.toNat?
  match k with
  | "dos" => some (.dos x y)
  | "po" => some (.po x)
  | "d13" => some (.d13 x y)
  | "fat" => some (.fat x y)
  | _ => none

def parseOp (s : String) : Option Op :=
  match s.splitOn ":" with
  | ["rb", k, a, b] => do some (.rb (← parseBlock k a b))
  | ["wb", k, a, b, h] => do
    let d ← ofHex h
    some (.wb (← parseBlock k a b) d)
  | ["rs", c, h, s] => do some (.rs (← c.toNat?) (← h.toNat?) (← s.toNat?))
  | ["ws", c, h, s, x] => do
    let d ← ofHex x
    some (.ws (← c.toNat?) (← h.toNat?) (← s.toNat?) d)
  | _ => none

/-- an image as seen by the op interpreter -/
structure Iface (σ : Type) where
  rb : σ → Block → RRes
  wb : σ → Block → List Nat → WRes σ
  rs : σ → Nat → Nat → Nat → RRes
  ws : σ → Nat → Nat → Nat → List Nat → WRes σ
  data : σ → List Nat

def showR : RRes → String
  | .ok d => "ok:" ++ toHex d
  | .err => "err"
  | .panic => "panic"

def runOps {σ : Type} (f : Iface σ) : σ → List Op → List String → String
  | st, [], acc => ";".intercalate (acc.reverse ++ ["fin:" ++ toString (fnv (f.data st))])
  | st, op :: rest, acc =>
    let w (r : WRes σ) : String :=
      match r with
      | .ok st' => runOps f st' rest ("ok" :: acc)
      | .err st' => runOps f st' rest ("err" :: acc)
      | .panic => ";".intercalate (("panic" :: acc).reverse)
    let r (x : RRes) : String :=
      match x with
      | .panic => ";".intercalate (("panic" :: acc).reverse)
      | y => runOps f st rest (showR y :: acc)
    match op with
    | .rb a => r (f.rb st a)
    | .wb a d => w (f.wb st a d)
    | .rs c h s => r (f.rs st c h s)
    | .ws c h s d => w (f.ws st c h s d)

def doGuard : Block → Bool
  | .po _ => C08Guards.doBlockPO
  | _ => C08Guards.doBlockDO

def ifDO : Iface DOImg :=
  { rb := fun i a => i.readBlock (doGuard a) a, wb := fun i a d => i.writeBlock (doGuard a) a d,
    rs := DOImg.readSector, ws := DOImg.writeSector, data := DOImg.data }
def ifPO : Iface POImg :=
  { rb := POImg.readBlock C08Guards.poBlock, wb := POImg.writeBlock C08Guards.poBlock,
    rs := POImg.readSector, ws := POImg.writeSector, data := POImg.data }
def ifD13 : Iface D13Img :=
  { rb := D13Img.readBlock C08Guards.d13Block, wb := D13Img.writeBlock C08Guards.d13Block,
    rs := D13Img.readSector, ws := D13Img.writeSector, data := D13Img.data }
def ifIMG : Iface IbmImg :=
  { rb := IbmImg.readBlock C08Guards.imgHead, wb := IbmImg.writeBlock C08Guards.imgHead C08Guards.imgFatAtomic,
    rs := IbmImg.readSector C08Guards.imgHead, ws := IbmImg.writeSector C08Guards.imgHead, data := IbmImg.data }
def mgGuard (m : MgImg) (a : Block) : Bool :=
  match m.raw with
  | .dos _ => doGuard a
  | .po _ => C08Guards.poBlock
def ifMG : Iface MgImg :=
  { rb := fun m a => m.readBlock (mgGuard m a) a, wb := fun m a d => m.writeBlock (mgGuard m a) a d,
    rs := MgImg.readSector, ws := MgImg.writeSector,
    data := fun m => match m.raw with | .dos i => i.data | .po i => i.data }

def flag (s : String) : Option Bool :=
  match s with
  | "0" => some false
  | "1" => some true
  | _ => none

def handleSeq (toks : List String) : Option String :=
  let ops (s : String) : Option (List Op) := if s == "-" then some [] else (s.splitOn ";").mapM parseOp
  match toks with
  | ["do", t, k, o] => do
    let t ← t.toNat?
    let k ← flag k
    some (runOps ifDO { tracks := t, sectors := 16, dos33 := k, data := List.replicate (t * 16 * 256) 0 } (← ops o) [])
  | ["po", b, o] => do
    let b ← b.toNat?
    some (runOps ifPO { blocks := b, data := List.replicate (b * 512) 0 } (← ops o) [])
  | ["d13", t, o] => do
    let t ← t.toNat?
    some (runOps ifD13 { tracks := t, data := List.replicate (t * 13 * 256) 0 } (← ops o) [])
  | ["img", z, c, h, s, o] => do
    let z ← z.toNat?
    let c ← c.toNat?
    let h ← h.toNat?
    let s ← s.toNat?
    some (runOps ifIMG { secSize := z, cylinders := c, heads := h, sectors := s, data := List.replicate (c * h * s * z) 0 } (← ops o) [])
  | ["mgdo", t, k, wp, o] => do
    let t ← t.toNat?
    let k ← flag k
    let wp ← flag wp
    some (runOps ifMG { writeProtected := wp, raw := .dos { tracks := t, sectors := 16, dos33 := k, data := List.replicate (t * 16 * 256) 0 } } (← ops o) [])
  | ["mgpo", b, wp, o] => do
    let b ← b.toNat?
    let wp ← flag wp
    some (runOps ifMG { writeProtected := wp, raw := .po { blocks := b, data := List.replicate (b * 512) 0 } } (← ops o) [])
  | _ => none

end flat

section track
open A2Verif.Model.Track

def fnvT (bs : List Nat) : Nat :=
  bs.foldl (fun h b => ((h ^^^ b) * 0x100000001b3) % 18446744073709551616) 0xcbf29ce484222325

def byteBits (b : Nat) : List Bool := (List.range 8).map (fun i => b.testBit (7 - i))

def packBits : List Bool → List Nat
  | b0 :: b1 :: b2 :: b3 :: b4 :: b5 :: b6 :: b7 :: rest =>
    ([b0, b1, b2, b3, b4, b5, b6, b7].foldl (fun v b => v * 2 + (if b then 1 else 0)) 0) :: packBits rest
  | _ => []

def showTErr : TErr → String
  | .badTrack => "err:bad-track"
  | .sectorNotFound => "err:sector-not-found"
  | .invalidByte => "err:invalid-byte"
  | .badChecksum => "err:bad-checksum"

inductive TOp
  | r (t s : Nat)
  | w (t s : Nat) (d : List Nat)
  | p (n : Nat)

def parseTOp (s : String) : Option TOp :=
  match s.splitOn ":" with
  | ["r", t, c] => do some (.r (← t.toNat?) (← c.toNat?))
  | ["w", t, c, h] => do
    let d ← ofHex h
    if d.length = 256 then some (.w (← t.toNat?) (← c.toNat?) d) else none
  | ["p", n] => do some (.p (← n.toNat?))
  | _ => none

def runTOps (f : Fmt) : ATrk → List TOp → List String → List String × ATrk
  | t, [], acc => (acc.reverse, t)
  | t, op :: rest, acc =>
    match op with
    | .r tr sc =>
      let x := readSector f tr sc t
      runTOps f x.2 rest ((match x.1 with | .ok d => "ok:" ++ toHex d | .error e => showTErr e) :: acc)
    | .w tr sc d =>
      let x := writeSector f d tr sc t
      runTOps f x.2 rest ((match x.1 with | .ok _ => "ok" | .error e => showTErr e) :: acc)
    | .p n => runTOps f ⟨t.buf, if n < t.buf.size then n else t.pos⟩ rest ("ok" :: acc)

def handleTrk (toks : List String) : Option String :=
  match toks with
  | [six, sync, n, ptr, hex, o] => do
    let six ← flag six
    let sync ← sync.toNat?
    let n ← n.toNat?
    let ptr ← ptr.toNat?
    let bytes ← ofHex hex
    let ops ← if o == "-" then some [] else (o.splitOn ";").mapM parseTOp
    let allBits := (bytes.map byteBits).flatten
    if n > allBits.length ∨ n = 0 ∨ ptr ≥ n then none else
    let f : Fmt := { six := six, syncBits := sync, maxTries := bytes.length }
    let (outs, t) := runTOps f ⟨(allBits.take n).toArray, ptr⟩ ops []
    let back := packBits (t.buf.toList ++ allBits.drop n)
    some (";".intercalate (outs ++ ["ptr:" ++ toString t.pos, "fnv:" ++ toString (fnvT back)]))
  | _ => none

end track

def handle (toks : List String) : String :=
  match toks with
  | "trk" :: rest => (handleTrk rest).getD "bad-request"
  | "seq" :: rest => (handleSeq rest).getD "bad-request"
  | "imdseq" :: _ => (C08Img.handle toks).getD "bad-request"
  | "td0seq" :: _ => (C08Img.handle toks).getD "bad-request"
  | "imdseqx" :: _ => (C08Img.handle toks).getD "bad-request"
  | "td0seqx" :: _ => (C08Img.handle toks).getD "bad-request"
  | _ => (handleCodec toks).getD "bad-request"

end A2Verif.Drv.C08
