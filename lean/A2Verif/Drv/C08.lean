import A2Verif.Model.Hex
import A2Verif.Model.Nibble
/-!
driver family `c08`

codec ops (bytes as hex):
* `c08 enc44 <1 byte>` → 2 bytes; `c08 dec44 <2 bytes>` → 1 byte
* `c08 enc62 <256 bytes>` → 343 disk bytes; `c08 dec62 <343 bytes>` → `ok <256 bytes>` | `err invalid-byte` | `err bad-checksum`
* `c08 enc53 <256 bytes>` → 411 disk bytes; `c08 dec53 <411 bytes>` → likewise
-/
namespace A2Verif.Drv.C08
open A2Verif A2Verif.Hex A2Verif.Model.Nibble

def bytesOk (bs : List Nat) : Bool := bs.all (· < 256)

def showDec (r : Except DecErr (List Nat)) : String :=
  match r with
  | .ok d => "ok " ++ toHex d
  | .error .invalidByte => "err invalid-byte"
  | .error .badChecksum => "err bad-checksum"
  | .error .length => "bad-request"

def handleCodec (toks : List String) : Option String :=
  match toks with
  | ["enc44", h] => do
    let bs ← ofHex h
    match bs with
    | [v] => some (toHex (encode44 v))
    | _ => none
  | ["dec44", h] => do
    let bs ← ofHex h
    match bs with
    | [a, b] => some (toHex [decode44 a b])
    | _ => none
  | ["enc62", h] => do
    let bs ← ofHex h
    if bs.length = 256 then some (toHex (enc62 bs)) else none
  | ["dec62", h] => do
    let bs ← ofHex h
    if bs.length = 343 then some (showDec (dec62 bs)) else none
  | ["enc53", h] => do
    let bs ← ofHex h
    if bs.length = 256 then some (toHex (enc53 bs)) else none
  | ["dec53", h] => do
    let bs ← ofHex h
    if bs.length = 411 then some (showDec (dec53 bs)) else none
  | _ => none

def handle (toks : List String) : String :=
  match handleCodec toks with
  | some s => s
  | none => "bad-request"

end A2Verif.Drv.C08
