"""Translator for family c18: what the language-server analyzers carry from one `analyze` to the next.

Emits `A2Verif.Gen.SrvState` from the *current* source, for each of the three analyzers
(`lang/applesoft/diagnostics.rs`, `lang/integer/diagnostics.rs`, `lang/merlin/diagnostics/mod.rs` with
`lang/merlin/context.rs` flattened in as `ctx_*`):

  * `XField`            one constructor per field of the Rust struct (`f_<name>`), `XField.all`;
  * `XField.reset`      the field is assigned as a whole, unconditionally, by `analyze` before the
                        first statement that looks at the text (the per-line loop / `analyze_recursively`):
                        `self.f = …;` at the top level of `analyze`, inside its `for pass in a..b` loop,
                        or at the top level of a method of `self`/`self.ctx` called from there
                        (`self.reset_results()`, `self.ctx.reset_xc()`, `self.reset_for_pass()` …);
  * `XField.mutated`    some code outside `new`/`set_config`/`update_config` assigns to the field or
                        calls a mutating container method on it / borrows it mutably;
  * `Server`, `Server.configLockCall`, `Server.threadLockCall`, `Server.configSetsShared`
                        how `response.rs` obtains the shared analyzer before `set_config` and how the
                        analysis thread obtains it (`lock` = blocking, `tryLock`, `other`).

Purely syntactic; raises TranslatorError on anything it does not recognise.
"""
import os, re
from gen import TranslatorError, strip_rust_comments, digest

AS = "src/lang/applesoft/diagnostics.rs"
IB = "src/lang/integer/diagnostics.rs"
ME = "src/lang/merlin/diagnostics/mod.rs"
CTX = "src/lang/merlin/context.rs"
ME_EXTRA = ["src/lang/merlin/diagnostics/pass1.rs", "src/lang/merlin/diagnostics/pass2.rs",
            "src/lang/merlin/diagnostics/asm.rs", "src/lang/merlin/diagnostics/macros.rs"]
SERVERS = [("applesoft", "src/bin/server-applesoft"), ("integerbasic", "src/bin/server-integerbasic"),
           ("merlin", "src/bin/server-merlin")]

MUTATORS = ("push", "push_str", "push_back", "push_front", "pop", "pop_back", "pop_front", "insert", "remove", "clear",
            "append", "extend", "truncate", "retain", "drain", "entry", "get_mut", "last_mut", "first_mut", "iter_mut",
            "values_mut", "sort", "sort_by", "dedup", "swap", "take", "replace", "borrow_mut", "as_mut", "set_language")


def matching_brace(src, i):
    """index of the '}' matching the '{' at src[i]"""
    if src[i] != "{":
        raise TranslatorError("internal: no brace at %d" % i)
    depth = 0
    in_str = None
    k = i
    while k < len(src):
        ch = src[k]
        if in_str:
            if ch == "\\":
                k += 2
                continue
            if ch == in_str:
                in_str = None
        elif ch == '"':
            in_str = '"'
        elif ch == "'" and re.match(r"'(\\.|[^\\'])'", src[k:k + 4]):
            k += len(re.match(r"'(\\.|[^\\'])'", src[k:k + 4]).group(0)) - 1
        elif ch == "{":
            depth += 1
        elif ch == "}":
            depth -= 1
            if depth == 0:
                return k
        k += 1
    raise TranslatorError("unbalanced braces")


def struct_fields(src, name, path):
    m = re.search(r"\bpub\s+struct\s+" + name + r"\s*\{", src)
    if not m:
        raise TranslatorError("%s: struct %s not found" % (path, name))
    end = matching_brace(src, m.end() - 1)
    body = src[m.end():end]
    fields = []
    # split at top-level commas
    depth, cur = 0, ""
    for ch in body:
        if ch in "<([":
            depth += 1
        elif ch in ">)]":
            depth -= 1
        if ch == "," and depth == 0:
            fields.append(cur)
            cur = ""
        else:
            cur += ch
    if cur.strip():
        fields.append(cur)
    out = []
    for f in fields:
        f = f.strip()
        if not f:
            continue
        mm = re.fullmatch(r"(?:pub(?:\([a-z]+\))?\s+)?([a-z_][a-z0-9_]*)\s*:\s*(.+)", f, re.S)
        if not mm:
            raise TranslatorError("%s: struct %s: cannot parse field %r" % (path, name, f[:60]))
        out.append((mm.group(1), " ".join(mm.group(2).split())))
    if not out:
        raise TranslatorError("%s: struct %s has no fields" % (path, name))
    return out


def fn_body(src, name, path, required=True):
    m = re.search(r"\bfn\s+" + name + r"\s*\(", src)
    if not m:
        if required:
            raise TranslatorError("%s: fn %s not found" % (path, name))
        return None
    i = src.index("{", m.end())
    # the '{' must belong to this fn: no ';' in between
    if ";" in src[m.end():i]:
        raise TranslatorError("%s: fn %s has no body" % (path, name))
    return src[i + 1:matching_brace(src, i)]


def top_level_statements(body):
    """yield (statement_text, unconditional) for the statements of a block; descends into
    `for pass in a..b {` loops (unconditional), reports every other block as one conditional chunk"""
    i, n = 0, len(body)
    cur = ""
    while i < n:
        ch = body[i]
        if ch == "{":
            j = matching_brace(body, i)
            header = cur.strip()
            if re.fullmatch(r"for\s+pass\s+in\s+\d+\s*\.\.\s*=?\s*\d+", header):
                for st in top_level_statements(body[i + 1:j]):
                    yield st
                cur = ""
                i = j + 1
                continue
            # any other block: part of the current statement (match arms, closures, if/else …)
            cur += body[i:j + 1]
            i = j + 1
            # a block statement without trailing ';' ends here if a new statement starts
            k = i
            while k < n and body[k] in " \t\r\n":
                k += 1
            if k < n and body[k] not in ";.?)," and not body[k:k + 4] == "else":
                yield (cur.strip(), re.match(r"(if|match|for|while|loop)\b", cur.strip()) is None)
                cur = ""
            continue
        if ch == '"':
            k = i + 1
            while k < n and body[k] != '"':
                k += 2 if body[k] == "\\" else 1
            cur += body[i:k + 1]
            i = k + 1
            continue
        if ch == ";":
            yield (cur.strip(), re.match(r"(if|match|for|while|loop)\b", cur.strip()) is None)
            cur = ""
            i += 1
            continue
        cur += ch
        i += 1
    if cur.strip():
        yield (cur.strip(), re.match(r"(if|match|for|while|loop)\b", cur.strip()) is None)


def reset_set(analyze_body, stop_pat, self_src, self_path, ctx_src=None, depth=0):
    """fields assigned as a whole, unconditionally, before the first statement matching stop_pat"""
    out = []
    stopped = False
    for st, uncond in top_level_statements(analyze_body):
        if stop_pat is not None and re.search(stop_pat, st):
            stopped = True
            break
        if not uncond:
            continue
        m = re.match(r"self\.([a-z_][a-z0-9_]*)\s*=(?!=)", st)
        if m:
            out.append(m.group(1))
            continue
        m = re.match(r"self\.ctx\.([a-z_][a-z0-9_]*)\s*=(?!=)", st)
        if m and ctx_src is not None:
            out.append("ctx_" + m.group(1))
            continue
        m = re.fullmatch(r"self\.([a-z_][a-z0-9_]*)\s*\(([^;]*)\)", st, re.S)
        if m and depth < 3:
            b = fn_body(self_src, m.group(1), self_path, required=False)
            if b is not None:
                out += reset_set(b, None, self_src, self_path, ctx_src, depth + 1)
            continue
        m = re.fullmatch(r"self\.ctx\.([a-z_][a-z0-9_]*)\s*\(([^;]*)\)", st, re.S)
        if m and ctx_src is not None and depth < 3:
            b = fn_body(ctx_src, m.group(1), CTX, required=False)
            if b is not None:
                out += ["ctx_" + x for x in reset_set(b, None, ctx_src, CTX, None, depth + 1)]
            continue
    if stop_pat is not None and not stopped:
        raise TranslatorError("%s: analyze: no statement matches %r" % (self_path, stop_pat))
    return out


def without_fns(src, names):
    """source with the bodies of the named fns blanked (constructors and configuration setters)"""
    for nm in names:
        for m in list(re.finditer(r"\bfn\s+" + nm + r"\s*\(", src)):
            try:
                i = src.index("{", m.end())
            except ValueError:
                continue
            if ";" in src[m.end():i]:
                continue
            j = matching_brace(src, i)
            src = src[:i + 1] + " " * (j - i - 1) + src[j:]
    return src


def mutated_set(fields, srcs, receivers):
    """fields for which some receiver.<field> is assigned, mutably borrowed or called with a mutator"""
    out = set()
    recv = "(?:" + "|".join(re.escape(r) for r in receivers) + ")"
    for f in fields:
        pats = [recv + r"\." + f + r"\s*(?:=(?!=)|\+=|-=|\*=|\|=|&=)",
                recv + r"\." + f + r"(?:\.[a-z_0-9]+)+\s*(?:=(?!=)|\+=|-=)",
                r"&mut\s+" + recv + r"\." + f + r"\b",
                recv + r"\." + f + r"\.(?:" + "|".join(MUTATORS) + r")\s*\("]
        for s in srcs:
            if any(re.search(p, s) for p in pats):
                out.add(f)
                break
    return out


def ctor(name):
    return "f_" + name


def render_fields(tname, fields, resets, mutated):
    lines = ["/-- fields of the Rust struct, in declaration order -/",
             "inductive %s" % tname]
    for f, ty in fields:
        lines.append("  /-- `%s: %s` -/" % (f, ty.replace("-/", "- /")))
        lines.append("  | %s" % ctor(f))
    lines.append("deriving DecidableEq, Repr")
    lines.append("")
    lines.append("def %s.all : List %s := [%s]" % (tname, tname, ", ".join("." + ctor(f) for f, _ in fields)))
    lines.append("")
    lines.append("/-- assigned as a whole, unconditionally, by `analyze` before it looks at the text -/")
    lines.append("def %s.reset : %s → Bool" % (tname, tname))
    for f, _ in fields:
        lines.append("  | .%s => %s" % (ctor(f), "true" if f in resets else "false"))
    lines.append("")
    lines.append("/-- written by code other than the constructor and the configuration setters -/")
    lines.append("def %s.mutated : %s → Bool" % (tname, tname))
    for f, _ in fields:
        lines.append("  | .%s => %s" % (ctor(f), "true" if f in mutated else "false"))
    lines.append("")
    return lines


def lock_call(src, path, anchor, what):
    """the method called on the analyzer mutex (`lock`, `try_lock`, …) right at `anchor`"""
    m = re.search(anchor, src)
    if not m:
        raise TranslatorError("%s: %s: cannot find how the analyzer mutex is taken" % (path, what))
    meth = m.group(1)
    return {"lock": "lock", "try_lock": "tryLock"}.get(meth, "other")


def generate(repo):
    rd = lambda rel: strip_rust_comments(open(os.path.join(repo, rel)).read())
    srcs = {rel: rd(rel) for rel in [AS, IB, ME, CTX] + ME_EXTRA}
    out = ["/-! GENERATED by /verif/translator/gen_c18.py from %s -- do not edit; regenerated on every run -/"
           % ", ".join([AS, IB, ME, CTX] + [d + "/{main,response}.rs" for _, d in SERVERS]),
           "namespace A2Verif.Gen.SrvState", ""]
    # ---- BASIC analyzers
    for tname, rel in (("AField", AS), ("IField", IB)):
        s = srcs[rel]
        fields = struct_fields(s, "Analyzer", rel)
        names = [f for f, _ in fields]
        resets = set(reset_set(fn_body(s, "analyze", rel), r"doc\.text\.lines\(\)", s, rel))
        unknown = resets - set(names)
        if unknown:
            raise TranslatorError("%s: analyze assigns unknown fields %s" % (rel, sorted(unknown)))
        mutated = mutated_set(names, [without_fns(s, ["new", "set_config", "update_config"])], ["self"])
        out += render_fields(tname, fields, resets, mutated)
    # ---- Merlin analyzer + context
    s, c = srcs[ME], srcs[CTX]
    fields = [(f, t) for f, t in struct_fields(s, "Analyzer", ME) if f != "ctx"]
    if len(fields) == len(struct_fields(s, "Analyzer", ME)):
        raise TranslatorError("%s: Analyzer has no `ctx` field any more" % ME)
    cfields = struct_fields(c, "Context", CTX)
    allf = fields + [("ctx_" + f, t) for f, t in cfields]
    names = [f for f, _ in allf]
    resets = set(reset_set(fn_body(s, "analyze", ME), r"analyze_recursively\s*\(", s, ME, c))
    unknown = resets - set(names)
    if unknown:
        raise TranslatorError("%s: analyze assigns unknown fields %s" % (ME, sorted(unknown)))
    cfg_fns = ["new", "set_config", "update_config", "set_preferred_master", "set_workspace", "init_workspace"]
    msrc = [without_fns(s, cfg_fns)] + [srcs[r] for r in ME_EXTRA]
    mut = mutated_set([f for f, _ in fields], msrc, ["self"])
    csrc = [without_fns(c, ["new", "set_config"])]
    cmut = mutated_set([f for f, _ in cfields], csrc, ["self"]) | \
        mutated_set([f for f, _ in cfields], msrc, ["self.ctx", "ctx"])
    out += render_fields("MField", allf, resets, mut | {"ctx_" + f for f in cmut})
    # ---- how the servers take the shared analyzer
    out += ["inductive LockCall", "  | lock", "  | tryLock", "  | other", "deriving DecidableEq, Repr", "",
            "inductive Server", "  | applesoft", "  | integerbasic", "  | merlin", "deriving DecidableEq, Repr", "",
            "def Server.all : List Server := [.applesoft, .integerbasic, .merlin]", ""]
    cfg_call, thr_call, sets = {}, {}, {}
    paths = [os.path.join(repo, rel) for rel in [AS, IB, ME, CTX] + ME_EXTRA]
    for nm, d in SERVERS:
        rp, mp = d + "/response.rs", d + "/main.rs"
        paths += [os.path.join(repo, rp), os.path.join(repo, mp)]
        r, m = rd(rp), rd(mp)
        blk = re.search(r"tools\s*\.\s*analyzer\s*\.\s*([a-z_]+)\s*\(\s*\)\s*\{", r)
        if not blk:
            raise TranslatorError("%s: no `tools.analyzer.<call>() {` block" % rp)
        cfg_call[nm] = {"lock": "lock", "try_lock": "tryLock"}.get(blk.group(1), "other")
        body = r[blk.end():matching_brace(r, blk.end() - 1)]
        sets[nm] = re.search(r"\.\s*set_config\s*\(", body) is not None
        lb = fn_body(m, "launch_analysis_thread", mp)
        thr_call[nm] = lock_call(lb, mp, r"match\s+analyzer\s*\.\s*([a-z_]+)\s*\(\s*\)", "launch_analysis_thread")
    for fn, tab in (("configLockCall", cfg_call), ("threadLockCall", thr_call)):
        out.append("def Server.%s : Server → LockCall" % fn)
        for nm, _ in SERVERS:
            out.append("  | .%s => .%s" % (nm, tab[nm]))
        out.append("")
    out.append("/-- `set_config` is called on the shared analyzer inside that guard -/")
    out.append("def Server.configSetsShared : Server → Bool")
    for nm, _ in SERVERS:
        out.append("  | .%s => %s" % (nm, "true" if sets[nm] else "false"))
    out += ["", "end A2Verif.Gen.SrvState", ""]
    return {"SrvState": "\n".join(out)}, {"SrvState": digest(paths)}


if __name__ == "__main__":
    import sys
    ms, ds = generate(sys.argv[1] if len(sys.argv) > 1 else "/repo")
    print(ms["SrvState"])
