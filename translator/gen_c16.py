"""Translator for family c16: the renumberers' label walkers and their per-pass state.

Emits `A2Verif.Gen.RenumRefs` from the *current* source (`src/lang/applesoft/renumber.rs`,
`src/lang/integer/renumber.rs`) and from the grammar of the pinned tree-sitter crates (`Cargo.lock`):

  * per dialect, from `Navigate::visit`: the node kind that is a label (`"linenum"`), the parent kind that makes it a
    defining label (`"line"`), the arms of the `match (parent.kind()=="line", self.primaries, self.secondaries)`
    decision, and for Integer BASIC the second rule (`"integer"` after `statement_goto|statement_gosub|statement_then_line`
    while gathering references);
  * per dialect, from `Renumberer::renumber` / `get_edits`: the `min_num`, `max_num` literals handed to `build_edits`;
  * per dialect and gather pass (`gather_defs`, `gather_refs`): the struct fields, the fields RESET by a plain assignment
    at the top of the pass (before the loop over the lines), the fields assigned in the loop before anything reads them,
    the fields READ during a pass (pass body, `visit`, `push_linenum`), how the result is handed out (`clone` / `mem::take`)
    and whether a pass can return early (`?` / `return Err`);
  * per dialect, from `grammar.js` of the crate version named in `Cargo.lock`: the statement alternatives that contain a
    `$.linenum` (which statements carry references the walker will see).

Everything is syntactic; a construct that is not recognised raises TranslatorError (reported by bin/check as a broken
obligation of C16).
"""
import os, re, glob
from gen import TranslatorError, strip_rust_comments, digest

DIALECTS = [("applesoft", "src/lang/applesoft/renumber.rs", "tree-sitter-applesoft"),
            ("integer", "src/lang/integer/renumber.rs", "tree-sitter-integerbasic")]


def lean_bytes(s):
    return "[" + ", ".join(str(b) for b in s.encode("ascii")) + "]"


def _match_close(s, i):
    """index of the brace closing the one at s[i]"""
    if s[i] != "{":
        raise TranslatorError("expected '{' at %d" % i)
    depth = 0
    j = i
    in_str = False
    while j < len(s):
        c = s[j]
        if in_str:
            if c == "\\":
                j += 1
            elif c == '"':
                in_str = False
        elif c == '"':
            in_str = True
        elif c == "{":
            depth += 1
        elif c == "}":
            depth -= 1
            if depth == 0:
                return j
        j += 1
    raise TranslatorError("unbalanced braces")


def _fn_body(src, name, path):
    ms = list(re.finditer(r"\bfn\s+" + name + r"\s*\(", src))
    if len(ms) != 1:
        raise TranslatorError("%s: expected exactly one fn %s, found %d" % (path, name, len(ms)))
    i = src.index("{", ms[0].end())
    # the '{' must be the body's: no ';' between the signature and it
    if ";" in src[ms[0].end():i]:
        raise TranslatorError("%s: fn %s has no body" % (path, name))
    j = _match_close(src, i)
    return src[i + 1:j]


def _struct_fields(src, path):
    m = re.search(r"\bpub\s+struct\s+Renumberer\s*\{", src)
    if not m:
        raise TranslatorError("%s: struct Renumberer not found" % path)
    i = m.end() - 1
    body = src[i + 1:_match_close(src, i)]
    fields = []
    parts, depth, cur = [], 0, ""
    for ch in body:
        if ch in "<([":
            depth += 1
        elif ch in ">)]":
            depth -= 1
        if ch == "," and depth == 0:
            parts.append(cur)
            cur = ""
        else:
            cur += ch
    parts.append(cur)
    for part in parts:
        part = part.strip()
        if not part:
            continue
        fm = re.fullmatch(r"(?:pub\s+)?(\w+)\s*:\s*.+", part, re.S)
        if not fm:
            raise TranslatorError("%s: unparsed struct field %r" % (path, part))
        fields.append(fm.group(1))
    if len(set(fields)) != len(fields) or not fields:
        raise TranslatorError("%s: bad field list %r" % (path, fields))
    return fields


def _top_statements(body):
    """split a block body into top-level statements (text up to ';' or a closed '{..}' block at depth 0)"""
    out, cur, depth, i, in_str = [], "", 0, 0, False
    while i < len(body):
        c = body[i]
        cur += c
        if in_str:
            if c == "\\":
                i += 1
                cur += body[i] if i < len(body) else ""
            elif c == '"':
                in_str = False
        elif c == '"':
            in_str = True
        elif c in "{([":
            depth += 1
        elif c in "})]":
            depth -= 1
            if depth == 0 and c == "}":
                # a block statement ends here unless an expression continues (`else`, `.method`, `;`)
                rest = body[i + 1:].lstrip()
                if not (rest.startswith("else") or rest.startswith(".") or rest.startswith(";") or rest.startswith("?")):
                    out.append(cur.strip())
                    cur = ""
        elif c == ";" and depth == 0:
            out.append(cur.strip())
            cur = ""
        i += 1
    if cur.strip():
        out.append(cur.strip())
    return [s for s in out if s]


def _self_fields(text, fields, path):
    found = []
    for m in re.finditer(r"\bself\s*\.\s*(\w+)", text):
        f = m.group(1)
        after = text[m.end():].lstrip()
        if after.startswith("("):
            continue  # a method call, handled by the caller
        if f not in fields:
            raise TranslatorError("%s: self.%s is not a field of Renumberer" % (path, f))
        if f not in found:
            found.append(f)
    return found


def _self_calls(text):
    return [m.group(1) for m in re.finditer(r"\bself\s*\.\s*(\w+)\s*\(", text)]


def _gather_pass(src, name, fields, path):
    body = _fn_body(src, name, path)
    stmts = _top_statements(body)
    loops = [k for k, s in enumerate(stmts) if re.match(r"for\s", s)]
    if len(loops) != 1:
        raise TranslatorError("%s: %s: expected exactly one top-level `for` loop" % (path, name))
    k = loops[0]
    resets = []
    for s in stmts[:k]:
        m = re.fullmatch(r"self\s*\.\s*(\w+)\s*=\s*([^=].*);", s, re.S)
        if not m or "self" in m.group(2):
            raise TranslatorError("%s: %s: statement before the loop is not a plain reset: %r" % (path, name, s))
        if m.group(1) not in fields:
            raise TranslatorError("%s: %s: reset of unknown field %s" % (path, name, m.group(1)))
        if m.group(1) not in resets:
            resets.append(m.group(1))
    loop = stmts[k]
    lb = loop[loop.index("{") + 1:_match_close(loop, loop.index("{")) - 0]
    lstm = _top_statements(lb)
    loop_defined, seen = [], []
    for s in lstm:
        m = re.fullmatch(r"self\s*\.\s*(\w+)\s*=\s*([^=].*);", s, re.S)
        if m and m.group(1) in fields and m.group(1) not in seen and ("self." + m.group(1)) not in m.group(2).replace(" ", ""):
            for f in _self_fields(m.group(2), fields, path):
                if f not in seen:
                    seen.append(f)
            loop_defined.append(m.group(1))
            seen.append(m.group(1))
            continue
        for f in _self_fields(s, fields, path):
            if f not in seen:
                seen.append(f)
    calls = _self_calls(body)
    for c in calls:
        if c not in ("walk",):
            raise TranslatorError("%s: %s calls self.%s(), which this plug-in does not know" % (path, name, c))
    reads = _self_fields(body, fields, path)
    can_abort = bool(re.search(r"\?\s*[,;)]|\breturn\s+Err", lb))
    tail = stmts[k + 1:]
    if len(tail) != 1:
        raise TranslatorError("%s: %s: expected a single result expression after the loop, got %r" % (path, name, tail))
    t = tail[0].replace(" ", "")
    if t == "Ok(self.info.clone())":
        takes = False
    elif t in ("Ok(std::mem::take(&mutself.info))", "Ok(mem::take(&mutself.info))", "Ok(core::mem::take(&mutself.info))"):
        takes = True
    else:
        raise TranslatorError("%s: %s: result expression not recognised: %r" % (path, name, tail[0]))
    return resets, loop_defined, reads, takes, can_abort


def _visit(src, fields, path, dialect):
    body = _fn_body(src, "visit", path)
    kinds = re.findall(r'curs\.node\(\)\.kind\(\)\s*==\s*"([a-z_]+)"', body)
    m = re.search(r"match\s*\(\s*parent\.kind\(\)\s*==\s*\"([a-z_]+)\"\s*,\s*self\.primaries\s*,\s*self\.secondaries\s*\)\s*\{", body)
    if not m:
        raise TranslatorError("%s: visit: the (parent is line, primaries, secondaries) match was not found" % path)
    i = m.end() - 1
    arms_txt = body[i + 1:_match_close(body, i)]
    arms = []
    for part in arms_txt.split("\n"):
        part = part.strip().rstrip(",")
        if not part:
            continue
        am = re.fullmatch(r"\(\s*(true|false|_)\s*,\s*(true|false|_)\s*,\s*(true|false|_)\s*\)\s*=>\s*(true|false)", part)
        if am:
            arms.append((am.group(1), am.group(2), am.group(3), am.group(4)))
            continue
        am = re.fullmatch(r"_\s*=>\s*(true|false)", part)
        if am:
            arms.append(("_", "_", "_", am.group(1)))
            continue
        raise TranslatorError("%s: visit: unparsed match arm %r" % (path, part))
    if not arms:
        raise TranslatorError("%s: visit: no match arms" % path)
    prev_kinds, int_kind, int_needs_sec = [], "", False
    pm = re.search(r"\[([^\]]*)\]\s*\.contains\(\s*&\s*prev\.kind\(\)\s*\)", body)
    if dialect == "integer":
        if not pm:
            raise TranslatorError("%s: visit: the prev-sibling kind list was not found" % path)
        prev_kinds = re.findall(r'"([a-z_]+)"', pm.group(1))
        if re.sub(r'"[a-z_]+"', "", pm.group(1)).replace(",", "").strip():
            raise TranslatorError("%s: visit: unparsed prev-sibling kind list" % path)
        gm = re.search(r"if\s+(self\.secondaries\s*&&\s*)?curs\.node\(\)\.kind\(\)\s*==\s*\"([a-z_]+)\"\s*(&&\s*self\.secondaries\s*)?\{\s*if\s*\[", body)
        if not gm:
            raise TranslatorError("%s: visit: the guard of the second rule was not found" % path)
        int_kind = gm.group(2)
        int_needs_sec = bool(gm.group(1) or gm.group(3))
        label_kinds = [k for k in kinds if k != int_kind]
    else:
        if pm:
            raise TranslatorError("%s: visit: unexpected prev-sibling rule" % path)
        label_kinds = kinds
    if len(set(label_kinds)) != 1:
        raise TranslatorError("%s: visit: expected one label kind, found %r" % (path, kinds))
    for c in _self_calls(body):
        if c != "push_linenum":
            raise TranslatorError("%s: visit calls self.%s()" % (path, c))
    reads = _self_fields(body, fields, path)
    return label_kinds[0], m.group(1), arms, int_kind, prev_kinds, int_needs_sec, reads


def _bounds(src, path):
    vals = set()
    for fn in ("renumber", "get_edits"):
        body = _fn_body(src, fn, path)
        m = re.search(r"self\.build_edits\s*\((.*?)\)\s*(?:\{|$|\n\s*\})", body, re.S)
        if not m:
            raise TranslatorError("%s: %s: call of build_edits not found" % (path, fn))
        args = [a.strip() for a in re.split(r",(?![^()]*\))", m.group(1))]
        if len(args) != 8 or not re.fullmatch(r"[0-9_]+", args[6]) or not re.fullmatch(r"[0-9_]+", args[7]):
            raise TranslatorError("%s: %s: build_edits is not called with literal bounds: %r" % (path, fn, args))
        vals.add((int(args[6].replace("_", "")), int(args[7].replace("_", ""))))
    if len(vals) != 1:
        raise TranslatorError("%s: renumber and get_edits use different bounds %r" % (path, vals))
    return vals.pop()


def _grammar(repo, crate):
    # the lock file the harness is built with (a copy of the repository's; a git worktree has none of its own)
    here = os.path.dirname(os.path.abspath(__file__))
    lock = None
    for cand in (os.path.join(repo, "Cargo.lock"), os.path.join(os.path.dirname(here), "harness", "Cargo.lock")):
        if os.path.exists(cand):
            lock = open(cand).read()
            break
    if lock is None:
        raise TranslatorError("no Cargo.lock found (repository or harness)")
    m = re.search(r'name = "' + re.escape(crate) + r'"\s*\nversion = "([^"]+)"', lock)
    if not m:
        raise TranslatorError("Cargo.lock: %s not found" % crate)
    ver = m.group(1)
    cands = sorted(glob.glob(os.path.join(os.path.expanduser("~"), ".cargo", "registry", "src", "*", "%s-%s" % (crate, ver), "grammar.js")))
    if not cands:
        raise TranslatorError("grammar.js of %s %s not found in the cargo registry" % (crate, ver))
    g = strip_rust_comments(open(cands[0]).read())
    alts = []
    for line in g.split("\n"):
        if "$.linenum" not in line or re.match(r"\s*linenum\s*:", line):
            continue
        names = re.findall(r"\$\.((?:tok|com|statement)_[a-z_]+)", line)
        head = re.match(r"\s*(\w+)\s*:", line)
        key = "+".join(names) if names else (head.group(1) if head else None)
        if not key:
            raise TranslatorError("%s grammar.js: unparsed linenum line %r" % (crate, line.strip()))
        if key not in alts:
            alts.append(key)
    return ver, cands[0], alts


def generate(repo):
    paths = []
    L = ["/-! GENERATED by /verif/translator/gen_c16.py from src/lang/applesoft/renumber.rs, src/lang/integer/renumber.rs and the"
         " grammar.js of the tree-sitter crates pinned in Cargo.lock -- do not edit; regenerated on every run -/",
         "namespace A2Verif.Gen.RenumRefs", ""]
    for dialect, rel, crate in DIALECTS:
        path = os.path.join(repo, rel)
        paths.append(path)
        src = strip_rust_comments(open(path).read())
        fields = _struct_fields(src, rel)
        label, line_kind, arms, int_kind, prev_kinds, int_needs_sec, vreads = _visit(src, fields, rel, dialect)
        pbody = _fn_body(src, "push_linenum", rel)
        for c in _self_calls(pbody):
            raise TranslatorError("%s: push_linenum calls self.%s()" % (rel, c))
        preads = _self_fields(pbody, fields, rel)
        lo, hi = _bounds(src, rel)
        ver, gpath, alts = _grammar(repo, crate)
        paths.append(gpath)
        L += ["/-! ## %s (%s %s) -/" % (dialect, crate, ver), "",
              "/-- fields of `Renumberer`, in declaration order (field id = position) -/",
              "def %sFields : List (List Nat) := [%s]" % (dialect, ", ".join(lean_bytes(f) for f in fields)),
              "/-- the node kind `visit` takes for a label, and the parent kind that makes it a defining label -/",
              "def %sLabelKind : List Nat := %s" % (dialect, lean_bytes(label)),
              "def %sLineKind : List Nat := %s" % (dialect, lean_bytes(line_kind)),
              "/-- arms of `match (parent.kind()==line, self.primaries, self.secondaries)`: pattern (`none` = `_`) ↦ grab -/",
              ""]
        L[-1] = "def %sGrabArms : List (Option Bool × Option Bool × Option Bool × Bool) := [%s]" % (
            dialect, ", ".join("(%s, %s, %s, %s)" % (("none" if a[0] == "_" else "some " + a[0]),
                                                     ("none" if a[1] == "_" else "some " + a[1]),
                                                     ("none" if a[2] == "_" else "some " + a[2]), a[3]) for a in arms))
        L += ["/-- second rule (Integer BASIC): a node of this kind directly after one of these kinds is a reference -/",
              "def %sNumberKind : List Nat := %s" % (dialect, lean_bytes(int_kind)),
              "def %sNumberAfter : List (List Nat) := [%s]" % (dialect, ", ".join(lean_bytes(k) for k in prev_kinds)),
              "def %sNumberNeedsSecondaries : Bool := %s" % (dialect, "true" if int_needs_sec else "false"),
              "/-- `min_num`, `max_num` handed to `build_edits` by `renumber` and `get_edits` -/",
              "def %sMinNum : Nat := %d" % (dialect, lo),
              "def %sMaxNum : Nat := %d" % (dialect, hi),
              "/-- statement alternatives of the grammar that contain a `linenum` (leading token names) -/",
              "def %sLinenumStatements : List (List Nat) := [%s]" % (dialect, ", ".join(lean_bytes(a) for a in alts))]
        for gname in ("gather_defs", "gather_refs"):
            resets, loopdef, reads, takes, can_abort = _gather_pass(src, gname, fields, rel)
            allreads = []
            for f in reads + vreads + preads:
                if f not in allreads:
                    allreads.append(f)
            tag = dialect + ("Defs" if gname == "gather_defs" else "Refs")
            idx = lambda fs: "[" + ", ".join(str(fields.index(f)) for f in fs) + "]"
            L += ["/-- `%s`: fields reset before the loop / assigned in the loop before any read / read during the pass"
                  " (pass body, `visit`, `push_linenum`) -/" % gname,
                  "def %sResets : List Nat := %s" % (tag, idx(resets)),
                  "def %sLoopDefined : List Nat := %s" % (tag, idx(loopdef)),
                  "def %sReads : List Nat := %s" % (tag, idx(allreads)),
                  "/-- the result is handed out with `mem::take` (leaves `info` empty) instead of `clone` -/",
                  "def %sTakes : Bool := %s" % (tag, "true" if takes else "false"),
                  "/-- the loop can return early (`?`, `return Err`) -/",
                  "def %sCanAbort : Bool := %s" % (tag, "true" if can_abort else "false")]
        L.append("")
    dg = digest(paths)
    L += ['def sourceDigest : String := "%s"' % dg, "", "end A2Verif.Gen.RenumRefs", ""]
    return {"RenumRefs": "\n".join(L)}, {"RenumRefs": dg}


if __name__ == "__main__":
    import sys
    ms, ds = generate(sys.argv[1] if len(sys.argv) > 1 else "/repo")
    print(ms["RenumRefs"])
