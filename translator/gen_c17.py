"""Translator for family c17: Applesoft minifier tables.

Emits `A2Verif.Gen.MinifyGuards` from the *current* source:
  * `Tok`            one constructor per entry of `TOK_MAP` (token_maps.rs), with `Tok.code`
                     (the token byte) and `Tok.spelling` (upper-cased `DETOK_MAP` text as bytes);
  * `varGuards`      `VAR_GUARDS_JSON` (minify_guards.rs): key bytes -> token kinds;
  * `forbidsCombiningAny/Next`  the two const arrays of minifier.rs;
  * `maxLen`         the `max_len` literal of `minify_stage3`.
Raises TranslatorError on anything it does not recognise.
"""
import os, re, json
from gen import TranslatorError, strip_rust_comments, digest

FILES = ["src/lang/applesoft/token_maps.rs", "src/lang/applesoft/minify_guards.rs", "src/lang/applesoft/minifier.rs"]


def _pairs(src, name, pat):
    m = re.search(r"\bpub\s+const\s+" + name + r"\s*:\s*\[\s*\([^\]]*\)\s*;\s*(\d+)\s*\]\s*=\s*\[(.*?)\];", src, re.S)
    if not m:
        raise TranslatorError("token_maps.rs: %s not found" % name)
    n, body = int(m.group(1)), m.group(2)
    items = re.findall(pat, body)
    rest = re.sub(pat, "", body)
    if rest.replace(",", "").strip():
        raise TranslatorError("token_maps.rs: unparsed text in %s: %r" % (name, rest.strip()[:60]))
    if len(items) != n:
        raise TranslatorError("token_maps.rs: %s declares %d entries, found %d" % (name, n, len(items)))
    return items


def _str_array(src, name, path):
    m = re.search(r"\bconst\s+" + name + r"\s*:\s*\[\s*&str\s*;\s*(\d+)\s*\]\s*=\s*\[(.*?)\];", src, re.S)
    if not m:
        raise TranslatorError("%s: %s not found" % (path, name))
    items = re.findall(r'"([^"]*)"', m.group(2))
    rest = re.sub(r'"[^"]*"', "", m.group(2))
    if rest.replace(",", "").strip():
        raise TranslatorError("%s: unparsed text in %s" % (path, name))
    if len(items) != int(m.group(1)):
        raise TranslatorError("%s: %s length mismatch" % (path, name))
    return items


def lean_bytes(s):
    return "[" + ", ".join(str(b) for b in s.encode("ascii")) + "]"


# ------------------------------------------------------------------------------------------------ grammar: PRINT items
def grammar_path(repo):
    """grammar.json of the tree-sitter-applesoft version pinned in the repo's Cargo.lock (cargo registry sources)"""
    m = None
    here = os.path.dirname(os.path.abspath(__file__))
    for lockp in (os.path.join(repo, "Cargo.lock"), os.path.join(here, "..", "harness", "Cargo.lock")):
        if os.path.exists(lockp):
            m = re.search(r'name = "tree-sitter-applesoft"\s*\nversion = "([^"]+)"', open(lockp).read())
            if m:
                break
    if not m:
        # a scratch worktree has no Cargo.lock: the requirement of Cargo.toml (exact versions are pinned there)
        m = re.search(r'tree-sitter-applesoft\s*=\s*"=?\s*([0-9][^"]*)"', open(os.path.join(repo, "Cargo.toml")).read())
    if not m:
        raise TranslatorError("version of tree-sitter-applesoft not found (Cargo.lock / Cargo.toml)")
    homes = [os.environ.get("CARGO_HOME"), os.path.expanduser("~/.cargo"), "/root/.cargo"]
    for h in homes:
        if not h:
            continue
        base = os.path.join(h, "registry", "src")
        if not os.path.isdir(base):
            continue
        for d in sorted(os.listdir(base)):
            g = os.path.join(base, d, "tree-sitter-applesoft-" + m.group(1), "src", "grammar.json")
            if os.path.exists(g):
                return g
    raise TranslatorError("grammar.json of tree-sitter-applesoft %s not found in the cargo registry" % m.group(1))


def pattern_may_start_with_letter(pat):
    """can a match of the regex start with an ASCII letter?  Walks the leading atoms while they are optional."""
    i, n = 0, len(pat)
    alts = []
    depth = 0
    cur = ""
    for ch in pat:          # top-level alternatives
        if ch in "([":
            depth += 1
        elif ch in ")]":
            depth -= 1
        if ch == "|" and depth == 0:
            alts.append(cur); cur = ""
        else:
            cur += ch
    alts.append(cur)
    if len(alts) > 1:
        return any(pattern_may_start_with_letter(a) for a in alts)
    while i < n:
        ch = pat[i]
        if ch == "[":
            j = pat.index("]", i + 1)
            cls = pat[i + 1:j]
            letters = bool(re.search(r"[A-Za-z]", re.sub(r"\\.", "", cls))) and not cls.startswith("^")
            if cls.startswith("^"):
                letters = True
            i = j + 1
        elif ch == "(":
            d, j = 0, i
            while j < n:
                if pat[j] == "(":
                    d += 1
                elif pat[j] == ")":
                    d -= 1
                    if d == 0:
                        break
                j += 1
            letters = pattern_may_start_with_letter(pat[i + 1:j].lstrip("?:"))
            i = j + 1
        elif ch == "\\":
            letters = pat[i + 1:i + 2] in ("w",)
            i += 2
        elif ch == ".":
            letters = True
            i += 1
        else:
            letters = ch.isalpha()
            i += 1
        if letters:
            return True
        if i < n and pat[i] in "?*":
            i += 1
            continue
        if i < n and pat[i] == "{" and pat[i + 1:i + 2] == "0":
            i = pat.index("}", i) + 1
            continue
        return False
    return False


def print_item_kinds(gpath):
    """[(visible node kind, first terminal may start with a letter)] for every node kind that can be a PRINT item, i.e.
    every visible alternative of `_expr` (hidden rules expanded), from grammar.json"""
    try:
        g = json.load(open(gpath))
    except Exception as ex:
        raise TranslatorError("grammar.json unreadable: %r" % (ex,))
    rules = g["rules"]
    externals = {e.get("name") for e in g.get("externals", []) if e.get("type") == "SYMBOL"}
    st = json.dumps(rules.get("statement", {}))
    if '"tok_print"' not in st or '"_expr"' not in st:
        raise TranslatorError("grammar.json: PRINT statement is not `tok_print repeat(choice(',', ';', _expr))`")

    def nullable(r, seen):
        t = r["type"]
        if t == "BLANK":
            return True
        if t in ("STRING",):
            return r["value"] == ""
        if t in ("PATTERN",):
            return False
        if t == "SYMBOL":
            if r["name"] in externals or r["name"] in seen:
                return False
            return nullable(rules[r["name"]], seen | {r["name"]})
        if t == "CHOICE":
            return any(nullable(m, seen) for m in r["members"])
        if t == "SEQ":
            return all(nullable(m, seen) for m in r["members"])
        if t == "REPEAT":
            return True
        if t in ("REPEAT1", "PREC", "PREC_LEFT", "PREC_RIGHT", "PREC_DYNAMIC", "TOKEN", "IMMEDIATE_TOKEN", "FIELD", "ALIAS"):
            return nullable(r["content"], seen)
        raise TranslatorError("grammar.json: rule type %s not handled" % t)

    def first_letter(r, seen):
        """may the first character of something derived from r be a letter?"""
        t = r["type"]
        if t == "BLANK":
            return False
        if t == "STRING":
            return r["value"][:1].isalpha()
        if t == "PATTERN":
            return pattern_may_start_with_letter(r["value"])
        if t == "SYMBOL":
            if r["name"] in externals:
                return True             # the external scanner delivers variable names
            if r["name"] in seen:
                return False
            return first_letter(rules[r["name"]], seen | {r["name"]})
        if t == "CHOICE":
            return any(first_letter(m, seen) for m in r["members"])
        if t == "SEQ":
            for m in r["members"]:
                if first_letter(m, seen):
                    return True
                if not nullable(m, set()):
                    return False
            return False
        if t in ("REPEAT", "REPEAT1", "PREC", "PREC_LEFT", "PREC_RIGHT", "PREC_DYNAMIC", "TOKEN", "IMMEDIATE_TOKEN", "FIELD", "ALIAS"):
            return first_letter(r["content"], seen)
        raise TranslatorError("grammar.json: rule type %s not handled" % t)

    kinds = []

    def visible(r, seen):
        t = r["type"]
        if t == "SYMBOL":
            nm = r["name"]
            if nm.startswith("_") and nm not in externals:
                if nm not in seen:
                    visible(rules[nm], seen | {nm})
            elif nm not in kinds:
                kinds.append(nm)
        elif t == "CHOICE":
            for m in r["members"]:
                visible(m, seen)
        elif t == "ALIAS":
            if r.get("named") and r["value"] not in kinds:
                kinds.append(r["value"])
        elif t in ("PREC", "PREC_LEFT", "PREC_RIGHT", "PREC_DYNAMIC", "FIELD"):
            visible(r["content"], seen)
        elif t == "SEQ":
            # a hidden sequence such as `( _aexpr )`: its first member decides the sibling kind only if visible; the
            # anonymous `(` is not a NAMED sibling, the named one is what is inside
            for m in r["members"]:
                visible(m, seen)
        elif t in ("STRING", "PATTERN", "BLANK", "REPEAT", "REPEAT1", "TOKEN", "IMMEDIATE_TOKEN"):
            pass
        else:
            raise TranslatorError("grammar.json: rule type %s not handled" % t)
    visible(rules["_expr"], {"_expr"})
    out = []
    for k in kinds:
        if k not in rules:
            raise TranslatorError("grammar.json: node kind %s has no rule" % k)
        out.append((k, first_letter(rules[k], {k})))
    return out


def adjacency_rule(mraw):
    """the rule of `needs_guard` for a next node that follows with NOTHING in between: ("all-but", [exclusions]) for
    `!next.kind().starts_with("tok_") && next.kind()!="subscript"` (every other kind is guarded), or ("only", [kinds])
    for a positive list `LIST.contains(&next.kind())`"""
    m = re.search(r"\bfn\s+needs_guard\b.*?\n\t\}", mraw, re.S)
    if not m:
        raise TranslatorError("minifier.rs: needs_guard not found")
    body = m.group(0)
    am = re.search(r"if\s+parent\.next_sibling\(\)\s*==\s*Some\(next\)\s*&&\s*(.*?)\{\s*return\s+true\s*;", body, re.S)
    if not am:
        raise TranslatorError("minifier.rs: adjacency rule of needs_guard not recognised")
    cond = re.sub(r"\s+", "", am.group(1))
    em = re.fullmatch(r'!next\.kind\(\)\.starts_with\("tok_"\)((?:&&next\.kind\(\)!="\w+")*)', cond)
    if em:
        return "all-but", re.findall(r'!="(\w+)"', em.group(1))
    pm = re.fullmatch(r"(\w+)\.contains\(&next\.kind\(\)\)", cond)
    if pm:
        lm = re.search(r"const\s+%s\s*:\s*\[\s*&str\s*;\s*\d+\s*\]\s*=\s*\[(.*?)\]\s*;" % pm.group(1), body, re.S)
        if not lm:
            raise TranslatorError("minifier.rs: list %s of the adjacency rule not found" % pm.group(1))
        return "only", re.findall(r'"([^"]*)"', lm.group(1))
    raise TranslatorError("minifier.rs: adjacency rule of needs_guard has an unknown form: %s" % cond[:120])


def generate(repo):
    paths = [os.path.join(repo, f) for f in FILES]
    tm = strip_rust_comments(open(paths[0]).read())
    tok_map = _pairs(tm, "TOK_MAP", r'\(\s*"([a-z0-9_]+)"\s*,\s*(\d+)\s*\)')
    detok = _pairs(tm, "DETOK_MAP", r'\(\s*(\d+)\s*,\s*"([^"]+)"\s*\)')
    code_of = {}
    for k, c in tok_map:
        if not re.fullmatch(r"tok_[a-z0-9]+", k) or k in code_of:
            raise TranslatorError("token_maps.rs: bad or duplicate kind %r" % k)
        code_of[k] = int(c)
    spell_of = {}
    for c, s in detok:
        if int(c) in spell_of:
            raise TranslatorError("token_maps.rs: duplicate code %s in DETOK_MAP" % c)
        spell_of[int(c)] = s.upper()
    if sorted(code_of.values()) != sorted(spell_of.keys()):
        raise TranslatorError("token_maps.rs: TOK_MAP and DETOK_MAP cover different codes")
    kinds = [k for k, _ in tok_map]

    # guards: the JSON lives in a raw string; comments must not be stripped inside it
    graw = open(paths[1]).read()
    m = re.search(r'pub\s+const\s+VAR_GUARDS_JSON\s*:\s*&str\s*=\s*r#"(.*?)"#\s*;', graw, re.S)
    if not m:
        raise TranslatorError("minify_guards.rs: VAR_GUARDS_JSON not found")
    try:
        guards = json.loads(m.group(1), object_pairs_hook=list)
    except Exception as ex:
        raise TranslatorError("minify_guards.rs: JSON does not parse: %r" % (ex,))
    seen = set()
    for key, vals in guards:
        if not re.fullmatch(r"[a-z][a-z0-9]?", key) or key in seen:
            raise TranslatorError("minify_guards.rs: bad or duplicate key %r" % key)
        seen.add(key)
        if not isinstance(vals, list) or any(v not in code_of for v in vals):
            raise TranslatorError("minify_guards.rs: key %r has unknown kinds %r" % (key, vals))

    mraw = strip_rust_comments(open(paths[2]).read())
    fany = _str_array(mraw, "FORBIDS_COMBINING_ANY", "minifier.rs")
    fnext = _str_array(mraw, "FORBIDS_COMBINING_NEXT", "minifier.rs")
    for k in fany + fnext:
        if k not in code_of:
            raise TranslatorError("minifier.rs: unknown kind %r in FORBIDS_COMBINING_*" % k)
    mm = re.findall(r"let\s+max_len\s*=\s*(\d+)\s*;", mraw)
    if len(mm) != 1:
        raise TranslatorError("minifier.rs: expected exactly one `let max_len = N;`")

    L = ["/-! GENERATED by /verif/translator/gen_c17.py from %s -- do not edit; regenerated on every run -/" % ", ".join(FILES),
         "namespace A2Verif.Gen.MinifyGuards", "",
         "/-- node kinds of the Applesoft tokens (`TOK_MAP`) -/",
         "inductive Tok where"]
    L += ["  | %s" % k for k in kinds]
    L += ["deriving DecidableEq, Repr", "",
          "def Tok.all : List Tok := [" + ", ".join("." + k for k in kinds) + "]", "",
          "/-- token byte -/", "def Tok.code : Tok → Nat"]
    L += ["  | .%s => %d" % (k, code_of[k]) for k in kinds]
    L += ["", "/-- ROM spelling (`DETOK_MAP`, upper case) as bytes -/", "def Tok.spelling : Tok → List Nat"]
    L += ["  | .%s => %s" % (k, lean_bytes(spell_of[code_of[k]])) for k in kinds]
    L += ["", "/-- `VAR_GUARDS_JSON`: lower-case short name ↦ following token kinds that need a guard -/",
          "def varGuards : List (List Nat × List Tok) := ["]
    L += ["  (%s, [%s])%s" % (lean_bytes(k), ", ".join("." + v for v in vals), "," if i + 1 < len(guards) else "")
          for i, (k, vals) in enumerate(guards)]
    L += ["]", "",
          "def forbidsCombiningAny : List Tok := [" + ", ".join("." + k for k in fany) + "]",
          "def forbidsCombiningNext : List Tok := [" + ", ".join("." + k for k in fnext) + "]",
          "def maxLen : Nat := %s" % mm[0], ""]
    # PRINT items run together: which node kinds can follow, which of them may begin with a letter (grammar), and what
    # `needs_guard` does when such a node follows with nothing in between (source)
    gpath = grammar_path(repo)
    items = print_item_kinds(gpath)
    # the raw source keeps string literals (strip_rust_comments keeps them too)
    form, lst = adjacency_rule(mraw)
    L += ["/-- node kinds that can be a PRINT item (visible alternatives of `_expr` in tree-sitter-applesoft's grammar.json) with",
          "\"the first character of such a node may be a letter\" (FIRST sets over the grammar; names come from the external scanner) -/",
          "def printItemKinds : List (List Nat × Bool) := [" + ", ".join("(%s, %s)" % (lean_bytes(k), "true" if b else "false") for k, b in items) + "]",
          "-- " + " ".join("%s=%s" % (k, "letters" if b else "-") for k, b in items),
          "/-- the adjacency rule of `needs_guard`: `true` = every adjacent node kind is guarded except `tok_*` and the listed",
          "kinds; `false` = only the listed kinds are guarded -/",
          "def adjacentGuardsAllBut : Bool := %s" % ("true" if form == "all-but" else "false"),
          "def adjacentKindList : List (List Nat) := [" + ", ".join(lean_bytes(k) for k in lst) + "]",
          "-- adjacency rule: %s %s" % (form, " ".join(lst)), ""]
    dg = digest(paths + [gpath])
    L += ['def sourceDigest : String := "%s"' % dg, "", "end A2Verif.Gen.MinifyGuards", ""]
    return {"MinifyGuards": "\n".join(L)}, {"MinifyGuards": dg}
