"""Translator: regenerates /verif/lean/A2Verif/Gen/*.lean from /repo's working tree on every run.

Deliberately dumb and syntactic: it copies things that are *data* in the Rust source (const arrays,
scalar constants, fn-local lookup tables) into Lean `def`s over `Nat`/`List Nat`.  Anything it does not
recognise inside a construct it was told to extract raises TranslatorError, which bin/check reports
as a broken obligation (never silently skipped).  Theorems about these tables are therefore
re-checked against what the source says now.
"""
import os, re, hashlib, importlib, json

class TranslatorError(Exception):
    pass

INT_T = r"(?:u8|u16|u32|u64|usize|i8|i16|i32|i64|isize)"

def strip_rust_comments(src):
    src = re.sub(r"/\*.*?\*/", "", src, flags=re.S)
    src = re.sub(r"//[^\n]*", "", src)
    return src

def parse_int(tok, env=None):
    t = tok.strip().replace("_", "")
    t = re.sub(r"(?<=[0-9a-fA-F])" + INT_T + r"$", "", t)
    if re.fullmatch(r"0x[0-9a-fA-F]+", t):
        return int(t, 16)
    if re.fullmatch(r"0b[01]+", t):
        return int(t, 2)
    if re.fullmatch(r"[0-9]+", t):
        return int(t)
    raise TranslatorError("not an integer literal: %r" % tok)

def eval_const_expr(expr, env):
    """integer constant expressions over + - * / << and previously defined names"""
    e = expr.strip()
    e = re.sub(r"\bas\s+" + INT_T, "", e)
    def idx(m):
        arr = env.get(m.group(1))
        if isinstance(arr, list):
            return str(arr[int(m.group(2))])
        raise TranslatorError("unknown table %s in const expr %r" % (m.group(1), expr))
    e = re.sub(r"\b([A-Za-z_][A-Za-z0-9_]*)\[([0-9]+)\]", idx, e)
    def repl(m):
        w = m.group(0)
        if w in env:
            return str(env[w])
        raise TranslatorError("unknown name %s in const expr %r" % (w, expr))
    e2 = re.sub(r"\b[A-Za-z_][A-Za-z0-9_]*\b", lambda m: repl(m) if not re.fullmatch(r"0x[0-9a-fA-F_]+|0b[01_]+", m.group(0)) else m.group(0), re.sub(r"\b(0x[0-9a-fA-F_]+|0b[01_]+|[0-9][0-9_]*)" + INT_T + r"?\b", lambda m: str(parse_int(m.group(0))), e))
    if not re.fullmatch(r"[0-9+\-*/<>() \t\n]+", e2):
        raise TranslatorError("unsupported const expr %r" % expr)
    return int(eval(e2.replace("/", "//"), {"__builtins__": {}}, {}))

def parse_array(body, env):
    """nested [a,b,[c,d]] or [x;N] of integer expressions -> python nested lists"""
    body = body.strip()
    if not (body.startswith("[") and body.endswith("]")):
        return eval_const_expr(body, env)
    inner = body[1:-1]
    # split at top level on ',' and ';'
    parts, depth, cur, semi = [], 0, "", None
    for ch in inner:
        if ch in "[(":
            depth += 1
        elif ch in "])":
            depth -= 1
        if ch == "," and depth == 0:
            parts.append(cur); cur = ""
        elif ch == ";" and depth == 0:
            semi = cur; cur = ""
        else:
            cur += ch
    if semi is not None:
        n = eval_const_expr(cur, env)
        v = parse_array(semi, env)
        return [v for _ in range(n)]
    if cur.strip():
        parts.append(cur)
    return [parse_array(p, env) for p in parts]

def shape_ok(val, dims):
    if not dims:
        return isinstance(val, int)
    return isinstance(val, list) and len(val) == dims[0] and all(shape_ok(v, dims[1:]) for v in val)

def lean_val(v):
    if isinstance(v, int):
        return str(v)
    return "[" + ", ".join(lean_val(x) for x in v) + "]"

def lean_type(dims):
    t = "Nat"
    for _ in dims:
        t = "List (%s)" % t if " " in t else "List %s" % t
    return t

def extract_tables(path, want_scalars=True, only=None, skip=()):
    """returns ordered list of (name, dims, value) for const/static/let arrays and scalar consts"""
    src = strip_rust_comments(open(path).read())
    env, out, seen = {}, [], set()
    # scalar constants
    for m in re.finditer(r"\b(?:pub(?:\([a-z]+\))?\s+)?(?:const|static)\s+([A-Z][A-Z0-9_]*)\s*:\s*(" + INT_T + r")\s*=\s*([^;]+);", src):
        name, expr = m.group(1), m.group(3)
        if name in skip:
            continue
        try:
            env[name] = eval_const_expr(expr, env)
        except TranslatorError:
            if only and name in only:
                raise
            continue
        if want_scalars and (only is None or name in only):
            out.append((name, [], env[name])); seen.add(name)
    # arrays
    pat = re.compile(r"\b(?:pub(?:\([a-z]+\))?\s+)?(const|static|let)\s+(?:mut\s+)?([A-Za-z_][A-Za-z0-9_]*)\s*:\s*((?:\[\s*)+)(" + INT_T + r")((?:\s*;\s*[^\]]+\])+)\s*=\s*")
    for m in pat.finditer(src):
        kind, name = m.group(1), m.group(2)
        if name in skip or (only is not None and name not in only):
            continue
        dims_txt = re.findall(r";\s*([^\]]+)\]", m.group(5))
        dims = [eval_const_expr(d, env) for d in dims_txt][::-1]
        # find the initializer: balanced brackets from m.end()
        i = m.end()
        if i >= len(src) or src[i] != "[":
            if only and name in only:
                raise TranslatorError("%s: initializer of %s is not an array literal" % (path, name))
            continue
        depth, j = 0, i
        while j < len(src):
            if src[j] == "[":
                depth += 1
            elif src[j] == "]":
                depth -= 1
                if depth == 0:
                    break
            j += 1
        try:
            val = parse_array(src[i:j + 1], env)
        except TranslatorError:
            if kind == "let" and not (only and name in only):
                continue
            raise
        if not shape_ok(val, dims):
            raise TranslatorError("%s: table %s does not have declared shape %s" % (path, name, dims))
        nm = name
        k = 2
        while nm in seen:
            nm = "%s_%d" % (name, k); k += 1
        seen.add(nm)
        env[nm] = val
        out.append((nm, dims, val))
    if only:
        missing = [n for n in only if n not in seen]
        if missing:
            raise TranslatorError("%s: expected tables not found: %s" % (path, missing))
    return out

def render_module(ns, items, sources, header=""):
    lines = ["/-! GENERATED by /verif/translator/gen.py from %s -- do not edit; regenerated on every run -/" % ", ".join(sources),
             "namespace A2Verif.Gen.%s" % ns, ""]
    if header:
        lines.append(header)
    for name, dims, val in items:
        lines.append("def %s : %s := %s" % (name, lean_type(dims), lean_val(val)))
    lines += ["", "end A2Verif.Gen.%s" % ns, ""]
    return "\n".join(lines)

def write_if_changed(path, content):
    try:
        if open(path).read() == content:
            return
    except FileNotFoundError:
        pass
    tmp = path + ".tmp%d" % os.getpid()
    with open(tmp, "w") as f:
        f.write(content)
    os.replace(tmp, path)

def digest(paths):
    h = hashlib.sha256()
    for p in paths:
        h.update(open(p, "rb").read())
    return h.hexdigest()[:16]

def generate(repo, outdir):
    """Regenerate every Gen module.  Returns (digests, owner, errors):
    digests: module -> digest of the sources it was made from; owner: module -> plug-in name
    ("core" for the tables below); errors: plug-in -> exception text.  A plug-in that raises leaves
    its previously generated (committed baseline) modules in place, so that the driver still builds
    for the other families; bin/check reports the failure for every property whose theorem modules
    import one of that plug-in's modules."""
    os.makedirs(outdir, exist_ok=True)
    digests, mods, owner, errors = {}, {}, {}, {}
    def table_mod(ns, rels, **kw):
        paths = [os.path.join(repo, r) for r in rels]
        items = []
        for p in paths:
            items += extract_tables(p, **kw)
        mods[ns] = render_module(ns, items, rels)
        digests[ns] = digest(paths)
        owner[ns] = "core"
    core = [
        ("Skew", ["src/bios/skew.rs"], dict(only=["CPM_1_LSEC_TO_PSEC", "CPM_LSEC_TO_NABU_PSEC", "CPM_LSEC_TO_OSB1_PSEC", "CPM_LSEC_TO_DOS_LSEC",
                    "CPM_LSEC_TO_DOS_PSEC", "CPM_LSEC_TO_DOS_OFFSET", "D35_PHYSICAL", "DOS32_PHYSICAL",
                    "DOS_LSEC_TO_DOS_PSEC", "DOS_PSEC_TO_DOS_LSEC", "block_offset", "byte_offset", "sector1", "sector2"])),
        ("Disk525", ["src/img/disk525.rs"], dict(only=["DISK_BYTES_53", "DISK_BYTES_62", "CHUNK53", "CHUNK62", "INVALID_NIB_BYTE"])),
        ("Disk35", ["src/img/disk35.rs"], dict(only=["DISK_BYTES_62", "ZONED_SECS_PER_TRACK", "ZONE_BOUNDS_1", "ZONE_BOUNDS_2", "TRACK_BITS"])),
        ("Woz", ["src/img/woz.rs"], dict(only=["CRC32_TAB"])),
    ]
    for ns, rels, kw in core:
        try:
            table_mod(ns, rels, **kw)
        except Exception as ex:
            errors["core:" + ns] = repr(ex)
            owner[ns] = "core"
    # further generators live in their own files translator/gen_*.py, each exporting
    # generate(repo) -> {module_name: lean_source}, {module_name: digest}
    here = os.path.dirname(os.path.abspath(__file__))
    known = json.load(open(os.path.join(here, "modules.json"))) if os.path.exists(os.path.join(here, "modules.json")) else {}
    for f in sorted(os.listdir(here)):
        if f.startswith("gen_") and f.endswith(".py"):
            name = f[:-3]
            try:
                m = importlib.import_module(name)
                ms, ds = m.generate(repo)
                mods.update(ms); digests.update(ds)
                for k in ms:
                    owner[k] = name
            except Exception as ex:
                errors[name] = repr(ex)
                for k, v in known.items():
                    if v == name:
                        owner[k] = name
    for ns, content in mods.items():
        write_if_changed(os.path.join(outdir, ns + ".lean"), content)
    # module -> plug-in map of the last complete generation (committed; used when a plug-in fails)
    if not errors:
        write_if_changed(os.path.join(here, "modules.json"), json.dumps(owner, indent=1, sort_keys=True))
    return digests, owner, errors

if __name__ == "__main__":
    import sys
    d, o, e = generate(sys.argv[1] if len(sys.argv) > 1 else "/repo", sys.argv[2] if len(sys.argv) > 2 else "/verif/lean/A2Verif/Gen")
    print(d)
    print("errors:", e)
    sys.exit(1 if e else 0)
