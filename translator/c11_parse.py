"""Small Rust front end for gen_c11.py: tokenizer + a control-structure parser for function bodies.

It does not build a full expression tree.  An expression is parsed into the list of *items* that
matter for the control skeleton, in source (= evaluation) order: calls (with their argument
expressions), `?`, indexing, closures, macros, and the control constructs if / match / loops /
blocks / return / break / continue.  Anything it cannot parse raises ParseError.
"""
import re

class ParseError(Exception):
    pass

KEYWORDS = {"as", "break", "const", "continue", "crate", "else", "enum", "extern", "false", "fn", "for", "if",
            "impl", "in", "let", "loop", "match", "mod", "move", "mut", "pub", "ref", "return", "self", "Self",
            "static", "struct", "super", "trait", "true", "type", "unsafe", "use", "where", "while", "async",
            "await", "dyn"}
PUNCT3 = ["..=", "<<=", ">>=", "..."]
PUNCT2 = ["=>", "->", "::", "..", "==", "!=", "<=", ">=", "&&", "||", "+=", "-=", "*=", "/=", "%=", "^=", "&=",
          "|=", "<<", ">>"]

class Tok:
    __slots__ = ("k", "t", "line")
    def __init__(self, k, t, line):
        self.k, self.t, self.line = k, t, line
    def __repr__(self):
        return "%s:%r@%d" % (self.k, self.t, self.line)

def tokenize(src):
    toks = []
    i, n, line = 0, len(src), 1
    while i < n:
        c = src[i]
        if c == "\n":
            line += 1; i += 1; continue
        if c in " \t\r":
            i += 1; continue
        if src.startswith("//", i):
            j = src.find("\n", i)
            i = n if j < 0 else j
            continue
        if src.startswith("/*", i):
            depth, j = 1, i + 2
            while j < n and depth:
                if src.startswith("/*", j):
                    depth += 1; j += 2
                elif src.startswith("*/", j):
                    depth -= 1; j += 2
                else:
                    if src[j] == "\n":
                        line += 1
                    j += 1
            i = j
            continue
        m = re.match(r'b?r(#*)"', src[i:])
        if m:
            closing = '"' + m.group(1)
            j = src.find(closing, i + m.end())
            if j < 0:
                raise ParseError("unterminated raw string at line %d" % line)
            text = src[i:j + len(closing)]
            toks.append(Tok("str", text, line)); line += text.count("\n"); i = j + len(closing)
            continue
        if c == '"' or (c == "b" and i + 1 < n and src[i + 1] == '"'):
            j = i + (2 if c == "b" else 1)
            while j < n and src[j] != '"':
                if src[j] == "\\":
                    j += 1
                if j < n and src[j] == "\n":
                    line += 1
                j += 1
            if j >= n:
                raise ParseError("unterminated string at line %d" % line)
            toks.append(Tok("str", src[i:j + 1], line)); i = j + 1
            continue
        if c == "'" or (c == "b" and i + 1 < n and src[i + 1] == "'"):
            k = i + (1 if c == "b" else 0)
            m = re.match(r"'(\\x[0-9a-fA-F]{2}|\\u\{[0-9a-fA-F_]+\}|\\.|[^\\'\n])'", src[k:])
            if m:
                toks.append(Tok("chr", src[i:k + m.end()], line)); i = k + m.end()
                continue
            m = re.match(r"'[A-Za-z_][A-Za-z0-9_]*", src[k:])
            if m and c == "'":
                toks.append(Tok("life", m.group(0), line)); i = k + m.end()
                continue
            raise ParseError("bad quote at line %d" % line)
        m = re.match(r"[A-Za-z_][A-Za-z0-9_]*", src[i:])
        if m:
            toks.append(Tok("id", m.group(0), line)); i += m.end()
            continue
        m = re.match(r"[0-9][0-9a-zA-Z_]*(\.[0-9][0-9a-zA-Z_]*)?", src[i:])
        if m:
            toks.append(Tok("num", m.group(0), line)); i += m.end()
            continue
        for p in PUNCT3:
            if src.startswith(p, i):
                toks.append(Tok("p", p, line)); i += 3
                break
        else:
            for p in PUNCT2:
                if src.startswith(p, i):
                    toks.append(Tok("p", p, line)); i += 2
                    break
            else:
                toks.append(Tok("p", c, line)); i += 1
    return toks

OPEN = {"(": ")", "[": "]", "{": "}"}
CLOSE = {")", "]", "}"}

def match_close(toks, i):
    """index of the token closing the bracket at toks[i]"""
    depth = 0
    j = i
    while j < len(toks):
        t = toks[j]
        if t.k == "p":
            if t.t in OPEN:
                depth += 1
            elif t.t in CLOSE:
                depth -= 1
                if depth == 0:
                    return j
        j += 1
    raise ParseError("unbalanced bracket at line %d" % toks[i].line)

# ---------------------------------------------------------------------------------------------
# AST

class Expr:
    """items in evaluation order; [start,end) token span"""
    def __init__(self, items, start, end):
        self.items, self.start, self.end = items, start, end

class Call:
    def __init__(self, path, method, args, start, end, line):
        self.path, self.method, self.args = path, method, args
        self.start, self.end, self.line = start, end, line
        self.handled = None        # None | 'try' | 'panic'
class Try:
    def __init__(self, line): self.line = line
class Index:
    def __init__(self, inner, line): self.inner, self.line = inner, line
class Macro:
    def __init__(self, name, args, line): self.name, self.args, self.line = name, args, line
class Closure:
    def __init__(self, body, line): self.body, self.line = body, line
class Group:
    """parenthesised / tuple / array / struct-literal sub-expressions"""
    def __init__(self, parts): self.parts = parts
class If:
    def __init__(self, pat, cond, then, els, line):
        self.pat, self.cond, self.then, self.els, self.line = pat, cond, then, els, line   # pat: tokens of `let PAT =` or None
class Match:
    def __init__(self, scrut, arms, line): self.scrut, self.arms, self.line = scrut, arms, line  # arms: (pat_toks, guard, body)
class Loop:
    def __init__(self, kind, head, body, line): self.kind, self.head, self.body, self.line = kind, head, body, line
class BlockE:
    def __init__(self, block): self.block = block
class Return:
    def __init__(self, expr, line): self.expr, self.line = expr, line
class Break:
    def __init__(self, expr, line): self.expr, self.line = expr, line
class Continue:
    def __init__(self, line): self.line = line

class Let:
    def __init__(self, expr, els, line): self.expr, self.els, self.line = expr, els, line
class ExprStmt:
    def __init__(self, expr): self.expr = expr
class Block:
    def __init__(self, stmts, tail): self.stmts, self.tail = stmts, tail     # tail: Expr or None

class Fn:
    def __init__(self, name, ret_toks, body, line, is_test):
        self.name, self.ret_toks, self.body, self.line, self.is_test = name, ret_toks, body, line, is_test
    @property
    def is_result(self):
        return any(t.t in ("Result", "STDRESULT") for t in self.ret_toks)

BLOCKLIKE = (If, Match, Loop, BlockE)

class Parser:
    def __init__(self, toks, fname):
        self.toks, self.fname = toks, fname

    def err(self, i, msg):
        line = self.toks[i].line if i < len(self.toks) else -1
        raise ParseError("%s:%d: %s" % (self.fname, line, msg))

    def is_p(self, i, t):
        return i < len(self.toks) and self.toks[i].k == "p" and self.toks[i].t == t
    def is_id(self, i, t=None):
        return i < len(self.toks) and self.toks[i].k == "id" and (t is None or self.toks[i].t == t)

    # ---- functions ---------------------------------------------------------------------------
    def functions(self):
        """all `fn` items of the file (not nested inside other function bodies)"""
        out = {}
        toks = self.toks
        i = 0
        while i < len(toks):
            if self.is_id(i, "fn") and self.is_id(i + 1) and (self.is_p(i + 2, "(") or self.is_p(i + 2, "<")):
                name = toks[i + 1].t
                # attribute #[test] just before (skipping pub etc.)
                j = i - 1
                while j >= 0 and toks[j].k == "id" and toks[j].t in ("pub", "async", "unsafe", "const", "extern"):
                    j -= 1
                is_test = False
                if j >= 0 and self.is_p(j, "]"):
                    k = j
                    while k >= 0 and not self.is_p(k, "["):
                        k -= 1
                    is_test = any(t.t == "test" for t in toks[k:j])
                k = i + 2
                if self.is_p(k, "<"):
                    depth = 0
                    while True:
                        if self.is_p(k, "<"): depth += 1
                        elif self.is_p(k, ">"): depth -= 1
                        elif self.is_p(k, ">>"): depth -= 2
                        k += 1
                        if depth <= 0: break
                if not self.is_p(k, "("):
                    self.err(k, "fn %s: expected parameter list" % name)
                k = match_close(toks, k) + 1
                ret = []
                while k < len(toks) and not self.is_p(k, "{") and not self.is_p(k, ";"):
                    if toks[k].k == "p" and toks[k].t in ("(", "["):
                        kk = match_close(toks, k)
                        ret.extend(toks[k:kk + 1]); k = kk + 1
                        continue
                    ret.append(toks[k]); k += 1
                if self.is_p(k, ";"):
                    i = k + 1
                    continue
                end = match_close(toks, k)
                body, e = self.parse_block(k)
                if e != end + 1:
                    self.err(k, "fn %s: body parse ended early" % name)
                if name in out:
                    self.err(i, "duplicate fn %s" % name)
                out[name] = Fn(name, ret, body, toks[i].line, is_test)
                i = end + 1
            else:
                i += 1
        return out

    # ---- blocks / statements -----------------------------------------------------------------
    def skip_attr(self, i):
        while self.is_p(i, "#"):
            j = i + 1
            if self.is_p(j, "!"):
                j += 1
            if not self.is_p(j, "["):
                self.err(i, "stray #")
            i = match_close(self.toks, j) + 1
        return i

    def parse_block(self, i):
        if not self.is_p(i, "{"):
            self.err(i, "expected {")
        end = match_close(self.toks, i)
        i += 1
        stmts, tail = [], None
        while i < end:
            i = self.skip_attr(i)
            if i >= end:
                break
            t = self.toks[i]
            if self.is_p(i, ";"):
                i += 1
                continue
            if t.k == "id" and t.t == "let":
                st, i = self.parse_let(i, end)
                stmts.append(st)
                continue
            if t.k == "id" and t.t in ("use", "const", "static", "type") and not (t.t == "const" and self.is_p(i + 1, "{")):
                while not self.is_p(i, ";"):
                    if self.toks[i].k == "p" and self.toks[i].t in OPEN:
                        i = match_close(self.toks, i)
                    i += 1
                    if i >= end:
                        self.err(i, "unterminated item")
                i += 1
                continue
            if t.k == "id" and t.t in ("fn", "struct", "enum", "impl", "mod", "trait", "macro_rules", "pub", "extern"):
                self.err(i, "nested item `%s` inside a function body is not supported" % t.t)
            e, i = self.scan_expr(i, end, {";"}, stmt_like=True)
            if self.is_p(i, ";"):
                stmts.append(ExprStmt(e)); i += 1
            elif i >= end:
                tail = e
            elif len(e.items) == 1 and isinstance(e.items[0], BLOCKLIKE) and e.end == i:
                stmts.append(ExprStmt(e))
            else:
                self.err(i, "expected ; after expression statement")
        return Block(stmts, tail), end + 1

    def parse_let(self, i, end):
        line = self.toks[i].line
        i += 1
        depth = 0
        while i < end:
            t = self.toks[i]
            if t.k == "p":
                if t.t in OPEN: depth += 1
                elif t.t in CLOSE: depth -= 1
                elif depth == 0 and t.t in ("=", ";"):
                    break
            i += 1
        if self.is_p(i, ";"):
            return Let(None, None, line), i + 1
        if not self.is_p(i, "="):
            self.err(i, "let without = or ;")
        e, i = self.scan_expr(i + 1, end, {";"}, stop_else=True)
        els = None
        if self.is_id(i, "else"):
            els, i = self.parse_block(i + 1)
        if not self.is_p(i, ";"):
            self.err(i, "expected ; after let")
        return Let(e, els, line), i + 1

    # ---- expressions -------------------------------------------------------------------------
    def prev_is_operand(self, i, start):
        if i <= start:
            return False
        p = self.toks[i - 1]
        if p.k in ("num", "str", "chr"):
            return True
        if p.k == "id":
            return p.t not in KEYWORDS or p.t in ("self", "Self", "true", "false", "crate", "super")
        return p.k == "p" and p.t in (")", "]", "}", "?")

    def call_path(self, i, start):
        """toks[i] is `(`; previous token ends a path.  returns (path, is_method, path_start)"""
        j = i - 1
        path = []
        toks = self.toks
        # optional turbofish ::<...>
        if self.is_p(j, ">") or self.is_p(j, ">>"):
            depth = 0
            while j >= start:
                if self.is_p(j, ">"): depth += 1
                elif self.is_p(j, ">>"): depth += 2
                elif self.is_p(j, "<"):
                    depth -= 1
                    if depth == 0:
                        break
                j -= 1
            if j < start or not self.is_p(j - 1, "::"):
                return None
            j -= 2
        if not (j >= start and toks[j].k == "id"):
            return None
        while True:
            path.append(toks[j].t)
            if j - 2 >= start and self.is_p(j - 1, "::") and toks[j - 2].k == "id":
                j -= 2
            elif j - 2 >= start and self.is_p(j - 1, "::") and (self.is_p(j - 2, ">") or self.is_p(j - 2, ">>")):
                # Type::<T>::f or <T as Tr>::f : give up on the prefix
                path.append("?")
                break
            else:
                break
        path.reverse()
        method = j - 1 >= start and self.is_p(j - 1, ".")
        return path, method, j

    def scan_list(self, i, end, seps=(",",)):
        """comma separated expressions in [i,end)"""
        parts = []
        while i < end:
            e, i = self.scan_expr(i, end, set(seps))
            parts.append(e)
            if i < end:
                i += 1
        return parts

    def scan_expr(self, i, end, stops, no_struct=False, stmt_like=False, stop_else=False):
        """scan from i until a stop token at depth 0 (or `end`).  returns (Expr, index of the stop token)"""
        toks = self.toks
        start = i
        items = []
        last_call = None      # (Call, index after its closing paren)
        while i < end:
            t = toks[i]
            if t.k == "p":
                if t.t in stops:
                    break
                if t.t == "=>" or t.t in CLOSE:
                    self.err(i, "unexpected %s in expression" % t.t)
                if t.t == "#":
                    i = self.skip_attr(i)
                    continue
                if t.t == "?":
                    if last_call and last_call[1] == i and last_call[0].handled is None:
                        last_call[0].handled = "try"
                    else:
                        items.append(Try(t.line))
                    i += 1
                    continue
                if t.t == "(":
                    close = match_close(toks, i)
                    cp = self.call_path(i, start) if self.prev_is_operand(i, start) else None
                    if cp is not None:
                        path, method, pstart = cp
                        args = self.scan_list(i + 1, close)
                        c = Call(path, method, args, pstart, close + 1, t.line)
                        if method and path[-1] in ("unwrap", "expect", "unwrap_err", "expect_err") \
                                and last_call and last_call[0].handled is None and last_call[1] == pstart - 1:
                            last_call[0].handled = "panic"
                        items.append(c)
                        last_call = (c, close + 1)
                    elif self.prev_is_operand(i, start):
                        # call of a computed callee, e.g. (f)(x) or x()(y)
                        self.err(i, "call of a computed callee is not supported")
                    else:
                        items.append(Group(self.scan_list(i + 1, close)))
                    i = close + 1
                    continue
                if t.t == "[":
                    close = match_close(toks, i)
                    if self.prev_is_operand(i, start):
                        inner = self.scan_list(i + 1, close)
                        full = close == i + 2 and self.is_p(i + 1, "..")
                        items.append(Group(inner))
                        if not full:
                            items.append(Index(inner, t.line))
                    else:
                        items.append(Group(self.scan_list(i + 1, close, seps=(",", ";"))))
                    i = close + 1
                    continue
                if t.t == "{":
                    if no_struct:
                        break
                    close = match_close(toks, i)
                    prev = toks[i - 1] if i > start else None
                    if prev is not None and prev.k == "id" and prev.t not in KEYWORDS:
                        # struct literal: field: expr, ... , ..base
                        parts = []
                        j = i + 1
                        while j < close:
                            if toks[j].k == "id" and self.is_p(j + 1, ":"):
                                j += 2
                            e, j = self.scan_expr(j, close, {","})
                            parts.append(e)
                            if j < close:
                                j += 1
                        items.append(Group(parts))
                        i = close + 1
                        continue
                    b, i = self.parse_block(i)
                    items.append(BlockE(b))
                    if stmt_like and len(items) == 1 and not (self.is_p(i, ".") or self.is_p(i, "?")):
                        return Expr(items, start, i), i
                    continue
                if t.t in ("|", "||") and not self.prev_is_operand(i, start):
                    # closure
                    j = i + 1
                    if t.t == "|":
                        depth = 0
                        while j < end:
                            if toks[j].k == "p":
                                if toks[j].t in OPEN: depth += 1
                                elif toks[j].t in CLOSE: depth -= 1
                                elif toks[j].t == "|" and depth == 0:
                                    break
                            j += 1
                        j += 1
                    if self.is_p(j, "->"):
                        while j < end and not self.is_p(j, "{"):
                            j += 1
                    body, i = self.scan_expr(j, end, stops | {","}, no_struct=no_struct)
                    items.append(Closure(body, t.line))
                    continue
                i += 1
                continue
            if t.k == "life":
                if self.is_p(i + 1, ":"):
                    self.err(i, "labelled loops are not supported")
                i += 1
                continue
            if t.k != "id":
                i += 1
                continue
            w = t.t
            if w == "else" and stop_else:
                break
            if w == "if":
                it, i = self.parse_if(i, end)
                items.append(it)
                if stmt_like and len(items) == 1 and not (self.is_p(i, ".") or self.is_p(i, "?")):
                    return Expr(items, start, i), i
                continue
            if w == "match":
                scrut, j = self.scan_expr(i + 1, end, set(), no_struct=True)
                if not self.is_p(j, "{"):
                    self.err(j, "match without {")
                close = match_close(toks, j)
                arms = self.parse_arms(j + 1, close)
                items.append(Match(scrut, arms, t.line))
                i = close + 1
                if stmt_like and len(items) == 1 and not (self.is_p(i, ".") or self.is_p(i, "?")):
                    return Expr(items, start, i), i
                continue
            if w in ("for", "while", "loop"):
                head = None
                j = i + 1
                if w == "for":
                    depth = 0
                    while j < end and not (depth == 0 and self.is_id(j, "in")):
                        if toks[j].k == "p":
                            if toks[j].t in OPEN: depth += 1
                            elif toks[j].t in CLOSE: depth -= 1
                        j += 1
                    head, j = self.scan_expr(j + 1, end, set(), no_struct=True)
                elif w == "while":
                    if self.is_id(j, "let"):
                        j = self.skip_pattern_to_eq(j + 1, end)
                    head, j = self.scan_expr(j, end, set(), no_struct=True)
                body, i = self.parse_block(j)
                items.append(Loop(w, head, body, t.line))
                if stmt_like and len(items) == 1 and not (self.is_p(i, ".") or self.is_p(i, "?")):
                    return Expr(items, start, i), i
                continue
            if w == "unsafe" and self.is_p(i + 1, "{"):
                i += 1
                continue
            if w == "return":
                e, i = self.scan_expr(i + 1, end, stops, no_struct=no_struct)
                items.append(Return(e, t.line))
                break
            if w == "break":
                j = i + 1
                if j < end and toks[j].k == "life":
                    self.err(j, "labelled break is not supported")
                e, i = self.scan_expr(j, end, stops, no_struct=no_struct)
                items.append(Break(e, t.line))
                break
            if w == "continue":
                if i + 1 < end and toks[i + 1].k == "life":
                    self.err(i, "labelled continue is not supported")
                items.append(Continue(t.line))
                i += 1
                continue
            if w in ("await", "async"):
                self.err(i, "async code is not supported")
            if w == "let":
                self.err(i, "`let` in expression position (let chains) is not supported")
            # macro invocation  name!(...) / path::name![...]
            if self.is_p(i + 1, "!") and i + 2 < end and toks[i + 2].k == "p" and toks[i + 2].t in OPEN:
                close = match_close(toks, i + 2)
                name = w
                if name in ("matches", "assert_matches"):
                    args = []
                else:
                    try:
                        args = self.scan_list(i + 3, close, seps=(",", ";"))
                    except ParseError as ex:
                        self.err(i, "cannot parse arguments of macro %s!: %s" % (name, ex))
                items.append(Macro(name, args, t.line))
                i = close + 1
                continue
            i += 1
        return Expr(items, start, i), i

    def skip_pattern_to_eq(self, i, end):
        depth = 0
        while i < end:
            t = self.toks[i]
            if t.k == "p":
                if t.t in OPEN: depth += 1
                elif t.t in CLOSE: depth -= 1
                elif t.t == "=" and depth == 0:
                    return i + 1
            i += 1
        self.err(i, "pattern without =")

    def parse_if(self, i, end):
        line = self.toks[i].line
        j = i + 1
        pat = None
        if self.is_id(j, "let"):
            k = self.skip_pattern_to_eq(j + 1, end)
            pat = self.toks[j + 1:k - 1]
            j = k
        cond, j = self.scan_expr(j, end, set(), no_struct=True)
        then, j = self.parse_block(j)
        els = None
        if self.is_id(j, "else"):
            if self.is_id(j + 1, "if"):
                els, j = self.parse_if(j + 1, end)
            else:
                els, j = self.parse_block(j + 1)
        return If(pat, cond, then, els, line), j

    def parse_arms(self, i, end):
        arms = []
        toks = self.toks
        while i < end:
            i = self.skip_attr(i)
            if i >= end:
                break
            depth = 0
            j = i
            guard = None
            while j < end:
                t = toks[j]
                if t.k == "p":
                    if t.t in OPEN: depth += 1
                    elif t.t in CLOSE: depth -= 1
                    elif t.t == "=>" and depth == 0:
                        break
                if t.k == "id" and t.t == "if" and depth == 0:
                    break
                j += 1
            pat = toks[i:j]
            if self.is_id(j, "if"):
                guard, j = self.scan_expr(j + 1, end, {"=>"})
            if not self.is_p(j, "=>"):
                self.err(j, "match arm without =>")
            body, j = self.scan_expr(j + 1, end, {","}, stmt_like=True)
            arms.append((pat, guard, body))
            if self.is_p(j, ","):
                j += 1
            i = j
        return arms


def parse_file(path, relname):
    src = open(path).read()
    p = Parser(tokenize(src), relname)
    return p, p.functions()
