"""Translator for property C15: regenerates `A2Verif.Gen.Opcodes` from
`src/lang/merlin/handbook/opcodes.json` and the constant maps of `handbook/operations.rs`.

What is copied (data only):
  * every mnemonic of opcodes.json                  -> `inductive Mnem`
  * every addressing mode named in DASM_MAP         -> `inductive Mode`
  * every reduced (parser) mode of UNPARSING_MAP    -> `inductive Reduced`
  * per mnemonic the ordered mode list with opcode and processor availability (`opModes`)
  * M_STATUS / X_STATUS                             -> `mSens` / `xSens`
  * DASM_MAP (snippet as character codes), UNPARSING_MAP, PARSING_MAP
  * the 256 entry opcode -> (mnemonic, mode, processors) table that `create_dasm_map` builds.  The only
    rule of that function that is code, not data, is `use_proposed_op` (jml over jmp, jsl over jsr);
    the translator checks that every opcode shared by several mnemonics is decided by exactly that rule
    and refuses anything else (the HashMap iteration order would otherwise decide).
Anything unexpected raises TranslatorError.
"""
import json, os, re
from gen import TranslatorError, strip_rust_comments, digest

JSON_REL = "src/lang/merlin/handbook/opcodes.json"
OPS_REL = "src/lang/merlin/handbook/operations.rs"

PROCS = ["6502", "65c02", "65c816"]


def ident(s):
    """lean constructor name for a mnemonic / mode string"""
    t = s
    t = t.replace("(", "i_").replace(")", "").replace("[", "d_").replace("]", "").replace(",", "_")
    if not re.fullmatch(r"[a-z_0-9]+", t):
        raise TranslatorError("cannot name %r" % s)
    if t in ("and", "or", "do", "if", "then", "else", "at", "in", "end", "from", "s", "impl"):
        t = t + "_"
    return t


def parse_map(src, name):
    m = re.search(r"const\s+%s\s*:\s*\[\s*\(([^)]*)\)\s*;\s*(\d+)\s*\]\s*=\s*\[(.*?)\];" % name, src, re.S)
    if not m:
        raise TranslatorError("map %s not found in operations.rs" % name)
    n = int(m.group(2))
    pairs = re.findall(r'\(\s*"([^"]*)"\s*,\s*"([^"]*)"\s*\)', m.group(3))
    leftover = re.sub(r'\(\s*"[^"]*"\s*,\s*"[^"]*"\s*\)', "", m.group(3))
    if re.sub(r"[\s,]", "", leftover):
        raise TranslatorError("map %s: unparsed text %r" % (name, leftover.strip()[:60]))
    if len(pairs) != n:
        raise TranslatorError("map %s: %d pairs, declared %d" % (name, len(pairs), n))
    return pairs


def parse_strlist(src, name):
    m = re.search(r"const\s+%s\s*:\s*\[[^;\]]*;\s*(\d+)\s*\]\s*=\s*\[(.*?)\];" % name, src, re.S)
    if not m:
        raise TranslatorError("list %s not found" % name)
    items = re.findall(r'"([^"]*)"', m.group(2))
    if len(items) != int(m.group(1)):
        raise TranslatorError("list %s: length mismatch" % name)
    return items


def lean_list(xs):
    return "[" + ", ".join(xs) + "]"


def chars(s):
    return lean_list([str(ord(c)) for c in s])


def generate(repo):
    jpath = os.path.join(repo, JSON_REL)
    opath = os.path.join(repo, OPS_REL)
    book = json.load(open(jpath))
    src = strip_rust_comments(open(opath).read())
    dasm_map = parse_map(src, "DASM_MAP")
    unparsing = parse_map(src, "UNPARSING_MAP")
    parsing = parse_map(src, "PARSING_MAP")
    m_status = parse_strlist(src, "M_STATUS")
    x_status = parse_strlist(src, "X_STATUS")
    # the processor conflation of update_json_proc must still be what we assume
    if not re.search(r'Some\("65c816"\)\s*=>\s*\{\s*ans\.push\(ProcessorType::_65802\);[^}]*ans\.push\(ProcessorType::_65c816\)', src):
        raise TranslatorError("update_json_proc no longer maps 65c816 to {65802, 65c816}")
    if not re.search(r'prior\.mnemonic=="jmp"\s*&&\s*proposed\.mnemonic=="jml"', src) or \
       not re.search(r'prior\.mnemonic=="jsr"\s*&&\s*proposed\.mnemonic=="jsl"', src):
        raise TranslatorError("use_proposed_op is not the jml/jsl rule any more")

    modes = [k for k, _ in dasm_map]
    if len(set(modes)) != len(modes):
        raise TranslatorError("duplicate key in DASM_MAP")
    if set(k for k, _ in unparsing) != set(modes):
        raise TranslatorError("UNPARSING_MAP and DASM_MAP keys differ")
    reduced = []
    for _, r in unparsing:
        if r not in reduced:
            reduced.append(r)
    mnems = sorted(book.keys())
    for mn in mnems:
        if not re.fullmatch(r"[a-z]{3}", mn):
            raise TranslatorError("mnemonic %r is not three lower case letters" % mn)
    mode_id = {m: "Mode." + ident(m) for m in modes}
    red_id = {r: "Reduced." + ident(r) for r in reduced}
    mn_id = {m: "Mnem." + ident(m) for m in mnems}

    def procs_of(lst):
        for p in lst:
            if p not in PROCS:
                raise TranslatorError("unknown processor %r" % p)
        return tuple(p in lst for p in PROCS)

    # per mnemonic mode lists (JSON order), and the opcode table
    op_modes = {}
    by_code = {}
    for mn in mnems:
        info = book[mn]
        if not isinstance(info.get("modes"), list) or not info["modes"]:
            raise TranslatorError("mnemonic %s has no modes" % mn)
        lst = []
        for md in info["modes"]:
            am, code = md["addr_mnemonic"], md["code"]
            if am not in mode_id:
                raise TranslatorError("mode %r of %s not in DASM_MAP" % (am, mn))
            if not (isinstance(code, int) and 0 <= code < 256):
                raise TranslatorError("bad opcode %r" % (code,))
            pr = procs_of(md["processors"])
            lst.append((am, code, pr))
            by_code.setdefault(code, []).append((mn, am, pr))
        op_modes[mn] = lst
        for a in info.get("alt", []):
            if not re.fullmatch(r"[a-z]{3}", a) or a in book:
                raise TranslatorError("alternate %r of %s clashes" % (a, mn))
    table = []
    for code in range(256):
        cands = by_code.get(code, [])
        if not cands:
            table.append(None)
            continue
        if len(cands) == 1:
            table.append(cands[0])
            continue
        names = sorted(c[0] for c in cands)
        if names == ["jml", "jmp"]:
            table.append([c for c in cands if c[0] == "jml"][0])
        elif names == ["jsl", "jsr"]:
            table.append([c for c in cands if c[0] == "jsl"][0])
        else:
            raise TranslatorError("opcode %02X is shared by %s: create_dasm_map would depend on HashMap order" % (code, names))

    L = []
    L.append("/-! GENERATED by /verif/translator/gen_c15.py from %s, %s -- do not edit; regenerated on every run -/" % (JSON_REL, OPS_REL))
    L.append("namespace A2Verif.Gen.Opcodes")
    L.append("")
    L.append("inductive Mnem where")
    for m in mnems:
        L.append("  | %s" % ident(m))
    L.append("  deriving DecidableEq, Repr, Inhabited")
    L.append("")
    L.append("inductive Mode where")
    for m in modes:
        L.append("  | %s" % ident(m))
    L.append("  deriving DecidableEq, Repr, Inhabited")
    L.append("")
    L.append("inductive Reduced where")
    for r in reduced:
        L.append("  | %s" % ident(r))
    L.append("  deriving DecidableEq, Repr, Inhabited")
    L.append("")
    L.append("/-- one addressing mode of a mnemonic: mode, opcode, availability on 6502 / 65c02 / 65c816 (= 65802) -/")
    L.append("structure ModeRow where")
    L.append("  mode : Mode")
    L.append("  code : Nat")
    L.append("  p6502 : Bool")
    L.append("  p65c02 : Bool")
    L.append("  p65816 : Bool")
    L.append("  deriving DecidableEq, Repr, Inhabited")
    L.append("")
    L.append("/-- row of the opcode table built by `create_dasm_map` -/")
    L.append("structure Row where")
    L.append("  mnem : Mnem")
    L.append("  mode : Mode")
    L.append("  p6502 : Bool")
    L.append("  p65c02 : Bool")
    L.append("  p65816 : Bool")
    L.append("  deriving DecidableEq, Repr, Inhabited")
    L.append("")
    b = lambda x: "true" if x else "false"
    L.append("def allMnems : List Mnem := " + lean_list([mn_id[m] for m in mnems]))
    L.append("")
    L.append("/-- mode list of each mnemonic in the order of opcodes.json -/")
    L.append("def opModes : Mnem → List ModeRow")
    for m in mnems:
        rows = ["⟨%s, %d, %s, %s, %s⟩" % (mode_id[am], code, b(pr[0]), b(pr[1]), b(pr[2])) for am, code, pr in op_modes[m]]
        L.append("  | .%s => %s" % (ident(m), lean_list(rows)))
    L.append("")
    L.append("/-- upper case spelling -/")
    L.append("def mnemName : Mnem → List Nat")
    for m in mnems:
        L.append("  | .%s => %s" % (ident(m), chars(m.upper())))
    L.append("")
    for nm, lst in (("mSens", m_status), ("xSens", x_status)):
        for x in lst:
            if x not in book:
                raise TranslatorError("%s entry %r is not a mnemonic" % (nm, x))
        L.append("def %s : Mnem → Bool" % nm)
        for x in lst:
            L.append("  | .%s => true" % ident(x))
        L.append("  | _ => false")
        L.append("")
    L.append("/-- DASM_MAP: operand snippet (character codes) of a mode -/")
    L.append("def snippet : Mode → List Nat")
    for k, v in dasm_map:
        L.append("  | .%s => %s" % (ident(k), chars(v)))
    L.append("")
    L.append("/-- UNPARSING_MAP -/")
    L.append("def Mode.reduced : Mode → Reduced")
    for k, v in unparsing:
        L.append("  | .%s => %s" % (ident(k), red_id[v]))
    L.append("")
    rows = []
    for k, v in parsing:
        mm = re.fullmatch(r"([a-z_]+) (\d+)", k)
        if not mm or mm.group(1) not in red_id:
            raise TranslatorError("PARSING_MAP key %r" % k)
        if v == "":
            tgt = "none"
        elif v in mode_id:
            tgt = "some %s" % mode_id[v]
        else:
            raise TranslatorError("PARSING_MAP target %r" % v)
        rows.append("(%s, %s, %s)" % (red_id[mm.group(1)], mm.group(2), tgt))
    L.append("/-- PARSING_MAP: (reduced mode, byte count) ↦ machine mode (`none` = the empty string target) -/")
    L.append("def parsingMap : List (Reduced × Nat × Option Mode) := " + lean_list(rows))
    L.append("")
    L.append("/-- opcode ↦ row, as `create_dasm_map` builds it; `none` = no instruction has this opcode -/")
    L.append("def opTable : List (Option Row) := [")
    out = []
    for code in range(256):
        t = table[code]
        if t is None:
            out.append("  none")
        else:
            mn, am, pr = t
            out.append("  some ⟨%s, %s, %s, %s, %s⟩" % (mn_id[mn], mode_id[am], b(pr[0]), b(pr[1]), b(pr[2])))
    L.append(",\n".join(out))
    L.append("]")
    L.append("")
    d = digest([jpath, opath])
    L.append('def sourceDigest : String := "%s"' % d)
    L.append("")
    L.append("end A2Verif.Gen.Opcodes")
    L.append("")
    return {"Opcodes": "\n".join(L)}, {"Opcodes": d}


if __name__ == "__main__":
    import sys
    mods, ds = generate(sys.argv[1] if len(sys.argv) > 1 else "/repo")
    print(ds)
    print(mods["Opcodes"][:3000])
