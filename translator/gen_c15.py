"""Translator for property C15: regenerates `A2Verif.Gen.Opcodes` from
`src/lang/merlin/handbook/opcodes.json` and the constant maps of `handbook/operations.rs`.

What is copied (data only):
  * every mnemonic of opcodes.json                  -> `inductive Mnem`
  * every addressing mode named in DASM_MAP         -> `inductive Mode`
  * every reduced (parser) mode of UNPARSING_MAP    -> `inductive Reduced`
  * per mnemonic the ordered mode list with opcode and processor availability (`opModes`)
  * M_STATUS / X_STATUS                             -> `mSens` / `xSens`
  * DASM_MAP (snippet as character codes), UNPARSING_MAP, PARSING_MAP
  * the 256 entry opcode -> (mnemonic, mode, processors) table that `create_dasm_map` builds.  The only
    rule of that function that is code, not data, is `use_proposed_op` (jml over jmp, jsl over jsr);
    the translator checks that every opcode shared by several mnemonics is decided by exactly that rule
    and refuses anything else (the HashMap iteration order would otherwise decide).
Anything unexpected raises TranslatorError.
"""
import json, os, re
from gen import TranslatorError, strip_rust_comments, digest

JSON_REL = "src/lang/merlin/handbook/opcodes.json"
OPS_REL = "src/lang/merlin/handbook/operations.rs"

PROCS = ["6502", "65c02", "65c816"]


def ident(s):
    """lean constructor name for a mnemonic / mode string"""
    t = s
    t = t.replace("(", "i_").replace(")", "").replace("[", "d_").replace("]", "").replace(",", "_")
    if not re.fullmatch(r"[a-z_0-9]+", t):
        raise TranslatorError("cannot name %r" % s)
    if t in ("and", "or", "do", "if", "then", "else", "at", "in", "end", "from", "s", "impl"):
        t = t + "_"
    return t


def parse_map(src, name):
    m = re.search(r"const\s+%s\s*:\s*\[\s*\(([^)]*)\)\s*;\s*(\d+)\s*\]\s*=\s*\[(.*?)\];" % name, src, re.S)
    if not m:
        raise TranslatorError("map %s not found in operations.rs" % name)
    n = int(m.group(2))
    pairs = re.findall(r'\(\s*"([^"]*)"\s*,\s*"([^"]*)"\s*\)', m.group(3))
    leftover = re.sub(r'\(\s*"[^"]*"\s*,\s*"[^"]*"\s*\)', "", m.group(3))
    if re.sub(r"[\s,]", "", leftover):
        raise TranslatorError("map %s: unparsed text %r" % (name, leftover.strip()[:60]))
    if len(pairs) != n:
        raise TranslatorError("map %s: %d pairs, declared %d" % (name, len(pairs), n))
    return pairs


def parse_strlist(src, name):
    m = re.search(r"const\s+%s\s*:\s*\[[^;\]]*;\s*(\d+)\s*\]\s*=\s*\[(.*?)\];" % name, src, re.S)
    if not m:
        raise TranslatorError("list %s not found" % name)
    items = re.findall(r'"([^"]*)"', m.group(2))
    if len(items) != int(m.group(1)):
        raise TranslatorError("list %s: length mismatch" % name)
    return items


def lean_list(xs):
    return "[" + ", ".join(xs) + "]"


def chars(s):
    return lean_list([str(ord(c)) for c in s])


DASM_REL = "src/lang/merlin/disassembly.rs"


def squeeze(s):
    return re.sub(r"\s+", "", s)


def fn_body(src, name):
    """text of `fn name(...) {...}` (brace matched)"""
    m = re.search(r"\bfn\s+%s\s*\(" % name, src)
    if not m:
        raise TranslatorError("fn %s not found in disassembly.rs" % name)
    i = src.index("{", m.end())
    depth, j = 0, i
    while j < len(src):
        if src[j] == "{":
            depth += 1
        elif src[j] == "}":
            depth -= 1
            if depth == 0:
                return src[i:j + 1]
        j += 1
    raise TranslatorError("fn %s: unbalanced braces" % name)


def gen_labels(repo):
    """`A2Verif.Gen.DasmLabels`: the label rules of `Disassembler::format_lines` / `push_instruction`
    that the label theorems of C15 are about.  Everything is checked syntactically against the one
    shape the model transcribes; the only construct with more than one recognised shape is the
    look-up key of the operand substitution guard (`exact` = the full operand value, `masked` = the
    value reduced to the width of the label text)."""
    path = os.path.join(repo, DASM_REL)
    src = strip_rust_comments(open(path).read())
    fl = squeeze(fn_body(src, "format_lines"))
    pi = squeeze(fn_body(src, "push_instruction"))
    # width of label texts
    if "letpc_bytes=matchself.dasm_lines.iter().map(|x|x.address>0xffff).collect::<Vec<bool>>().contains(&true){true=>3,false=>2};" not in fl:
        raise TranslatorError("format_lines: pc_bytes rule not recognised")
    # which lines are labelled
    if fl.count("labels.insert(") != 2 or fl.count("labels.insert(self.dasm_lines[i].address);") != 2:
        raise TranslatorError("format_lines: labels are no longer exactly the line addresses")
    if 'iflabeling.contains("all"){labels.insert(self.dasm_lines[i].address);}elseiflabeling.contains("some")&&(i==0||references.contains(&self.dasm_lines[i].address)){labels.insert(self.dasm_lines[i].address);}' not in fl:
        raise TranslatorError("format_lines: labeling rule (all / some) not recognised")
    if "forlinein&self.dasm_lines{forrin&line.references{references.insert(*r);}}" not in fl:
        raise TranslatorError("format_lines: reference gathering not recognised")
    # text of a line label and of a substituted operand
    if 'line+="_";line+=&hex_from_val("",self.dasm_lines[i].addressasu32,pc_bytes);' not in fl:
        raise TranslatorError("format_lines: line label text not recognised")
    if 'letlab_txt=["_",&hex_from_val("",operand.num[0]asu32,pc_bytes)].concat();line+=&addr_pattern.replace(&operand.txt,&lab_txt);' not in fl:
        raise TranslatorError("format_lines: operand label text not recognised")
    # the substitution guard
    m = re.search(r'ifoperand\.num\.len\(\)==1&&labels\.contains\(&\((.*?)\)\)&&!operand\.txt\.starts_with\("#"\)\{', fl)
    if not m:
        raise TranslatorError("format_lines: label substitution guard not recognised")
    key = m.group(1)
    if key == "operand.num[0]asusize":
        kind = "exact"
    else:
        mm = re.fullmatch(r"operand\.num\[0\]asusize&([a-z_]+)", key)
        if mm and ("let%s=(1usize<<(8*pc_bytes))-1;" % mm.group(1)) in fl:
            kind = "masked"
        else:
            raise TranslatorError("format_lines: label look-up key %r not recognised" % key)
    # which operands are references
    if 'if!op.operand_snippet.starts_with("#"){new_line.references.push(val);}' not in pi:
        raise TranslatorError("push_instruction: reference rule not recognised")
    # ---- what bounds the reads of the disassembly loop: the requested range, never the image
    tdr = squeeze(fn_body(src, "try_data_run"))
    isi = squeeze(fn_body(src, "is_instruction"))
    dis = squeeze(fn_body(src, "disassemble"))
    if "while(ptr0==ptr||ptr<end)&&ptr0<end&&(pos_str.1||neg_str.1||uniform.1||pat2.1||pat4.1){letc=img[ptr];" not in tdr:
        raise TranslatorError("try_data_run: scan loop bound not recognised")
    if tdr.count("img[") != 9 or tdr.count("img.get(") + tdr.count("img.iter(") + tdr.count("img.len(") > 2:
        # img[ptr], img[ptr-1], img[ptr-2], img[ptr-4], img[ptr0] (DS), 2 x look-ahead, 2 x string slice
        if not (tdr.count("img[") == 7 and tdr.count("img.get(") == 2):
            raise TranslatorError("try_data_run: unexpected reads of the image (%d index, %d get)" % (tdr.count("img["), tdr.count("img.get(")))
    kinds = []
    for cnt in ("pos_str.0", "neg_str.0"):
        e = re.escape(cnt)
        if re.search(r"letlookahead:Option<u8>=matchptr0\+%s<end\{true=>Some\(img\[ptr0\+%s\]\),false=>None\};" % (e, e), tdr):
            kinds.append("rangeEnd")
        elif re.search(r"letlookahead:Option<u8>=img\.get\(ptr0\+%s\)\.copied\(\);" % e, tdr):
            kinds.append("imageEnd")
        else:
            raise TranslatorError("try_data_run: look-ahead of the %s string not recognised" % cnt)
    if kinds[0] != kinds[1]:
        raise TranslatorError("try_data_run: the two string look-aheads are bounded differently (%s / %s)" % tuple(kinds))
    if "ifaddr+1+2<=end{" not in isi or "ifaddr+1+operand_bytes<=end{" not in isi:
        raise TranslatorError("is_instruction: operand bound not recognised")
    if "whileaddr<addr_range[1]{ifletSome((op,operand_bytes))=self.is_instruction(img[addr],addr,addr_range[1],&proc){" not in dis \
       or "letdata_bytes=self.try_data_run(img,addr,addr_range[1]);" not in dis:
        raise TranslatorError("disassemble: loop bounds not recognised")
    if "DasmRange::All=>[0,img.len()]" not in dis or "DasmRange::Range([beg,end])=>[beg,end]" not in dis:
        raise TranslatorError("disassemble: range selection not recognised")
    d = digest([path])
    L = []
    L.append("/-! GENERATED by /verif/translator/gen_c15.py from %s -- do not edit; regenerated on every run.\n"
             "The label rules of `format_lines` were found in the shape the model `Model/DasmLabel.lean` transcribes\n"
             "(label width, which lines are labelled, label texts, references); `labelKey` is the value that the\n"
             "operand substitution guard looks up in the label set. -/" % DASM_REL)
    L.append("namespace A2Verif.Gen.DasmLabels")
    L.append("")
    L.append("/-- `exact`: `labels.contains(&(operand.num[0] as usize))`; `masked`: the value is first reduced to the\n"
             "`pc_bytes` bytes of the label text -/")
    L.append("inductive LabelKey where")
    L.append("  | exact | masked")
    L.append("  deriving DecidableEq, Repr, Inhabited")
    L.append("")
    L.append("/-- the guard found in the current source: `%s` -/" % key)
    L.append("def labelKey : LabelKey := .%s" % kind)
    L.append("")
    L.append("/-- what bounds the string look-ahead of `try_data_run` (the byte after an ASC/DCI run): `rangeEnd` =\n"
             "`ptr0 + n < end`, `imageEnd` = `img.get(ptr0 + n)` (reads beyond the requested range) -/")
    L.append("inductive LookBound where")
    L.append("  | rangeEnd | imageEnd")
    L.append("  deriving DecidableEq, Repr, Inhabited")
    L.append("")
    L.append("/-- found in the current source (scan loop, operand fit and main loop are bounded by the range end) -/")
    L.append("def lookBound : LookBound := .%s" % kinds[0])
    L.append("")
    L.append('def sourceDigest : String := "%s"' % d)
    L.append("")
    L.append("end A2Verif.Gen.DasmLabels")
    L.append("")
    return "\n".join(L), d


def generate(repo):
    jpath = os.path.join(repo, JSON_REL)
    opath = os.path.join(repo, OPS_REL)
    book = json.load(open(jpath))
    src = strip_rust_comments(open(opath).read())
    dasm_map = parse_map(src, "DASM_MAP")
    unparsing = parse_map(src, "UNPARSING_MAP")
    parsing = parse_map(src, "PARSING_MAP")
    m_status = parse_strlist(src, "M_STATUS")
    x_status = parse_strlist(src, "X_STATUS")
    # the processor conflation of update_json_proc must still be what we assume
    if not re.search(r'Some\("65c816"\)\s*=>\s*\{\s*ans\.push\(ProcessorType::_65802\);[^}]*ans\.push\(ProcessorType::_65c816\)', src):
        raise TranslatorError("update_json_proc no longer maps 65c816 to {65802, 65c816}")
    if not re.search(r'prior\.mnemonic=="jmp"\s*&&\s*proposed\.mnemonic=="jml"', src) or \
       not re.search(r'prior\.mnemonic=="jsr"\s*&&\s*proposed\.mnemonic=="jsl"', src):
        raise TranslatorError("use_proposed_op is not the jml/jsl rule any more")

    modes = [k for k, _ in dasm_map]
    if len(set(modes)) != len(modes):
        raise TranslatorError("duplicate key in DASM_MAP")
    if set(k for k, _ in unparsing) != set(modes):
        raise TranslatorError("UNPARSING_MAP and DASM_MAP keys differ")
    reduced = []
    for _, r in unparsing:
        if r not in reduced:
            reduced.append(r)
    mnems = sorted(book.keys())
    for mn in mnems:
        if not re.fullmatch(r"[a-z]{3}", mn):
            raise TranslatorError("mnemonic %r is not three lower case letters" % mn)
    mode_id = {m: "Mode." + ident(m) for m in modes}
    red_id = {r: "Reduced." + ident(r) for r in reduced}
    mn_id = {m: "Mnem." + ident(m) for m in mnems}

    def procs_of(lst):
        for p in lst:
            if p not in PROCS:
                raise TranslatorError("unknown processor %r" % p)
        return tuple(p in lst for p in PROCS)

    # per mnemonic mode lists (JSON order), and the opcode table
    op_modes = {}
    by_code = {}
    for mn in mnems:
        info = book[mn]
        if not isinstance(info.get("modes"), list) or not info["modes"]:
            raise TranslatorError("mnemonic %s has no modes" % mn)
        lst = []
        for md in info["modes"]:
            am, code = md["addr_mnemonic"], md["code"]
            if am not in mode_id:
                raise TranslatorError("mode %r of %s not in DASM_MAP" % (am, mn))
            if not (isinstance(code, int) and 0 <= code < 256):
                raise TranslatorError("bad opcode %r" % (code,))
            pr = procs_of(md["processors"])
            lst.append((am, code, pr))
            by_code.setdefault(code, []).append((mn, am, pr))
        op_modes[mn] = lst
        for a in info.get("alt", []):
            if not re.fullmatch(r"[a-z]{3}", a) or a in book:
                raise TranslatorError("alternate %r of %s clashes" % (a, mn))
    table = []
    for code in range(256):
        cands = by_code.get(code, [])
        if not cands:
            table.append(None)
            continue
        if len(cands) == 1:
            table.append(cands[0])
            continue
        names = sorted(c[0] for c in cands)
        if names == ["jml", "jmp"]:
            table.append([c for c in cands if c[0] == "jml"][0])
        elif names == ["jsl", "jsr"]:
            table.append([c for c in cands if c[0] == "jsl"][0])
        else:
            raise TranslatorError("opcode %02X is shared by %s: create_dasm_map would depend on HashMap order" % (code, names))

    L = []
    L.append("/-! GENERATED by /verif/translator/gen_c15.py from %s, %s -- do not edit; regenerated on every run -/" % (JSON_REL, OPS_REL))
    L.append("namespace A2Verif.Gen.Opcodes")
    L.append("")
    L.append("inductive Mnem where")
    for m in mnems:
        L.append("  | %s" % ident(m))
    L.append("  deriving DecidableEq, Repr, Inhabited")
    L.append("")
    L.append("inductive Mode where")
    for m in modes:
        L.append("  | %s" % ident(m))
    L.append("  deriving DecidableEq, Repr, Inhabited")
    L.append("")
    L.append("inductive Reduced where")
    for r in reduced:
        L.append("  | %s" % ident(r))
    L.append("  deriving DecidableEq, Repr, Inhabited")
    L.append("")
    L.append("/-- one addressing mode of a mnemonic: mode, opcode, availability on 6502 / 65c02 / 65c816 (= 65802) -/")
    L.append("structure ModeRow where")
    L.append("  mode : Mode")
    L.append("  code : Nat")
    L.append("  p6502 : Bool")
    L.append("  p65c02 : Bool")
    L.append("  p65816 : Bool")
    L.append("  deriving DecidableEq, Repr, Inhabited")
    L.append("")
    L.append("/-- row of the opcode table built by `create_dasm_map` -/")
    L.append("structure Row where")
    L.append("  mnem : Mnem")
    L.append("  mode : Mode")
    L.append("  p6502 : Bool")
    L.append("  p65c02 : Bool")
    L.append("  p65816 : Bool")
    L.append("  deriving DecidableEq, Repr, Inhabited")
    L.append("")
    b = lambda x: "true" if x else "false"
    L.append("def allMnems : List Mnem := " + lean_list([mn_id[m] for m in mnems]))
    L.append("")
    L.append("/-- mode list of each mnemonic in the order of opcodes.json -/")
    L.append("def opModes : Mnem → List ModeRow")
    for m in mnems:
        rows = ["⟨%s, %d, %s, %s, %s⟩" % (mode_id[am], code, b(pr[0]), b(pr[1]), b(pr[2])) for am, code, pr in op_modes[m]]
        L.append("  | .%s => %s" % (ident(m), lean_list(rows)))
    L.append("")
    L.append("/-- upper case spelling -/")
    L.append("def mnemName : Mnem → List Nat")
    for m in mnems:
        L.append("  | .%s => %s" % (ident(m), chars(m.upper())))
    L.append("")
    for nm, lst in (("mSens", m_status), ("xSens", x_status)):
        for x in lst:
            if x not in book:
                raise TranslatorError("%s entry %r is not a mnemonic" % (nm, x))
        L.append("def %s : Mnem → Bool" % nm)
        for x in lst:
            L.append("  | .%s => true" % ident(x))
        L.append("  | _ => false")
        L.append("")
    L.append("/-- DASM_MAP: operand snippet (character codes) of a mode -/")
    L.append("def snippet : Mode → List Nat")
    for k, v in dasm_map:
        L.append("  | .%s => %s" % (ident(k), chars(v)))
    L.append("")
    L.append("/-- UNPARSING_MAP -/")
    L.append("def Mode.reduced : Mode → Reduced")
    for k, v in unparsing:
        L.append("  | .%s => %s" % (ident(k), red_id[v]))
    L.append("")
    rows = []
    for k, v in parsing:
        mm = re.fullmatch(r"([a-z_]+) (\d+)", k)
        if not mm or mm.group(1) not in red_id:
            raise TranslatorError("PARSING_MAP key %r" % k)
        if v == "":
            tgt = "none"
        elif v in mode_id:
            tgt = "some %s" % mode_id[v]
        else:
            raise TranslatorError("PARSING_MAP target %r" % v)
        rows.append("(%s, %s, %s)" % (red_id[mm.group(1)], mm.group(2), tgt))
    L.append("/-- PARSING_MAP: (reduced mode, byte count) ↦ machine mode (`none` = the empty string target) -/")
    L.append("def parsingMap : List (Reduced × Nat × Option Mode) := " + lean_list(rows))
    L.append("")
    L.append("/-- opcode ↦ row, as `create_dasm_map` builds it; `none` = no instruction has this opcode -/")
    L.append("def opTable : List (Option Row) := [")
    out = []
    for code in range(256):
        t = table[code]
        if t is None:
            out.append("  none")
        else:
            mn, am, pr = t
            out.append("  some ⟨%s, %s, %s, %s, %s⟩" % (mn_id[mn], mode_id[am], b(pr[0]), b(pr[1]), b(pr[2])))
    L.append(",\n".join(out))
    L.append("]")
    L.append("")
    d = digest([jpath, opath])
    L.append('def sourceDigest : String := "%s"' % d)
    L.append("")
    L.append("end A2Verif.Gen.Opcodes")
    L.append("")
    lab_src, lab_digest = gen_labels(repo)
    return {"Opcodes": "\n".join(L), "DasmLabels": lab_src}, {"Opcodes": d, "DasmLabels": lab_digest}


if __name__ == "__main__":
    import sys
    mods, ds = generate(sys.argv[1] if len(sys.argv) > 1 else "/repo")
    print(ds)
    print(mods["Opcodes"][:3000])
