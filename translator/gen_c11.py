"""C11 translator: control skeletons of the a2kit subcommand handlers -> A2Verif.Gen.CmdSkel.

Reads the CURRENT src/main.rs, src/commands/*.rs, src/lib.rs (and cli.rs, the DiskFS/DiskImage trait
declarations, plus a census of every file-writing API call under src/), lowers every subcommand
handler to a `Skel` (see lean/A2Verif/Model/CmdSkel.lean) and renders it as Lean data.
Calls of other functions of main.rs / commands/*.rs / lib.rs are inlined as `call f onOk onErr`.
Everything that cannot be classified raises TranslatorError (bin/check: broken obligation).
"""
import os, re, glob as _glob, hashlib
from c11_parse import (ParseError, Parser, tokenize, parse_file, Expr, Call, Try, Index, Macro, Closure, Group, If,
                       Match, Loop, BlockE, Return, Break, Continue, Let, ExprStmt, Block, match_close)
try:
    from gen import TranslatorError
except Exception:  # pragma: no cover
    class TranslatorError(Exception):
        pass

CAT_OTHER, CAT_LOAD, CAT_MUTATE, CAT_READ, CAT_SAVE = 0, 1, 2, 3, 4

LOADERS = {"create_fs_from_file", "create_fs_from_file_or_stdin", "create_img_from_file", "create_img_from_file_or_stdin",
           "create_fs_from_stdin", "create_img_from_stdin", "create_fs_from_bytestream", "create_img_from_bytestream"}

# classification of the trait methods (src/fs/mod.rs `trait DiskFS`, src/img/mod.rs `trait DiskImage`).
# A trait method that is in neither set makes the translator raise: it has to be classified by hand.
FS_MUTATORS = {"create", "delete", "rename", "protect", "unprotect", "lock", "unlock", "retype", "put", "write_block",
               "put_at", "bsave", "save", "write_text", "write_records", "standardize"}
FS_READERS = {"new_fimg", "stat", "catalog_to_stdout", "catalog_to_vec", "glob", "tree", "get", "read_block", "compare",
              "get_img", "bload", "load", "read_text", "read_records"}
IMG_MUTATORS = {"change_kind", "write_block", "write_sector", "set_track_buf", "put_metadata"}
IMG_READERS = {"track_count", "num_heads", "track_2_ch", "ch_2_track", "byte_capacity", "what_am_i", "file_extensions",
               "kind", "from_bytes", "to_bytes", "read_block", "read_sector", "get_track_buf", "get_track_solution",
               "get_track_nibbles", "display_track", "get_metadata", "export_geometry"}
# inherent methods of the concrete fs::*::Disk types used by mkdsk
EXTRA_MUTATORS = {"format", "init32", "init33"}
MUTATORS = FS_MUTATORS | IMG_MUTATORS | EXTRA_MUTATORS
READERS = (FS_READERS | IMG_READERS) - MUTATORS

PANIC_METHODS = {"unwrap", "expect", "unwrap_err", "expect_err"}
PANIC_MACROS = {"panic", "unreachable", "unimplemented", "todo", "assert", "assert_eq", "assert_ne"}

# file-writing APIs of std (the census looks for these textually in every file under src/)
WRITER_RE = re.compile(r"\bfs\s*::\s*(write|remove_file|rename|copy|create_dir|create_dir_all|remove_dir|remove_dir_all|hard_link|set_permissions)\b"
                       r"|\bFile\s*::\s*(create|create_new|options)\b|\bOpenOptions\b|\bset_len\b|\bsymlink\b")
SAVE_SUFFIXES = [("fs", "write"), ("File", "create"), ("File", "create_new"), ("fs", "remove_file"), ("fs", "rename"),
                 ("fs", "copy"), ("fs", "create_dir"), ("fs", "create_dir_all"), ("fs", "remove_dir"),
                 ("fs", "remove_dir_all"), ("fs", "hard_link")]
# (file, enclosing fn) of writer-API uses that no CLI handler can reach
CENSUS_ALLOW = {("src/lang/server.rs", None)}

# ---------------------------------------------------------------------------------------------
# skeleton terms (python tuples), mirrors A2Verif.CmdSkel.Skel

SKIP = ("skip",)
def seq(*xs):
    out = None
    for x in reversed([x for x in xs if x != SKIP]):
        out = x if out is None else ("seq", x, out)
    return out if out is not None else SKIP
def alt(a, b):
    if a == SKIP and b == SKIP:
        return SKIP
    return ("alt", a, b)
def alts(xs):
    xs = list(xs)
    if not xs:
        return SKIP
    out = xs[-1]
    for x in reversed(xs[:-1]):
        out = alt(x, out)
    return out
def fallible(cat): return ("fallible", cat)
def panic(cat=CAT_OTHER): return ("panicSite", cat)
RETOK, RETERR, BRK, CNT, LOAD = ("retOk",), ("retErr",), ("brk",), ("cnt",), ("load",)
def call(f, a, b): return ("call", f, a, b)
def save_fn(panics=False): return seq(("save", panics), RETOK)
def fall_fn(cat): return seq(fallible(cat), RETOK)

def has(k, kinds):
    if k[0] in kinds:
        return True
    return any(isinstance(x, tuple) and has(x, kinds) for x in k[1:])

def never_falls(k):
    """syntactic: control cannot fall out of k at the end"""
    if k[0] in ("retOk", "retErr", "brk", "cnt"):
        return True
    if k[0] == "seq":
        return never_falls(k[1]) or never_falls(k[2])
    if k[0] == "alt":
        return never_falls(k[1]) and never_falls(k[2])
    if k[0] == "call":
        return never_falls(k[2]) and never_falls(k[3])
    return False

# ---------------------------------------------------------------------------------------------

class Lowerer:
    def __init__(self, repo):
        self.repo = repo
        self.files = {}      # rel -> (Parser, {name: Fn})
        self.stack = []
        self.used_fns = set()
        self.notes = []

    def load(self, rel):
        if rel not in self.files:
            path = os.path.join(self.repo, rel)
            if not os.path.exists(path):
                raise TranslatorError("missing source file %s" % rel)
            try:
                self.files[rel] = parse_file(path, rel)
            except ParseError as ex:
                raise TranslatorError("cannot parse %s: %s" % (rel, ex))
        return self.files[rel]

    def fn(self, rel, name):
        _, fns = self.load(rel)
        return fns.get(name)

    # ---- call classification -------------------------------------------------------------------
    def resolve(self, c, rel):
        """-> ('local', rel, name) | ('load',) | ('save',) | ('mutate', name) | ('read',) | ('pure',) | ('ok',) | ('err',) | ('panic',)"""
        path = c.path
        last = path[-1]
        if c.method:
            if last in PANIC_METHODS:
                return ("panic",)
            if last in MUTATORS:
                return ("mutate", last)
            if last in READERS:
                return ("read",)
            return ("pure",)
        for suf in SAVE_SUFFIXES:
            if len(path) >= 2 and tuple(path[-2:]) == suf:
                return ("save",)
        if len(path) >= 2 and tuple(path[-2:]) in (("process", "exit"), ("process", "abort")):
            return ("exit",)
        if "OpenOptions" in path:
            raise TranslatorError("%s:%d: OpenOptions in a handler is not supported (cannot tell read from write)" % (rel, c.line))
        if len(path) == 1:
            if last == "Ok":
                return ("ok",)
            if last == "Err":
                return ("err",)
            if last in LOADERS:
                return ("load",)
            if self.fn(rel, last) is not None:
                return ("local", rel, last)
            if last[0].isupper():
                return ("pure",)          # tuple struct / enum variant constructor
            # an imported free function: find it through `use` is not attempted
            if self.fn("src/lib.rs", last) is not None and rel != "src/lib.rs":
                return ("local", "src/lib.rs", last)
            raise TranslatorError("%s:%d: cannot classify call of `%s`" % (rel, c.line, last))
        head = path[0]
        if last in LOADERS and head in ("crate", "a2kit"):
            return ("load",)
        if head in ("crate", "a2kit", "super", "commands", "self"):
            segs = [s for s in path if s not in ("crate", "a2kit", "super", "commands", "self")]
            if len(segs) == 1:
                # crate::f (lib.rs) or super::f (commands/mod.rs) or self::f
                cands = []
                if head in ("crate", "a2kit"):
                    cands = ["src/lib.rs"]
                elif head == "super":
                    cands = ["src/commands/mod.rs"] if rel.startswith("src/commands/") else ["src/lib.rs"]
                elif head == "self":
                    cands = [rel]
                elif head == "commands":
                    cands = ["src/commands/mod.rs"]
                for r in cands:
                    if self.fn(r, segs[0]) is not None:
                        return ("local", r, segs[0])
                if segs[0][0].isupper():
                    return ("pure",)
                raise TranslatorError("%s:%d: cannot resolve `%s`" % (rel, c.line, "::".join(path)))
            if len(segs) == 2:
                r = "src/commands/%s.rs" % segs[0]
                in_commands = head in ("super", "commands") or "commands" in path
                if in_commands and os.path.exists(os.path.join(self.repo, r)):
                    if self.fn(r, segs[1]) is not None:
                        return ("local", r, segs[1])
                    raise TranslatorError("%s:%d: no fn %s in %s" % (rel, c.line, segs[1], r))
            return ("pure",)      # crate::fs::…, crate::img::…, crate::lang::… : in-memory library code
        if head == "cli":
            return ("pure",)
        return ("pure",)

    # ---- expressions ---------------------------------------------------------------------------
    def lower_parts(self, parts, ctx):
        return seq(*[self.lower_expr(e, ctx) for e in parts])

    def effect(self, kind, handled, ctx, c):
        """skeleton of one classified call whose result is `handled` (None|'try'|'panic'|'tail'|('match',ok,err))"""
        k0 = kind[0]
        if isinstance(handled, tuple):
            okb, errb = handled[1], handled[2]
            if k0 == "local":
                return call(self.fn_skel(kind[1], kind[2]), okb, errb)
            if k0 == "save":
                return call(save_fn(), okb, errb)
            pre = {"load": LOAD, "mutate": ("mutate",)}.get(k0, SKIP)
            cat = {"load": CAT_LOAD, "mutate": CAT_MUTATE, "read": CAT_READ}.get(k0, CAT_OTHER)
            if errb == RETERR:
                # `e?` / `return e`: call (fallible; retOk) okb retErr  ==  fallible; okb
                return seq(pre, fallible(cat), okb)
            return seq(pre, call(fall_fn(cat), okb, errb))
        if handled == "tail":
            if not ctx["is_result"]:
                return seq(self.effect(kind, None, ctx, c), RETOK)
            return self.effect(kind, ("match", RETOK, RETERR), ctx, c)
        if handled == "try":
            return self.effect(kind, ("match", SKIP, RETERR), ctx, c)
        if handled == "panic":
            if k0 == "save":
                return ("save", True)
            if k0 == "local":
                return call(self.fn_skel(kind[1], kind[2]), SKIP, panic())
            pre = {"load": LOAD, "mutate": ("mutate",)}.get(k0, SKIP)
            cat = {"load": CAT_LOAD, "mutate": CAT_MUTATE, "read": CAT_READ}.get(k0, CAT_OTHER)
            return seq(pre, panic(cat))
        # result not examined here
        if k0 == "local":
            return call(self.fn_skel(kind[1], kind[2]), SKIP, SKIP)
        if k0 == "save":
            return call(save_fn(), SKIP, SKIP)
        if k0 == "load":
            return LOAD
        if k0 == "mutate":
            return ("mutate",)
        return SKIP

    def lower_call(self, c, ctx, handled=None):
        kind = self.resolve(c, ctx["rel"])
        args = self.lower_parts(c.args, ctx)
        if kind[0] == "panic":
            # .unwrap()/.expect() : if it directly follows a call, that call carries handled='panic'
            return seq(args, SKIP if getattr(c, "absorbed", False) else panic())
        if kind[0] in ("ok", "err"):
            return args
        if kind[0] == "exit":
            # std::process::exit(code): status 0 only for the literal 0
            zero = len(c.args) == 1 and c.args[0].end - c.args[0].start == 1 and self.files[ctx["rel"]][0].toks[c.args[0].start].t == "0"
            return seq(args, RETOK if zero else RETERR)
        h = handled if handled is not None else c.handled
        return seq(args, self.effect(kind, h, ctx, c))

    def lower_items(self, items, ctx):
        out = []
        for idx, it in enumerate(items):
            out.append(self.lower_item(it, ctx))
        return seq(*out)

    def lower_item(self, it, ctx):
        if isinstance(it, Call):
            return self.lower_call(it, ctx)
        if isinstance(it, Try):
            return fallible(CAT_OTHER)
        if isinstance(it, Index):
            return panic()
        if isinstance(it, Group):
            return self.lower_parts(it.parts, ctx)
        if isinstance(it, Macro):
            a = self.lower_parts(it.args, ctx)
            return seq(a, panic()) if it.name in PANIC_MACROS or it.name.startswith("debug_assert") else a
        if isinstance(it, Closure):
            k = self.lower_expr(it.body, dict(ctx, in_closure=True))
            if has(k, {"load", "mutate", "save", "call", "retOk", "retErr", "brk", "cnt"}):
                raise TranslatorError("%s:%d: closure with effects / control transfer is not supported" % (ctx["rel"], it.line))
            return k
        if isinstance(it, If):
            return self.lower_if(it, ctx, tail=False)
        if isinstance(it, Match):
            return self.lower_match(it, ctx, tail=False)
        if isinstance(it, Loop):
            return self.lower_loop(it, ctx)
        if isinstance(it, BlockE):
            return self.lower_block(it.block, ctx, tail=False)
        if isinstance(it, Return):
            if ctx.get("in_closure"):
                raise TranslatorError("%s:%d: return inside a closure" % (ctx["rel"], it.line))
            return self.lower_tail(it.expr, ctx)
        if isinstance(it, Break):
            return seq(self.lower_expr(it.expr, ctx), BRK)
        if isinstance(it, Continue):
            return CNT
        raise TranslatorError("unknown item %r" % (it,))

    def mark_absorbed(self, e):
        """a `.unwrap()` call that was folded into the preceding call (handled='panic') emits nothing itself"""
        prev = None
        for it in e.items:
            if isinstance(it, Call):
                it.absorbed = bool(it.method and it.path[-1] in PANIC_METHODS and isinstance(prev, Call)
                                   and prev.handled == "panic" and prev.end == it.start - 1)
            prev = it

    def lower_expr(self, e, ctx):
        if e is None:
            return SKIP
        self.mark_absorbed(e)
        return self.lower_items(e.items, ctx)

    def outer_call(self, e, ctx):
        """the call whose value is the value of e (last item, closing paren is the last token), if unhandled"""
        if e is None or not e.items:
            return None
        c = e.items[-1]
        if isinstance(c, Call) and c.end == e.end and c.handled is None:
            return c
        return None

    def arm_class(self, pat):
        """'ok' | 'err' | 'both' for a pattern given as tokens"""
        ts = [t for t in pat if not (t.k == "id" and t.t in ("mut", "ref"))]
        if not ts:
            return "both"
        # alternatives a | b at depth 0
        kinds = set()
        depth = 0
        first = True
        for t in ts:
            if first:
                kinds.add("ok" if (t.k == "id" and t.t == "Ok") else "err" if (t.k == "id" and t.t == "Err") else "both")
                first = False
            if t.k == "p":
                if t.t in "([{": depth += 1
                elif t.t in ")]}": depth -= 1
                elif t.t == "|" and depth == 0:
                    first = True
        if kinds == {"ok"}:
            return "ok"
        if kinds == {"err"}:
            return "err"
        return "both"

    def lower_if(self, it, ctx, tail):
        def branch(b):
            if b is None:
                return RETOK if tail else SKIP      # `if` without else in tail position has type ()
            if isinstance(b, If):
                return self.lower_if(b, ctx, tail)
            return self.lower_block(b, ctx, tail)
        then, els = branch(it.then), branch(it.els)
        c = self.outer_call(it.cond, ctx) if it.pat is not None else None
        if c is not None and self.arm_class(it.pat) in ("ok", "err") and self.resolve(c, ctx["rel"])[0] not in ("ok", "err", "panic"):
            self.mark_absorbed(it.cond)
            pre = self.lower_items(it.cond.items[:-1], ctx)
            okb, errb = (then, els) if self.arm_class(it.pat) == "ok" else (els, then)
            return seq(pre, self.lower_call(c, ctx, handled=("match", okb, errb)))
        return seq(self.lower_expr(it.cond, ctx), alt(then, els))

    def lower_match(self, it, ctx, tail):
        arms = []
        for pat, guard, body in it.arms:
            b = self.lower_tail(body, ctx) if tail else self.lower_expr(body, ctx)
            arms.append((self.arm_class(pat), seq(self.lower_expr(guard, ctx), b)))
        c = self.outer_call(it.scrut, ctx)
        if c is not None and any(k != "both" for k, _ in arms) and self.resolve(c, ctx["rel"])[0] not in ("ok", "err", "panic"):
            self.mark_absorbed(it.scrut)
            pre = self.lower_items(it.scrut.items[:-1], ctx)
            okb = alts([b for k, b in arms if k in ("ok", "both")])
            errb = alts([b for k, b in arms if k in ("err", "both")])
            return seq(pre, self.lower_call(c, ctx, handled=("match", okb, errb)))
        return seq(self.lower_expr(it.scrut, ctx), alts([b for _, b in arms]))

    def lower_loop(self, it, ctx):
        body = self.lower_block(it.body, ctx, tail=False)
        if it.kind == "for":
            return seq(self.lower_expr(it.head, ctx), ("forEach", body))
        if it.kind == "while":
            h = self.lower_expr(it.head, ctx)
            return seq(("forEach", seq(h, body)), h)
        return ("forEach", body)

    def lower_tail(self, e, ctx):
        """e is the value returned from the function"""
        if e is None or (not e.items and e.start == e.end):
            return RETOK
        self.mark_absorbed(e)
        unknown = alt(RETOK, RETERR) if ctx["is_result"] else RETOK
        if not e.items:
            return unknown
        last = e.items[-1]
        pre = e.items[:-1]
        if len(e.items) == 1 and isinstance(last, (If, Match, BlockE, Loop)) and True:
            if isinstance(last, If):
                return self.lower_if(last, ctx, tail=True)
            if isinstance(last, Match):
                return self.lower_match(last, ctx, tail=True)
            if isinstance(last, BlockE):
                return self.lower_block(last.block, ctx, tail=True)
            return seq(self.lower_loop(last, ctx), unknown)
        if isinstance(last, Return):
            return self.lower_items(e.items, ctx)
        if isinstance(last, Call) and last.end == e.end:
            kind = self.resolve(last, ctx["rel"])
            if kind[0] == "ok" and last.start == e.start:
                return seq(self.lower_items(pre, ctx), self.lower_parts(last.args, ctx), RETOK)
            if kind[0] == "err" and last.start == e.start:
                return seq(self.lower_items(pre, ctx), self.lower_parts(last.args, ctx), RETERR if ctx["is_result"] else RETOK)
            if last.handled is None and kind[0] not in ("ok", "err", "panic"):
                return seq(self.lower_items(pre, ctx), self.lower_call(last, ctx, handled="tail"))
        k = self.lower_items(e.items, ctx)
        return k if never_falls(k) else seq(k, unknown)

    # ---- blocks / functions ---------------------------------------------------------------------
    def lower_stmt(self, st, ctx):
        if isinstance(st, Let):
            k = self.lower_expr(st.expr, ctx)
            if st.els is not None:
                k = seq(k, alt(SKIP, self.lower_block(st.els, ctx, tail=False)))
            return k
        return self.lower_expr(st.expr, ctx)

    def lower_block(self, b, ctx, tail):
        ks = [self.lower_stmt(st, ctx) for st in b.stmts]
        if b.tail is not None:
            ks.append(self.lower_tail(b.tail, ctx) if tail else self.lower_expr(b.tail, ctx))
        elif tail:
            k = seq(*ks)
            if not never_falls(k):
                ks.append(RETOK)          # block of type () as function value
        return seq(*ks)

    def fn_skel(self, rel, name):
        key = (rel, name)
        if key in self.stack:
            raise TranslatorError("recursive call chain through %s::%s is not supported" % key)
        f = self.fn(rel, name)
        if f is None:
            raise TranslatorError("no fn %s in %s" % (name, rel))
        self.stack.append(key)
        self.used_fns.add(key)
        try:
            k = self.lower_block(f.body, {"rel": rel, "is_result": f.is_result}, tail=True)
        finally:
            self.stack.pop()
        return k

    # ---- main.rs --------------------------------------------------------------------------------
    def handlers(self):
        rel = "src/main.rs"
        parser, fns = self.load(rel)
        main = fns.get("main")
        if main is None:
            raise TranslatorError("no fn main in src/main.rs")
        ctx = {"rel": rel, "is_result": main.is_result}
        pre, post, hs = [], [], []
        toks = parser.toks
        for st in main.body.stmts:
            name = None
            if isinstance(st, ExprStmt) and len(st.expr.items) == 1 and isinstance(st.expr.items[0], If):
                it = st.expr.items[0]
                ctoks = [t.t for t in toks[it.cond.start:it.cond.end]]
                if it.pat is not None and "subcommand_matches" in ctoks:
                    strs = [t for t in toks[it.cond.start:it.cond.end] if t.k == "str"]
                    if len(strs) != 1 or it.els is not None or [t.t for t in it.pat][:1] != ["Some"]:
                        raise TranslatorError("src/main.rs:%d: unrecognised subcommand dispatch" % it.line)
                    name = strs[0].t.strip('"')
            if name is not None:
                if post:
                    raise TranslatorError("src/main.rs: statements between subcommand handlers are not supported")
                hs.append((name, it))
            elif hs:
                post.append(st)
            else:
                pre.append(st)
        src_names = re.findall(r'subcommand_matches\s*\(\s*"([^"]+)"', open(os.path.join(self.repo, rel)).read())
        if sorted(src_names) != sorted(n for n, _ in hs) or len(set(src_names)) != len(src_names):
            raise TranslatorError("src/main.rs: some subcommand_matches(..) are not top-level `if let Some(cmd) = …` handlers")
        prelude = seq(*[self.lower_stmt(s, ctx) for s in pre])
        epi = seq(*[self.lower_stmt(s, ctx) for s in post])
        if main.body.tail is not None:
            epi = seq(epi, self.lower_tail(main.body.tail, ctx))
        if not never_falls(epi):
            raise TranslatorError("src/main.rs: main can fall off its end after the handlers")
        out = []
        for name, it in hs:
            body = self.lower_block(it.then, ctx, tail=False)
            out.append((name, seq(prelude, body, epi)))
        return out


def trait_methods(path, trait):
    src = open(path).read()
    m = re.search(r"pub\s+trait\s+%s\b[^{]*\{" % trait, src)
    if not m:
        raise TranslatorError("trait %s not found in %s" % (trait, path))
    toks = tokenize(src[m.end() - 1:])
    end = match_close(toks, 0)
    names, depth = [], 0
    for i in range(1, end):
        t = toks[i]
        if t.k == "p" and t.t == "{": depth += 1
        elif t.k == "p" and t.t == "}": depth -= 1
        elif depth == 0 and t.k == "id" and t.t == "fn":
            names.append(toks[i + 1].t)
    return names


def census(repo, lowered_fns):
    """every textual use of a file-writing std API under src/ must be inside a function the skeletons cover
    (then it is a `save` step) or on the allow list"""
    sites = []
    for path in sorted(_glob.glob(os.path.join(repo, "src", "**", "*.rs"), recursive=True)):
        rel = os.path.relpath(path, repo)
        if rel.startswith("src/bin/"):
            continue            # the language servers are separate executables
        src = open(path).read()
        if not WRITER_RE.search(src):
            continue
        toks = tokenize(src)
        text = " ".join(t.t for t in toks)
        if not WRITER_RE.search(text):
            continue            # only in comments / strings
        p = Parser(toks, rel)
        # enclosing fn by token position
        spans = []
        i = 0
        while i < len(toks):
            if p.is_id(i, "fn") and p.is_id(i + 1):
                k = i + 2
                while k < len(toks) and not p.is_p(k, "{") and not p.is_p(k, ";"):
                    if toks[k].k == "p" and toks[k].t in ("(", "["):
                        k = match_close(toks, k)
                    k += 1
                if p.is_p(k, "{"):
                    e = match_close(toks, k)
                    spans.append((k, e, toks[i + 1].t))
                i = k + 1
            else:
                i += 1
        for i, t in enumerate(toks):
            win = "".join(x.t for x in toks[i:i + 3])
            if t.k != "id" or not WRITER_RE.match(win):
                continue
            encl = None
            for s, e, n in spans:
                if s < i < e:
                    encl = n        # innermost wins because spans are in source order
            if "OpenOptions" == t.t:
                # read-only use: the statement contains no write-ish builder call
                j = i
                while j < len(toks) and not p.is_p(j, ";") and not p.is_p(j, "{"):
                    j += 1
                stmt = [x.t for x in toks[i:j]]
                if not any(w in stmt for w in ("write", "append", "create", "create_new", "truncate")):
                    continue
            if (rel, None) in CENSUS_ALLOW or (rel, encl) in CENSUS_ALLOW:
                continue
            if encl is None:
                raise TranslatorError("%s:%d: file-writing API `%s` imported or used outside a function: cannot be classified" % (rel, t.line, win))
            if (rel, encl) not in lowered_fns:
                raise TranslatorError("%s:%d: file-writing API `%s` in fn %s, which no handler skeleton covers" % (rel, t.line, win, encl))
            sites.append((rel, encl, t.line))
    return sites


def cli_subcommands(repo):
    src = open(os.path.join(repo, "src/cli.rs")).read()
    names = re.findall(r'Command::new\(\s*"([^"]+)"\s*\)', src)
    return [n for n in names if n != "a2kit"]

# ---------------------------------------------------------------------------------------------
# rendering

def lean_ident(name):
    return re.sub(r"[^A-Za-z0-9_]", "_", name)

class Renderer:
    def __init__(self):
        self.site = 0
    def fresh(self):
        self.site += 1
        return self.site
    def r(self, k, ind):
        pad = "  " * ind
        t = k[0]
        if t in ("skip", "load", "retOk", "retErr", "brk", "cnt"):
            return pad + "." + t
        if t == "mutate":
            return pad + "(.mutate %d)" % self.fresh()
        if t in ("fallible", "panicSite"):
            return pad + "(.%s %d %d)" % (t, self.fresh(), k[1])
        if t == "save":
            return pad + "(.save %d %s)" % (self.fresh(), "true" if k[1] else "false")
        if t == "seq":
            return pad + "(.seq\n%s\n%s)" % (self.r(k[1], ind + 1), self.r(k[2], ind + 1))
        if t == "alt":
            s = self.fresh()
            return pad + "(.alt %d\n%s\n%s)" % (s, self.r(k[1], ind + 1), self.r(k[2], ind + 1))
        if t == "forEach":
            s = self.fresh()
            return pad + "(.forEach %d\n%s)" % (s, self.r(k[1], ind + 1))
        if t == "call":
            return pad + "(.call\n%s\n%s\n%s)" % (self.r(k[1], ind + 1), self.r(k[2], ind + 1), self.r(k[3], ind + 1))
        raise TranslatorError("render: %r" % (k,))

def count(k, kinds):
    n = 1 if k[0] in kinds else 0
    return n + sum(count(x, kinds) for x in k[1:] if isinstance(x, tuple))

def show(k):
    """compact one-line form (for the self test and the design notes)"""
    t = k[0]
    if t == "seq":
        xs = []
        while k[0] == "seq":
            xs.append(show(k[1])); k = k[2]
        xs.append(show(k))
        return "[" + "; ".join(xs) + "]"
    if t == "alt":
        return "alt(%s | %s)" % (show(k[1]), show(k[2]))
    if t == "forEach":
        return "forEach(%s)" % show(k[1])
    if t == "call":
        return "call(%s -> %s / %s)" % (show(k[1]), show(k[2]), show(k[3]))
    if t in ("fallible", "panicSite"):
        return "%s%d" % ("F" if t == "fallible" else "P", k[1])
    if t == "save":
        return "save!" if k[1] else "save"
    return t

def build(repo):
    lw = Lowerer(repo)
    # 1. the trait methods must all be classified
    for path, trait, known in (("src/fs/mod.rs", "DiskFS", FS_MUTATORS | FS_READERS), ("src/img/mod.rs", "DiskImage", IMG_MUTATORS | IMG_READERS)):
        for n in trait_methods(os.path.join(repo, path), trait):
            if n not in known:
                raise TranslatorError("%s: method `%s` of trait %s is not classified as mutator or reader (translator/gen_c11.py)" % (path, n, trait))
    # 2. handlers
    hs = lw.handlers()
    names = [n for n, _ in hs]
    cli = cli_subcommands(repo)
    if sorted(cli) != sorted(names):
        raise TranslatorError("subcommands of cli.rs %s differ from the handlers of main.rs %s" % (sorted(cli), sorted(names)))
    # 3. census of file-writing APIs
    lowered = set(lw.used_fns) | {("src/main.rs", "main")}
    sites = census(repo, lowered)
    nsaves = sum(count(k, {"save"}) for _, k in hs)
    if sites and nsaves == 0:
        raise TranslatorError("file-writing APIs found but no save step extracted")
    return hs, sites, lw

SOURCES = ["src/main.rs", "src/cli.rs", "src/lib.rs", "src/commands/mod.rs", "src/commands/put.rs", "src/commands/put_img.rs",
           "src/commands/get.rs", "src/commands/get_img.rs", "src/commands/mkdsk.rs", "src/commands/completions.rs",
           "src/fs/mod.rs", "src/img/mod.rs"]

def generate(repo):
    selftest()
    try:
        hs, sites, lw = build(repo)
    except ParseError as ex:
        raise TranslatorError("c11: %s" % ex)
    out = ["import A2Verif.Model.CmdSkel",
           "/-! GENERATED by /verif/translator/gen_c11.py from src/main.rs, src/commands/*.rs, src/lib.rs, src/cli.rs -- do not edit; regenerated on every run -/",
           "namespace A2Verif.Gen.CmdSkel", "open A2Verif.CmdSkel", "",
           "/-- the subcommands of the a2kit CLI (cli.rs = the `subcommand_matches` handlers of main.rs) -/",
           "inductive Cmd", ]
    for n, _ in hs:
        out.append("  | %s" % lean_ident(n))
    out += ["  deriving DecidableEq, Repr", ""]
    rd = Renderer()
    for n, k in hs:
        out.append("/-- `a2kit %s`: %d nodes, %d save, %d mutate, %d load -/" % (n, count(k, {k0 for k0 in ("skip","load","mutate","fallible","panicSite","save","retOk","retErr","brk","cnt","seq","alt","forEach","call")}), count(k, {"save"}), count(k, {"mutate"}), count(k, {"load"})))
        out.append("def skel_%s : Skel :=\n%s\n" % (lean_ident(n), rd.r(k, 1)))
    out.append("def all : List (Cmd × Skel) := [")
    out.append(",\n".join("  (.%s, skel_%s)" % (lean_ident(n), lean_ident(n)) for n, _ in hs))
    out.append("]\n")
    out.append("/-- command names for the driver only (never reduced by `decide`) -/")
    out.append("def names : List (String × Cmd) := [")
    out.append(",\n".join('  ("%s", .%s)' % (n, lean_ident(n)) for n, _ in hs))
    out.append("]\n")
    out.append("/-- number of textual uses of file-writing std APIs under src/ that the skeletons account for -/")
    out.append("def writerSites : Nat := %d\n" % len(sites))
    out.append("end A2Verif.Gen.CmdSkel\n")
    h = hashlib.sha256()
    for r in SOURCES:
        h.update(open(os.path.join(repo, r), "rb").read())
    return {"CmdSkel": "\n".join(out)}, {"CmdSkel": h.hexdigest()[:16]}

# ---------------------------------------------------------------------------------------------
# self test of the front end on hand-written expectations

SELFTEST = [
    ('fn f(p:&str)->STDRESULT{ let mut d = crate::create_fs_from_file(p)?; d.delete(p)?; return crate::save_img(&mut d,p); }',
     '[[load; F1]; [mutate; F2]; call([call([save; retOk] -> skip / retErr); retOk] -> retOk / retErr)]'),
    ('fn f(p:&str)->STDRESULT{ for x in xs.members() { let y = FileImage::from_json(x)?; d.put(&y)?; } std::fs::write(p,d.to_bytes()).expect("x"); Ok(()) }',
     '[forEach([F0; mutate; F2]); save!; retOk]'),
    ('fn f(p:&str)->STDRESULT{ match crate::create_img_from_file(p) { Ok(mut img) => { if a==b { return Err(Box::new(E::X)); } img.write_sector(1,2,3,&dat[ptr..])?; std::fs::write(p,img.to_bytes())?; return Ok(()); }, Err(e) => return Err(e) } }',
     '[load; F1; alt(retErr | skip); [P0; mutate; F2]; call([save; retOk] -> skip / retErr); retOk]'),
    ('fn f()->STDRESULT{ while let Some(k) = c.next(&p) { if k==1 { continue; } if k==2 { break; } x.unwrap(); } Ok(()) }',
     '[forEach([alt(cnt | skip); alt(brk | skip); P0]); retOk]'),
    ('fn f()->Result<u8,E>{ let v = match u8::from_str(s) { Ok(v) => v, Err(_) => { log::error!("bad"); return Err(E::X) } }; Ok(v) }',
     '[F0; retOk]'),
]

SELFTEST_LIB = "pub fn save_img(d:&mut D,p:&str)->STDRESULT{ std::fs::write(p,d.get_img().to_bytes())?; Ok(()) }"

def selftest_skel(src):
    lw = Lowerer("/nonexistent")
    p = Parser(tokenize(src), "selftest")
    lw.files["src/x.rs"] = (p, p.functions())
    q = Parser(tokenize(SELFTEST_LIB), "selftest-lib")
    lw.files["src/lib.rs"] = (q, q.functions())
    return lw.fn_skel("src/x.rs", "f")

def selftest():
    for src, want in SELFTEST:
        got = show(selftest_skel(src))
        if got != want:
            raise TranslatorError("gen_c11 self test failed:\n  src : %s\n  got : %s\n  want: %s" % (src, got, want))

if __name__ == "__main__":
    import sys
    repo = sys.argv[1] if len(sys.argv) > 1 else "/repo"
    hs, sites, lw = build(repo)
    for n, k in hs:
        print("%-12s %s" % (n, show(k)))
    print("writer sites:", sites)
