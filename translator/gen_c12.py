"""C12 translator: which robustness guards does the source contain *now*, plus the constants the panic-explicit
Lean models of the parsing fronts depend on.

Emits `A2Verif.Gen.C12Flags`:

* one `Bool` per guard.  `false` = the code is as it was at the pinned snapshot (the front can panic: the model
  `…Orig` is what the driver runs and the no-panic theorem about the *current* code does not go through);
  `true` = the repaired form is present (the driver runs `…Fixed`).  A site that matches neither the original
  nor the repaired text raises `TranslatorError`: the correspondence would be unknown, so the check must not
  pass silently.
* the BPB allow-lists, the WOZ2 TRKS geometry constants, the detokenizer caps and the sets of token bytes the
  detokenizers know (taken from `DETOK_MAP`), all as `Nat`/`List Nat`.

Purely syntactic (regular expressions over comment-stripped source).
"""
import os, re

try:
    from gen import TranslatorError, strip_rust_comments, digest
except Exception:  # stand-alone use
    import hashlib

    class TranslatorError(Exception):
        pass

    def strip_rust_comments(src):
        src = re.sub(r"/\*.*?\*/", "", src, flags=re.S)
        return re.sub(r"//[^\n]*", "", src)

    def digest(paths):
        h = hashlib.sha256()
        for p in paths:
            h.update(open(p, "rb").read())
        return h.hexdigest()[:16]

FILES = ["src/fs/fimg.rs", "src/bios/bpb.rs", "src/bios/fat.rs", "src/fs/fat/mod.rs", "src/img/imd.rs", "src/img/td0.rs", "src/img/dot2mg.rs", "src/img/dsk_do.rs", "src/img/dsk_po.rs", "src/img/nib.rs", "src/fs/pascal/mod.rs", "src/fs/pascal/types.rs", "src/img/woz.rs", "src/img/woz1.rs", "src/img/disk525.rs", "src/img/woz2.rs", "src/lang/applesoft/tokenizer.rs",
         "src/lang/applesoft/mod.rs", "src/lang/applesoft/settings.rs", "src/lang/applesoft/token_maps.rs",
         "src/lang/integer/tokenizer.rs", "src/lang/integer/mod.rs", "src/lang/integer/settings.rs",
         "src/lang/integer/token_maps.rs"]


def ws(s):
    return re.sub(r"\s+", "", s)


def fn_body(src, header_regex, what):
    """text of the function whose header matches `header_regex` (balanced braces)"""
    m = re.search(header_regex, src)
    if not m:
        raise TranslatorError("c12: cannot find %s" % what)
    i = src.find("{", m.end() - 1)
    if i < 0:
        raise TranslatorError("c12: no body for %s" % what)
    depth, j = 0, i
    while j < len(src):
        if src[j] == "{":
            depth += 1
        elif src[j] == "}":
            depth -= 1
            if depth == 0:
                return src[i:j + 1]
        j += 1
    raise TranslatorError("c12: unbalanced braces in %s" % what)


def choose(text, orig, fixed, what):
    """text (whitespace-free) must contain exactly one of the two whitespace-free forms"""
    o, f = ws(orig) in text, ws(fixed) in text
    if f and not (o and ws(orig) not in ws(fixed)):
        return True
    if o and not f:
        return False
    raise TranslatorError("c12: %s matches neither the original nor the repaired form" % what)


def int_list(text, regex, what):
    m = re.search(regex, text)
    if not m:
        raise TranslatorError("c12: cannot find %s" % what)
    try:
        return [int(x, 0) for x in m.group(1).split(",") if x.strip()]
    except ValueError:
        raise TranslatorError("c12: %s is not a list of integer literals" % what)


def detok_keys(path):
    src = strip_rust_comments(open(path).read())
    m = re.search(r"pub const DETOK_MAP\s*:\s*\[\(u8,&str\);\s*(\d+)\]\s*=\s*\[(.*?)\];", src, flags=re.S)
    if not m:
        raise TranslatorError("c12: DETOK_MAP not found in %s" % path)
    keys = [int(k) for k in re.findall(r"\(\s*(\d+)\s*,\s*\"", m.group(2))]
    if len(keys) != int(m.group(1)):
        raise TranslatorError("c12: DETOK_MAP in %s has %d keys, declared %s" % (path, len(keys), m.group(1)))
    if any(k > 255 for k in keys):
        raise TranslatorError("c12: DETOK_MAP key out of range in %s" % path)
    return sorted(set(keys))


def setting(path, name):
    src = strip_rust_comments(open(path).read())
    m = re.search(r"\b%s\s*:\s*(\d+)\s*[,}\n]" % name, src)
    if not m:
        raise TranslatorError("c12: default of %s not found in %s" % (name, path))
    return int(m.group(1))


def generate(repo):
    P = lambda r: os.path.join(repo, r)
    rd = lambda r: strip_rust_comments(open(P(r)).read())
    flags, consts, notes = [], [], {}

    # ---- FileImage::from_json / version_tuple ------------------------------------------------------------
    fimg = rd("src/fs/fimg.rs")
    fj = ws(fn_body(fimg, r"pub fn from_json\s*\(", "FileImage::from_json"))
    fixed = choose(fj, "let vers_tup = Self::version_tuple(&fimg_version);",
                   "let vers_tup = match Self::try_version_tuple(&fimg_version) { Some(tup) => tup, None => {", "from_json version parsing")
    vt = ws(fn_body(fimg, r"pub fn version_tuple\s*\(", "FileImage::version_tuple"))
    if ws('vers.split(".").map(|s| usize::from_str(s).expect("bad version format")).collect(); (v[0],v[1],v[2])') not in vt:
        raise TranslatorError("c12: version_tuple is not in the modelled form")
    if fixed:
        tv = ws(fn_body(fimg, r"pub fn try_version_tuple\s*\(", "FileImage::try_version_tuple"))
        if ws('for s in vers.split(".") { v.push(usize::from_str(s).ok()?); } if v.len() < 3 { return None; } Some((v[0],v[1],v[2]))') not in tv:
            raise TranslatorError("c12: try_version_tuple is not in the modelled form")
    if ws("if vers_tup < (2,0,0) {") not in fj or fj.count(ws("vers_tup >= (2,1,0)")) != 2:
        raise TranslatorError("c12: from_json version thresholds are not in the modelled form")
    flags.append(("fimgTryVersion", fixed, "FileImage::from_json parses the version with a checked `try_version_tuple`"))

    # ---- BootSector::verify -----------------------------------------------------------------------------
    bpb = rd("src/bios/bpb.rs")
    bv = ws(fn_body(bpb, r"pub fn verify\s*\(\s*sec_data", "BootSector::verify"))
    fixed = choose(bv, "ans |= bpb.verify();", "ans &= bpb.verify();", "BootSector::verify combination of the BPB test")
    flags.append(("bpbVerifyAnd", fixed, "BootSector::verify requires (`&=`) the BPBFoundation test"))
    fv = fn_body(bpb, r"pub fn verify\s*\(\s*&self", "BPBFoundation::verify")
    consts.append(("bpbSecSizes", int_list(fv, r"!\[([0-9,\s]+)\]\.contains\(&bytes\)", "allowed sector sizes")))
    consts.append(("bpbSecPerClus", int_list(fv, r"!\[([0-9,\s]+)\]\.contains\(&self\.sec_per_clus\)", "allowed sectors per cluster")))
    for frag, what in [("if sec_data.len()<512 {", "length test"), ("if fat_secs==0 {", "FAT size test"),
                       ("if bpb.tot_sec() <= bpb.res_secs() as u64 + (bpb.num_fats as u64 * fat_secs) + bpb.root_dir_secs() {", "data region test")]:
        if ws(frag) not in bv:
            raise TranslatorError("c12: BootSector::verify lost its %s" % what)
    for frag, what in [("if self.reserved_sectors==[0,0] {", "reserved sectors test"), ("if self.num_fats==0 {", "FAT count test"),
                       ("if bytes > 0 && (entries*32)%bytes != 0 {", "root entries test"),
                       ("if self.tot_sec_16==[0,0] && self.tot_sec_32==[0,0,0,0] {", "total sectors test")]:
        if ws(frag) not in ws(fv):
            raise TranslatorError("c12: BPBFoundation::verify lost its %s" % what)
    if ws("self.tot_sec() - (self.res_secs() as u64 + (self.foundation.num_fats as u64 * self.fat_secs()) + self.root_dir_secs())") not in ws(bpb) \
            or ws("self.data_rgn_secs()/self.foundation.sec_per_clus() as u64") not in ws(bpb):
        raise TranslatorError("c12: data_rgn_secs / cluster_count_abstract are not in the modelled form")
    m = re.search(r"x if x < (\d+) => 12,\s*x if x < (\d+) => 16,", bpb)
    if not m:
        raise TranslatorError("c12: fat_type cutoffs not found")
    consts.append(("fat12Cutoff", int(m.group(1))))
    consts.append(("fat16Cutoff", int(m.group(2))))

    # ---- WOZ2 ---------------------------------------------------------------------------------------------
    woz2 = rd("src/img/woz2.rs")
    m = re.search(r"impl DiskStruct for Trks \{", woz2)
    if not m:
        raise TranslatorError("c12: impl DiskStruct for Trks not found in woz2.rs")
    tu = ws(fn_body(woz2[m.end():], r"fn update_from_bytes\s*\(", "woz2 Trks::update_from_bytes"))
    for frag in ["for track in 0..160 { let trk = Trk::from_bytes(&bytes[8+track*8..16+track*8].to_vec())?;",
                 "let bitstream_bytes = u32::from_le_bytes(self.size) - 1280; if bitstream_bytes%512>0 {",
                 "self.bits.append(&mut bytes[1288..].to_vec());"]:
        if ws(frag) not in tu:
            raise TranslatorError("c12: woz2 Trks::update_from_bytes is not in the modelled form")
    len_guard = ws("if bytes.len()<1288 {") in tu and tu.index(ws("if bytes.len()<1288 {")) < tu.index("bytes[")
    size_guard = ws("if u32::from_le_bytes(self.size)<1280 {") in tu and \
        tu.index(ws("if u32::from_le_bytes(self.size)<1280 {")) < tu.index(ws("u32::from_le_bytes(self.size) - 1280"))
    if not len_guard and "bytes.len()" in tu or not size_guard and tu.count("u32::from_le_bytes(self.size)") != 1:
        raise TranslatorError("c12: woz2 Trks::update_from_bytes has a guard in an unknown form")
    flags.append(("woz2TrksLenGuard", len_guard, "woz2 Trks::update_from_bytes refuses a chunk shorter than 1288 bytes"))
    flags.append(("woz2TrksSizeGuard", size_guard, "woz2 Trks::update_from_bytes refuses a TRKS size below 1280"))
    wfb = ws(fn_body(woz2[woz2.index("impl img::DiskImage for Woz2"):], r"fn from_bytes\s*\(", "Woz2::from_bytes"))
    dt_guard = ws("match (ans.info.disk_type,ans.info.disk_sides) { (1,1) | (2,1) | (2,2) => {}, _ => {") in wfb
    if not dt_guard and "disk_sides" in wfb.split(ws("ans.kind = match"))[0]:
        raise TranslatorError("c12: Woz2::from_bytes has a disk type guard in an unknown form")
    flags.append(("woz2DiskTypeGuard", dt_guard, "Woz2::from_bytes refuses disk type / sides that track_count cannot handle"))
    woz = ws(fn_body(rd("src/img/woz.rs"), r"pub fn get_next_chunk\s*\(", "get_next_chunk"))
    for frag in ["if ptr+8 > buf.len() { return (0,0,None); }", "let end = ptr + 8 + size as usize;", "if end > buf.len() { return (0,0,None); }",
                 "if next+8 > buf.len() { next = 0; }", "INFO_ID | TMAP_ID | TRKS_ID | WRIT_ID | META_ID => {"]:
        if ws(frag) not in woz:
            raise TranslatorError("c12: get_next_chunk is not in the modelled form")


    # ---- track bit cursor and the gates that create it (WOZ1, WOZ2, NIB) ----------------------------------------
    d525 = rd("src/img/disk525.rs")
    sf = ws(fn_body(d525, r"pub fn shift_fwd\s*\(", "disk525 shift_fwd"))
    if sf != ws("{ let mut ptr = self.bit_ptr; ptr += bit_shift; while ptr >= self.bit_count { ptr -= self.bit_count; } self.bit_ptr = ptr; }"):
        raise TranslatorError("c12: disk525 TrackBits::shift_fwd is not in the modelled form")
    nx = ws(fn_body(d525, r"pub fn next\s*\(", "disk525 next"))
    if nx != ws("{ let i = self.bit_ptr/8; let b = 7 - (self.bit_ptr%8) as u8; self.shift_fwd(1); return (bits[i] >> b) & 1; }"):
        raise TranslatorError("c12: disk525 TrackBits::next is not in the modelled form")
    woz1 = rd("src/img/woz1.rs")
    gtr = ws(fn_body(woz1, r"fn get_trk_ref\s*\(", "woz1 get_trk_ref"))
    g_buf = ws("Some(trk) if trk.bit_count!=[0,0] && u16::from_le_bytes(trk.bit_count) as usize <= trk.bits.len()*8 => Ok(trk),") in gtr
    g_bu = ws("Some(trk) if trk.bit_count!=[0,0] && u16::from_le_bytes(trk.bit_count) as usize <= u16::from_le_bytes(trk.bytes_used) as usize*8 => Ok(trk),") in gtr
    g_none = ws("Some(trk) if trk.bit_count!=[0,0] => Ok(trk),") in gtr
    if [g_buf, g_bu, g_none].count(True) != 1 or gtr.count("Some(trk)") != 1:
        raise TranslatorError("c12: woz1 get_trk_ref has a guard in an unknown form")
    flags.append(("woz1BitCountVsBuffer", g_buf, "woz1 get_trk_ref bounds the bit count by the fixed bit buffer (bits.len()*8)"))
    flags.append(("woz1BitCountVsBytesUsed", g_bu, "woz1 get_trk_ref bounds the bit count by the entry's own bytes_used field"))
    if ws("bits: [u8;TRACK_BYTE_CAPACITY]") not in ws(woz1) and ws("bits: [u8;6646]") not in ws(woz1):
        raise TranslatorError("c12: woz1 Trk.bits is not a fixed array")
    m1 = re.search(r"const\s+TRACK_BYTE_CAPACITY\s*:\s*usize\s*=\s*(\d+)\s*;", woz1)
    if not m1:
        raise TranslatorError("c12: woz1 TRACK_BYTE_CAPACITY not found")
    consts.append(("woz1TrackByteCapacity", int(m1.group(1))))
    nro = ws(fn_body(woz1, r"fn new_rw_obj\s*\(", "woz1 new_rw_obj"))
    for frag in ["let bit_count_le = self.get_trk_ref(track)?.bit_count;", "if self.head_coords.bit_ptr < bit_count { ans.set_bit_ptr(self.head_coords.bit_ptr); }"]:
        if ws(frag) not in nro:
            raise TranslatorError("c12: woz1 new_rw_obj is not in the modelled form")
    rng2 = ws(fn_body(woz2, r"fn get_trk_bits_rng\s*\(", "woz2 get_trk_bits_rng"))
    r_guard = ws("if end > self.trks.bits.len() || u32::from_le_bytes(trk.bit_count) as usize > (end-begin)*8 { return Err(img::NibbleError::BadTrack); }") in rng2 \
        and ws("checked_sub(self.track_bits_offset)") in rng2
    if not r_guard and ("bit_count" in rng2 or "checked_sub" in rng2):
        raise TranslatorError("c12: woz2 get_trk_bits_rng has a guard in an unknown form")
    flags.append(("woz2TrkRangeGuard", r_guard, "woz2 get_trk_bits_rng keeps the blocks inside the TRKS buffer and the bit count inside the blocks"))
    gtr2 = ws(fn_body(woz2, r"fn get_trk_ref\s*\(", "woz2 get_trk_ref"))
    if ws("Some(trk) if trk.bit_count!=[0,0,0,0] => Ok(trk),") not in gtr2:
        raise TranslatorError("c12: woz2 get_trk_ref no longer refuses a zero bit count")
    nib = rd("src/img/nib.rs")
    nnro = ws(fn_body(nib, r"fn new_rw_obj\s*\(", "nib new_rw_obj"))
    nbits = ws(fn_body(nib, r"fn get_trk_bits_ref\s*\(", "nib get_trk_bits_ref"))
    flags.append(("nibBitCountIsCapacity", ws("let bit_count = self.trk_cap * 8;") in nnro and
                  nbits == ws("{ &self.data[track as usize * self.trk_cap..(track as usize+1) * self.trk_cap] }"),
                  "nib: the cursor's bit count is 8 times the length of the track slice"))

    # ---- FAT cluster chains (no flags: the code is repaired; the guards the theorems rely on must be present) ---
    fatrs = rd("src/bios/fat.rs")
    gc = ws(fn_body(fatrs, r"pub fn get_cluster\s*\(", "fat::get_cluster"))
    for frag in ["12 => { let offset = n + (n/2); let val16 = u16::from_le_bytes([buf[offset],buf[offset+1]]);",
                 "16 => { let offset = n*2; u16::from_le_bytes([buf[offset],buf[offset+1]]) as u32",
                 "32 => { let offset = n*4; u32::from_le_bytes(buf[offset..offset+4].try_into()"]:
        if ws(frag) not in gc:
            raise TranslatorError("c12: fat::get_cluster is not in the modelled form")
    fatfs = rd("src/fs/fat/mod.rs")
    cir = ws(fn_body(fatfs, r"fn clus_in_rng\s*\(", "fat clus_in_rng"))
    if cir != ws("{ block >= fat::FIRST_DATA_CLUSTER as usize && block < fat::FIRST_DATA_CLUSTER as usize + self.boot_sector.cluster_count_usable() as usize }"):
        raise TranslatorError("c12: fat clus_in_rng is not the range test against cluster_count_usable")
    ccu = ws(fn_body(bpb, r"pub fn cluster_count_usable\s*\(", "cluster_count_usable"))
    if ws("u64::min( self.data_rgn_secs()/self.foundation.sec_per_clus() as u64, self.fat_secs() * self.sec_size() * 8 / typ - FIRST_DATA_CLUSTER as u64 )") not in ccu:
        raise TranslatorError("c12: cluster_count_usable is not in the modelled form")
    nc = ws(fn_body(fatfs, r"fn next_cluster\s*\(", "fat next_cluster"))
    if ws("if !self.clus_in_rng(n) {") not in nc or nc.index(ws("if !self.clus_in_rng(n) {")) > nc.index(ws("self.get_fat_buffer()")):
        raise TranslatorError("c12: fat next_cluster does not test the range before using the FAT buffer")
    gd = ws(fn_body(fatfs, r"fn get_cluster_chain_data\s*\(", "fat get_cluster_chain_data"))
    if ws("for _i in 0..max_clusters { if !self.clus_in_rng(curr.unwrap()) {") not in gd or ws("let max_clusters = self.boot_sector.cluster_count_usable() as usize;") not in gd:
        raise TranslatorError("c12: fat get_cluster_chain_data lost its range test or its iteration cap")
    gl = ws(fn_body(fatfs, r"fn get_cluster_chain_length\s*\(", "fat get_cluster_chain_length"))
    if ws("if !self.clus_in_rng(c as usize) {") not in gl or ws("for _i in 0..max_clusters {") not in gl:
        raise TranslatorError("c12: fat get_cluster_chain_length lost its range test or its iteration cap")

    # ---- IMD (guards that the no-panic theorem of the IMD front relies on) ----------------------------------
    imd = rd("src/img/imd.rs")
    m = re.search(r"impl DiskStruct for Track \{", imd)
    if not m:
        raise TranslatorError("c12: impl DiskStruct for Track not found in imd.rs")
    iu = ws(fn_body(imd[m.end():], r"fn update_from_bytes\s*\(", "imd Track::update_from_bytes"))
    for frag in ["check(bytes,5)?;", "if self.sector_shift==0xff {", "if self.sector_shift>6 {", "let mut ptr: usize = 5; check(bytes,ptr+self.sectors as usize)?;",
                 "if self.head & CYL_MAP_FLAG == CYL_MAP_FLAG { check(bytes,ptr+self.sectors as usize)?;",
                 "if self.head & HEAD_MAP_FLAG == HEAD_MAP_FLAG { check(bytes,ptr+self.sectors as usize)?;",
                 "for _lsec in 0..self.sectors { check(bytes,ptr+1)?; if SectorData::from_u8(bytes[ptr]).is_none() {",
                 "let sec_size = self.get_sec_buf_size(bytes[ptr]); check(bytes,ptr+sec_size)?; self.track_buf.append(&mut bytes[ptr..ptr+sec_size].to_vec()); ptr += sec_size;"]:
        if ws(frag) not in iu:
            raise TranslatorError("c12: imd Track::update_from_bytes lost a guard or is not in the modelled form (%s)" % frag[:40])
    gs = ws(fn_body(imd, r"fn get_sec_buf_size\s*\(", "imd get_sec_buf_size"))
    for frag in ["let sec_size = SECTOR_SIZE_BASE << self.sector_shift;", "Some(SectorData::None) => 1,", "Some(SectorData::Normal) => 1 + sec_size,",
                 "Some(SectorData::NormalCompressed) => 2,", "Some(SectorData::ErrorCompressedDeleted) => 2,", "Some(SectorData::ErrorDeleted) => 1 + sec_size,"]:
        if ws(frag) not in gs:
            raise TranslatorError("c12: imd get_sec_buf_size is not in the modelled form")
    if not re.search(r"pub const SECTOR_SIZE_BASE\s*:\s*usize\s*=\s*128\s*;", imd) or not re.search(r"pub const CYL_MAP_FLAG\s*:\s*u8\s*=\s*0x80\s*;", imd) \
            or not re.search(r"pub const HEAD_MAP_FLAG\s*:\s*u8\s*=\s*0x40\s*;", imd) or ws("ErrorCompressedDeleted = 8") not in ws(imd) or ws("None = 0,") not in ws(imd):
        raise TranslatorError("c12: imd constants are not the modelled ones")
    ifb = ws(fn_body(imd[imd.index("impl img::DiskImage for Imd"):], r"fn from_bytes\s*\(", "Imd::from_bytes"))
    for frag in ["if data.len()<29 {", "for i in 29..data.len() { if data[i]==0x1a { ptr = i; break; } } if ptr==0 {",
                 "if let Ok(comment) = String::from_utf8(data[29..ptr].to_vec()) {", "while ptr<data.len() { let compressed = Track::from_bytes_adv(&data[ptr..],&mut ptr)?;",
                 "ans.tracks.push(compressed.expand()); } if ans.tracks.len()==0 {"]:
        if ws(frag) not in ifb:
            raise TranslatorError("c12: Imd::from_bytes lost a guard or is not in the modelled form (%s)" % frag[:40])

    # ---- Pascal directory read path ---------------------------------------------------------------------------
    pas = rd("src/fs/pascal/mod.rs")
    gdir = ws(fn_body(pas, r"fn get_directory\s*\(img", "pascal get_directory"))
    for frag in ["ans.header = VolDirHeader::from_bytes(&buf[0..ENTRY_SIZE])?;", "if beg0!=0 || end<=beg || (end as usize)>ans.total_blocks() {",
                 "for iblock in beg..end { let mut temp = img.read_block(Block::PO(iblock as usize))?; buf.append(&mut temp); }",
                 "let max_num_entries = buf.len()/ENTRY_SIZE - 1; let mut offset = ENTRY_SIZE; for _i in 0..max_num_entries { ans.entries.push(DirectoryEntry::from_bytes(&buf[offset..offset+ENTRY_SIZE])?); offset += ENTRY_SIZE; }",
                 "if u16::from_le_bytes(ans.header.num_files) as usize > ans.entries.len() {"]:
        if ws(frag) not in gdir:
            raise TranslatorError("c12: pascal get_directory lost a guard or is not in the modelled form (%s)" % frag[:40])
    prf = ws(fn_body(pas, r"fn read_file\s*\(", "pascal read_file"))
    g1 = ws("if u16::from_le_bytes(entry.bytes_remaining) as usize > BLOCK_SIZE*ans.chunks.len() {")
    g2 = ws("BLOCK_SIZE as u32*ans.chunks.len() as u32 - u16::from_le_bytes(entry.bytes_remaining) as u32")
    if g1 not in prf or g2 not in prf or prf.index(g1) > prf.index(g2):
        raise TranslatorError("c12: pascal read_file does not guard the end-of-file subtraction")
    pty = rd("src/fs/pascal/types.rs")
    if not re.search(r"pub const BLOCK_SIZE\s*:\s*usize\s*=\s*512\s*;", pty) or not re.search(r"pub const ENTRY_SIZE\s*:\s*usize\s*=\s*26\s*;", pty) \
            or not re.search(r"pub const VOL_HEADER_BLOCK\s*:\s*usize\s*=\s*2\s*;", pty):
        raise TranslatorError("c12: pascal constants are not the modelled ones")

    # ---- 2MG header --------------------------------------------------------------------------------------------
    mg = rd("src/img/dot2mg.rs")
    mfb = ws(fn_body(mg[mg.index("impl img::DiskImage for Dot2mg"):], r"fn from_bytes\s*\(", "Dot2mg::from_bytes"))
    seq = ["if data.len()<64 {", "let header = Header::from_bytes(&data[0..64].to_vec())?;", "if fmt>2 {", "if data.len()<offset+len {",
           "&data[offset..offset+len]", "if data.len()<comment_off+comment_len {", "data[comment_off..comment_off+comment_len]",
           "if data.len()<creator_offset+creator_len {", "data[creator_offset..creator_offset+creator_len]",
           "if fmt==1 && blocks as usize * BLOCK_SIZE as usize != raw_img.byte_capacity() {"]
    pos = -1
    for frag in seq:
        k = mfb.find(ws(frag), pos + 1)
        if k < 0:
            raise TranslatorError("c12: Dot2mg::from_bytes lost a guard or its order changed (%s)" % frag[:40])
        pos = k
    for path, rx, what in [("src/img/dsk_do.rs", r"data\.len\(\)%BLOCK_SIZE > 0 \|\| data\.len\(\)/BLOCK_SIZE > MAX_BLOCKS \|\| data\.len\(\)/BLOCK_SIZE < MIN_BLOCKS", "DO size rule"),
                           ("src/img/dsk_po.rs", r"data\.len\(\)%BLOCK_SIZE > 0 \|\| data\.len\(\)/BLOCK_SIZE > MAX_BLOCKS \|\| data\.len\(\)/BLOCK_SIZE < MIN_BLOCKS", "PO size rule")]:
        t = rd(path)
        if not re.search(rx, t) or not re.search(r"const MAX_BLOCKS\s*:\s*usize\s*=\s*65535\s*;", t) or not re.search(r"const MIN_BLOCKS\s*:\s*usize\s*=\s*280\s*;", t):
            raise TranslatorError("c12: %s is not in the modelled form" % what)
    nib = rd("src/img/nib.rs")
    if not re.search(r"pub const TRACK_BYTE_CAPACITY_NIB\s*:\s*usize\s*=\s*6656\s*;", nib) or not re.search(r"pub const TRACK_BYTE_CAPACITY_NB2\s*:\s*usize\s*=\s*6384\s*;", nib):
        raise TranslatorError("c12: nibble track capacities are not the modelled ones")

    # ---- TD0 (repairs proposed in c12-td0-from-bytes-checks.diff: flags, as they may not be applied yet) ------
    td0 = rd("src/img/td0.rs")
    tfb = ws(fn_body(td0[td0.index("impl img::DiskImage for Td0"):], r"fn from_bytes\s*\(", "Td0::from_bytes"))
    term = choose(tfb, "while expanded[ptr]!=0xff {", "while ptr<expanded.len() && expanded[ptr]!=0xff {", "TD0 track loop condition")
    flags.append(("td0TermGuard", term, "Td0::from_bytes tests the bound before looking for the 0xFF terminator"))
    sg = ws("if sec.header.sector_shift>6 {")
    shift_guard = sg in tfb and tfb.index(sg) < tfb.index(ws("sec.unpack()"))
    flags.append(("td0ShiftGuard", shift_guard, "Td0::from_bytes refuses sector size codes above 6 before any `128 << shift`"))
    tg = ws("if ans.tracks.len()==0 {")
    tracks_guard = tg in tfb and tfb.index(tg) < tfb.index(ws("ans.tracks[0]"))
    flags.append(("td0TracksGuard", tracks_guard, "Td0::from_bytes refuses an image without track records before `tracks[0]`"))
    up = ws(fn_body(td0, r"fn unpack\s*\(&self\)", "td0 Sector::unpack"))
    for frag in ["let sector_size: usize = SECTOR_SIZE_BASE << self.header.sector_shift;", "if self.header.flags & NO_DATA_MASK > 0 {",
                 "let end = verified_get_slice!(self.data,ptr,2,&loc).to_vec();", "let encoding_code = verified_get_byte!(self.data,ptr,&loc);",
                 "ans.append(&mut verified_get_slice!(self.data,ptr,sector_size,&loc).to_vec());", "let b = verified_get_slice!(self.data,ptr,4,&loc).to_vec();",
                 "let read_count = 2*(verified_get_byte!(self.data,ptr,&loc) as usize);", "ans.append(&mut verified_get_slice!(self.data,ptr,rw_count,&loc).to_vec());",
                 "let buf = verified_get_slice!(self.data,ptr,read_count,&loc).to_vec();"]:
        if ws(frag) not in up:
            raise TranslatorError("c12: td0 Sector::unpack is not in the modelled form (%s)" % frag[:40])
    if ws("match $ptr < $slf.$ibuf.len() { true => { $ptr += 1; $slf.$ibuf[$ptr-1] },") not in ws(td0) or \
            ws("match $ptr + $len <= $slf.$ibuf.len() { true => { $ptr += $len; &$slf.$ibuf[$ptr-$len..$ptr] },") not in ws(td0):
        raise TranslatorError("c12: td0 checked read macros are not in the modelled form")

    # ---- detokenizers -------------------------------------------------------------------------------------
    at = ws(fn_body(rd("src/lang/applesoft/tokenizer.rs"), r"pub fn detokenize\s*\(", "applesoft detokenize"))
    fixed = choose(at, "addr = naddr; if img[addr]==QUOTE {", "addr = naddr; if addr < img.len() && img[addr]==QUOTE {", "applesoft closing quote test")
    flags.append(("applesoftQuoteGuard", fixed, "Applesoft detokenize tests the bound before looking for the closing quote"))
    if ws("while addr < 65533 && addr+1<img.len() && (img[addr]!=0 || img[addr+1]!=0) && line_count < self.config.detokenizer.max_lines {") not in at \
            or ws("while addr < img.len() && img[addr]!=0 && addr < line_addr + self.config.detokenizer.max_line_length as usize {") not in at \
            or ws("if addr+1 >= img.len() {") not in at:
        raise TranslatorError("c12: applesoft detokenize loop conditions are not in the modelled form")
    it = ws(fn_body(rd("src/lang/integer/tokenizer.rs"), r"pub fn detokenize\s*\(", "integer detokenize"))
    fixed = choose(it, "code += &escaped; if img[addr] == CLOSE_QUOTE {", "code += &escaped; if addr < img.len() && img[addr] == CLOSE_QUOTE {", "integer closing quote test")
    flags.append(("integerQuoteGuard", fixed, "Integer BASIC detokenize tests the bound before looking for the closing quote"))
    if ws("while addr < 65536 && addr+2<img.len() && line_count < self.config.detokenizer.max_lines {") not in it \
            or ws("for rep in 0..=self.config.detokenizer.max_line_length {") not in it:
        raise TranslatorError("c12: integer detokenize loop conditions are not in the modelled form")
    ie = ws(fn_body(rd("src/lang/integer/mod.rs"), r"pub fn bytes_to_escaped_string_ex\s*\(", "integer bytes_to_escaped_string_ex"))
    fixed = choose(ie, "let is_hex = |x_neg: u8| -> bool { let x = x_neg - 128;", "let is_hex = |x_neg: u8| -> bool { if x_neg < 128 { return false; } let x = x_neg - 128;", "integer escape hex test")
    flags.append(("integerHexGuard", fixed, "Integer BASIC escape scanner does not subtract 128 from a positive ASCII byte"))
    consts.append(("applesoftMaxLines", setting(P("src/lang/applesoft/settings.rs"), "max_lines")))
    consts.append(("applesoftMaxLineLength", setting(P("src/lang/applesoft/settings.rs"), "max_line_length")))
    consts.append(("integerMaxLines", setting(P("src/lang/integer/settings.rs"), "max_lines")))
    consts.append(("integerMaxLineLength", setting(P("src/lang/integer/settings.rs"), "max_line_length")))
    consts.append(("applesoftTokens", detok_keys(P("src/lang/applesoft/token_maps.rs"))))
    consts.append(("integerTokens", detok_keys(P("src/lang/integer/token_maps.rs"))))

    # ---- render ---------------------------------------------------------------------------------------------
    lines = ["/-! GENERATED by /verif/translator/gen_c12.py from %s -- do not edit; regenerated on every run." % ", ".join(FILES),
             "`true` = the repaired form of the guard is in the source now; `false` = the code is as at the pinned snapshot. -/",
             "namespace A2Verif.Gen.C12Flags", ""]
    for name, val, doc in flags:
        lines.append("/-- %s -/" % doc)
        lines.append("def %s : Bool := %s" % (name, "true" if val else "false"))
    lines.append("")
    for name, val in consts:
        if isinstance(val, list):
            lines.append("def %s : List Nat := [%s]" % (name, ", ".join(str(v) for v in val)))
        else:
            lines.append("def %s : Nat := %d" % (name, val))
    lines += ["", "end A2Verif.Gen.C12Flags", ""]
    return {"C12Flags": "\n".join(lines)}, {"C12Flags": digest([P(f) for f in FILES])}


if __name__ == "__main__":
    import sys
    mods, ds = generate(sys.argv[1] if len(sys.argv) > 1 else "/repo")
    print(mods["C12Flags"])
    print(ds)
