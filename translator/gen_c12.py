"""C12 translator: which robustness guards does the source contain *now*, plus the constants the panic-explicit
Lean models of the parsing fronts depend on.

Emits `A2Verif.Gen.C12Flags`:

* one `Bool` per guard.  `false` = the code is as it was at the pinned snapshot (the front can panic: the model
  `…Orig` is what the driver runs and the no-panic theorem about the *current* code does not go through);
  `true` = the repaired form is present (the driver runs `…Fixed`).  A site that matches neither the original
  nor the repaired text raises `TranslatorError`: the correspondence would be unknown, so the check must not
  pass silently.
* the BPB allow-lists, the WOZ2 TRKS geometry constants, the detokenizer caps and the sets of token bytes the
  detokenizers know (taken from `DETOK_MAP`), all as `Nat`/`List Nat`.

Purely syntactic (regular expressions over comment-stripped source).
"""
import os, re

try:
    from gen import TranslatorError, strip_rust_comments, digest
except Exception:  # stand-alone use
    import hashlib

    class TranslatorError(Exception):
        pass

    def strip_rust_comments(src):
        src = re.sub(r"/\*.*?\*/", "", src, flags=re.S)
        return re.sub(r"//[^\n]*", "", src)

    def digest(paths):
        h = hashlib.sha256()
        for p in paths:
            h.update(open(p, "rb").read())
        return h.hexdigest()[:16]

FILES = ["src/fs/fimg.rs", "src/bios/bpb.rs", "src/img/woz.rs", "src/img/woz2.rs", "src/lang/applesoft/tokenizer.rs",
         "src/lang/applesoft/mod.rs", "src/lang/applesoft/settings.rs", "src/lang/applesoft/token_maps.rs",
         "src/lang/integer/tokenizer.rs", "src/lang/integer/mod.rs", "src/lang/integer/settings.rs",
         "src/lang/integer/token_maps.rs"]


def ws(s):
    return re.sub(r"\s+", "", s)


def fn_body(src, header_regex, what):
    """text of the function whose header matches `header_regex` (balanced braces)"""
    m = re.search(header_regex, src)
    if not m:
        raise TranslatorError("c12: cannot find %s" % what)
    i = src.find("{", m.end() - 1)
    if i < 0:
        raise TranslatorError("c12: no body for %s" % what)
    depth, j = 0, i
    while j < len(src):
        if src[j] == "{":
            depth += 1
        elif src[j] == "}":
            depth -= 1
            if depth == 0:
                return src[i:j + 1]
        j += 1
    raise TranslatorError("c12: unbalanced braces in %s" % what)


def choose(text, orig, fixed, what):
    """text (whitespace-free) must contain exactly one of the two whitespace-free forms"""
    o, f = ws(orig) in text, ws(fixed) in text
    if f and not (o and ws(orig) not in ws(fixed)):
        return True
    if o and not f:
        return False
    raise TranslatorError("c12: %s matches neither the original nor the repaired form" % what)


def int_list(text, regex, what):
    m = re.search(regex, text)
    if not m:
        raise TranslatorError("c12: cannot find %s" % what)
    try:
        return [int(x, 0) for x in m.group(1).split(",") if x.strip()]
    except ValueError:
        raise TranslatorError("c12: %s is not a list of integer literals" % what)


def detok_keys(path):
    src = strip_rust_comments(open(path).read())
    m = re.search(r"pub const DETOK_MAP\s*:\s*\[\(u8,&str\);\s*(\d+)\]\s*=\s*\[(.*?)\];", src, flags=re.S)
    if not m:
        raise TranslatorError("c12: DETOK_MAP not found in %s" % path)
    keys = [int(k) for k in re.findall(r"\(\s*(\d+)\s*,\s*\"", m.group(2))]
    if len(keys) != int(m.group(1)):
        raise TranslatorError("c12: DETOK_MAP in %s has %d keys, declared %s" % (path, len(keys), m.group(1)))
    if any(k > 255 for k in keys):
        raise TranslatorError("c12: DETOK_MAP key out of range in %s" % path)
    return sorted(set(keys))


def setting(path, name):
    src = strip_rust_comments(open(path).read())
    m = re.search(r"\b%s\s*:\s*(\d+)\s*[,}\n]" % name, src)
    if not m:
        raise TranslatorError("c12: default of %s not found in %s" % (name, path))
    return int(m.group(1))


def generate(repo):
    P = lambda r: os.path.join(repo, r)
    rd = lambda r: strip_rust_comments(open(P(r)).read())
    flags, consts, notes = [], [], {}

    # ---- FileImage::from_json / version_tuple ------------------------------------------------------------
    fimg = rd("src/fs/fimg.rs")
    fj = ws(fn_body(fimg, r"pub fn from_json\s*\(", "FileImage::from_json"))
    fixed = choose(fj, "let vers_tup = Self::version_tuple(&fimg_version);",
                   "let vers_tup = match Self::try_version_tuple(&fimg_version) { Some(tup) => tup, None => {", "from_json version parsing")
    vt = ws(fn_body(fimg, r"pub fn version_tuple\s*\(", "FileImage::version_tuple"))
    if ws('vers.split(".").map(|s| usize::from_str(s).expect("bad version format")).collect(); (v[0],v[1],v[2])') not in vt:
        raise TranslatorError("c12: version_tuple is not in the modelled form")
    if fixed:
        tv = ws(fn_body(fimg, r"pub fn try_version_tuple\s*\(", "FileImage::try_version_tuple"))
        if ws('for s in vers.split(".") { v.push(usize::from_str(s).ok()?); } if v.len() < 3 { return None; } Some((v[0],v[1],v[2]))') not in tv:
            raise TranslatorError("c12: try_version_tuple is not in the modelled form")
    if ws("if vers_tup < (2,0,0) {") not in fj or fj.count(ws("vers_tup >= (2,1,0)")) != 2:
        raise TranslatorError("c12: from_json version thresholds are not in the modelled form")
    flags.append(("fimgTryVersion", fixed, "FileImage::from_json parses the version with a checked `try_version_tuple`"))

    # ---- BootSector::verify -----------------------------------------------------------------------------
    bpb = rd("src/bios/bpb.rs")
    bv = ws(fn_body(bpb, r"pub fn verify\s*\(\s*sec_data", "BootSector::verify"))
    fixed = choose(bv, "ans |= bpb.verify();", "ans &= bpb.verify();", "BootSector::verify combination of the BPB test")
    flags.append(("bpbVerifyAnd", fixed, "BootSector::verify requires (`&=`) the BPBFoundation test"))
    fv = fn_body(bpb, r"pub fn verify\s*\(\s*&self", "BPBFoundation::verify")
    consts.append(("bpbSecSizes", int_list(fv, r"!\[([0-9,\s]+)\]\.contains\(&bytes\)", "allowed sector sizes")))
    consts.append(("bpbSecPerClus", int_list(fv, r"!\[([0-9,\s]+)\]\.contains\(&self\.sec_per_clus\)", "allowed sectors per cluster")))
    for frag, what in [("if sec_data.len()<512 {", "length test"), ("if fat_secs==0 {", "FAT size test"),
                       ("if bpb.tot_sec() <= bpb.res_secs() as u64 + (bpb.num_fats as u64 * fat_secs) + bpb.root_dir_secs() {", "data region test")]:
        if ws(frag) not in bv:
            raise TranslatorError("c12: BootSector::verify lost its %s" % what)
    for frag, what in [("if self.reserved_sectors==[0,0] {", "reserved sectors test"), ("if self.num_fats==0 {", "FAT count test"),
                       ("if bytes > 0 && (entries*32)%bytes != 0 {", "root entries test"),
                       ("if self.tot_sec_16==[0,0] && self.tot_sec_32==[0,0,0,0] {", "total sectors test")]:
        if ws(frag) not in ws(fv):
            raise TranslatorError("c12: BPBFoundation::verify lost its %s" % what)
    if ws("self.tot_sec() - (self.res_secs() as u64 + (self.foundation.num_fats as u64 * self.fat_secs()) + self.root_dir_secs())") not in ws(bpb) \
            or ws("self.data_rgn_secs()/self.foundation.sec_per_clus() as u64") not in ws(bpb):
        raise TranslatorError("c12: data_rgn_secs / cluster_count_abstract are not in the modelled form")
    m = re.search(r"x if x < (\d+) => 12,\s*x if x < (\d+) => 16,", bpb)
    if not m:
        raise TranslatorError("c12: fat_type cutoffs not found")
    consts.append(("fat12Cutoff", int(m.group(1))))
    consts.append(("fat16Cutoff", int(m.group(2))))

    # ---- WOZ2 ---------------------------------------------------------------------------------------------
    woz2 = rd("src/img/woz2.rs")
    m = re.search(r"impl DiskStruct for Trks \{", woz2)
    if not m:
        raise TranslatorError("c12: impl DiskStruct for Trks not found in woz2.rs")
    tu = ws(fn_body(woz2[m.end():], r"fn update_from_bytes\s*\(", "woz2 Trks::update_from_bytes"))
    for frag in ["for track in 0..160 { let trk = Trk::from_bytes(&bytes[8+track*8..16+track*8].to_vec())?;",
                 "let bitstream_bytes = u32::from_le_bytes(self.size) - 1280; if bitstream_bytes%512>0 {",
                 "self.bits.append(&mut bytes[1288..].to_vec());"]:
        if ws(frag) not in tu:
            raise TranslatorError("c12: woz2 Trks::update_from_bytes is not in the modelled form")
    len_guard = ws("if bytes.len()<1288 {") in tu and tu.index(ws("if bytes.len()<1288 {")) < tu.index("bytes[")
    size_guard = ws("if u32::from_le_bytes(self.size)<1280 {") in tu and \
        tu.index(ws("if u32::from_le_bytes(self.size)<1280 {")) < tu.index(ws("u32::from_le_bytes(self.size) - 1280"))
    if not len_guard and "bytes.len()" in tu or not size_guard and tu.count("u32::from_le_bytes(self.size)") != 1:
        raise TranslatorError("c12: woz2 Trks::update_from_bytes has a guard in an unknown form")
    flags.append(("woz2TrksLenGuard", len_guard, "woz2 Trks::update_from_bytes refuses a chunk shorter than 1288 bytes"))
    flags.append(("woz2TrksSizeGuard", size_guard, "woz2 Trks::update_from_bytes refuses a TRKS size below 1280"))
    wfb = ws(fn_body(woz2[woz2.index("impl img::DiskImage for Woz2"):], r"fn from_bytes\s*\(", "Woz2::from_bytes"))
    dt_guard = ws("match (ans.info.disk_type,ans.info.disk_sides) { (1,1) | (2,1) | (2,2) => {}, _ => {") in wfb
    if not dt_guard and "disk_sides" in wfb.split(ws("ans.kind = match"))[0]:
        raise TranslatorError("c12: Woz2::from_bytes has a disk type guard in an unknown form")
    flags.append(("woz2DiskTypeGuard", dt_guard, "Woz2::from_bytes refuses disk type / sides that track_count cannot handle"))
    woz = ws(fn_body(rd("src/img/woz.rs"), r"pub fn get_next_chunk\s*\(", "get_next_chunk"))
    for frag in ["if ptr+8 > buf.len() { return (0,0,None); }", "let end = ptr + 8 + size as usize;", "if end > buf.len() { return (0,0,None); }",
                 "if next+8 > buf.len() { next = 0; }", "INFO_ID | TMAP_ID | TRKS_ID | WRIT_ID | META_ID => {"]:
        if ws(frag) not in woz:
            raise TranslatorError("c12: get_next_chunk is not in the modelled form")

    # ---- detokenizers -------------------------------------------------------------------------------------
    at = ws(fn_body(rd("src/lang/applesoft/tokenizer.rs"), r"pub fn detokenize\s*\(", "applesoft detokenize"))
    fixed = choose(at, "addr = naddr; if img[addr]==QUOTE {", "addr = naddr; if addr < img.len() && img[addr]==QUOTE {", "applesoft closing quote test")
    flags.append(("applesoftQuoteGuard", fixed, "Applesoft detokenize tests the bound before looking for the closing quote"))
    if ws("while addr < 65533 && addr+1<img.len() && (img[addr]!=0 || img[addr+1]!=0) && line_count < self.config.detokenizer.max_lines {") not in at \
            or ws("while addr < img.len() && img[addr]!=0 && addr < line_addr + self.config.detokenizer.max_line_length as usize {") not in at \
            or ws("if addr+1 >= img.len() {") not in at:
        raise TranslatorError("c12: applesoft detokenize loop conditions are not in the modelled form")
    it = ws(fn_body(rd("src/lang/integer/tokenizer.rs"), r"pub fn detokenize\s*\(", "integer detokenize"))
    fixed = choose(it, "code += &escaped; if img[addr] == CLOSE_QUOTE {", "code += &escaped; if addr < img.len() && img[addr] == CLOSE_QUOTE {", "integer closing quote test")
    flags.append(("integerQuoteGuard", fixed, "Integer BASIC detokenize tests the bound before looking for the closing quote"))
    if ws("while addr < 65536 && addr+2<img.len() && line_count < self.config.detokenizer.max_lines {") not in it \
            or ws("for rep in 0..=self.config.detokenizer.max_line_length {") not in it:
        raise TranslatorError("c12: integer detokenize loop conditions are not in the modelled form")
    ie = ws(fn_body(rd("src/lang/integer/mod.rs"), r"pub fn bytes_to_escaped_string_ex\s*\(", "integer bytes_to_escaped_string_ex"))
    fixed = choose(ie, "let is_hex = |x_neg: u8| -> bool { let x = x_neg - 128;", "let is_hex = |x_neg: u8| -> bool { if x_neg < 128 { return false; } let x = x_neg - 128;", "integer escape hex test")
    flags.append(("integerHexGuard", fixed, "Integer BASIC escape scanner does not subtract 128 from a positive ASCII byte"))
    consts.append(("applesoftMaxLines", setting(P("src/lang/applesoft/settings.rs"), "max_lines")))
    consts.append(("applesoftMaxLineLength", setting(P("src/lang/applesoft/settings.rs"), "max_line_length")))
    consts.append(("integerMaxLines", setting(P("src/lang/integer/settings.rs"), "max_lines")))
    consts.append(("integerMaxLineLength", setting(P("src/lang/integer/settings.rs"), "max_line_length")))
    consts.append(("applesoftTokens", detok_keys(P("src/lang/applesoft/token_maps.rs"))))
    consts.append(("integerTokens", detok_keys(P("src/lang/integer/token_maps.rs"))))

    # ---- render ---------------------------------------------------------------------------------------------
    lines = ["/-! GENERATED by /verif/translator/gen_c12.py from %s -- do not edit; regenerated on every run." % ", ".join(FILES),
             "`true` = the repaired form of the guard is in the source now; `false` = the code is as at the pinned snapshot. -/",
             "namespace A2Verif.Gen.C12Flags", ""]
    for name, val, doc in flags:
        lines.append("/-- %s -/" % doc)
        lines.append("def %s : Bool := %s" % (name, "true" if val else "false"))
    lines.append("")
    for name, val in consts:
        if isinstance(val, list):
            lines.append("def %s : List Nat := [%s]" % (name, ", ".join(str(v) for v in val)))
        else:
            lines.append("def %s : Nat := %d" % (name, val))
    lines += ["", "end A2Verif.Gen.C12Flags", ""]
    return {"C12Flags": "\n".join(lines)}, {"C12Flags": digest([P(f) for f in FILES])}


if __name__ == "__main__":
    import sys
    mods, ds = generate(sys.argv[1] if len(sys.argv) > 1 else "/repo")
    print(mods["C12Flags"])
    print(ds)
