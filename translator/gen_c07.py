"""Translator part of family c07: emits A2Verif/Gen/C07.lean from the current source.

  * every `TrackLayout` const of src/img/names.rs (cylinders, sides, sectors, sector_size) as a
    constructor of `LayoutName` + `LayoutName.layout`, and every `*_KIND` const (package + layout);
  * `get_skew` of src/img/imd.rs and src/img/td0.rs (the CP/M logical-sector -> sector-id tables the two
    containers select per disk kind and head) in canonical form (per layout: head 0, head 1, any other head);
  * `Track::create`'s `sector_map` of imd.rs and td0.rs (which sector ids exist on which track);
  * scalar geometry constants of the flat Apple containers (dsk_do.rs, dsk_po.rs, dsk_d13.rs, nib.rs).

Purely syntactic; raises TranslatorError on anything it does not recognise.
"""
import os, re
import gen
from gen import TranslatorError, strip_rust_comments, eval_const_expr, extract_tables, digest


def _balanced(src, i, open_ch="{", close_ch="}"):
    """src[i] is open_ch; returns index of the matching close_ch"""
    if src[i] != open_ch:
        raise TranslatorError("expected %r at %d" % (open_ch, i))
    depth = 0
    j = i
    while j < len(src):
        if src[j] == open_ch:
            depth += 1
        elif src[j] == close_ch:
            depth -= 1
            if depth == 0:
                return j
        j += 1
    raise TranslatorError("unbalanced %r" % open_ch)


def _split_top(s, sep=","):
    parts, depth, cur = [], 0, ""
    for ch in s:
        if ch in "([{":
            depth += 1
        elif ch in ")]}":
            depth -= 1
        if ch == sep and depth == 0:
            parts.append(cur)
            cur = ""
        else:
            cur += ch
    if cur.strip():
        parts.append(cur)
    return parts


def parse_layouts(names_src):
    """-> ordered [(NAME, {field: [5 ints]})], [(KIND_NAME, package, LAYOUT_NAME)]"""
    src = strip_rust_comments(names_src)
    layouts = []
    for m in re.finditer(r"pub\s+const\s+([A-Z][A-Z0-9_]*)\s*:\s*TrackLayout\s*=\s*TrackLayout\s*\{", src):
        i = m.end() - 1
        j = _balanced(src, i)
        body = src[i + 1:j]
        fields = {}
        for part in _split_top(body):
            mm = re.fullmatch(r"\s*([a-z_]+)\s*:\s*(.+?)\s*", part, re.S)
            if not mm:
                raise TranslatorError("names.rs: cannot parse field %r of %s" % (part, m.group(1)))
            fields[mm.group(1)] = mm.group(2)
        rec = {}
        for f in ("cylinders", "sides", "sectors", "sector_size"):
            if f not in fields:
                raise TranslatorError("names.rs: layout %s lacks field %s" % (m.group(1), f))
            v = fields[f]
            mu = re.fullmatch(r"uni!\((.+)\)", v)
            if mu:
                val = [eval_const_expr(mu.group(1), {}), 0, 0, 0, 0]
            else:
                val = gen.parse_array(v, {})
            if not (isinstance(val, list) and len(val) == 5 and all(isinstance(x, int) for x in val)):
                raise TranslatorError("names.rs: %s.%s is not a 5-vector" % (m.group(1), f))
            rec[f] = val
        layouts.append((m.group(1), rec))
    if not layouts:
        raise TranslatorError("names.rs: no TrackLayout constants found")
    known = {n for n, _ in layouts}
    kinds = []
    for m in re.finditer(r"pub\s+const\s+([A-Z][A-Z0-9_]*)\s*:\s*DiskKind\s*=\s*([^;]+);", src):
        name, rhs = m.group(1), m.group(2).strip()
        mm = re.fullmatch(r"DiskKind::(D3|D35|D525|D8)\(\s*([A-Z][A-Z0-9_]*)\s*\)", rhs)
        if mm:
            if mm.group(2) not in known:
                raise TranslatorError("names.rs: kind %s refers to unknown layout %s" % (name, mm.group(2)))
            kinds.append((name, mm.group(1), mm.group(2)))
        elif re.fullmatch(r"DiskKind::LogicalBlocks\(\s*BlockLayout\s*\{[^}]*\}\s*\)", rhs):
            continue
        else:
            raise TranslatorError("names.rs: cannot parse kind %s = %r" % (name, rhs))
    return layouts, kinds


def _parse_u8_vec(expr, skew_tables):
    """the few Vec<u8> expression shapes used for sector id tables"""
    e = expr.strip()
    m = re.fullmatch(r"Ok\((.*)\)", e, re.S)
    if m:
        e = m.group(1).strip()
    m = re.fullmatch(r"skew::([A-Z][A-Z0-9_]*)\.to_vec\(\)", e)
    if m:
        if m.group(1) not in skew_tables:
            raise TranslatorError("unknown skew table %s" % m.group(1))
        return list(skew_tables[m.group(1)])
    m = re.fullmatch(r"\(\s*([0-9]+)\s*\.\.\s*([0-9]+)\s*\)\.collect\(\)", e)
    if m:
        return list(range(int(m.group(1)), int(m.group(2))))
    m = re.fullmatch(r"vec!\[(.*)\]", e, re.S)
    if m:
        return [gen.parse_int(x) for x in _split_top(m.group(1))]
    raise TranslatorError("unsupported sector table expression %r" % expr)


def parse_get_skew(path, kinds, skew_tables):
    """-> ordered arms [(layout_name, head or None, [ids])] of `fn get_skew`"""
    src = strip_rust_comments(open(path).read())
    m = re.search(r"fn\s+get_skew\s*\(\s*&self\s*,\s*head\s*:\s*usize\s*\)[^{]*\{", src)
    if not m:
        raise TranslatorError("%s: fn get_skew not found" % path)
    body = src[m.end():_balanced(src, m.end() - 1)]
    mm = re.search(r"match\s*\(\s*self\.kind\s*,\s*head\s*\)\s*\{", body)
    if not mm:
        raise TranslatorError("%s: get_skew is not a match on (self.kind,head)" % path)
    arms_txt = body[mm.end():_balanced(body, mm.end() - 1)]
    kind2layout = {k: l for k, _, l in kinds}
    arms = []
    default_seen = False
    pos = 0
    arm_re = re.compile(r"\s*(\([^=]*?\)|_)\s*=>\s*", re.S)
    while pos < len(arms_txt):
        if not arms_txt[pos:].strip():
            break
        am = arm_re.match(arms_txt, pos)
        if not am:
            raise TranslatorError("%s: cannot parse get_skew arm at %r" % (path, arms_txt[pos:pos + 60]))
        pat = am.group(1)
        k = am.end()
        if arms_txt[k] == "{":
            e = _balanced(arms_txt, k)
            rhs = arms_txt[k:e + 1]
            k = e + 1
        else:
            depth, e = 0, k
            while e < len(arms_txt) and not (arms_txt[e] == "," and depth == 0):
                if arms_txt[e] in "([{":
                    depth += 1
                elif arms_txt[e] in ")]}":
                    depth -= 1
                e += 1
            rhs = arms_txt[k:e]
            k = e
        if k < len(arms_txt) and arms_txt[k] == ",":
            k += 1
        pos = k
        if pat == "_":
            if "Err(" not in rhs:
                raise TranslatorError("%s: get_skew default arm is not an error" % path)
            default_seen = True
            continue
        if default_seen:
            raise TranslatorError("%s: arm after default in get_skew" % path)
        pm = re.fullmatch(r"\(\s*(.+?)\s*,\s*(_|[0-9]+)\s*\)", pat, re.S)
        if not pm:
            raise TranslatorError("%s: unsupported get_skew pattern %r" % (path, pat))
        kp, hp = pm.group(1), pm.group(2)
        km = re.fullmatch(r"(?:super::)?(?:names::)?([A-Z][A-Z0-9_]*_KIND)", kp)
        lm = re.fullmatch(r"(?:super::)?DiskKind::(?:D3|D35|D525|D8)\(\s*(?:super::)?(?:names::)?([A-Z][A-Z0-9_]*)\s*\)", kp)
        if km and km.group(1) in kind2layout:
            lay = kind2layout[km.group(1)]
        elif lm:
            lay = lm.group(1)
        else:
            raise TranslatorError("%s: unsupported disk kind pattern %r in get_skew" % (path, kp))
        arms.append((lay, None if hp == "_" else int(hp), _parse_u8_vec(rhs, skew_tables)))
    if not default_seen:
        raise TranslatorError("%s: get_skew has no default arm" % path)
    return arms


def parse_sector_map(path, skew_tables):
    """`let sector_map: Vec<u8> = match *layout {...}` inside `Track::create` ->
    arms [(layout_name, selector, [(key or None, ids)])], selector in {'all','mod2','num'};
    the default arm must be `default_map` = (1..layout.sectors[0]+1)"""
    src = strip_rust_comments(open(path).read())
    m = re.search(r"let\s+default_map\s*:\s*Vec<u8>\s*=\s*\(\s*1\s*\.\.\s*layout\.sectors\[0\]\s*as\s+u8\s*\+\s*1\s*\)\.collect\(\)\s*;", src)
    if not m:
        raise TranslatorError("%s: default_map is not (1..layout.sectors[0] as u8 + 1)" % path)
    m = re.search(r"let\s+sector_map\s*:\s*Vec<u8>\s*=\s*match\s*\*layout\s*\{", src)
    if not m:
        raise TranslatorError("%s: sector_map match not found" % path)
    body = src[m.end():_balanced(src, m.end() - 1)]
    arms = []
    default_seen = False
    for part in _split_top(body):
        if not part.strip():
            continue
        pm = re.fullmatch(r"\s*(.+?)\s*=>\s*(.+?)\s*", part, re.S)
        if not pm:
            raise TranslatorError("%s: cannot parse sector_map arm %r" % (path, part))
        pat, rhs = pm.group(1), pm.group(2)
        if pat == "_":
            if rhs != "default_map":
                raise TranslatorError("%s: sector_map default is %r" % (path, rhs))
            default_seen = True
            continue
        lm = re.fullmatch(r"(?:super::)?(?:names::)?([A-Z][A-Z0-9_]*)", pat)
        if not lm:
            raise TranslatorError("%s: unsupported layout pattern %r" % (path, pat))
        sm = re.fullmatch(r"match\s+track_num\s*(%\s*2)?\s*\{(.*)\}", rhs, re.S)
        if sm:
            sel = "mod2" if sm.group(1) else "num"
            sub = []
            for sp in _split_top(sm.group(2)):
                if not sp.strip():
                    continue
                spm = re.fullmatch(r"\s*(_|[0-9]+)\s*=>\s*(.+?)\s*", sp, re.S)
                if not spm:
                    raise TranslatorError("%s: cannot parse %r" % (path, sp))
                sub.append((None if spm.group(1) == "_" else int(spm.group(1)), _parse_u8_vec(spm.group(2), skew_tables)))
            if not sub or sub[-1][0] is not None:
                raise TranslatorError("%s: inner sector_map match lacks default" % path)
            arms.append((lm.group(1), sel, sub))
        else:
            arms.append((lm.group(1), "all", [(None, _parse_u8_vec(rhs, skew_tables))]))
    if not default_seen:
        raise TranslatorError("%s: sector_map has no default arm" % path)
    return arms


def parse_dpbs(dpb_src, kinds):
    """-> [(layout_name, {spt,bsh,dsm,off})] following `DiskParameterBlock::create`"""
    src = strip_rust_comments(dpb_src)
    consts = {}
    for m in re.finditer(r"pub\s+const\s+([A-Z][A-Z0-9_]*)\s*:\s*DiskParameterBlock\s*=\s*DiskParameterBlock\s*\{", src):
        i = m.end() - 1
        body = src[i + 1:_balanced(src, i)]
        rec = {}
        for part in _split_top(body):
            mm = re.fullmatch(r"\s*([a-z_0-9]+)\s*:\s*(.+?)\s*", part, re.S)
            if not mm:
                raise TranslatorError("dpb.rs: cannot parse field %r of %s" % (part, m.group(1)))
            if mm.group(1) in ("spt", "bsh", "dsm", "off"):
                rec[mm.group(1)] = eval_const_expr(mm.group(2), {})
        if set(rec) != {"spt", "bsh", "dsm", "off"}:
            raise TranslatorError("dpb.rs: DPB %s lacks spt/bsh/dsm/off" % m.group(1))
        consts[m.group(1)] = rec
    m = re.search(r"pub\s+fn\s+create\s*\(\s*kind\s*:\s*&crate::img::DiskKind\s*\)\s*->\s*Self\s*\{\s*match\s*\*kind\s*\{", src)
    if not m:
        raise TranslatorError("dpb.rs: DiskParameterBlock::create not found")
    body = src[m.end():_balanced(src, m.end() - 1)]
    kind2layout = {k: l for k, _, l in kinds}
    out = []
    default_seen = False
    for part in _split_top(body):
        if not part.strip():
            continue
        mm = re.fullmatch(r"\s*(.+?)\s*=>\s*(.+?)\s*", part, re.S)
        if not mm:
            raise TranslatorError("dpb.rs: cannot parse create arm %r" % part)
        if mm.group(1) == "_":
            if "panic!" not in mm.group(2):
                raise TranslatorError("dpb.rs: default arm of create is not a panic")
            default_seen = True
            continue
        km = re.fullmatch(r"crate::img::names::([A-Z][A-Z0-9_]*_KIND)", mm.group(1))
        if not km or km.group(1) not in kind2layout or mm.group(2) not in consts:
            raise TranslatorError("dpb.rs: unsupported create arm %r" % part)
        out.append((kind2layout[km.group(1)], consts[mm.group(2)]))
    if not default_seen or not out:
        raise TranslatorError("dpb.rs: create has no arms / no default")
    return out


def parse_mkdsk_patterns(mkdsk_src, kinds):
    """macro_rules! ibm_patterns / cpm_patterns -> lists of layout names; plus the pairing
    (image type, pattern) arms of `mkimage` that use them"""
    src = strip_rust_comments(mkdsk_src)
    kind2layout = {k: l for k, _, l in kinds}
    res = {}
    for name in ("ibm_patterns", "cpm_patterns"):
        m = re.search(r"macro_rules!\s*" + name + r"\s*\{\s*\(\s*\)\s*=>\s*\{", src)
        if not m:
            raise TranslatorError("mkdsk.rs: macro %s not found" % name)
        body = src[m.end():_balanced(src, m.end() - 1)]
        lays = []
        for alt in body.split("|"):
            a = alt.strip().rstrip(";").strip()
            m1 = re.fullmatch(r"DiskKind::(?:D3|D35|D525|D8)\(\s*names::([A-Z][A-Z0-9_]*)\s*\)", a)
            m2 = re.fullmatch(r"names::([A-Z][A-Z0-9_]*_KIND)", a)
            if m1:
                lays.append(m1.group(1))
            elif m2 and m2.group(1) in kind2layout:
                lays.append(kind2layout[m2.group(1)])
            else:
                raise TranslatorError("mkdsk.rs: unsupported alternative %r in %s" % (a, name))
        res[name] = lays
    pairs = sorted(set(re.findall(r"\(\s*DiskImageType::(IMG|IMD|TD0)\s*,\s*(ibm_patterns|cpm_patterns)!\(\)\s*\)\s*=>", src)))
    if not pairs:
        raise TranslatorError("mkdsk.rs: no (IMG|IMD|TD0, patterns) arms found in mkimage")
    res["pairs"] = pairs
    return res


def lean_list(xs):
    return "[" + ", ".join(str(x) for x in xs) + "]"


def render(layouts, kinds, skews, maps, scalars, dpbs, pats, rels):
    L = ["/-! GENERATED by /verif/translator/gen_c07.py from %s -- do not edit; regenerated on every run -/" % ", ".join(rels),
         "namespace A2Verif.Gen.C07", "",
         "/-- `img::TrackLayout` restricted to the geometry fields -/",
         "structure Layout where",
         "  cylinders : List Nat",
         "  sides : List Nat",
         "  sectors : List Nat",
         "  sectorSize : List Nat",
         "deriving DecidableEq, Repr", "",
         "/-- one constructor per `TrackLayout` const of src/img/names.rs -/",
         "inductive LayoutName"]
    for n, _ in layouts:
        L.append("  | %s" % n)
    L += ["deriving DecidableEq, Repr", "", "def LayoutName.all : List LayoutName := [" + ", ".join(".%s" % n for n, _ in layouts) + "]", "",
          "def LayoutName.layout : LayoutName → Layout"]
    for n, r in layouts:
        L.append("  | .%s => ⟨%s, %s, %s, %s⟩" % (n, lean_list(r["cylinders"]), lean_list(r["sides"]), lean_list(r["sectors"]), lean_list(r["sector_size"])))
    L += ["", "/-- index in `LayoutName.all` (used by the line protocol) -/", "def LayoutName.idx : LayoutName → Nat"]
    for i, (n, _) in enumerate(layouts):
        L.append("  | .%s => %d" % (n, i))
    L += ["", "/-- by const name (line protocol only; not used by any theorem) -/", "def LayoutName.ofName (s : String) : Option LayoutName :=",
          "  match s with"]
    for n, _ in layouts:
        L.append("  | \"%s\" => some .%s" % (n, n))
    L.append("  | _ => none")
    L += ["", "/-- package of the `*_KIND` const that wraps the layout: 3, 35, 525 or 8 (0 = no kind const) -/", "def LayoutName.package : LayoutName → Nat"]
    pk = {l: p for _, p, l in kinds}
    for n, _ in layouts:
        L.append("  | .%s => %s" % (n, {"D3": 3, "D35": 35, "D525": 525, "D8": 8}.get(pk.get(n), 0)))
    for tag, arms in skews:
        # canonical form: first-match evaluated here for head 0, head 1 and "any other head", per layout in
        # names.rs order, so that reordering non-overlapping arms does not change the generated table
        for _, h, _ in arms:
            if h is not None and h > 1:
                raise TranslatorError("get_skew of %s.rs matches head %d: extend the canonical form" % (tag, h))
        rows = []
        for n, _ in layouts:
            per = []
            for head in (0, 1, None):
                hit = None
                for l, h, ids in arms:
                    if l == n and (h is None or (head is not None and h == head)):
                        hit = ids
                        break
                per.append(hit)
            if any(x is not None for x in per):
                rows.append((n, per))
        L += ["", "/-- `get_skew` of src/img/%s.rs in canonical form: layout -> sector ids for head 0, head 1, any other head" % tag,
              "(none = the default arm, an error); layouts without any arm are absent -/",
              "def %sSkew : List (LayoutName × List (Option (List Nat))) := [" % tag]
        L.append(",\n".join("  (.%s, [%s])" % (n, ", ".join("none" if x is None else "some %s" % lean_list(x) for x in per)) for n, per in rows))
        L.append("]")
    order = {n: i for i, (n, _) in enumerate(layouts)}
    for tag, arms in maps:
        if len({l for l, _, _ in arms}) != len(arms):
            raise TranslatorError("sector_map of %s.rs has two arms for one layout" % tag)
        arms = sorted(arms, key=lambda a: order[a[0]])
        L += ["", "/-- `sector_map` arms of `Track::create` in src/img/%s.rs: (layout, selector 0=all 1=track%%2 2=track, [(key, ids)]);" % tag,
              "no arm = `(1..layout.sectors[0]+1)` -/",
              "def %sMapArms : List (LayoutName × Nat × List (Option Nat × List Nat)) := [" % tag]
        L.append(",\n".join("  (.%s, %d, [%s])" % (l, {"all": 0, "mod2": 1, "num": 2}[sel],
                                                ", ".join("(%s, %s)" % ("none" if k is None else "some %d" % k, lean_list(ids)) for k, ids in sub))
                            for l, sel, sub in arms))
        L.append("]")
    L += ["", "/-- `DiskParameterBlock::create` of src/bios/dpb.rs: layout -> (spt, bsh, dsm, off) -/",
          "def cpmDpb : List (LayoutName × Nat × Nat × Nat × Nat) := [",
          ",\n".join("  (.%s, %d, %d, %d, %d)" % (l, d["spt"], d["bsh"], d["dsm"], d["off"]) for l, d in dpbs), "]"]
    for name in ("ibm_patterns", "cpm_patterns"):
        L += ["", "/-- `%s!()` of src/commands/mkdsk.rs -/" % name,
              "def %s : List LayoutName := [%s]" % ({"ibm_patterns": "ibmPatterns", "cpm_patterns": "cpmPatterns"}[name], ", ".join(".%s" % l for l in pats[name]))]
    for t in ("IMG", "IMD", "TD0"):
        L += ["", "/-- `mkimage`: does image type %s accept (ibm_patterns, cpm_patterns)? -/" % t,
              "def mkimage%s : Bool × Bool := (%s, %s)" % (t.capitalize(), "true" if (t, "ibm_patterns") in pats["pairs"] else "false",
                                                         "true" if (t, "cpm_patterns") in pats["pairs"] else "false")]
    L.append("")
    for n, v in scalars:
        L.append("def %s : Nat := %d" % (n, v))
    L += ["", "end A2Verif.Gen.C07", ""]
    return "\n".join(L)


def generate(repo):
    rels = ["src/img/names.rs", "src/img/imd.rs", "src/img/td0.rs", "src/bios/skew.rs",
            "src/img/dsk_do.rs", "src/img/dsk_po.rs", "src/img/dsk_d13.rs", "src/img/nib.rs", "src/bios/dpb.rs", "src/commands/mkdsk.rs"]
    paths = [os.path.join(repo, r) for r in rels]
    layouts, kinds = parse_layouts(open(paths[0]).read())
    skew_tables = {n: v for n, d, v in extract_tables(paths[3], want_scalars=False) if len(d) == 1}
    skews = [("imd", parse_get_skew(paths[1], kinds, skew_tables)), ("td0", parse_get_skew(paths[2], kinds, skew_tables))]
    maps = [("imd", parse_sector_map(paths[1], skew_tables)), ("td0", parse_sector_map(paths[2], skew_tables))]
    known = {n for n, _ in layouts}
    for _, arms in skews:
        for l, _, _ in arms:
            if l not in known:
                raise TranslatorError("get_skew refers to unknown layout %s" % l)
    for _, arms in maps:
        for l, _, _ in arms:
            if l not in known:
                raise TranslatorError("sector_map refers to unknown layout %s" % l)
    scalars = []
    for pre, p, names in (("DO", paths[4], ["CPM_RECORD", "SECTOR_SIZE", "BLOCK_SIZE"]), ("PO", paths[5], ["BLOCK_SIZE"]),
                          ("D13", paths[6], ["SECTOR_SIZE", "TRACK_SIZE"]), ("NIB", paths[7], ["TRACK_BYTE_CAPACITY_NIB"])):
        got = {n: v for n, d, v in extract_tables(p, want_scalars=True, only=names) if not d}
        for n in names:
            if n not in got:
                raise TranslatorError("%s: scalar const %s not found" % (p, n))
            scalars.append(("%s_%s" % (pre, n), got[n]))
    dpbs = parse_dpbs(open(paths[8]).read(), kinds)
    pats = parse_mkdsk_patterns(open(paths[9]).read(), kinds)
    for l in pats["ibm_patterns"] + pats["cpm_patterns"] + [l for l, _ in dpbs]:
        if l not in known:
            raise TranslatorError("unknown layout %s in dpb.rs/mkdsk.rs" % l)
    return {"C07": render(layouts, kinds, skews, maps, scalars, dpbs, pats, rels)}, {"C07": digest(paths)}


if __name__ == "__main__":
    import sys
    ms, ds = generate(sys.argv[1] if len(sys.argv) > 1 else "/repo")
    print(ms["C07"])
    print(ds)
