"""Translator plug-in for property C10 (mkdsk): regenerates `A2Verif.Gen.Mkdsk` from the current source.

What is copied (everything here is *data* or a flat decision table in the Rust source):
  cli.rs            value lists of `mkdsk` (--os, --kind, --type, --wrap) -> enums `Os`, `KindArg`, `TypeArg`, `WrapArg`
  img/mod.rs        `enum DiskImageType`, `DiskKind::from_str`, `DiskImageType::from_str`
  img/names.rs      every `TrackLayout` const and `DiskKind` const -> interned enum `Kind` + `Kind.data`
  img/<type>.rs     `file_extensions()` and `what_am_i()` of every image module; `select_kind` of dsk_po
  commands/mkdsk.rs `ibm_patterns!`/`cpm_patterns!`, the `mkimage` arm table, the DOS 3.x capacity constants and
                    volume guard, the optional kind guard of `mkcpm`
  img/dot2mg.rs     the `(kind,wrap)` table of `Dot2mg::create`
  bios/dpb.rs       DPB constants, `DiskParameterBlock::create` arms and what the default arm does
  bios/bpb.rs       BPB constants, `BootSector::create` arms and what the default arm does
  fs/*/…            INVALID_CHARS of pascal/cpm/fat, the ProDOS name regex, `assert!` on the volume in dos3x `init`,
                    whether prodos `format` validates the volume name before anything else
Anything whose shape is not recognised raises TranslatorError (reported by bin/check as a broken obligation).
"""
import os, re
from gen import TranslatorError, strip_rust_comments, digest, parse_int, eval_const_expr

FILES = ["src/cli.rs", "src/img/mod.rs", "src/img/names.rs", "src/commands/mkdsk.rs", "src/img/dot2mg.rs",
         "src/img/dsk_po.rs", "src/bios/dpb.rs", "src/bios/bpb.rs", "src/fs/dos3x/mod.rs", "src/fs/prodos/mod.rs",
         "src/fs/prodos/pack.rs", "src/fs/pascal/types.rs", "src/fs/cpm/types.rs", "src/fs/fat/pack.rs"]
IMG_MODULES = ["dot2mg", "dsk_d13", "dsk_do", "dsk_img", "dsk_po", "imd", "nib", "td0", "woz1", "woz2"]

FLUX = {"None": 0, "FM": 1, "GCR": 2, "MFM": 3}
NIBC = {"None": 0, "N44": 44, "N53": 53, "N62": 62}
RATE = {"R250Kbps": 250, "R300Kbps": 300, "R500Kbps": 500, "R1000Kbps": 1000}
FORMS = ["Unknown", "LogicalBlocks", "LogicalSectors", "D3", "D35", "D525", "D8"]


def E(msg):
    return TranslatorError("gen_c10: " + msg)


def balanced(src, i, open_ch="{", close_ch="}"):
    """src[i] is open_ch; return index of the matching close_ch (string literals are skipped)"""
    if src[i] != open_ch:
        raise E("expected %r at %d" % (open_ch, i))
    depth, j, n = 0, i, len(src)
    while j < n:
        c = src[j]
        if c == '"':
            j += 1
            while j < n and src[j] != '"':
                j += 2 if src[j] == "\\" else 1
        elif c == open_ch:
            depth += 1
        elif c == close_ch:
            depth -= 1
            if depth == 0:
                return j
        j += 1
    raise E("unbalanced %r" % open_ch)


def fn_body(src, header_re, what):
    m = re.search(header_re, src)
    if not m:
        raise E("cannot find " + what)
    i = src.index("{", m.end() - 1)
    j = balanced(src, i)
    return src[i + 1:j]


def split_top(s, sep=","):
    parts, depth, cur, i, n = [], 0, "", 0, len(s)
    while i < n:
        c = s[i]
        if c == '"':
            k = i + 1
            while k < n and s[k] != '"':
                k += 2 if s[k] == "\\" else 1
            cur += s[i:k + 1]
            i = k + 1
            continue
        if c in "([{":
            depth += 1
        elif c in ")]}":
            depth -= 1
        if c == sep and depth == 0:
            parts.append(cur)
            cur = ""
        else:
            cur += c
        i += 1
    if cur.strip():
        parts.append(cur)
    return [p.strip() for p in parts]


def match_arms(body, what):
    """split the inside of a `match … { … }` into (pattern, rhs) pairs; rhs is an expression or a {block}"""
    arms, i, n = [], 0, len(body)
    while True:
        while i < n and body[i] in " \t\r\n,":
            i += 1
        if i >= n:
            break
        k = body.find("=>", i)
        if k < 0:
            raise E("%s: text after last arm: %r" % (what, body[i:i + 60]))
        pat = body[i:k].strip()
        j = k + 2
        while j < n and body[j] in " \t\r\n":
            j += 1
        if j < n and body[j] == "{":
            e = balanced(body, j)
            rhs = body[j:e + 1]
            i = e + 1
        else:
            depth, e = 0, j
            while e < n:
                c = body[e]
                if c == '"':
                    e += 1
                    while e < n and body[e] != '"':
                        e += 2 if body[e] == "\\" else 1
                elif c in "([{":
                    depth += 1
                elif c in ")]}":
                    depth -= 1
                elif c == "," and depth == 0:
                    break
                e += 1
            rhs = body[j:e].strip()
            i = e + 1
        arms.append((pat, rhs))
    return arms


def ident(prefix, s):
    return prefix + re.sub(r"[^A-Za-z0-9]", "_", s)


def lean_str_bytes(s):
    return "[" + ", ".join(str(b) for b in s.encode("utf-8")) + "]"


def rust_str(lit):
    """contents of a (non-raw) Rust string literal, without the quotes"""
    out, i = "", 0
    while i < len(lit):
        if lit[i] == "\\":
            c = lit[i + 1]
            if c in "\"\\'":
                out += c
            elif c == "n":
                out += "\n"
            elif c == "t":
                out += "\t"
            else:
                raise E("unsupported escape in %r" % lit)
            i += 2
        else:
            out += lit[i]
            i += 1
    return out


class Kinds:
    """interning of DiskKind values (structural equality as derived by Rust's PartialEq)"""
    def __init__(self):
        self.layouts = {}    # name -> tuple of 7 tuples
        self.consts = {}     # KIND const name -> value
        self.names = {}      # value -> lean name
        self.order = []

    def intern(self, val, name):
        if val not in self.names:
            nm, k = name, 2
            while nm in self.names.values():
                nm = "%s_%d" % (name, k)
                k += 1
            self.names[val] = nm
            self.order.append(val)
        return self.names[val]

    def parse(self, txt, what):
        """a DiskKind expression or const pattern -> interned lean name"""
        t = re.sub(r"\s+", "", txt)
        t = re.sub(r"\b(?:crate|super|img|names|DiskKind|Self)::", "", t)
        m = re.fullmatch(r"(Unknown)", t)
        if m:
            return self.intern(("Unknown",), "Unknown")
        m = re.fullmatch(r"(LogicalSectors|D3|D35|D525|D8)\(([A-Z][A-Z0-9_]*)\)", t)
        if m:
            if m.group(2) not in self.layouts:
                raise E("%s: unknown track layout %s" % (what, m.group(2)))
            return self.intern((m.group(1), self.layouts[m.group(2)]), "%s_%s" % (m.group(1), m.group(2)))
        m = re.fullmatch(r"LogicalBlocks\(BlockLayout\{(.*)\}\)", t)
        if m:
            f = dict(x.split(":") for x in m.group(1).split(","))
            if set(f) != {"block_count", "block_size"}:
                raise E("%s: BlockLayout fields %r" % (what, f))
            return self.blocks(parse_int(f["block_count"]), parse_int(f["block_size"]))
        if re.fullmatch(r"[A-Z][A-Z0-9_]*", t):
            if t not in self.consts:
                raise E("%s: unknown DiskKind const %s" % (what, t))
            return self.names[self.consts[t]]
        raise E("%s: unrecognised disk kind expression %r" % (what, txt))

    def blocks(self, count, size):
        return self.intern(("LogicalBlocks", count, size), "LB_%d" % count if size == 512 else "LB_%d_%d" % (count, size))


def parse_names(src, K):
    src = strip_rust_comments(src)
    m = re.search(r"macro_rules!\s*uni\s*\{\s*\(\$x:expr\)\s*=>\s*\{\s*\[\$x,0,0,0,0\]\s*\};?\s*\}", src)
    if not m:
        raise E("names.rs: macro uni! has an unexpected definition")
    for m in re.finditer(r"pub\s+const\s+([A-Z][A-Z0-9_]*)\s*:\s*TrackLayout\s*=\s*TrackLayout\s*\{", src):
        i = m.end() - 1
        j = balanced(src, i)
        fields = {}
        for part in split_top(src[i + 1:j]):
            k, v = part.split(":", 1)
            fields[k.strip()] = v.strip()
        if set(fields) != {"cylinders", "sides", "sectors", "sector_size", "flux_code", "nib_code", "data_rate"}:
            raise E("names.rs: TrackLayout %s has fields %s" % (m.group(1), sorted(fields)))

        def arr(v, conv):
            mm = re.fullmatch(r"uni!\((.*)\)", v)
            if mm:
                return (conv(mm.group(1)), conv("0"), conv("0"), conv("0"), conv("0"))
            mm = re.fullmatch(r"\[(.*);\s*5\s*\]", v)
            if mm:
                return tuple(conv(mm.group(1)) for _ in range(5))
            mm = re.fullmatch(r"\[(.*)\]", v)
            if mm:
                xs = split_top(mm.group(1))
                if len(xs) != 5:
                    raise E("names.rs: %s: array of %d" % (m.group(1), len(xs)))
                return tuple(conv(x) for x in xs)
            raise E("names.rs: %s: field value %r" % (m.group(1), v))

        def enumconv(tab, ty):
            def f(x):
                mm = re.fullmatch(ty + r"::(\w+)", x.strip())
                if not mm or mm.group(1) not in tab:
                    raise E("names.rs: %s: value %r of %s" % (m.group(1), x, ty))
                return tab[mm.group(1)]
            return f
        K.layouts[m.group(1)] = (arr(fields["cylinders"], parse_int), arr(fields["sides"], parse_int),
                                 arr(fields["sectors"], parse_int), arr(fields["sector_size"], parse_int),
                                 arr(fields["flux_code"], enumconv(FLUX, "FluxCode")),
                                 arr(fields["nib_code"], enumconv(NIBC, "NibbleCode")),
                                 arr(fields["data_rate"], enumconv(RATE, "DataRate")))
    if not K.layouts:
        raise E("names.rs: no TrackLayout consts")
    for m in re.finditer(r"pub\s+const\s+([A-Z][A-Z0-9_]*)\s*:\s*DiskKind\s*=\s*([^;]+);", src):
        name, expr = m.group(1), m.group(2)
        t = re.sub(r"\s+", "", expr)
        mm = re.fullmatch(r"DiskKind::(LogicalSectors|D3|D35|D525|D8)\(([A-Z][A-Z0-9_]*)\)", t)
        if mm:
            if mm.group(2) not in K.layouts:
                raise E("names.rs: %s uses unknown layout %s" % (name, mm.group(2)))
            val = (mm.group(1), K.layouts[mm.group(2)])
        else:
            mm = re.fullmatch(r"DiskKind::LogicalBlocks\(BlockLayout\{(.*)\}\)", t)
            if not mm:
                raise E("names.rs: DiskKind const %s = %r" % (name, expr))
            f = dict(x.split(":") for x in mm.group(1).split(","))
            val = ("LogicalBlocks", parse_int(f["block_count"]), parse_int(f["block_size"]))
        K.consts[name] = val
        K.intern(val, name)
    if not K.consts:
        raise E("names.rs: no DiskKind consts")


def parse_cli(src):
    src = strip_rust_comments(src)
    lists = {}
    for nm in ["img_types", "wrap_types", "os_names", "disk_kinds"]:
        m = re.search(r"let\s+" + nm + r"\s*=\s*\[(.*?)\]\s*;", src, re.S)
        if not m:
            raise E("cli.rs: list %s not found" % nm)
        items = [x for x in split_top(m.group(1)) if x]
        vals = []
        for it in items:
            mm = re.fullmatch(r'"((?:[^"\\]|\\.)*)"', it)
            if not mm:
                raise E("cli.rs: %s: element %r" % (nm, it))
            vals.append(rust_str(mm.group(1)))
        if len(set(vals)) != len(vals) or not vals:
            raise E("cli.rs: %s has duplicates or is empty" % nm)
        lists[nm] = vals
    i = src.find('Command::new("mkdsk")')
    if i < 0:
        raise E("cli.rs: mkdsk subcommand not found")
    j = balanced(src, src.rfind("(", 0, i), "(", ")")
    blk = src[i:j]
    for opt, nm in [("type", "img_types"), ("os", "os_names"), ("kind", "disk_kinds"), ("wrap", "wrap_types")]:
        mm = re.search(r"arg!\(\s*-\w\s+--" + opt + r"\b", blk)
        if not mm:
            raise E("cli.rs: mkdsk has no --%s" % opt)
        k = blk.rfind(".arg(", 0, mm.start())
        e = balanced(blk, k + 4, "(", ")")
        if not re.search(r"\.value_parser\(\s*" + nm + r"\s*\)", blk[k:e]):
            raise E("cli.rs: --%s is not restricted to %s" % (opt, nm))
    return lists


def parse_from_str(src, ty, K):
    body = fn_body(src, r"impl\s+FromStr\s+for\s+" + ty + r"\s*\{", "FromStr for " + ty)
    mb = re.search(r"match\s+s\s*\{", body)
    if not mb:
        raise E("from_str of %s: no `match s`" % ty)
    j = balanced(body, mb.end() - 1)
    tab = {}
    for pat, rhs in match_arms(body[mb.end():j], "from_str " + ty):
        if pat == "_":
            if not rhs.startswith("Err("):
                raise E("from_str of %s: default arm %r" % (ty, rhs))
            continue
        mm = re.fullmatch(r'"((?:[^"\\]|\\.)*)"', pat)
        mr = re.fullmatch(r"Ok\((.*)\)", rhs, re.S)
        if not mm or not mr:
            raise E("from_str of %s: arm %r => %r" % (ty, pat, rhs))
        if K is not None:
            tab[rust_str(mm.group(1))] = K.parse(mr.group(1), "DiskKind::from_str")
        else:
            mv = re.fullmatch(r"Self::(\w+)", mr.group(1).strip())
            if not mv:
                raise E("from_str of %s: value %r" % (ty, rhs))
            tab[rust_str(mm.group(1))] = mv.group(1)
    return tab


def parse_macros(src, K):
    out = {}
    for m in re.finditer(r"macro_rules!\s*(\w+)\s*\{", src):
        j = balanced(src, m.end() - 1)
        inner = src[m.end():j]
        mm = re.fullmatch(r"\s*\(\s*\)\s*=>\s*\{(.*)\}\s*;?\s*", inner, re.S)
        if not mm:
            raise E("mkdsk.rs: macro %s has an unexpected shape" % m.group(1))
        out[m.group(1)] = [K.parse(p, "macro " + m.group(1)) for p in mm.group(1).split("|")]
    return out


def kind_pats(txt, macros, K, what):
    res = []
    for p in split_top(txt, "|"):
        mm = re.fullmatch(r"(\w+)!\(\)", p.strip())
        if mm:
            if mm.group(1) not in macros:
                raise E("%s: unknown macro %s" % (what, mm.group(1)))
            res += macros[mm.group(1)]
        else:
            res.append(K.parse(p, what))
    return res


CTOR_MODS = {"dsk_d13": "d13", "dsk_do": "do_", "dsk_po": "po", "woz1": "woz1", "woz2": "woz2", "dot2mg": "dot2mg",
             "nib": "nib", "imd": "imd", "td0": "td0", "dsk_img": "img"}


def parse_ctor(rhs, what):
    """classify the right-hand side of an image-creating arm"""
    ms = re.findall(r"img::(\w+)::\w+::create\(([^()]*)\)", rhs)
    if len(ms) == 1:
        mod, args = ms[0]
        if mod not in CTOR_MODS:
            raise E("%s: unknown image module %s" % (what, mod))
        c = CTOR_MODS[mod]
        a = [x.strip() for x in args.split(",")] if args.strip() else []
        if c == "d13":
            if len(a) != 1:
                raise E("%s: D13::create args %r" % (what, a))
            return "(.d13 %d)" % parse_int(a[0])
        if c == "do_":
            if len(a) != 2:
                raise E("%s: DO::create args %r" % (what, a))
            return "(.do_ %d %d)" % (parse_int(a[0]), parse_int(a[1]))
        if c == "po":
            if len(a) != 1:
                raise E("%s: PO::create args %r" % (what, a))
            return "(.po %d)" % parse_int(a[0])
        if c in ("woz1", "woz2", "nib"):
            if a not in (["vol", "*kind"], ["vol", "kind"]):
                raise E("%s: %s::create args %r" % (what, mod, a))
        elif c == "dot2mg":
            if a != ["vol", "*kind", "maybe_wrap"]:
                raise E("%s: Dot2mg::create args %r" % (what, a))
        elif a not in (["*kind"], ["kind"]):
            raise E("%s: %s::create args %r" % (what, mod, a))
        return "." + c
    if not ms and re.search(r"\bErr\(", rhs) and rhs.lstrip().startswith("{"):
        return ".refuse"
    raise E("%s: arm body not understood: %r" % (what, rhs[:120]))


def parse_mkimage(src, macros, K, imgtypes, po_kinds):
    body = fn_body(src, r"fn\s+mkimage\s*\(", "fn mkimage")
    mb = re.search(r"match\s*\(\s*img_typ\s*,\s*\*kind\s*\)\s*\{", body)
    if not mb:
        raise E("mkimage: `match (img_typ,*kind)` not found")
    j = balanced(body, mb.end() - 1)
    arms, default = [], None
    for pat, rhs in match_arms(body[mb.end():j], "mkimage"):
        if pat == "_":
            if parse_ctor(rhs, "mkimage default arm") != ".refuse":
                raise E("mkimage: default arm does not refuse")
            default = True
            continue
        if default:
            raise E("mkimage: arm after the default arm")
        mp = re.fullmatch(r"\((.*)\)", pat, re.S)
        if not mp:
            raise E("mkimage: pattern %r" % pat)
        two = split_top(mp.group(1))
        if len(two) != 2:
            raise E("mkimage: pattern %r" % pat)
        tys = []
        for t in split_top(two[0], "|"):
            mt = re.fullmatch(r"DiskImageType::(\w+)", t.strip())
            if not mt or mt.group(1) not in imgtypes:
                raise E("mkimage: image type pattern %r" % t)
            tys.append(mt.group(1))
        ctor = parse_ctor(rhs, "mkimage arm " + pat)
        for k in kind_pats(two[1], macros, K, "mkimage arm " + pat):
            for t in tys:
                arms.append((t, k, ctor))
                mpo = re.fullmatch(r"\(\.po (\d+)\)", ctor)
                if mpo:
                    po_kinds.add(int(mpo.group(1)))
    if not default:
        raise E("mkimage: no default arm")
    return arms


def parse_dot2mg(src, K, imgtypes, po_kinds):
    body = fn_body(src, r"pub\s+fn\s+create\s*\(\s*vol\s*:\s*u8\s*,\s*kind\s*:\s*img::DiskKind\s*,\s*maybe_wrap", "Dot2mg::create")
    mb = re.search(r"match\s*\(\s*kind\s*,\s*wrap\s*\)\s*\{", body)
    if not mb:
        raise E("Dot2mg::create: `match (kind,wrap)` not found")
    j = balanced(body, mb.end() - 1)
    arms, default = [], False
    for pat, rhs in match_arms(body[mb.end():j], "Dot2mg::create"):
        if pat == "_":
            if parse_ctor(rhs, "Dot2mg::create default") != ".refuse":
                raise E("Dot2mg::create: default arm does not refuse")
            default = True
            continue
        mp = re.fullmatch(r"\((.*)\)", pat, re.S)
        two = split_top(mp.group(1)) if mp else []
        if len(two) != 2:
            raise E("Dot2mg::create: pattern %r" % pat)
        w = two[1].strip()
        if w == "None":
            wrap = "none"
        else:
            mw = re.fullmatch(r"Some\(img::DiskImageType::(\w+)\)", w)
            if not mw or mw.group(1) not in imgtypes:
                raise E("Dot2mg::create: wrap pattern %r" % w)
            wrap = "(some .%s)" % mw.group(1)
        ctor = parse_ctor(rhs, "Dot2mg::create arm " + pat)
        mpo = re.fullmatch(r"\(\.po (\d+)\)", ctor)
        if mpo:
            po_kinds.add(int(mpo.group(1)))
        if ctor in (".dot2mg", ".refuse"):
            raise E("Dot2mg::create: arm %r" % pat)
        arms.append((K.parse(two[0], "Dot2mg::create"), wrap, ctor))
    if not default:
        raise E("Dot2mg::create: no default arm")
    # the tail of create: which wrapped types are accepted (fmt table), everything else is an error
    return arms


def bool_expr(expr, var, what):
    """a comparison formula over one integer variable -> Lean Bool term over `v`"""
    toks = re.findall(r"\s*(\d+|[A-Za-z_]\w*|>=|<=|==|!=|&&|\|\||[<>()])", expr)
    if "".join(toks) != re.sub(r"\s+", "", expr):
        raise E("%s: unsupported guard %r" % (what, expr))
    out = []
    for t in toks:
        if t == var:
            out.append("v")
        elif re.fullmatch(r"\d+", t):
            out.append(t)
        elif t in (">=", "<=", "==", "!=", "<", ">", "&&", "||", "(", ")"):
            out.append({">=": "≥", "<=": "≤", "==": "==", "!=": "!="}.get(t, t))
        else:
            raise E("%s: unsupported token %r in guard %r" % (what, t, expr))
    s = " ".join(out)
    # comparisons as decide-d Props so that && / || are Bool operations
    s = re.sub(r"(v|\d+) (≥|≤|<|>) (v|\d+)", r"decide (\1 \2 \3)", s)
    return s


def parse_dos3x(mk, d3):
    body = fn_body(mk, r"fn\s+mkdos3x\s*\(", "fn mkdos3x")
    caps = [eval_const_expr(x, {}) for x in re.findall(r"img\.byte_capacity\(\)\s*!=\s*([0-9*+ ]+)", body)]
    if len(caps) < 1:
        raise E("mkdos3x: capacity check not found")
    m = re.search(r"Ok\(\s*v\s*\)\s+if\s+(.*?)=>", body, re.S)
    if not m:
        raise E("mkdos3x: volume guard `Ok(v) if …` not found")
    guard = bool_expr(m.group(1), "v", "mkdos3x")
    m = re.search(r"if\s+boot\s*&&\s*v\s*!=\s*(\d+)", body)
    if not m:
        raise E("mkdos3x: boot volume rule not found")
    bootvol = int(m.group(1))
    init = fn_body(d3, r"pub\s+fn\s+init\s*\(\s*&mut\s+self\s*,\s*vol\s*:\s*u8", "dos3x init")
    asserts = re.findall(r"assert!\(([^;]*)\);", init)
    vol_asserts = [a for a in asserts if re.search(r"\bvol\b", a)]
    if len(vol_asserts) > 1:
        raise E("dos3x init: several assertions on vol")
    ia = bool_expr(vol_asserts[0], "vol", "dos3x init") if vol_asserts else "true"
    return caps, guard, bootvol, ia


def parse_cpm_guard(mk, macros, K):
    body = fn_body(mk, r"fn\s+mkcpm\s*\(", "fn mkcpm")
    k = body.find("DiskParameterBlock::create")
    if k < 0:
        raise E("mkcpm: DiskParameterBlock::create not found")
    pre = body[:k]
    ms = list(re.finditer(r"match\s+\*?kind\s*\{", pre))
    if not ms:
        return None
    if len(ms) > 1:
        raise E("mkcpm: several matches on kind")
    j = balanced(pre, ms[0].end() - 1)
    allowed, default = [], False
    for pat, rhs in match_arms(pre[ms[0].end():j], "mkcpm kind guard"):
        if pat == "_":
            if not re.search(r"return\s+Err\(", rhs):
                raise E("mkcpm: default arm of kind guard does not return an error")
            default = True
        else:
            if re.sub(r"\s+", "", rhs) != "{}":
                raise E("mkcpm: kind guard arm %r => %r" % (pat, rhs))
            allowed += kind_pats(pat, macros, K, "mkcpm kind guard")
    if not default:
        raise E("mkcpm: kind guard without default arm")
    return allowed


def parse_dpb(src, K):
    src = strip_rust_comments(src)
    consts = {}
    for m in re.finditer(r"pub\s+const\s+([A-Z][A-Z0-9_]*)\s*:\s*DiskParameterBlock\s*=\s*DiskParameterBlock\s*\{", src):
        j = balanced(src, m.end() - 1)
        f = {}
        for part in split_top(src[m.end():j]):
            k, v = part.split(":", 1)
            f[k.strip()] = eval_const_expr(v, {})
        need = ["spt", "bsh", "blm", "exm", "dsm", "drm", "al0", "al1", "cks", "off", "psh", "phm", "reserved_track_capacity"]
        if sorted(f) != sorted(need):
            raise E("dpb.rs: fields of %s: %s" % (m.group(1), sorted(f)))
        consts[m.group(1)] = [f[k] for k in need]
    body = fn_body(src, r"pub\s+fn\s+create\s*\(\s*kind\s*:\s*&crate::img::DiskKind\s*\)\s*->\s*Self", "DiskParameterBlock::create")
    mb = re.search(r"match\s+\*kind\s*\{", body)
    if not mb:
        raise E("DiskParameterBlock::create: no `match *kind`")
    j = balanced(body, mb.end() - 1)
    arms, default = [], None
    for pat, rhs in match_arms(body[mb.end():j], "DiskParameterBlock::create"):
        if pat == "_":
            default = "panic" if rhs.startswith("panic!") else None
            if default is None:
                raise E("DiskParameterBlock::create: default arm %r" % rhs)
            continue
        if rhs not in consts:
            raise E("DiskParameterBlock::create: arm value %r" % rhs)
        for k in kind_pats(pat, {}, K, "DiskParameterBlock::create"):
            arms.append((k, rhs))
    if default is None:
        raise E("DiskParameterBlock::create: no default arm")
    return consts, arms


def parse_bpb(src, K):
    src = strip_rust_comments(src)
    consts = {}

    def val(v):
        v = v.strip()
        m = re.fullmatch(r"u16::to_le_bytes\((.*)\)", v)
        if m:
            return parse_int(m.group(1))
        m = re.fullmatch(r"\[(.*)\]", v)
        if m:
            xs = [parse_int(x) for x in m.group(1).split(",")]
            return sum(x << (8 * i) for i, x in enumerate(xs))
        return parse_int(v)
    for m in re.finditer(r"const\s+([A-Z][A-Z0-9_]*)\s*:\s*BPBFoundation\s*=\s*BPBFoundation\s*\{", src):
        j = balanced(src, m.end() - 1)
        f = {}
        for part in split_top(src[m.end():j]):
            k, v = part.split(":", 1)
            f[k.strip()] = val(v)
        need = ["bytes_per_sec", "sec_per_clus", "reserved_sectors", "num_fats", "root_ent_cnt", "tot_sec_16", "media",
                "fat_size_16", "sec_per_trk", "num_heads", "hidd_sec", "tot_sec_32"]
        if sorted(f) != sorted(need):
            raise E("bpb.rs: fields of %s: %s" % (m.group(1), sorted(f)))
        consts[m.group(1)] = [f[k] for k in need]
    body = fn_body(src, r"pub\s+fn\s+create\s*\(\s*kind\s*:\s*&crate::img::DiskKind\s*\)\s*->\s*Result<Self", "BootSector::create")
    mb = re.search(r"match\s+kind\s*\{", body)
    if not mb:
        raise E("BootSector::create: no `match kind`")
    j = balanced(body, mb.end() - 1)
    arms, default = [], None
    for pat, rhs in match_arms(body[mb.end():j], "BootSector::create"):
        if pat == "_":
            if not rhs.startswith("Err("):
                raise E("BootSector::create: default arm %r" % rhs)
            default = "err"
            continue
        mr = re.fullmatch(r"Ok\(Self::create1216\((\w+)\)\)", rhs)
        if not mr or mr.group(1) not in consts:
            raise E("BootSector::create: arm value %r" % rhs)
        for k in kind_pats(pat, {}, K, "BootSector::create"):
            arms.append((k, mr.group(1)))
    if default is None:
        raise E("BootSector::create: no default arm")
    return consts, arms


def parse_img_module(src, mod, imgtypes):
    src = strip_rust_comments(src)
    m = re.search(r"pub\s+fn\s+file_extensions\s*\(\s*\)\s*->\s*Vec<String>\s*\{\s*vec!\[(.*?)\]\s*\}", src, re.S)
    if not m:
        raise E("img/%s.rs: file_extensions() not understood" % mod)
    exts = []
    for it in split_top(m.group(1)):
        mm = re.fullmatch(r'"((?:[^"\\]|\\.)*)"\.to_string\(\)', it)
        if not mm:
            raise E("img/%s.rs: extension element %r" % (mod, it))
        exts.append(rust_str(mm.group(1)))
    m = re.search(r"fn\s+what_am_i\s*\(\s*&self\s*\)\s*->\s*img::DiskImageType\s*\{\s*img::DiskImageType::(\w+)\s*\}", src)
    if not m or m.group(1) not in imgtypes:
        raise E("img/%s.rs: what_am_i() not understood" % mod)
    return m.group(1), exts


def parse_select_kind(src, K):
    body = fn_body(strip_rust_comments(src), r"fn\s+select_kind\s*\(\s*blocks\s*:\s*u16\s*\)", "dsk_po select_kind")
    mb = re.search(r"match\s+blocks\s*\{", body)
    if not mb:
        raise E("select_kind: no match")
    j = balanced(body, mb.end() - 1)
    special, default = {}, False
    for pat, rhs in match_arms(body[mb.end():j], "select_kind"):
        if pat == "_":
            t = re.sub(r"\s+", "", rhs)
            if t != "img::DiskKind::LogicalBlocks(BlockLayout{block_count:blocksasusize,block_size:BLOCK_SIZE})":
                raise E("select_kind: default arm %r" % rhs)
            default = True
        else:
            special[parse_int(pat)] = K.parse(rhs, "select_kind")
    if not default:
        raise E("select_kind: no default arm")
    m = re.search(r"const\s+BLOCK_SIZE\s*:\s*usize\s*=\s*(\d+)\s*;", src)
    if not m:
        raise E("dsk_po: BLOCK_SIZE")
    return special, int(m.group(1))


def const_str(src, name, what):
    m = re.search(r"pub\s+const\s+" + name + r"\s*:\s*&str\s*=\s*\"((?:[^\"\\]|\\.)*)\"\s*;", src)
    if not m:
        raise E("%s: const %s not found" % (what, name))
    return rust_str(m.group(1))


def generate(repo):
    rd = lambda rel: open(os.path.join(repo, rel)).read()
    cli = parse_cli(rd("src/cli.rs"))
    imgmod = strip_rust_comments(rd("src/img/mod.rs"))
    m = re.search(r"pub\s+enum\s+DiskImageType\s*\{(.*?)\}", imgmod, re.S)
    if not m:
        raise E("img/mod.rs: enum DiskImageType")
    imgtypes = [x.strip() for x in m.group(1).split(",") if x.strip()]
    if not all(re.fullmatch(r"[A-Z][A-Z0-9]*", x) for x in imgtypes):
        raise E("img/mod.rs: DiskImageType variants %r" % imgtypes)
    m = re.search(r"pub\s+enum\s+DiskKind\s*\{(.*?)\}", imgmod, re.S)
    forms = [re.sub(r"\(.*\)", "", x.strip()) for x in m.group(1).split(",") if x.strip()] if m else []
    if sorted(forms) != sorted(FORMS):
        raise E("img/mod.rs: DiskKind variants %r" % forms)
    for tab, nm in [(FLUX, "FluxCode"), (NIBC, "NibbleCode"), (RATE, "DataRate")]:
        m = re.search(r"pub\s+enum\s+" + nm + r"\s*\{(.*?)\}", imgmod, re.S)
        vs = [x.strip() for x in m.group(1).split(",") if x.strip()] if m else []
        if sorted(vs) != sorted(tab):
            raise E("img/mod.rs: enum %s variants %r" % (nm, vs))
    m = re.search(r"pub\s+fn\s+byte_capacity\s*\(\s*&self\s*\)\s*->\s*usize\s*\{\s*let\s+mut\s+ans\s*=\s*0;\s*for\s+i\s+in\s+0\.\.5\s*\{\s*"
                  r"ans\s*\+=\s*self\.cylinders\[i\]\s*\*\s*self\.sides\[i\]\s*\*\s*self\.sectors\[i\]\s*\*\s*self\.sector_size\[i\];\s*\}\s*ans\s*\}", imgmod)
    if not m:
        raise E("img/mod.rs: TrackLayout::byte_capacity is not the sum over zones of cylinders*sides*sectors*sector_size")
    K = Kinds()
    K.intern(("Unknown",), "Unknown")
    parse_names(rd("src/img/names.rs"), K)
    kind_from = parse_from_str(imgmod, "DiskKind", K)
    type_from = parse_from_str(imgmod, "DiskImageType", None)
    for v in type_from.values():
        if v not in imgtypes:
            raise E("DiskImageType::from_str yields unknown variant %s" % v)
    mk = strip_rust_comments(rd("src/commands/mkdsk.rs"))
    macros = parse_macros(mk, K)
    po_counts = set()
    arms = parse_mkimage(mk, macros, K, imgtypes, po_counts)
    d2arms = parse_dot2mg(strip_rust_comments(rd("src/img/dot2mg.rs")), K, imgtypes, po_counts)
    po_special, po_bs = parse_select_kind(rd("src/img/dsk_po.rs"), K)
    po_kind = {}
    for n in sorted(po_counts):
        po_kind[n] = po_special[n] if n in po_special else K.blocks(n, po_bs)
    m = re.search(r"if\s+kind\s*==\s*(names::\w+)\s*&&\s*which_fs\s*==\s*\"(\w+)\"\s*\{\s*kind\s*=\s*(names::\w+)\s*;\s*\}", mk)
    if not m:
        raise E("mkdsk: the kind refinement rule was not found")
    refine = (K.parse(m.group(1), "refine"), m.group(2), K.parse(m.group(3), "refine"))
    if refine[1] not in cli["os_names"]:
        raise E("mkdsk: refinement names unknown os %s" % refine[1])
    m = re.search(r"if\s+!\[((?:\s*\"\w+\"\s*,?)+)\]\.contains\(&which_fs\.as_str\(\)\)", mk)
    if not m:
        raise E("mkdsk: os name check not found")
    os_known = re.findall(r"\"(\w+)\"", m.group(1))
    body = fn_body(mk, r"pub\s+fn\s+mkdsk\s*\(", "fn mkdsk")
    mb = re.search(r"match\s+which_fs\.as_str\(\)\s*\{", body)
    if not mb:
        raise E("mkdsk: os dispatch not found")
    j = balanced(body, mb.end() - 1)
    dispatch = {}
    for pat, rhs in match_arms(body[mb.end():j], "mkdsk os dispatch"):
        if pat == "_":
            if not rhs.startswith("panic!"):
                raise E("mkdsk: os dispatch default %r" % rhs)
            continue
        mp = re.fullmatch(r'"(\w+)"', pat)
        mr = re.fullmatch(r"(mkcpm|mkdos3x|mkprodos|mkpascal|mkfat)\((.*)\)", rhs)
        if not mp or not mr:
            raise E("mkdsk: os dispatch arm %r => %r" % (pat, rhs))
        a = [x.strip() for x in mr.group(2).split(",")]
        if mr.group(1) == "mkcpm":
            if a[:4] != ["maybe_vol", "boot", "&kind", "img"] or len(a) != 5:
                raise E("mkdsk: mkcpm call %r" % rhs)
            dispatch[mp.group(1)] = "(.cpm %d)" % parse_int(a[4])
        else:
            if not ({"maybe_vol", "boot", "img"} <= set(a) <= {"maybe_vol", "boot", "img", "&kind"}) or len(a) != len(set(a)):
                raise E("mkdsk: call %r" % rhs)
            dispatch[mp.group(1)] = "." + mr.group(1)[2:]
    for o in cli["os_names"]:
        if o not in dispatch and o in os_known:
            raise E("mkdsk: os %s passes the name check but has no dispatch arm" % o)
    caps, guard, bootvol, init_assert = parse_dos3x(mk, strip_rust_comments(rd("src/fs/dos3x/mod.rs")))
    cpm_guard = parse_cpm_guard(mk, macros, K)
    dpb_consts, dpb_arms = parse_dpb(rd("src/bios/dpb.rs"), K)
    bpb_consts, bpb_arms = parse_bpb(rd("src/bios/bpb.rs"), K)
    exts = {}
    for mod in IMG_MODULES:
        t, ex = parse_img_module(rd("src/img/%s.rs" % mod), mod, imgtypes)
        if t in exts:
            raise E("two image modules claim type %s" % t)
        exts[t] = ex
    if sorted(exts) != sorted(imgtypes):
        raise E("image modules %r do not cover DiskImageType %r" % (sorted(exts), sorted(imgtypes)))
    pro = strip_rust_comments(rd("src/fs/prodos/mod.rs"))
    fbody = fn_body(pro, r"pub\s+fn\s+format\s*\(\s*&mut\s+self\s*,\s*vol_name\s*:\s*&str", "prodos format")
    prodos_checks = bool(re.match(r"\s*if\s+!\s*is_name_valid\(\s*vol_name\s*\)\s*\{[^{}]*return\s+Err\(",
                                  re.sub(r'"(?:[^"\\]|\\.)*"', '""', fbody)))
    ppack = rd("src/fs/prodos/pack.rs")
    m = re.search(r"pub\s+fn\s+is_name_valid\s*\(\s*s\s*:\s*&str\s*\)\s*->\s*bool\s*\{\s*let\s+fname_patt\s*=\s*regex::Regex::new\(r\"([^\"]*)\"\)", ppack)
    if not m or m.group(1) != "^[A-Z][A-Z0-9.]{0,14}$":
        raise E("prodos is_name_valid: the regular expression is not the one the model transcribes")
    pas_inv = const_str(rd("src/fs/pascal/types.rs"), "INVALID_CHARS", "pascal/types.rs")
    cpm_inv = const_str(rd("src/fs/cpm/types.rs"), "INVALID_CHARS", "cpm/types.rs")
    fat_inv = const_str(rd("src/fs/fat/pack.rs"), "INVALID_CHARS", "fat/pack.rs")

    # ---------------------------------------------------------------- render
    L = []
    A = L.append
    A("/-! GENERATED by /verif/translator/gen_c10.py from %s -- do not edit; regenerated on every run -/" % ", ".join(FILES + ["src/img/<type>.rs"]))
    A("namespace A2Verif.Gen.Mkdsk")
    A("")

    def enum(name, prefix, vals, doc):
        A("/-- %s -/" % doc)
        A("inductive %s where" % name)
        for v in vals:
            A("  | %s" % ident(prefix, v))
        A("  deriving DecidableEq, Repr")
        A("def %s.all : List %s := [%s]" % (name, name, ", ".join("." + ident(prefix, v) for v in vals)))
        A("def %s.name : %s → String" % (name, name))
        for v in vals:
            A("  | .%s => \"%s\"" % (ident(prefix, v), v))
        A("def %s.ofString (s : String) : Option %s := %s.all.find? (fun x => x.name == s)" % (name, name, name))
        A("")
    enum("Os", "o_", cli["os_names"], "`os_names` of cli.rs (value list of `mkdsk --os`)")
    enum("KindArg", "k_", cli["disk_kinds"], "`disk_kinds` of cli.rs (value list of `mkdsk --kind`)")
    enum("TypeArg", "t_", cli["img_types"], "`img_types` of cli.rs (value list of `mkdsk --type`)")
    enum("WrapArg", "w_", cli["wrap_types"], "`wrap_types` of cli.rs (value list of `mkdsk --wrap`)")
    A("/-- `enum DiskImageType` of img/mod.rs -/")
    A("inductive ImgType where")
    for v in imgtypes:
        A("  | %s" % v)
    A("  deriving DecidableEq, Repr")
    A("def ImgType.all : List ImgType := [%s]" % ", ".join("." + v for v in imgtypes))
    A("def ImgType.name : ImgType → String")
    for v in imgtypes:
        A("  | .%s => \"%s\"" % (v, v))
    A("")
    A("/-- the variant of `enum DiskKind` -/")
    A("inductive Form where")
    for f in FORMS:
        A("  | %s" % f)
    A("  deriving DecidableEq, Repr")
    A("")
    A("/-- the payload of a `DiskKind` value: a `TrackLayout` (five zones; flux FM=1 GCR=2 MFM=3, nibble code 44/53/62,")
    A("data rate in kbps) or a `BlockLayout` -/")
    A("structure KindData where")
    A("  form : Form")
    A("  cylinders : List Nat := []")
    A("  sides : List Nat := []")
    A("  sectors : List Nat := []")
    A("  sectorSize : List Nat := []")
    A("  flux : List Nat := []")
    A("  nib : List Nat := []")
    A("  rate : List Nat := []")
    A("  blockCount : Nat := 0")
    A("  blockSize : Nat := 0")
    A("  deriving DecidableEq, Repr")
    A("")
    A("/-- every distinct `DiskKind` value mentioned in names.rs, `DiskKind::from_str`, the mkimage / Dot2mg / DPB / BPB")
    A("tables and `PO::create`; two Rust expressions that are equal under the derived `PartialEq` share one constructor -/")
    A("inductive Kind where")
    for v in K.order:
        A("  | %s" % K.names[v])
    A("  deriving DecidableEq, Repr")
    A("def Kind.all : List Kind := [%s]" % ", ".join("." + K.names[v] for v in K.order))
    A("def Kind.name : Kind → String")
    for v in K.order:
        A("  | .%s => \"%s\"" % (K.names[v], K.names[v]))
    A("def Kind.data : Kind → KindData")
    for v in K.order:
        nm = K.names[v]
        if v[0] == "Unknown":
            A("  | .%s => { form := .Unknown }" % nm)
        elif v[0] == "LogicalBlocks":
            A("  | .%s => { form := .LogicalBlocks, blockCount := %d, blockSize := %d }" % (nm, v[1], v[2]))
        else:
            lay = v[1]
            A("  | .%s => { form := .%s, cylinders := %s, sides := %s, sectors := %s, sectorSize := %s, flux := %s, nib := %s, rate := %s }"
              % (nm, v[0], list(lay[0]), list(lay[1]), list(lay[2]), list(lay[3]), list(lay[4]), list(lay[5]), list(lay[6])))
    A("")
    A("/-- `DiskKind::from_str` restricted to the CLI values (`none`: no arm, the `.unwrap()` in mkdsk would panic) -/")
    A("def kindFromStr : KindArg → Option Kind")
    for v in cli["disk_kinds"]:
        A("  | .%s => %s" % (ident("k_", v), "some .%s" % kind_from[v] if v in kind_from else "none"))
    A("/-- `DiskImageType::from_str` restricted to the CLI values -/")
    A("def typeFromStr : TypeArg → Option ImgType")
    for v in cli["img_types"]:
        A("  | .%s => %s" % (ident("t_", v), "some .%s" % type_from[v] if v in type_from else "none"))
    A("/-- `DiskImageType::from_str` on the `--wrap` values (used by `Dot2mg::create`) -/")
    A("def wrapFromStr : WrapArg → Option ImgType")
    for v in cli["wrap_types"]:
        A("  | .%s => %s" % (ident("w_", v), "some .%s" % type_from[v] if v in type_from else "none"))
    A("")
    A("/-- the name check at the top of `mkdsk` -/")
    A("def osKnown : Os → Bool")
    for v in cli["os_names"]:
        A("  | .%s => %s" % (ident("o_", v), "true" if v in os_known else "false"))
    A("inductive Handler where | cpm (vers : Nat) | dos3x | prodos | pascal | fat | unreachable")
    A("  deriving DecidableEq, Repr")
    A("/-- `match which_fs.as_str()` in `mkdsk` -/")
    A("def osHandler : Os → Handler")
    for v in cli["os_names"]:
        A("  | .%s => %s" % (ident("o_", v), dispatch.get(v, ".unreachable")))
    A("/-- `if kind==… && which_fs==\"…\" { kind = … }` -/")
    A("def refine (os : Os) (k : Kind) : Kind := if Nat.beq k.ctorIdx Kind.%s.ctorIdx && Nat.beq os.ctorIdx Os.%s.ctorIdx then .%s else k" % (refine[0], ident("o_", refine[1]), refine[2]))
    A("")
    A("/-- what an arm of `mkimage` / `Dot2mg::create` calls -/")
    A("inductive Ctor where | d13 (tracks : Nat) | do_ (tracks sectors : Nat) | po (blocks : Nat) | woz1 | woz2 | dot2mg | nib | imd | td0 | img | refuse")
    A("  deriving DecidableEq, Repr")
    A("/-- the arms of `match (img_typ,*kind)` in `mkimage`, macros expanded, in source order (first match wins);")
    A("no matching arm = the default arm = refusal -/")
    A("def mkimageArms : List (ImgType × Kind × Ctor) := [")
    A(",\n".join("  (.%s, .%s, %s)" % a for a in arms))
    A("]")
    A("/-- the arms of `match (kind,wrap)` in `Dot2mg::create` -/")
    A("def dot2mgArms : List (Kind × Option ImgType × Ctor) := [")
    A(",\n".join("  (.%s, %s, %s)" % a for a in d2arms))
    A("]")
    A("/-- `select_kind` of dsk_po.rs for the block counts that occur in the tables -/")
    A("def poKind : Nat → Kind")
    for n in sorted(po_kind):
        A("  | %d => .%s" % (n, po_kind[n]))
    A("  | _ => .Unknown")
    A("def poBlockSize : Nat := %d" % po_bs)
    A("")
    A("/-- `file_extensions()` of the image module whose `what_am_i()` is the given type (UTF-8 bytes) -/")
    A("def fileExts : ImgType → List (List Nat)")
    for t in imgtypes:
        A("  | .%s => [%s]   -- %s" % (t, ", ".join(lean_str_bytes(e) for e in exts[t]), " ".join(exts[t])))
    A("")
    A("/-- capacities accepted by `mkdos3x` -/")
    A("def dos3xCapacities : List Nat := %s" % caps)
    A("/-- the guard of `Ok(v) if …` in `mkdos3x` -/")
    A("def dos3xVolGuard (v : Nat) : Bool := %s" % guard)
    A("/-- `if boot && v!=…` -/")
    A("def dos3xBootVol : Nat := %d" % bootvol)
    A("/-- the `assert!` on `vol` in dos3x `Disk::init` (`true` if there is none) -/")
    A("def dos3xInitAssert (v : Nat) : Bool := %s" % init_assert)
    A("")
    A("/-- kinds let through by a `match *kind` guard in `mkcpm` ahead of `DiskParameterBlock::create` (`none`: no guard) -/")
    A("def cpmKindGuard : Option (List Kind) := %s" % ("none" if cpm_guard is None else "some [%s]" % ", ".join("." + k for k in cpm_guard)))
    A("/-- DPB fields: spt bsh blm exm dsm drm al0 al1 cks off psh phm reserved_track_capacity -/")
    A("inductive Dpb where")
    for c in dpb_consts:
        A("  | %s" % c)
    A("  deriving DecidableEq, Repr")
    A("def Dpb.fields : Dpb → List Nat")
    for c, f in dpb_consts.items():
        A("  | .%s => %s" % (c, f))
    A("/-- arms of `DiskParameterBlock::create`; the default arm panics -/")
    A("def dpbArms : List (Kind × Dpb) := [%s]" % ", ".join("(.%s, .%s)" % a for a in dpb_arms))
    A("/-- BPB fields: bytes_per_sec sec_per_clus reserved_sectors num_fats root_ent_cnt tot_sec_16 media fat_size_16 sec_per_trk num_heads hidd_sec tot_sec_32 -/")
    A("inductive Bpb where")
    for c in bpb_consts:
        A("  | %s" % c)
    A("  deriving DecidableEq, Repr")
    A("def Bpb.fields : Bpb → List Nat")
    for c, f in bpb_consts.items():
        A("  | .%s => %s" % (c, f))
    A("/-- arms of `BootSector::create`; the default arm returns an error -/")
    A("def bpbArms : List (Kind × Bpb) := [%s]" % ", ".join("(.%s, .%s)" % a for a in bpb_arms))
    A("")
    A("/-- does prodos `Disk::format` start with `if !is_name_valid(vol_name) { … return Err }` -/")
    A("def prodosFormatChecksName : Bool := %s" % ("true" if prodos_checks else "false"))
    A("def pascalInvalidChars : List Nat := %s" % lean_str_bytes(pas_inv))
    A("def cpmInvalidChars : List Nat := %s" % lean_str_bytes(cpm_inv))
    A("def fatInvalidChars : List Nat := %s" % lean_str_bytes(fat_inv))
    A("")
    dg = digest([os.path.join(repo, f) for f in FILES] + [os.path.join(repo, "src/img/%s.rs" % m) for m in IMG_MODULES])
    A("def sourceDigest : String := \"%s\"" % dg)
    A("")
    A("end A2Verif.Gen.Mkdsk")
    A("")
    return {"Mkdsk": "\n".join(L)}, {"Mkdsk": dg}


if __name__ == "__main__":
    import sys
    mods, d = generate(sys.argv[1] if len(sys.argv) > 1 else "/repo")
    print(mods["Mkdsk"])
