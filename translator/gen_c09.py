"""Translator part of family c09 (property C09): constants of the image containers that are *data* in the
source.  Emits

  Gen/Td0.lean      CRC16_POLY / CRC16_TOPBIT / CRC16_BITS (from the body of `crc16`), the masks, the 7 trailer
                    bytes `to_bytes` appends after the end-of-disk mark, the three `SectorEncoding` codes
  Gen/C09Const.lean WOZ chunk ids, IMD sector-code table (`get_sec_buf_size` arms) and map flags, 2MG header
                    field layout (name, length) in declaration order, WOZ2 `Info`/`TMap`/`Trk` layouts, whether WOZ
                    `from_bytes` solves track 0 unconditionally (kind from the tracks, not from INFO), the value
                    domains enumerated by `Info::verify_value`

Everything is matched with anchored regular expressions; a construct that does not look as expected raises
TranslatorError (reported by bin/check as a broken obligation, never skipped).
"""
import os, re
from gen import TranslatorError, strip_rust_comments, parse_int, extract_tables, render_module, digest


def _fn_body(src, header_re, what):
    m = re.search(header_re, src)
    if not m:
        raise TranslatorError("cannot find %s" % what)
    i = src.index("{", m.end() - 1)
    depth, j = 0, i
    while j < len(src):
        if src[j] == "{":
            depth += 1
        elif src[j] == "}":
            depth -= 1
            if depth == 0:
                return src[i + 1:j]
        j += 1
    raise TranslatorError("unbalanced braces in %s" % what)


def _struct_fields(src, name):
    """#[derive(DiskStruct)] pub struct NAME { f: u8, g: [u8;N], ... } -> [(field, len)]"""
    m = re.search(r"pub struct %s\s*\{([^}]*)\}" % re.escape(name), src)
    if not m:
        raise TranslatorError("struct %s not found" % name)
    out = []
    for part in m.group(1).split(","):
        part = part.strip()
        if not part:
            continue
        fm = re.fullmatch(r"(?:pub\s+)?([a-z_][a-z0-9_]*)\s*:\s*(u8|\[\s*u8\s*;\s*([A-Za-z0-9_]+)\s*\])", part)
        if not fm:
            raise TranslatorError("struct %s: unsupported field %r" % (name, part))
        if fm.group(2) == "u8":
            out.append((fm.group(1), 1))
        else:
            out.append((fm.group(1), fm.group(3)))
    return out


def _td0(repo):
    path = os.path.join(repo, "src/img/td0.rs")
    src = strip_rust_comments(open(path).read())
    items = []
    body = _fn_body(src, r"pub fn crc16\s*\(\s*crc_seed\s*:\s*u16\s*,\s*buf\s*:\s*&\[u8\]\s*\)\s*->\s*u16\s*\{", "td0::crc16")
    norm = re.sub(r"\s+", " ", body).strip()
    pat = (r"let mut crc: u16 = crc_seed; for i in 0\.\.buf\.len\(\) \{ crc \^= \(buf\[i\] as u16\) << 8; "
           r"for _bit in 0\.\.(\w+) \{ crc = \(crc << 1\) \^ match crc & (\w+) \{ 0 => 0, _ => (\w+) \}; \} \} crc")
    m = re.fullmatch(pat, norm)
    if not m:
        raise TranslatorError("td0::crc16 does not have the expected bit-serial shape: %r" % norm)
    items.append(("CRC16_BITS", [], parse_int(m.group(1))))
    items.append(("CRC16_TOPBIT", [], parse_int(m.group(2))))
    items.append(("CRC16_POLY", [], parse_int(m.group(3))))
    want = ["SECTOR_SIZE_BASE", "HEAD_MASK", "NO_DATA_MASK", "RATE_MASK", "FM_MASK", "STEPPING_MASK", "COMMENT_MASK"]
    scal = {n: v for (n, d, v) in extract_tables(path, want_scalars=True) if not d}
    for n in want:
        if n not in scal:
            raise TranslatorError("td0.rs: constant %s not found" % n)
        items.append((n, [], scal[n]))
    # enum SectorEncoding { Raw = 0, Repeated = 1, RunLength = 2 }
    m = re.search(r"pub enum SectorEncoding\s*\{([^}]*)\}", src)
    if not m:
        raise TranslatorError("td0.rs: enum SectorEncoding not found")
    enc = {}
    for part in m.group(1).split(","):
        part = part.strip()
        if part:
            k, v = [x.strip() for x in part.split("=")]
            enc[k] = parse_int(v)
    if sorted(enc) != ["Raw", "Repeated", "RunLength"]:
        raise TranslatorError("td0.rs: SectorEncoding variants changed: %r" % enc)
    for k in ["Raw", "Repeated", "RunLength"]:
        items.append(("ENC_" + k.upper(), [], enc[k]))
    # trailer appended by to_bytes
    # the `to_bytes` of `impl DiskImage for Td0` is the one that calls the external compressor
    tb = None
    for mm in re.finditer(r"fn to_bytes\s*\(\s*&mut self\s*\)\s*->\s*Vec<u8>\s*\{", src):
        body = _fn_body(src[mm.start():], r"fn to_bytes\s*\(\s*&mut self\s*\)\s*->\s*Vec<u8>\s*\{", "Td0::to_bytes")
        if "compress_slice" in body:
            tb = body
    if tb is None:
        raise TranslatorError("cannot find Td0::to_bytes")
    m = re.search(r"ans\.push\(self\.end\);\s*ans\.append\(&mut vec!\[([^\]]*)\]\);", tb)
    if not m:
        raise TranslatorError("Td0::to_bytes: trailer bytes not found")
    trailer = [parse_int(x) for x in m.group(1).split(",")]
    items.append(("TRAILER", [len(trailer)], trailer))
    # header layouts
    for st in ["ImageHeader", "CommentHeader", "SectorHeader", "TrackHeader"]:
        fl = _struct_fields(src, st)
        items.append(("LEN_" + st.upper(), [], sum(int(l) for _, l in fl)))
        items.append(("FIELDS_" + st.upper(), [len(fl)], [int(l) for _, l in fl]))
    return render_module("Td0", items, ["src/img/td0.rs"]), digest([path])


def _consts(repo):
    items = []
    wpath = os.path.join(repo, "src/img/woz.rs")
    scal = {n: v for (n, d, v) in extract_tables(wpath, want_scalars=True, skip=("CRC32_TAB",)) if not d}
    for n in ["INFO_ID", "TMAP_ID", "TRKS_ID", "WRIT_ID", "META_ID"]:
        if n not in scal:
            raise TranslatorError("woz.rs: %s not found" % n)
        items.append((n, [], scal[n]))
    # IMD: arms of get_sec_buf_size -> per code 0..8: 0 = one byte, 1 = 1+sec_size, 2 = two bytes
    ipath = os.path.join(repo, "src/img/imd.rs")
    isrc = strip_rust_comments(open(ipath).read())
    m = re.search(r"pub enum SectorData\s*\{([^}]*)\}", isrc)
    if not m:
        raise TranslatorError("imd.rs: enum SectorData not found")
    codes = {}
    for part in m.group(1).split(","):
        part = part.strip()
        if part:
            k, v = [x.strip() for x in part.split("=")]
            codes[k] = parse_int(v)
    body = _fn_body(isrc, r"fn get_sec_buf_size\s*\(\s*&self\s*,\s*sector_code\s*:\s*u8\s*\)\s*->\s*usize\s*\{", "imd get_sec_buf_size")
    arms = re.findall(r"Some\(SectorData::(\w+)\)\s*=>\s*([^,]+),", body)
    kindmap = {"1": 0, "1 + sec_size": 1, "2": 2}
    table = [None] * (max(codes.values()) + 1)
    for name, rhs in arms:
        rhs = re.sub(r"\s+", " ", rhs.strip())
        if name not in codes or rhs not in kindmap:
            raise TranslatorError("imd get_sec_buf_size: unsupported arm %s => %s" % (name, rhs))
        table[codes[name]] = kindmap[rhs]
    if any(t is None for t in table) or not re.search(r"_\s*=>\s*panic!", body):
        raise TranslatorError("imd get_sec_buf_size: arms do not cover the enum / no panic arm")
    if not re.search(r"let sec_size = SECTOR_SIZE_BASE << self\.sector_shift;", body):
        raise TranslatorError("imd get_sec_buf_size: sec_size definition changed")
    items.append(("IMD_CODE_KIND", [len(table)], table))
    iscal = {n: v for (n, d, v) in extract_tables(ipath, want_scalars=True) if not d}
    for n in ["SECTOR_SIZE_BASE", "CYL_MAP_FLAG", "HEAD_MAP_FLAG", "HEAD_MASK"]:
        if n not in iscal:
            raise TranslatorError("imd.rs: %s not found" % n)
        items.append(("IMD_" + n, [], iscal[n]))
    # 2MG header layout
    dpath = os.path.join(repo, "src/img/dot2mg.rs")
    dsrc = strip_rust_comments(open(dpath).read())
    fl = _struct_fields(dsrc, "Header")
    names = [n for n, _ in fl]
    expect = ["magic", "creator_id", "header_len", "version", "img_fmt", "flags", "blocks", "data_offset", "data_len",
              "comment_offset", "comment_len", "creator_offset", "creator_len", "pad"]
    if names != expect:
        raise TranslatorError("dot2mg Header fields changed: %r" % names)
    items.append(("DOT2MG_FIELDS", [len(fl)], [int(l) for _, l in fl]))
    # WOZ2 layouts
    w2path = os.path.join(repo, "src/img/woz2.rs")
    w2 = strip_rust_comments(open(w2path).read())
    for st in ["Header", "Info", "TMap", "Trk"]:
        fl = _struct_fields(w2, st)
        items.append(("WOZ2_LEN_" + st.upper(), [], sum(int(l) for _, l in fl)))
    w1path = os.path.join(repo, "src/img/woz1.rs")
    w1 = strip_rust_comments(open(w1path).read())
    m = re.search(r"const TRACK_BYTE_CAPACITY: usize = (\d+);", w1)
    if not m:
        raise TranslatorError("woz1.rs: TRACK_BYTE_CAPACITY not found")
    cap = int(m.group(1))
    for st in ["Header", "Info", "TMap", "Trk"]:
        fl = _struct_fields(w1, st)
        items.append(("WOZ1_LEN_" + st.upper(), [], sum((cap if l == "TRACK_BYTE_CAPACITY" else int(l)) for _, l in fl)))
    # WOZ: what decides the disk kind when a file is loaded.  `from_bytes` makes a first guess from INFO and must then
    # solve track 0 UNCONDITIONALLY (the solution replaces the guess): 1 = the `if let .. get_track_solution(0)` is the
    # first and only test, 0 = something stands in front of it
    def _solves(src, what, anchor_re):
        m = re.search(anchor_re, src, re.S)
        if not m:
            raise TranslatorError("%s: kind detection in from_bytes not found" % what)
        head = re.sub(r"\s+", " ", m.group(1)).strip()
        if "get_track_solution(0)" not in src[m.start():m.start() + 1500]:
            raise TranslatorError("%s: from_bytes does not solve track 0 any more" % what)
        return 1 if re.fullmatch(r"if let Ok\(Some\(\w+\)\) = ans\.get_track_solution\(0\) \{", head) else 0
    items.append(("WOZ2_KIND_SOLVES_TRACK0", [], _solves(w2, "woz2.rs",
        r"ans\.kind = match \(ans\.info\.disk_type,ans\.info\.boot_sector_format,ans\.info\.disk_sides\) \{.*?\};\s*(if[^{]*\{)")))
    items.append(("WOZ1_KIND_SOLVES_TRACK0", [], _solves(w1, "woz1.rs",
        r"if u32::from_le_bytes\(ans\.info\.id\)>0[^{]*ans\.info\.disk_type==1 \{\s*(if[^{]*\{)")))
    # the value domains `Info::verify_value` enumerates (`stringify!(key) => hex_str=="00" || ...`), as byte values
    def _domains(src, what, prefix):
        body = _fn_body(src, r"fn verify_value\s*\(\s*&self\s*,\s*key\s*:\s*&str\s*,\s*hex_str\s*:\s*&str\s*\)\s*->\s*bool\s*\{", what + " Info::verify_value")
        found = {}
        for mm in re.finditer(r"stringify!\((\w+)\)\s*=>\s*((?:hex_str==\"[0-9a-fA-F]{2}\"\s*(?:\|\|\s*)?)+),", body):
            vals = [int(x, 16) for x in re.findall(r"hex_str==\"([0-9a-fA-F]{2})\"", mm.group(2))]
            found[mm.group(1)] = vals
        return found
    d2 = _domains(w2, "woz2.rs", "WOZ2")
    for k in ["disk_type", "write_protected", "synchronized", "cleaned", "disk_sides", "boot_sector_format"]:
        if k not in d2:
            raise TranslatorError("woz2.rs verify_value: no enumerated domain for %s" % k)
        items.append(("WOZ2_OK_" + k.upper(), [len(d2[k])], d2[k]))
    d1 = _domains(w1, "woz1.rs", "WOZ1")
    for k in ["disk_type", "write_protected", "synchronized", "cleaned"]:
        if k not in d1:
            raise TranslatorError("woz1.rs verify_value: no enumerated domain for %s" % k)
        items.append(("WOZ1_OK_" + k.upper(), [len(d1[k])], d1[k]))
    srcs = ["src/img/woz.rs", "src/img/imd.rs", "src/img/dot2mg.rs", "src/img/woz2.rs", "src/img/woz1.rs"]
    return render_module("C09Const", items, srcs), digest([wpath, ipath, dpath, w2path, w1path])


def generate(repo):
    mods, digs = {}, {}
    mods["Td0"], digs["Td0"] = _td0(repo)
    mods["C09Const"], digs["C09Const"] = _consts(repo)
    return mods, digs


if __name__ == "__main__":
    import sys
    ms, ds = generate(sys.argv[1] if len(sys.argv) > 1 else "/repo")
    for k, v in ms.items():
        print(v)
    print(ds)
