"""C12Fs translator: the iteration caps and robustness guards of the file-system READ PATHS as they are in the
source *now*.  Emits `A2Verif.Gen.C12FsFlags`:

* `Nat` constants: the caps the concrete models use as fuel (`MAX_DIRECTORY_REPS`, `MAX_TSLIST_REPS` of DOS 3.x,
  `MAX_DIRECTORY_REPS`, `MAX_DIRECTORY_DEPTH` of ProDOS);
* one `Bool` per guard / repair (`true` = the guarded form is in the source):
  `pascalNameTotal` (pascal/pack.rs name conversions clamp and convert lossily),
  `prodosIndexEofSaturating` (`read_index_block` cannot underflow),
  `prodosTreeCapErr`, `prodosGlobCapErr` (the nesting-cap branch of `tree_node` / `glob_node` returns `Err`, which the
  `?` at the recursive call carries out of the whole walk),
  `prodosVisitBudget` (both walks count the directories they enter and stop beyond `total_blocks`).

A site that matches neither the as-written nor the repaired text raises `TranslatorError` (the correspondence would be
unknown).  Purely syntactic (regular expressions over comment-stripped source).
"""
import os, re

try:
    from gen import TranslatorError, strip_rust_comments, digest
except Exception:  # stand-alone use
    import hashlib

    class TranslatorError(Exception):
        pass

    def strip_rust_comments(src):
        src = re.sub(r"/\*.*?\*/", "", src, flags=re.S)
        return re.sub(r"//[^\n]*", "", src)

    def digest(paths):
        h = hashlib.sha256()
        for p in paths:
            h.update(open(p, "rb").read())
        return h.hexdigest()[:16]

FILES = ["src/fs/pascal/pack.rs", "src/fs/dos3x/types.rs", "src/fs/dos3x/mod.rs", "src/fs/prodos/mod.rs", "src/fs/fat/mod.rs", "src/fs/cpm/mod.rs"]


def ws(s):
    return re.sub(r"\s+", "", s)


def block_after(src, start, what):
    """balanced `{…}` starting at the first `{` at or after `start`"""
    i = src.find("{", start)
    if i < 0:
        raise TranslatorError("c12fs: no body for %s" % what)
    depth, j = 0, i
    while j < len(src):
        if src[j] == "{":
            depth += 1
        elif src[j] == "}":
            depth -= 1
            if depth == 0:
                return src[i:j + 1]
        j += 1
    raise TranslatorError("c12fs: unbalanced braces in %s" % what)


def fn_body(src, header_regex, what):
    m = re.search(header_regex, src)
    if not m:
        raise TranslatorError("c12fs: cannot find %s" % what)
    return block_after(src, m.end() - 1, what)


def const(src, name, what):
    m = re.search(r"\bconst\s+%s\s*:\s*usize\s*=\s*(\d+)\s*;" % name, src)
    if not m:
        raise TranslatorError("c12fs: constant %s not found in %s" % (name, what))
    return int(m.group(1))


def cap_branch(body, cond, what):
    """does the block guarded by `if <cond> {` return Err (True) or Ok (False)?"""
    m = re.search(r"if\s+" + cond + r"\s*\{", body)
    if not m:
        raise TranslatorError("c12fs: %s has no nesting cap test" % what)
    blk = block_after(body, m.end() - 1, what)
    has_err = re.search(r"return\s+Err\s*\(", blk) is not None
    has_ok = re.search(r"return\s+Ok\s*\(", blk) is not None
    if has_err and not has_ok:
        return True
    if has_ok and not has_err:
        return False
    raise TranslatorError("c12fs: the nesting cap branch of %s neither plainly returns Err nor Ok" % what)


def visit_budget(body, what, rec_name, limit=r"self\.total_blocks"):
    """`*visits += 1; if *visits > <limit> { … return Err(…) }` and `visits` handed to the recursive call"""
    t = ws(body)
    if "visits" not in t:
        return False
    m = re.search(r"\*visits\s*\+=\s*1\s*;\s*if\s+\*visits\s*>\s*" + limit + r"\s*\{", body)
    if not m:
        raise TranslatorError("c12fs: %s mentions `visits` but not in the modelled form" % what)
    blk = block_after(body, m.end() - 1, what)
    if re.search(r"return\s+Err\s*\(", blk) is None or re.search(r"return\s+Ok\s*\(", blk):
        raise TranslatorError("c12fs: the visit budget branch of %s does not return Err" % what)
    calls = re.findall(r"self\.%s\s*\(([^;]*?)\)\s*\?" % rec_name, body)
    if not calls or not all(c.rstrip().endswith("visits") for c in calls):
        raise TranslatorError("c12fs: %s does not hand `visits` to every recursive call" % what)
    return True


def generate(repo):
    P = lambda r: os.path.join(repo, r)
    rd = lambda r: strip_rust_comments(open(P(r)).read())
    flags, consts = [], []

    # ---- Pascal name conversions ------------------------------------------------------------------------
    pk = rd("src/fs/pascal/pack.rs")
    vals = []
    for fn in ["file_name_to_string", "vol_name_to_string"]:
        b = ws(fn_body(pk, r"pub fn %s\s*\(" % fn, "pascal %s" % fn))
        orig = ws('let copy = fname[0..len as usize].to_vec(); if let Ok(result) = String::from_utf8(copy) { return result.trim_end().to_string(); } panic!("encountered a bad file name");')
        fixed = ws('let len = usize::min(len as usize,fname.len()); String::from_utf8_lossy(&fname[0..len]).trim_end().to_string()')
        if fixed in b and "panic!" not in b:
            vals.append(True)
        elif orig in b:
            vals.append(False)
        else:
            raise TranslatorError("c12fs: pascal %s matches neither the original nor the repaired form" % fn)
    flags.append(("pascalNameTotal", all(vals), "pascal/pack.rs: both name conversions clamp the length and convert lossily"))

    # ---- DOS 3.x caps -----------------------------------------------------------------------------------
    dt = rd("src/fs/dos3x/types.rs")
    consts.append(("dosMaxDirectoryReps", const(dt, "MAX_DIRECTORY_REPS", "dos3x/types.rs")))
    consts.append(("dosMaxTslistReps", const(dt, "MAX_TSLIST_REPS", "dos3x/types.rs")))
    dm = rd("src/fs/dos3x/mod.rs")
    for fn, cap in [("catalog_to_vec", "MAX_DIRECTORY_REPS"), ("glob", "MAX_DIRECTORY_REPS"), ("tree", "MAX_DIRECTORY_REPS"),
                    ("get_tslist_sector", "MAX_DIRECTORY_REPS"), ("read_file", "MAX_TSLIST_REPS")]:
        b = ws(fn_body(dm, r"fn %s\s*\(" % fn, "dos3x %s" % fn))
        if ws("for _try in 0..types::%s {" % cap) not in b:
            raise TranslatorError("c12fs: dos3x %s no longer loops `for _try in 0..types::%s`" % (fn, cap))
    ov = ws(fn_body(dm, r"fn open_vtoc_buffer\s*\(", "dos3x open_vtoc_buffer"))
    if ws("if vtoc.max_pairs<1 || vtoc.max_pairs>122 {") not in ov:
        raise TranslatorError("c12fs: dos3x open_vtoc_buffer lost its max_pairs range test")

    # ---- ProDOS -----------------------------------------------------------------------------------------
    pm = rd("src/fs/prodos/mod.rs")
    consts.append(("prodosMaxDirectoryReps", const(pm, "MAX_DIRECTORY_REPS", "prodos/mod.rs")))
    consts.append(("prodosMaxDirectoryDepth", const(pm, "MAX_DIRECTORY_DEPTH", "prodos/mod.rs")))
    rib = ws(fn_body(pm, r"fn read_index_block\s*\(", "prodos read_index_block"))
    if ws("bytes = entry.eof().saturating_sub(*eof);") in rib:
        flags.append(("prodosIndexEofSaturating", True, "read_index_block: the running byte count cannot underflow"))
    elif ws("bytes = entry.eof() - *eof;") in rib:
        flags.append(("prodosIndexEofSaturating", False, "read_index_block: the running byte count cannot underflow"))
    else:
        raise TranslatorError("c12fs: prodos read_index_block matches neither the original nor the repaired form")
    tn = fn_body(pm, r"fn tree_node\s*\(", "prodos tree_node")
    gn = fn_body(pm, r"fn glob_node\s*\(", "prodos glob_node")
    flags.append(("prodosTreeCapErr", cap_branch(tn, r"depth\s*>\s*MAX_DIRECTORY_DEPTH", "tree_node"),
                  "tree_node: reaching the nesting cap returns Err (which ends the whole walk)"))
    flags.append(("prodosGlobCapErr", cap_branch(gn, r"self\.curr_path\.len\(\)\s*>\s*MAX_DIRECTORY_DEPTH", "glob_node"),
                  "glob_node: reaching the nesting cap returns Err (which ends the whole walk)"))
    for body, what in [(tn, "tree_node"), (gn, "glob_node")]:
        t = ws(body)
        if ws("reps += 1; if reps > MAX_DIRECTORY_REPS {") not in t or ws("while curr>0 {") not in t:
            raise TranslatorError("c12fs: the block loop of %s is not in the modelled form" % what)
    if ws('self.tree_node(entry.get_ptr(),include_meta,depth+1') not in ws(tn):
        raise TranslatorError("c12fs: tree_node does not recurse with depth+1")
    b1, b2 = visit_budget(tn, "tree_node", "tree_node"), visit_budget(gn, "glob_node", "glob_node")
    flags.append(("prodosVisitBudget", b1 and b2, "tree_node and glob_node stop beyond total_blocks directories"))
    tr = ws(fn_body(pm, r"fn tree\s*\(\s*&mut self", "prodos tree"))
    if ws("self.tree_node(dir_block,include_meta,0") not in tr:
        raise TranslatorError("c12fs: prodos tree does not start tree_node at depth 0")

    # ---- FAT -----------------------------------------------------------------------------------------------
    fm = rd("src/fs/fat/mod.rs")
    consts.append(("fatMaxDirectoryDepth", const(fm, "MAX_DIRECTORY_DEPTH", "fat/mod.rs")))
    ftn = fn_body(fm, r"fn tree_node\s*\(", "fat tree_node")
    fgn = fn_body(fm, r"fn glob_node\s*\(", "fat glob_node")
    flags.append(("fatTreeCapErr", cap_branch(ftn, r"depth\s*>\s*MAX_DIRECTORY_DEPTH", "fat tree_node"),
                  "fat tree_node: reaching the nesting cap returns Err"))
    flags.append(("fatGlobCapErr", cap_branch(fgn, r"self\.curr_path\.len\(\)\s*>\s*MAX_DIRECTORY_DEPTH", "fat glob_node"),
                  "fat glob_node: reaching the nesting cap returns Err"))
    lim = r"self\.boot_sector\.cluster_count_usable\(\)\s*\+\s*1"
    f1, f2 = visit_budget(ftn, "fat tree_node", "tree_node", lim), visit_budget(fgn, "fat glob_node", "glob_node", lim)
    flags.append(("fatVisitBudget", f1 and f2, "fat tree_node and glob_node stop beyond cluster_count_usable()+1 directories"))
    if ws("self.tree_node(&subdir,include_meta,depth+1") not in ws(ftn):
        raise TranslatorError("c12fs: fat tree_node does not recurse with depth+1")

    # ---- CP/M ----------------------------------------------------------------------------------------------
    cm = rd("src/fs/cpm/mod.rs")
    nfb = ws(fn_body(cm, r"fn num_free_blocks\s*\(", "cpm num_free_blocks"))
    if ws("(self.dpb.user_blocks() as u16).saturating_sub(used as u16)") in nfb:
        flags.append(("cpmFreeSaturating", True, "cpm num_free_blocks cannot underflow"))
    elif ws("self.dpb.user_blocks() as u16 - used as u16") in nfb:
        flags.append(("cpmFreeSaturating", False, "cpm num_free_blocks cannot underflow"))
    else:
        raise TranslatorError("c12fs: cpm num_free_blocks matches neither the original nor the repaired form")
    rf = fn_body(cm, r"fn read_file\s*\(", "cpm read_file")
    m = re.search(r"if\s+lx_lower_bound\s*<\s*prev_lx_count\s*\{", rf)
    if not m:
        raise TranslatorError("c12fs: cpm read_file lost its extent ordering test")
    blk = block_after(rf, m.end() - 1, "cpm read_file ordering test")
    if "panic!" in blk and "return Err" not in ws(blk).replace("returnErr", "return Err"):
        flags.append(("cpmOverlapErr", False, "cpm read_file: overlapping extent indices are an error, not a panic"))
    elif re.search(r"return\s+Err\s*\(", blk) and "panic!" not in blk:
        flags.append(("cpmOverlapErr", True, "cpm read_file: overlapping extent indices are an error, not a panic"))
    else:
        raise TranslatorError("c12fs: the extent ordering branch of cpm read_file is not in a modelled form")

    lines = ["/-! GENERATED by /verif/translator/gen_c12fs.py from %s -- do not edit; regenerated on every run -/" % ", ".join(FILES),
             "namespace A2Verif.Gen.C12FsFlags", ""]
    for name, val in consts:
        lines.append("def %s : Nat := %d" % (name, val))
    lines.append("")
    for name, val, doc in flags:
        lines.append("/-- %s -/" % doc)
        lines.append("def %s : Bool := %s" % (name, "true" if val else "false"))
    lines += ["", "end A2Verif.Gen.C12FsFlags", ""]
    return {"C12FsFlags": "\n".join(lines)}, {"C12FsFlags": digest([P(f) for f in FILES])}


if __name__ == "__main__":
    import sys
    ms, ds = generate(sys.argv[1] if len(sys.argv) > 1 else "/repo")
    print(ms["C12FsFlags"])
