"""C20 translator: census of every iteration over a `HashMap`/`HashSet` in /repo/src.

Emits two Lean modules

* `A2Verif.Gen.HashSites` -- one row per iteration site (file id, enclosing-fn id, fingerprint, class),
  `siteCount`, `classifiedCount`, `unclassified` (fingerprints that have no entry in the committed table
  `translator/c20_sites.json`) and per-class counts.  `Props/C20.lean` proves `unclassified = []` and
  `siteCount = classifiedCount` by `decide`, so a new or rewritten iteration over a hash container that nobody
  has looked at breaks the obligation (only for C20: this generator never raises because of it).
* `A2Verif.Gen.C20Flags` -- for the three `Records` renderers of `src/fs/recs.rs` whether the code as it is
  *now* still walks the `HashMap` directly (`false`) or renders in sorted key order (`true`).  The driver
  selects the as-written or the repaired Lean model with these flags.

How a site is found (syntactic, pragmatic type inference, see design/C20.md):
  1. comments and string/char literals are blanked (positions kept);
  2. *hash-typed names*: struct fields `name: ..Hash{Map,Set}<..>` (known repo-wide by field name), and per
     function: parameters / `let` with a hash type annotation, `let x = Hash{Map,Set}::..`, `let x = <hash
     expr>[.clone()]`, binders that receive an *inner* hash container of a nested one (`if let Some(v) =
     m.get(..)`, `let v = match m.get(..)`, `for v in m.values()`), `.collect::<Hash..>()`; functions whose
     return type is a hash container (known repo-wide by fn name);
  3. *sites*: `<hash expr>.iter()/.iter_mut()/.keys()/.values()/.values_mut()/.into_iter()/.into_keys()/
     .into_values()/.drain()/.retain(..)`, `for PAT in [&[mut]] <hash expr> {`, and `<hash expr>` passed whole
     to `.extend(..)`, `from_iter(..)`, `.chain(..)`, `.zip(..)`.
  A receiver whose last identifier is a hash-typed name *somewhere* in the repo but could not be resolved in
  scope is still reported (class must then be `not-hash` with a reason) -- the census over-approximates.

Fingerprint: sha256 of (file, enclosing fn, whitespace-free statement text, index among equal statements in
that fn[, early-exit tags]) -- independent of line numbers.  Early-exit tags (`exit_signature`): for a `for` loop
over a hash container, `break` out of that loop, `return`, an `if`/`while` condition on the `.len()` of something
that outlives one iteration; and the same (prefixed `derived-`) for every later loop over a local Vec/String that
the body appended to (such a sequence is in hash order) up to the first `.sort*()` of it, plus positional use of that
sequence (`truncate`, `first`, indexing, `iter().take(..)`, …).  A site with tags is never classified by an automatic
rule, and since the tags are part of the fingerprint, adding an early exit to a reviewed loop un-classifies it.  Raises TranslatorError only on things it cannot parse at all
(unbalanced braces, missing table file, malformed table).
"""
import os, re, json, hashlib

try:
    from gen import TranslatorError
except Exception:  # stand-alone use
    class TranslatorError(Exception):
        pass

HERE = os.path.dirname(os.path.abspath(__file__))
TABLE = os.path.join(HERE, "c20_sites.json")
CLASSES = ["order-free", "sorted-before-use", "modelled", "not-hash", "lsp-unordered"]
ITER_METHODS = ["iter", "iter_mut", "keys", "values", "values_mut", "into_iter", "into_keys", "into_values",
                "drain", "retain"]
WHOLE_ARG_FUNCS = ["extend", "from_iter", "chain", "zip"]
WRAPPERS = ["Option", "Arc", "Mutex", "Rc", "RefCell", "Box", "RwLock"]
PASS_THROUGH = ["clone", "unwrap", "borrow", "borrow_mut", "lock", "as_ref", "as_mut", "to_owned", "expect",
                "read", "write", "unwrap_or_default"]
INNER_GET = ["get", "get_mut", "remove", "values", "values_mut", "entry", "or_insert", "or_insert_with", "or_default"]


# ------------------------------------------------------------------------------------------------ lexing
def scrub(src):
    """blank comments, string and char literal *contents* (same length, newlines kept)"""
    out = list(src)
    n = len(src)
    i = 0

    def blank(a, b):
        for k in range(a, b):
            if out[k] != "\n":
                out[k] = " "
    while i < n:
        c = src[i]
        if src.startswith("//", i):
            j = src.find("\n", i)
            j = n if j < 0 else j
            blank(i, j)
            i = j
        elif src.startswith("/*", i):
            depth, j = 1, i + 2
            while j < n and depth > 0:
                if src.startswith("/*", j):
                    depth += 1; j += 2
                elif src.startswith("*/", j):
                    depth -= 1; j += 2
                else:
                    j += 1
            blank(i, j)
            i = j
        elif c == '"' or (c in "rb" and re.match(r'(?:br|rb|r|b)#*"', src[i:i + 8]) and (i == 0 or not (src[i - 1].isalnum() or src[i - 1] == "_"))):
            m = re.match(r'(br|rb|r|b)?(#*)"', src[i:i + 12])
            raw = m.group(1) in ("r", "br", "rb")
            hashes = m.group(2)
            j = i + m.end()
            start = j
            if raw:
                end = src.find('"' + hashes, j)
                if end < 0:
                    raise TranslatorError("unterminated raw string")
                blank(start, end)
                i = end + 1 + len(hashes)
            else:
                while j < n and src[j] != '"':
                    j += 2 if src[j] == "\\" else 1
                blank(start, j)
                i = j + 1
        elif c == "'":
            m = re.match(r"'(\\x[0-9a-fA-F]{2}|\\u\{[0-9a-fA-F]+\}|\\.|[^\\'])'", src[i:i + 14])
            if m:
                blank(i + 1, i + m.end() - 1)
                i += m.end()
            else:
                i += 1  # lifetime
        else:
            i += 1
    return "".join(out)


def match_close(s, i, op, cl):
    """s[i] == op; index of the matching close"""
    depth = 0
    n = len(s)
    while i < n:
        ch = s[i]
        if ch == op:
            depth += 1
        elif ch == cl:
            depth -= 1
            if depth == 0:
                return i
        i += 1
    raise TranslatorError("unbalanced %s%s" % (op, cl))


def parse_type(s, i):
    """type text starting at s[i] up to a top-level , ) = ; { or `where`; returns (text, end)"""
    depth = 0
    j = i
    n = len(s)
    while j < n:
        ch = s[j]
        if ch in "<([":
            depth += 1
        elif ch in ">)]":
            if ch == ">" and j > 0 and s[j - 1] == "-":
                pass
            elif depth == 0:
                break
            else:
                depth -= 1
        elif depth == 0 and ch in ",=;{":
            break
        j += 1
    return s[i:j].strip(), j


def type_kind(t):
    """(direct, nested): is the type (through &/mut/wrappers) a hash container; does it contain one inside"""
    u = t.strip()
    changed = True
    while changed:
        changed = False
        u2 = re.sub(r"^(&\s*('\w+\s+)?(mut\s+)?|mut\s+|dyn\s+|impl\s+)", "", u).strip()
        if u2 != u:
            u = u2; changed = True
        m = re.match(r"(?:[\w:]+::)?(%s)\s*<" % "|".join(WRAPPERS), u)
        if m:
            u = u[m.end():].rstrip()
            if u.endswith(">"):
                u = u[:-1]
            u = u.strip(); changed = True
    m = re.match(r"(?:std::collections::|collections::)?Hash(Map|Set)\b", u)
    direct = bool(m)
    rest = u[m.end():] if m else u
    nested = bool(re.search(r"\bHash(Map|Set)\b", rest))
    return direct, nested


# ------------------------------------------------------------------------------------------------ structure
class Fn:
    def __init__(self, name, start, body_start, end, owner):
        self.name, self.start, self.body_start, self.end, self.owner = name, start, body_start, end, owner
        self.direct = {}   # local name -> decl pos (direct hash containers)
        self.nested = {}   # local name -> decl pos (containers whose values are hash containers)

    @property
    def ident(self):
        return (self.owner + "::" if self.owner else "") + self.name


def find_spans(s, kw_re):
    """[(header_text, header_start, body_open, body_close)] for `kw ... {` items"""
    res = []
    for m in re.finditer(kw_re, s):
        i = m.end()
        depth = 0
        n = len(s)
        j = i
        while j < n:
            ch = s[j]
            if ch in "(<[":
                if not (ch == "<" and False):
                    depth += 1
            elif ch in ")>]":
                if ch == ">" and s[j - 1] == "-":
                    pass
                else:
                    depth -= 1
            elif ch == "{" and depth <= 0:
                break
            elif ch == ";" and depth <= 0:
                j = -1
                break
            j += 1
        if j < 0 or j >= n:
            continue
        close = match_close(s, j, "{", "}")
        res.append((s[m.start():j], m.start(), j, close))
    return res


def parse_file(src):
    s = scrub(src)
    impls = []
    for hdr, a, b, c in find_spans(s, r"\bimpl\b"):
        h = re.sub(r"^impl\s*(<[^>]*>)?", "", hdr).strip()
        h = re.sub(r"\s+where\b.*$", "", h, flags=re.S)
        h = re.sub(r"<[^<>]*>", "", h)
        h = re.sub(r"\b\w+::", "", h)
        impls.append((re.sub(r"\s+", " ", h).strip(), b, c))
    for hdr, a, b, c in find_spans(s, r"\btrait\s+\w+"):
        impls.append((hdr.split()[1].split("<")[0].rstrip(":"), b, c))
    fns = []
    for hdr, a, b, c in find_spans(s, r"\bfn\s+\w+"):
        name = re.match(r"fn\s+(\w+)", hdr).group(1)
        owner = ""
        best = None
        for h, ib, ic in impls:
            if ib < a < ic and (best is None or ib > best[1]):
                best = (h, ib)
        if best:
            owner = best[0]
        fns.append(Fn(name, a, b, c, owner))
    structs = [(b, c) for hdr, a, b, c in find_spans(s, r"\b(?:struct|union)\s+\w+")]
    # enum struct-variants count as fields too
    structs += [(b, c) for hdr, a, b, c in find_spans(s, r"\benum\s+\w+")]
    return s, fns, structs


def outer_fn(fns, pos):
    best = None
    for f in fns:
        if f.start <= pos <= f.end and (best is None or f.start < best.start):
            best = f
    return best


def inner_fn(fns, pos):
    best = None
    for f in fns:
        if f.start <= pos <= f.end and (best is None or f.start > best.start):
            best = f
    return best


# ------------------------------------------------------------------------------------------------ receivers
def receiver_before(s, dot):
    """text of the postfix chain that ends just before s[dot] == '.'"""
    i = dot
    while True:
        j = i
        while j > 0 and s[j - 1].isspace():
            j -= 1
        if j > 0 and s[j - 1] in ")]":
            cl = s[j - 1]
            op = "(" if cl == ")" else "["
            depth = 0
            k = j - 1
            while k >= 0:
                if s[k] == cl:
                    depth += 1
                elif s[k] == op:
                    depth -= 1
                    if depth == 0:
                        break
                k -= 1
            if k < 0:
                break
            i = k
            continue
        if j > 0 and s[j - 1] == "?":
            i = j - 1
            continue
        if j > 0 and (s[j - 1].isalnum() or s[j - 1] == "_"):
            k = j
            while k > 0 and (s[k - 1].isalnum() or s[k - 1] == "_"):
                k -= 1
            i = k
            # turbofish / path / field separators
            m = k
            while m > 0 and s[m - 1].isspace():
                m -= 1
            if m > 0 and s[m - 1] == ".":
                i = m - 1
                continue
            if m > 1 and s[m - 2:m] == "::":
                i = m - 2
                if i > 0 and s[i - 1] == ">":   # Foo::<T>::bar -- give up on generics, keep what we have
                    break
                continue
            break
        break
    txt = s[i:dot].strip()
    txt = re.sub(r"^(\.|::)+", "", txt)
    return txt


def split_chain(expr):
    """postfix chain -> list of segments ('name', call_args or None)"""
    e = expr.strip()
    while True:
        e2 = re.sub(r"^(&\s*mut\b|&|\*|mut\b)\s*", "", e).strip()
        if e2.startswith("(") and match_close_safe(e2, 0) == len(e2) - 1:
            e2 = e2[1:-1].strip()
        if e2 == e:
            break
        e = e2
    segs = []
    i, n = 0, len(e)
    while i < n:
        m = re.match(r"\s*(?:\.|::)?\s*([A-Za-z_]\w*)", e[i:])
        if not m:
            if e[i] == "?" or e[i].isspace():
                i += 1
                continue
            if e[i] == "[":
                j = match_close_safe(e, i)
                if j < 0:
                    return None
                segs.append(("[]", e[i + 1:j]))
                i = j + 1
                continue
            if e.startswith("::<", i):
                j = match_angle(e, i + 2)
                if j < 0:
                    return None
                i = j + 1
                continue
            return None
        name = m.group(1)
        i += m.end()
        k = i
        while k < n and e[k].isspace():
            k += 1
        if e.startswith("::<", k):
            j = match_angle(e, k + 2)
            if j < 0:
                return None
            k = j + 1
            while k < n and e[k].isspace():
                k += 1
        if k < n and e[k] == "(":
            j = match_close_safe(e, k)
            if j < 0:
                return None
            segs.append((name, e[k + 1:j]))
            i = j + 1
        else:
            segs.append((name, None))
    return segs


def match_close_safe(e, i):
    op = e[i]
    cl = {"(": ")", "[": "]", "{": "}"}[op]
    depth = 0
    for j in range(i, len(e)):
        if e[j] == op:
            depth += 1
        elif e[j] == cl:
            depth -= 1
            if depth == 0:
                return j
    return -1


def match_angle(e, i):
    depth = 0
    for j in range(i, len(e)):
        if e[j] == "<":
            depth += 1
        elif e[j] == ">":
            depth -= 1
            if depth == 0:
                return j
    return -1


def has_binder(s, fn, name):
    """is a declaration of `name` visible in the fn (let / parameter / closure parameter / pattern)?"""
    if not s:
        return False
    body = s[fn.start:fn.end]
    n = re.escape(name)
    return bool(re.search(r"\blet\s+(mut\s+)?%s\b|\b%s\s*:(?!:)|\|[^|\n]*\b%s\b[^|\n]*\||\b(Some|Ok|Err)\s*\(\s*(mut\s+)?%s\s*\)"
                          r"|\bfor\s[^{;]*\b%s\b[^{;]*\sin\s|[(,]\s*(mut\s+|ref\s+)?%s\s*[,)]\s*(=|in\b|\)|,)" % (n, n, n, n, n, n), body))


class Census:
    def __init__(self):
        self.fields_direct = set()
        self.fields_nested = set()
        self.field_decl = {}     # field name -> [(file, is_hash)]
        self.cur_file = ""
        self.cur_src = ""
        self.fn_direct = set()
        self.fn_nested = set()
        self.all_names = set()
        self.files = {}

    # kind of a postfix chain: 'direct' | 'nested' | 'name-only' | None
    def kind(self, expr, fn):
        segs = split_chain(expr)
        if not segs:
            return None
        if len(segs) >= 2 and segs[0][0] in ("HashMap", "HashSet") and segs[1][0] in ("from", "from_iter", "new", "with_capacity"):
            k = "direct"
            rest = segs[2:]
        elif len(segs) >= 4 and segs[0][0] == "std" and segs[2][0] in ("HashMap", "HashSet"):
            k = "direct"
            rest = segs[4:]
        else:
            k = None
            rest = segs
        for idx, (name, args) in enumerate(rest):
            first = (idx == 0 and k is None)
            if args is None and name != "[]":
                # identifier: local when first, else field
                if first:
                    if fn is not None and name in fn.direct:
                        k = "direct"
                    elif fn is not None and name in fn.nested:
                        k = "nested"
                    elif name == "self" or name == "Self":
                        k = None
                    else:
                        k = "name-only" if (name in self.all_names and len(rest) == 1 and fn is not None
                                            and not has_binder(self.cur_src, fn, name)) else None
                else:
                    if not self.field_is_hash_here(name):
                        k = None
                    elif name in self.fields_direct and name in self.fields_nested:
                        k = "nested"
                    elif name in self.fields_direct:
                        k = "direct"
                    elif name in self.fields_nested:
                        k = "nested"
                    elif re.fullmatch(r"\d+", name):
                        pass
                    else:
                        k = None
            elif name == "[]":
                k = "direct" if k == "nested" else None
            else:
                if name in PASS_THROUGH:
                    continue
                if name in INNER_GET and k == "nested":
                    k = "nested" if name in ("entry", "values", "values_mut") else "direct"
                    if name in ("values", "values_mut"):
                        k = "nested-iter"
                    continue
                if name in ("or_insert", "or_insert_with", "or_default", "unwrap_or") and k in ("nested", "direct"):
                    k = "direct"
                    continue
                if name in self.fn_direct:
                    k = "direct"
                elif name in self.fn_nested:
                    k = "nested"
                else:
                    k = None
        return k


def common_dirs(a, b):
    pa, pb = a.split("/")[:-1], b.split("/")[:-1]
    n = 0
    while n < len(pa) and n < len(pb) and pa[n] == pb[n]:
        n += 1
    return n


def _field_is_hash_here(self, name):
    """a field name declared with a hash type somewhere and with another type elsewhere: the declaration in the
    closest directory wins (ties count as hash: the census over-approximates)"""
    decls = self.field_decl.get(name, [])
    best_h = max([common_dirs(self.cur_file, f) + (1 if f == self.cur_file else 0) for f, h in decls if h], default=-1)
    best_n = max([common_dirs(self.cur_file, f) + (1 if f == self.cur_file else 0) for f, h in decls if not h], default=-1)
    return best_h >= 0 and best_h >= best_n


Census.field_is_hash_here = _field_is_hash_here


def collect_decls(cen, rel, s, fns, structs):
    # every struct field (hash or not), for the closeness rule
    for b, c in structs:
        body = s[b + 1:c]
        for m in re.finditer(r"(?:^|[,{\n])\s*(?:pub(?:\([a-z]+\))?\s+)?([A-Za-z_]\w*)\s*:\s*(?!:)", body):
            t, _ = parse_type(body, m.end())
            d, n = type_kind(t)
            cen.field_decl.setdefault(m.group(1), []).append((rel, bool(d or n)))
    # typed declarations  name : TYPE
    for m in re.finditer(r"\b([A-Za-z_]\w*)\s*:\s*(?!:)", s):
        name = m.group(1)
        t, end = parse_type(s, m.end())
        if "Hash" not in t:
            continue
        direct, nested = type_kind(t)
        if not (direct or nested):
            continue
        pos = m.start()
        in_struct = any(b < pos < c for b, c in structs) and inner_fn(fns, pos) is None
        cen.all_names.add(name)
        if in_struct:
            if direct:
                cen.fields_direct.add(name)
            if nested or (not direct):
                cen.fields_nested.add(name)
        else:
            f = outer_fn(fns, pos)
            if f is None:
                continue
            for g in [f] + [x for x in fns if x.start <= pos <= x.end]:
                if direct:
                    g.direct[name] = pos
                if nested or not direct:
                    g.nested[name] = pos
    # fn return types
    for f in fns:
        hdr = s[f.start:f.body_start]
        m = re.search(r"->\s*", hdr)
        if m:
            t = hdr[m.end():]
            t = re.sub(r"\bwhere\b.*$", "", t, flags=re.S)
            if "Hash" in t:
                direct, nested = type_kind(re.sub(r"^Result\s*<", "", t.strip()))
                if direct:
                    cen.fn_direct.add(f.name); cen.all_names.add(f.name)
                elif nested or re.search(r"Hash(Map|Set)", t):
                    # e.g. Result<(String,HashSet<usize>),DYNERR>: tuple members are reached by destructuring
                    cen.fn_nested.add(f.name); cen.all_names.add(f.name)
    # trait method declarations without a body (`fn standardize(..) -> HashMap<..>;`)
    for m in re.finditer(r"\bfn\s+(\w+)\s*\([^;{]*\)\s*->\s*([^;{]*);", s):
        if re.match(r"\s*(&\s*)?(mut\s+)?(std::collections::)?Hash(Map|Set)\b", m.group(2)):
            cen.fn_direct.add(m.group(1)); cen.all_names.add(m.group(1))


def infer_lets(cen, s, fns):
    """untyped lets / binders; iterate to a fixed point"""
    changed = True
    rounds = 0
    while changed and rounds < 6:
        changed = False
        rounds += 1
        for m in re.finditer(r"\blet\s+(?:mut\s+)?([A-Za-z_]\w*)\s*=\s*", s):
            name, pos = m.group(1), m.start()
            f = outer_fn(fns, pos)
            if f is None:
                continue
            j = stmt_end(s, m.end())
            init = s[m.end():j].strip()
            k = None
            if re.match(r"(std::collections::)?Hash(Map|Set)\s*(::<[^;]*?>)?\s*::", init):
                k = "direct"
            elif re.search(r"collect\s*::\s*<\s*(std::collections::)?Hash(Map|Set)\b", init):
                k = "direct"
            elif (init.startswith("match") or init.startswith("if ")) and re.search(r"\bHash(Map|Set)\s*::\s*(new|from|with_capacity)\b", init):
                k = "direct"   # some arm builds a hash container
            elif init.startswith("match") or init.startswith("if "):
                hd = re.match(r"(?:match|if\s+let\s+\w+\s*\(\s*\w+\s*\)\s*=)\s*(.*?)\s*\{", init, flags=re.S)
                if hd and cen.kind(hd.group(1), f) == "direct" and split_chain(hd.group(1)) and split_chain(hd.group(1))[-1][0] in INNER_GET + PASS_THROUGH:
                    k = "direct"
            else:
                k0 = cen.kind(init, f)
                if k0 in ("direct", "nested"):
                    k = k0
            if k:
                tgt = f.direct if k == "direct" else f.nested
                if name not in tgt:
                    for g in [x for x in fns if x.start <= pos <= x.end]:
                        (g.direct if k == "direct" else g.nested)[name] = pos
                    cen.all_names.add(name)
                    changed = True
        # let (a,b) = f(..)  /  if let Ok((a,b)) = f(..)   where f returns something that contains a hash container
        for m in re.finditer(r"\blet\s+(?:(?:Ok|Some)\s*\(\s*)?\(([^()=]*)\)\s*\)?\s*=\s*", s):
            pos = m.start()
            f = outer_fn(fns, pos)
            if f is None:
                continue
            j = min(stmt_end(s, m.end()), (s.find("{", m.end()) if s.find("{", m.end()) >= 0 else len(s)))
            chain = split_chain(s[m.end():j])
            if not chain or chain[-1][1] is None:
                continue
            last = [c for c in chain if c[0] not in PASS_THROUGH]
            if last and last[-1][0] in cen.fn_nested:
                for nm in re.findall(r"[A-Za-z_]\w*", m.group(1)):
                    if nm in ("mut", "ref", "_") or nm in f.direct:
                        continue
                    for g in [x for x in fns if x.start <= pos <= x.end]:
                        g.direct[nm] = pos
                    cen.all_names.add(nm)
                    changed = True
        # if let Some(v) = <nested>.get(..)   /   while let
        for m in re.finditer(r"\b(?:if|while)\s+let\s+(?:Some|Ok)\s*\(\s*(?:mut\s+)?([A-Za-z_]\w*)\s*\)\s*=\s*", s):
            name, pos = m.group(1), m.start()
            f = outer_fn(fns, pos)
            if f is None:
                continue
            j = s.find("{", m.end())
            if j < 0:
                continue
            if cen.kind(s[m.end():j], f) == "direct" and name not in f.direct:
                chain = split_chain(s[m.end():j])
                if chain and chain[-1][1] is not None:   # came out of a call such as .get(..)
                    for g in [x for x in fns if x.start <= pos <= x.end]:
                        g.direct[name] = pos
                    cen.all_names.add(name)
                    changed = True
        # for v in <nested>.values() / for (k,v) in &<nested>
        for m in re.finditer(r"\bfor\s+(.+?)\s+in\s+", s):
            pos = m.start()
            f = outer_fn(fns, pos)
            if f is None:
                continue
            j = for_expr_end(s, m.end())
            if j < 0:
                continue
            k = cen.kind(s[m.end():j], f)
            pat = m.group(1)
            name = None
            if k == "nested-iter":
                mm = re.fullmatch(r"(?:mut\s+)?([A-Za-z_]\w*)", pat.strip())
                name = mm.group(1) if mm else None
            elif k == "nested":
                mm = re.fullmatch(r"\(\s*\w+\s*,\s*(?:mut\s+)?([A-Za-z_]\w*)\s*\)", pat.strip())
                name = mm.group(1) if mm else None
            if name and name not in f.direct:
                for g in [x for x in fns if x.start <= pos <= x.end]:
                    g.direct[name] = pos
                cen.all_names.add(name)
                changed = True


def stmt_end(s, i):
    depth = 0
    n = len(s)
    j = i
    while j < n:
        ch = s[j]
        if ch in "([{":
            depth += 1
        elif ch in ")]}":
            if depth == 0:
                return j
            depth -= 1
        elif ch == ";" and depth == 0:
            return j
        j += 1
    return n


def for_expr_end(s, i):
    depth = 0
    n = len(s)
    j = i
    while j < n:
        ch = s[j]
        if ch in "([":
            depth += 1
        elif ch in ")]":
            depth -= 1
        elif ch == "{" and depth == 0:
            return j
        elif ch == ";" and depth == 0:
            return -1
        j += 1
    return -1


def stmt_bounds(s, pos, fn):
    """the statement (or `for`/`if let` header) that contains pos: back to the previous ; { } at depth 0"""
    lo = fn.body_start + 1 if fn else 0
    depth = 0
    a = pos
    while a > lo:
        ch = s[a - 1]
        if ch in ")]":
            depth += 1
        elif ch in "([":
            if depth == 0:
                # inside a call argument list: keep going out to the statement
                pass
            else:
                depth -= 1
        elif ch in ";{}" and depth == 0:
            break
        a -= 1
    b = pos
    depth = 0
    n = fn.end if fn else len(s)
    while b < n:
        ch = s[b]
        if ch in "([":
            depth += 1
        elif ch in ")]":
            depth -= 1
        elif ch in ";{" and depth <= 0:
            break
        elif ch == "}" and depth <= 0:
            break
        b += 1
    return a, b


SET_T = r"(?:std::collections::|collections::)?(?:BTreeSet|HashSet)\b"


def set_names(s):
    """names declared in this file with a set type (fields, parameters, typed lets, `let x = …Set::new()`)"""
    names = set(re.findall(r"\b([A-Za-z_]\w*)\s*:\s*&?\s*(?:mut\s+)?" + SET_T + r"\s*<", s))
    names |= set(re.findall(r"\blet\s+(?:mut\s+)?([A-Za-z_]\w*)\s*(?::[^=;]*)?=\s*" + SET_T + r"\s*(?:::<[^;]*?>)?\s*::", s))
    return sorted(names)


MAP_T = r"(?:std::collections::|collections::)?(?:BTreeMap|HashMap)\b"


def map_names(s):
    names = set(re.findall(r"\b([A-Za-z_]\w*)\s*:\s*&?\s*(?:mut\s+)?" + MAP_T + r"\s*<", s))
    names |= set(re.findall(r"\blet\s+(?:mut\s+)?([A-Za-z_]\w*)\s*(?::[^=;]*)?=\s*" + MAP_T + r"\s*(?:::<[^;]*?>)?\s*::", s))
    return sorted(names)


SEQ_DECL = r"\blet\s+(?:mut\s+)?%s\s*(?::\s*(?:Vec|VecDeque|String)\b[^=;]*)?=\s*(?:Vec|VecDeque|String)\s*(?:::\s*<[^;]*?>)?\s*::\s*(?:new|with_capacity)\b|\blet\s+(?:mut\s+)?%s\s*(?::[^=;]*)?=\s*vec!\s*\[|\blet\s+(?:mut\s+)?%s\s*:\s*(?:Vec|VecDeque|String)\b"
LOOP_HDR = re.compile(r"(?:'\w+\s*:\s*)?(?:for|while|loop)\b")


def body_exits(text, prefix="", pattern=""):
    """order-sensitive control flow of a loop body (scrubbed text between the braces): `break` that leaves THIS loop
    (not one nested inside), `return`, and `if`/`while` conditions that look at a `.len()`"""
    tags = set()
    stack = []          # True = block is a nested loop
    i, n, last = 0, len(text), 0
    while i < n:
        ch = text[i]
        if ch == "{":
            hdr = text[last:i]
            hdr = hdr[max(hdr.rfind(";"), hdr.rfind("}")) + 1:].strip()
            stack.append(bool(LOOP_HDR.match(hdr)))
            last = i + 1
        elif ch == "}":
            if stack:
                stack.pop()
            last = i + 1
        elif ch == ";":
            last = i + 1
        elif text.startswith("break", i) and not (i > 0 and (text[i - 1].isalnum() or text[i - 1] == "_")) \
                and not (i + 5 < n and (text[i + 5].isalnum() or text[i + 5] == "_")):
            labelled = re.match(r"break\s+'", text[i:i + 12]) is not None
            if labelled or not any(stack):
                tags.add(prefix + "break")
        elif text.startswith("return", i) and not (i > 0 and (text[i - 1].isalnum() or text[i - 1] == "_")) \
                and not (i + 6 < n and (text[i + 6].isalnum() or text[i + 6] == "_")):
            tags.add(prefix + "return")
        i += 1
    # a condition on the length of something that lives longer than one iteration (not declared in the body)
    for cm in re.finditer(r"(?<![A-Za-z0-9_])(?:if|while)\b([^{;]*)\{", text):
        for lm in re.finditer(r"([A-Za-z_]\w*)(?:\s*\.\s*\w+(?:\(\s*\))?)*?\s*\.\s*len\s*\(\s*\)", cm.group(1)):
            base = lm.group(1)
            be = re.escape(base)
            per_iteration = base != "self" and (
                re.search(r"\b%s\b" % be, pattern) is not None or
                re.search(r"\blet\s+(?:\(\s*)?(?:mut\s+)?%s\b|\b(?:Some|Ok|Err)\s*\(\s*(?:mut\s+|ref\s+)?%s\b|\bfor\s+\(?\s*(?:mut\s+)?%s\b|[|,(]\s*%s\s*[|,)]" % (be, be, be, be), text) is not None)
            if not per_iteration:
                tags.add(prefix + "len-cond")
    return tags


def exit_signature(s, fn, open_brace, close_brace):
    """tags of order-sensitive constructs for the `for` loop whose body is s[open_brace+1:close_brace]: in the body
    itself, and -- for every local Vec/VecDeque/String the body appends to (it then holds elements in hash order) --
    in later loops over that sequence and in positional operations on it, up to the first `.sort*(` of it"""
    body = s[open_brace + 1:close_brace]
    hdr_start = max(s.rfind(";", 0, open_brace), s.rfind("{", 0, open_brace), s.rfind("}", 0, open_brace)) + 1
    hm = re.match(r"\s*(?:'\w+\s*:\s*)?for\s+(.+?)\s+in\s", s[hdr_start:open_brace], re.S)
    tags = body_exits(body, "", hm.group(1) if hm else "")
    if fn is None:
        return sorted(tags)
    fn_text_start, fn_end = fn.body_start, fn.end
    names = set(re.findall(r"\b([A-Za-z_]\w*)\s*\.\s*(?:push|push_str|push_back|push_front|extend|extend_from_slice|append)\s*\(", body))
    names |= set(re.findall(r"\b([A-Za-z_]\w*)\s*\+=", body))
    for x in sorted(names):
        xe = re.escape(x)
        if not re.search(SEQ_DECL % (xe, xe, xe), s[fn_text_start:open_brace]):
            continue
        region_end = fn_end
        m = re.search(r"\b%s\s*\.\s*sort\w*\s*\(" % xe, s[close_brace:fn_end])
        if m:
            region_end = close_brace + m.start()
        region = s[close_brace:region_end]
        for lm in re.finditer(r"\bfor\s+([^;{}]+?)\s+in\s+(?:&\s*(?:mut\s+)?)?%s\b[^;{}]*\{" % xe, region):
            ob = close_brace + lm.end() - 1
            cb = match_close_safe(s, ob)
            if cb > 0:
                tags |= body_exits(s[ob + 1:cb], "derived-", lm.group(1))
        if re.search(r"\b%s\s*\.\s*(?:truncate|first|last|pop|remove|swap_remove|drain|split_off|split_at|get|resize)\s*\(" % xe, region) \
                or re.search(r"\b%s\s*\[" % xe, region) \
                or re.search(r"\b%s\s*\.\s*(?:iter|into_iter|iter_mut|chars|bytes)\s*\(\s*\)\s*\.\s*(?:take|skip|nth|next|last|position|find|find_map|take_while|skip_while|step_by)\s*\(" % xe, region):
            tags.add("derived-positional")
    return sorted(tags)


def find_sites(cen, rel, s, fns):
    sites = []
    seen_pos = set()
    setnames = set_names(s)
    mapnames = map_names(s)

    def add(pos, how, recv, kind, body=""):
        f_in = inner_fn(fns, pos)
        f_out = outer_fn(fns, pos)
        a, b = stmt_bounds(s, pos, f_in)
        stmt = re.sub(r"\s+", "", s[a:b])
        if not body and stmt.startswith("for") and b < len(s) and s[b] == "{":
            cl = match_close_safe(s, b)
            body = s[b + 1:cl] if cl > 0 else ""
        key = (a, how, re.sub(r"\s+", "", recv))
        if key in seen_pos:
            return
        seen_pos.add(key)
        line = s.count("\n", 0, pos) + 1
        exits = []
        if stmt.startswith("for") and b < len(s) and s[b] == "{":
            cl2 = match_close_safe(s, b)
            if cl2 > 0:
                exits = exit_signature(s, f_out, b, cl2)
        sites.append({"file": rel, "fn": f_out.ident if f_out else "<top>", "how": how, "recv": re.sub(r"\s+", "", recv),
                      "stmt": stmt, "line": line, "resolved": kind != "name-only", "pos": pos, "exits": exits,
                      "after": re.sub(r"\s+", " ", s[b:b + 400]), "setnames": setnames, "mapnames": mapnames, "body": re.sub(r"\s+", "", body)[:600],
                      "fntext": re.sub(r"\s+", "", s[f_out.start:f_out.end])[:6000] if (f_out and body) else ""})

    for m in re.finditer(r"\.\s*(%s)\s*(?:::\s*<[^>]*>\s*)?\(" % "|".join(ITER_METHODS), s):
        recv = receiver_before(s, m.start())
        if not recv:
            continue
        f = outer_fn(fns, m.start())
        k = cen.kind(recv, f)
        if k in ("direct", "name-only"):
            add(m.start(), m.group(1), recv, k)
        elif k == "nested" and m.group(1) not in ("retain",):
            add(m.start(), m.group(1), recv, k)   # iterating the outer map of a nested container
    for m in re.finditer(r"\bfor\s+(.+?)\s+in\s+", s):
        j = for_expr_end(s, m.end())
        if j < 0:
            continue
        expr = s[m.end():j].strip()
        f = outer_fn(fns, m.start())
        k = cen.kind(expr, f)
        chain = split_chain(expr)
        if k in ("direct", "nested", "name-only") and chain and not (chain[-1][1] is not None and chain[-1][0] in ITER_METHODS):
            body = ""
            if j < len(s) and s[j] == "{":
                cl = match_close_safe(s, j)
                body = s[j + 1:cl] if cl > 0 else ""
            add(m.end(), "for", expr, k, body)
    for m in re.finditer(r"\b(%s)\s*\(" % "|".join(WHOLE_ARG_FUNCS), s):
        op = m.end() - 1
        cl = match_close_safe(s, op)
        if cl < 0:
            continue
        arg = s[op + 1:cl].strip()
        f = outer_fn(fns, m.start())
        if arg and cen.kind(arg, f) in ("direct", "nested"):
            chain = split_chain(arg)
            if chain and not (chain[-1][1] is not None and chain[-1][0] in ITER_METHODS):
                add(m.start(), m.group(1), arg, "direct")
    return sites


def census(repo):
    """cached by the digest of all sources + this script (other properties' checks run the translator too)"""
    import tempfile
    root = os.path.join(repo, "src")
    h = hashlib.sha256(open(os.path.abspath(__file__), "rb").read())
    allp = []
    for d, _, fs in os.walk(root):
        for f in fs:
            if f.endswith(".rs"):
                allp.append(os.path.join(d, f))
    allp.sort()
    for p in allp:
        h.update(p.encode()); h.update(open(p, "rb").read())
    cache = os.path.join(tempfile.gettempdir(), "a2verif_c20_census_%d_%s.json" % (os.getuid(), h.hexdigest()[:20]))
    try:
        sites = json.load(open(cache))
        return sites, allp
    except Exception:
        pass
    sites, paths = census_uncached(repo)
    try:
        tmp = cache + ".tmp%d" % os.getpid()
        json.dump(sites, open(tmp, "w"))
        os.replace(tmp, cache)
    except Exception:
        pass
    return sites, paths


def census_uncached(repo):
    cen = Census()
    root = os.path.join(repo, "src")
    paths = []
    for d, _, fs in os.walk(root):
        for f in fs:
            if f.endswith(".rs"):
                paths.append(os.path.join(d, f))
    paths.sort()
    parsed = {}
    for p in paths:
        rel = os.path.relpath(p, repo)
        src = open(p, encoding="utf-8", errors="replace").read()
        if "Hash" not in src and "hash" not in src.lower():
            parsed[rel] = (scrub(src), [], [])
            continue
        parsed[rel] = parse_file(src)
    for rel, (s, fns, structs) in parsed.items():
        collect_decls(cen, rel, s, fns, structs)
    for _ in range(2):   # fields/fns of one file may be needed by another
        for rel, (s, fns, structs) in parsed.items():
            if fns:
                cen.cur_file = rel
                infer_lets(cen, s, fns)
    sites = []
    for rel in sorted(parsed):
        s, fns, structs = parsed[rel]
        if not fns:
            # files without any hash mention can still iterate a hash field declared elsewhere
            s, fns, structs = parse_file(open(os.path.join(repo, rel), encoding="utf-8", errors="replace").read())
            cen.cur_file = rel
            infer_lets(cen, s, fns)
        cen.cur_file = rel
        cen.cur_src = s
        sites += find_sites(cen, rel, s, fns)
    # fingerprints
    counts = {}
    for st in sites:
        key = (st["file"], st["fn"], st["stmt"], st["how"], st["recv"])
        k = counts.get(key, 0)
        counts[key] = k + 1
        # order-sensitive control flow in the loop body / in loops over sequences filled by the loop is part of the
        # identity of the site: a `break` that appears later makes it a new, unreviewed site
        ex = ("\x1fexits=" + ",".join(st["exits"])) if st.get("exits") else ""
        h = hashlib.sha256(("\x1f".join(key) + "\x1f%d" % k + ex).encode()).hexdigest()
        st["fp"] = h[:12]
    return sites, [os.path.join(repo, r) for r in sorted(parsed)]


AUTO_SORT = re.compile(r"^let(?:mut)?(\w+)(?::[^=]+)?=")


ADAPTORS = r"(?:\.(?:map|filter|filter_map|flat_map|copied|cloned|flatten|by_ref)\((?:[^()]|\((?:[^()]|\([^()]*\))*\))*\))*"
INJ = r"(?:\*{0}|{0}|{0}\.clone\(\)|{0}\.to_string\(\)|{0}\.to_owned\(\))"


def auto_class(st):
    """classes that can be read off the statement itself; they need no table entry, and a harmless rewrite of such a
    statement (new fingerprint) is re-classified without anybody touching the table"""
    stmt = st["stmt"]
    body = st.get("body", "")
    sets = set(st.get("setnames", []))
    is_for = stmt.startswith("for")
    if st.get("exits"):
        # early exit / length-dependent control flow inside the iteration (or inside a loop over a sequence that the
        # iteration filled, unsorted): which elements are processed depends on the order.  Never automatic.
        return None
    if is_for and body:
        # for x in <hash> { [if cond {] set.insert(expr); [}] }   -- union of sets
        mm = re.fullmatch(r"(?:if[^{};]*\{)?([\w.]+)\.insert\([^;{}]*\);\}?", body)
        if mm:
            tgt = mm.group(1).split(".")[-1]
            if tgt in sets or re.search(r"let(?:mut)?%s(?::[^=;]*)?=(?:std::collections::)?(?:BTreeSet|HashSet)(?:::<[^;]*?>)?::new\(\)"
                                        % re.escape(tgt), st.get("fntext", "")):
                return "order-free", "auto: the loop only inserts into the set `%s`" % tgt
        # for (k,v) in <map> { m.insert(k / *k / k.clone() / k.to_string() / k.to_owned(), expr); }  -- keys stay distinct
        pm = re.match(r"for\((\w+),(?:mut)?\w+\)in", stmt)
        if pm:
            k = re.escape(pm.group(1))
            im = re.fullmatch(r"(?:if[^{};]*\{)?([\w.]+)\.insert\(%s,[^;{}]*\);\}?" % INJ.format(k), body)
            if im and im.group(1).split(".")[-1] in set(st.get("mapnames", [])):
                return "order-free", "auto: the loop copies entries into a map under their own (distinct) keys"
        # for x in <hash> { [if cond {] n += 1; [}] }   -- a count
        if re.fullmatch(r"(?:if[^{};]*\{)?[\w.]+\+=1;\}?", body):
            return "order-free", "auto: the loop only counts"
    # <hash>.iter()…adaptors… .count() / .any(..) / .all(..) / .min() / .max() / .len() / .sum::<integer>()
    key = "%s.%s(" % (st["recv"], st["how"])
    p = stmt.find(key)
    if p >= 0 and not is_for:
        q = stmt.find(")", p + len(key) - 1)
        tail = stmt[q + 1:] if q >= 0 else ""
        m = re.match(ADAPTORS + r"\.(count|any|all|min|max|len|is_empty|sum::<[ui](?:8|16|32|64|128|size)>)\(", tail)
        if m and st["how"] in ("iter", "keys", "values", "into_iter", "into_keys", "into_values", "iter_mut", "values_mut"):
            return "order-free", "auto: reduced with `%s` (count/any/all/min/max/integer sum)" % m.group(1)
        # … .collect() into a set: `.collect::<…Set<..>>()`, `let x: …Set<..> = …collect()`, `x = …collect()` with x a set
        if re.search(r"\.collect::<" + SET_T.replace("\\b", "") + r"<", tail) or \
           (re.match(r"let(?:mut)?\w+:" + SET_T.replace("\\b", "") + r"<", stmt) and tail.endswith(".collect()")):
            return "order-free", "auto: collected into a set"
        am = re.match(r"(?:let(?:mut)?)?([\w.]+)=", stmt)
        if am and tail.endswith(".collect()") and am.group(1).split(".")[-1] in sets and re.fullmatch(ADAPTORS + r"\.collect\(\)", tail):
            return "order-free", "auto: collected into the set `%s`" % am.group(1).split(".")[-1]
    m = AUTO_SORT.match(stmt)
    if m and "collect" in stmt:
        name = m.group(1)
        if re.search(r"\b%s\s*\.\s*sort(_unstable)?(_by|_by_key)?\s*\(" % re.escape(name), st["after"][:200]):
            return "sorted-before-use", "auto: collected into `%s` and sorted right after" % name
    return None


def load_table():
    if not os.path.exists(TABLE):
        raise TranslatorError("classification table %s missing" % TABLE)
    try:
        t = json.load(open(TABLE))
    except Exception as ex:
        raise TranslatorError("classification table unreadable: %r" % (ex,))
    ent = {}
    for e in t.get("sites", []):
        if e.get("class") not in CLASSES or not e.get("why") or not e.get("fp"):
            raise TranslatorError("bad classification entry %r" % (e,))
        ent[e["fp"]] = e
    return ent


def lean_ident(sx):
    return re.sub(r"[^A-Za-z0-9_]", "_", sx)


RECS_FNS = [("recsToJsonSorted", "Records::to_json"), ("recsUpdateFimgSorted", "Records::update_fimg"),
            ("recsDisplaySorted", "Display for Records::fmt")]


def gen_dasm_table(repo):
    """opcode claims of the Merlin handbook (src/lang/merlin/handbook/opcodes.json) and the preference rule of
    `OperationHandbook::use_proposed_op`, for the order-independence theorem about `create_dasm_map`"""
    hb = os.path.join(repo, "src/lang/merlin/handbook")
    pj, pp, prs = os.path.join(hb, "opcodes.json"), os.path.join(hb, "pseudo_ops.json"), os.path.join(hb, "operations.rs")
    try:
        ops = json.load(open(pj))
        pseudo = json.load(open(pp))
    except Exception as ex:
        raise TranslatorError("handbook json unreadable: %r" % (ex,))
    names = sorted(ops.keys())
    claims = []   # (mnemonic id, opcode), one per (mnemonic, addressing mode)
    for m in names:
        modes = ops[m].get("modes", [])
        if not isinstance(modes, list):
            raise TranslatorError("opcodes.json: modes of %s is not a list" % m)
        for mode in modes:
            code = mode.get("code")
            if not isinstance(code, int) or not 0 <= code < 256:
                raise TranslatorError("opcodes.json: bad opcode for %s: %r" % (m, code))
            claims.append((names.index(m), code))
    src = scrub(open(prs).read())
    raw = open(prs).read()
    m = re.search(r"\bfn\s+use_proposed_op\b", src)
    if not m:
        raise TranslatorError("use_proposed_op not found in operations.rs")
    b = src.find("{", m.end())
    c = match_close(src, b, "{", "}")
    body_s, body_raw = src[b + 1:c], raw[b + 1:c]
    pairs = []
    rest = body_s
    for mm in re.finditer(r"if\s+prior\s*\.\s*mnemonic\s*==\s*\"\s*\"\s*&&\s*proposed\s*\.\s*mnemonic\s*==\s*\"\s*\"\s*\{\s*return\s+true\s*;\s*\}",
                          re.sub(r'"[^"]*"', lambda q: '"' + " " * (len(q.group(0)) - 2) + '"', body_s)):
        seg = body_raw[mm.start():mm.end()]
        lits = re.findall(r'"([^"]*)"', seg)
        if len(lits) != 2 or lits[0] not in names or lits[1] not in names:
            raise TranslatorError("use_proposed_op: unknown mnemonics %r" % (lits,))
        pairs.append((names.index(lits[0]), names.index(lits[1])))
        rest = rest[:mm.start()] + " " * (mm.end() - mm.start()) + rest[mm.end():]
    if re.sub(r"\s+", "", rest) != "false":
        raise TranslatorError("use_proposed_op: body has a form the translator does not know: %r" % re.sub(r"\s+", " ", rest).strip()[:200])

    def alts_unique(d):
        seen = set()
        for k, info in d.items():
            for a in info.get("alt", []) or []:
                if a in seen:
                    return False
                seen.add(a)
        return True
    L = ["/-! GENERATED by /verif/translator/gen_c20.py from src/lang/merlin/handbook/{opcodes.json,pseudo_ops.json,operations.rs}",
         "-- do not edit; regenerated on every run.  `claims`: one row (mnemonic id, opcode) per (mnemonic, addressing mode) of the",
         "handbook, mnemonic ids = index in the sorted list of mnemonics; `preferPairs`: (prior, proposed) pairs for which",
         "`use_proposed_op` answers true. -/",
         "namespace A2Verif.Gen.DasmTable", "",
         "def mnemonicCount : Nat := %d" % len(names),
         "def claims : List (Nat × Nat) := [%s]" % ", ".join("(%d, %d)" % c for c in claims),
         "def preferPairs : List (Nat × Nat) := [%s]" % ", ".join("(%d, %d)" % p for p in pairs),
         "/-- mnemonic spellings (ASCII bytes), index = mnemonic id -/",
         "def mnemonicNames : List (List Nat) := [%s]" % ", ".join("[%s]" % ", ".join(str(b) for b in n.encode()) for n in names),
         "/-- no alternate spelling is listed under two mnemonics (opcodes.json, pseudo_ops.json) -/",
         "def altsUnique : Bool := %s" % ("true" if alts_unique(ops) and alts_unique(pseudo) else "false"),
         "-- mnemonics: " + " ".join("%d=%s" % (i, n) for i, n in enumerate(names)),
         "", "end A2Verif.Gen.DasmTable", ""]
    return "\n".join(L), [pj, pp, prs]


# ------------------------------------------------------------------------------------------------ wall-clock reads
CLOCK_RE = re.compile(r"\b(?:Local|Utc|SystemTime|Instant|OffsetDateTime)\s*::\s*(?:now|today)\s*\(|\bUNIX_EPOCH\b|\.\s*elapsed\s*\(\s*\)|\blocaltime(?:_r)?\s*\(|\bclock_gettime\s*\(")
# a function that PRODUCES a stamp to be written (the `None => now` arm of a pack routine, a creator, a formatter)
STAMP_FN = re.compile(r"^(?:pack_\w+|create\w*|format|mk\w+)$")
DECODE_FN = re.compile(r"unpack|decode|parse|display|fmt|to_json|from_|^get|read|catalog|tree|stat|glob|detok|disassem|list|show|print|dump|export")


def clock_census(repo):
    """every read of the wall clock in src/: (file, enclosing fn, fingerprint, class, why).  Class `stamp` is given
    automatically when the enclosing function produces a stamp to be WRITTEN -- its name is `pack_*`, `create*`, `format`
    or `mk*` and contains none of the decoding / rendering words -- otherwise the site needs a reviewed entry in the
    `clock` list of c20_sites.json (classes `stamp`, `not-output`).  A clock read in a decoding / rendering path
    (`unpack_*`, `fmt`, `to_json`, `tree`, ...) cannot be classified: the decoded value of an EXISTING stamp must not
    depend on when or where it is read."""
    root = os.path.join(repo, "src")
    out = []
    paths = []
    for d, _, fs in os.walk(root):
        for f in fs:
            if f.endswith(".rs"):
                paths.append(os.path.join(d, f))
    paths.sort()
    try:
        table = {e["fp"]: e for e in json.load(open(TABLE)).get("clock", [])}
    except Exception as ex:
        raise TranslatorError("classification table unreadable: %r" % (ex,))
    for e in table.values():
        if e.get("class") not in ("stamp", "not-output") or not e.get("why"):
            raise TranslatorError("bad clock entry %r" % (e,))
    counts = {}
    for p in paths:
        rel = os.path.relpath(p, repo)
        raw = open(p, encoding="utf-8", errors="replace").read()
        if not CLOCK_RE.search(raw):
            continue
        s, fns, _ = parse_file(raw)
        for m in CLOCK_RE.finditer(s):
            f = inner_fn(fns, m.start())
            fo = outer_fn(fns, m.start())
            fname = f.name if f else "<top>"
            ident = fo.ident if fo else "<top>"
            a, b = stmt_bounds(s, m.start(), f)
            stmt = re.sub(r"\s+", "", s[a:b])
            key = (rel, ident, stmt)
            k = counts.get(key, 0)
            counts[key] = k + 1
            fp = hashlib.sha256(("\x1f".join(key) + "\x1f%d" % k).encode()).hexdigest()[:12]
            cls, why = None, ""
            if fp in table:
                cls, why = table[fp]["class"], "table: " + table[fp]["why"]
            elif STAMP_FN.match(fname) and not DECODE_FN.search(fname):
                cls, why = "stamp", "auto: `%s` produces a stamp to be written" % fname
            out.append({"file": rel, "fn": ident, "fp": fp, "class": cls, "why": why, "line": s.count("\n", 0, m.start()) + 1,
                        "stmt": stmt[:120], "by_table": fp in table})
    return out, paths


def gen_clock_sites(repo):
    sites, paths = clock_census(repo)
    files = sorted({x["file"] for x in sites})
    cid = {"stamp": 0, "not-output": 1}
    L = ["/-! GENERATED by /verif/translator/gen_c20.py from every .rs under src/ -- do not edit; regenerated on every run.",
         "Census of wall-clock reads (`Local::now`, `Utc::now`, `SystemTime::now`, `Instant::now`, `UNIX_EPOCH`, `.elapsed()`).",
         "Row = (file id, fingerprint, class id, 1 = classified by a reviewed table entry / 0 = by the automatic rule);",
         "class ids: 0 = stamp (the value is WRITTEN as the stamp of something created or modified now: by design),",
         "1 = not-output (reviewed: never reaches a C20 output), 99 = unclassified (a decoding / rendering path, or unknown). -/",
         "namespace A2Verif.Gen.ClockSites", "",
         "def sites : List (Nat × Nat × Nat × Nat) := [%s]" % ", ".join(
             "(%d, %d, %d, %d)" % (files.index(x["file"]), int(x["fp"], 16), cid.get(x["class"], 99), 1 if x["by_table"] else 0) for x in sites),
         "def siteCount : Nat := %d" % len(sites),
         "/-- fingerprints of clock reads that are not classified as stamping -/",
         "def unclassified : List Nat := [%s]" % ", ".join(str(int(x["fp"], 16)) for x in sites if x["class"] is None), ""]
    for x in sites:
        L.append("-- %s %s %s:%d fn %s : %s  [%s]" % ("CLOCK" if x["class"] else "UNCLASSIFIED-CLOCK", x["fp"], x["file"], x["line"], x["fn"], x["stmt"][:90], x["why"] or "no rule applies"))
    L.append("-- files: " + "; ".join("%d=%s" % (i, f) for i, f in enumerate(files)))
    L += ["", "end A2Verif.Gen.ClockSites", ""]
    h = hashlib.sha256()
    for p in paths:
        h.update(open(p, "rb").read())
    h.update(open(TABLE, "rb").read())
    return "\n".join(L), h.hexdigest()[:16]


def generate(repo):
    sites, paths = census(repo)
    table = load_table()
    files = sorted({s["file"] for s in sites})
    fn_ids = sorted({(s["file"], s["fn"]) for s in sites})
    rows = []
    unclassified = []
    per_class = {c: 0 for c in CLASSES}
    for st in sites:
        e = table.get(st["fp"])
        cls = None
        if e:
            cls = e["class"]
        else:
            ac = auto_class(st)
            if ac:
                cls = ac[0]
        st["class"] = cls
        st["by_table"] = bool(e)
        if cls is None:
            unclassified.append(st)
        else:
            per_class[cls] += 1
        rows.append((files.index(st["file"]), fn_ids.index((st["file"], st["fn"])), int(st["fp"], 16),
                     CLASSES.index(cls) if cls else 99))
    live = {s["fp"] for s in sites}
    stale = [fp for fp in table if fp not in live]
    L = []
    L.append("/-! GENERATED by /verif/translator/gen_c20.py from every .rs under src/ -- do not edit; regenerated on every run.")
    L.append("Census of iterations over HashMap/HashSet.  Row = (file id, enclosing fn id, fingerprint, class id);")
    L.append("class ids: " + ", ".join("%d=%s" % (i, c) for i, c in enumerate(CLASSES)) + ", 99=unclassified. -/")
    L.append("namespace A2Verif.Gen.HashSites")
    L.append("")
    L.append("def sites : List (Nat × Nat × Nat × Nat) := [")
    L.append(",\n".join("  (%d, %d, %d, %d)" % r for r in rows))
    L.append("]")
    L.append("")
    L.append("def siteCount : Nat := %d" % len(sites))
    L.append("def classifiedCount : Nat := %d" % (len(sites) - len(unclassified)))
    L.append("/-- fingerprints of sites that have no entry in translator/c20_sites.json -/")
    L.append("def unclassified : List Nat := [%s]" % ", ".join(str(int(s["fp"], 16)) for s in unclassified))
    for i, c in enumerate(CLASSES):
        L.append("def count_%s : Nat := %d" % (lean_ident(c), per_class[c]))
    L.append("/-- sites whose loop body (or a later loop over a sequence the body filled, before any sort) leaves early")
    L.append("(`break`, `return`), branches on the length of an accumulator, or uses the filled sequence positionally:")
    L.append("(fingerprint, class id, 1 = classified by a reviewed table entry / 0 = by an automatic rule).  The fingerprint of")
    L.append("such a site includes these tags, and no automatic rule applies to it. -/")
    L.append("def earlyExit : List (Nat × Nat × Nat) := [%s]" % ", ".join(
        "(%d, %d, %d)" % (int(s["fp"], 16), CLASSES.index(s["class"]) if s["class"] else 99, 1 if s["by_table"] else 0)
        for s in sites if s.get("exits")))
    for s_ in sites:
        if s_.get("exits"):
            L.append("-- EARLY-EXIT %s %s:%d fn %s : %s  [%s]" % (s_["fp"], s_["file"], s_["line"], s_["fn"], s_["stmt"][:100], ",".join(s_["exits"])))
    L.append("/-- table entries whose site no longer exists (informative; never an obligation) -/")
    L.append("def staleEntries : Nat := %d" % len(stale))
    L.append("")
    for u in unclassified:
        L.append("-- UNCLASSIFIED %s %s:%d fn %s : %s" % (u["fp"], u["file"], u["line"], u["fn"], u["stmt"][:160]))
    L.append("-- files: " + "; ".join("%d=%s" % (i, f) for i, f in enumerate(files)))
    L.append("")
    L.append("end A2Verif.Gen.HashSites")
    L.append("")
    # flags for the three Records renderers
    F = []
    F.append("/-! GENERATED by /verif/translator/gen_c20.py from src/fs/recs.rs -- do not edit; regenerated on every run.")
    F.append("`true` = the function as it is now contains no iteration over a hash container whose order reaches the")
    F.append("output (no census site of class `modelled`/unclassified in it), i.e. it renders in sorted key order. -/")
    F.append("namespace A2Verif.Gen.C20Flags")
    F.append("")
    for lean_name, fn in RECS_FNS:
        here = [s for s in sites if s["file"] == "src/fs/recs.rs" and s["fn"] == fn]
        ok = all(s["class"] in ("sorted-before-use", "order-free") for s in here)
        F.append("/-- %s: %d census site(s): %s -/" % (fn, len(here), ", ".join("%s=%s" % (s["fp"], s["class"]) for s in here) or "none"))
        F.append("def %s : Bool := %s" % (lean_name, "true" if ok else "false"))
    F.append("")
    F.append("end A2Verif.Gen.C20Flags")
    F.append("")
    dasm_src, dasm_paths = gen_dasm_table(repo)
    d2 = hashlib.sha256()
    for p in dasm_paths:
        d2.update(open(p, "rb").read())
    d = hashlib.sha256()
    for p in paths:
        d.update(open(p, "rb").read())
    d.update(open(TABLE, "rb").read())
    dg = d.hexdigest()[:16]
    clock_src, clock_dg = gen_clock_sites(repo)
    return ({"HashSites": "\n".join(L), "C20Flags": "\n".join(F), "DasmTable": dasm_src, "ClockSites": clock_src},
            {"HashSites": dg, "C20Flags": dg, "DasmTable": d2.hexdigest()[:16], "ClockSites": clock_dg})


if __name__ == "__main__":
    import sys
    repo = sys.argv[1] if len(sys.argv) > 1 else "/repo"
    sites, _ = census(repo)
    try:
        table = load_table()
    except TranslatorError:
        table = {}
    if "--json" in sys.argv:
        print(json.dumps([{k: v for k, v in s.items() if k not in ("pos", "after")} for s in sites], indent=1))
    else:
        for s in sites:
            e = table.get(s["fp"])
            cls = e["class"] if e else (auto_class(s) or ["?"])[0]
            print("%s %-18s %s:%d  [%s]  %s%s  :: %s" % (s["fp"], cls, s["file"], s["line"], s["fn"], s["how"],
                                                     "" if s["resolved"] else " (name-only)", s["stmt"][:140]))
        print(len(sites), "sites")
