"""Translator for the tool objects (C14 / C17 / C20): what does a long-lived tool object carry from one call to the next?

The language servers keep ONE `Tokenizer` / `Minifier` / `Renumberer` / `Disassembler` / `Assembler` per session and the
library lets any caller do the same, so "the result is a function of the input" (C14 faithful, C17 references, C20
deterministic) needs: no entry point reads a field of `self` that an EARLIER call (successful or failed) left behind.

For every tool struct listed in `TOOLS` this plug-in reads the struct's fields and, for every `pub fn` with a `self`
receiver (the entry points; pure setters are recognised and listed apart), computes on the *current* source

  reset   fields assigned by a plain `self.f = <expr without self.f>;` (or emptied by `self.f.clear();`) on the straight-line top level of the entry point
          (callees inlined in call order) before anything reads them,
  carried fields that may be READ (or updated in place: `push`, `+=`, `insert`, `&mut self.f`, unknown method) before the
          call has definitely assigned them -- i.e. their value at entry can influence the call,
  writes  fields the call may modify at all.

Dataflow (deliberately simple and conservative): events are taken in textual order, a callee `self.m(..)` is inlined at
the call (trait-provided `walk`/`descend`/`build_edits`/... are looked up in `TRAIT_FILES`), the right-hand side of an
assignment is read before the left-hand side is defined, and a definition made inside a `{ }` block (loop body, branch,
match arm, closure) is forgotten when the block ends (a loop may run zero times, a branch may not be taken).  A CALLEE
that can return successfully from inside a branch (`if .. { return Ok(()); }`) passes on to its caller only what it had
assigned before that point, and what it assigns afterwards is not a reset (seeded C17-5: the `line_map` reset moved
behind such a return in `set_line_ref_map`).  Early returns of the ENTRY POINT itself (`?`, `return`) need no treatment: the state a failed call leaves behind is *some* state, and the question asked
is whether the next call can see ANY earlier state.

`config` fields = fields no entry point may write (token maps, settings, flags set by a setter): reading them is reading
configuration, not history.  Every other carried field must have a reviewed entry in `translator/toolstate_carry.json`
(keyed `Tool::entry::field`, with a reason) or it is listed in `unexplainedCarry`, and `Props` proves that list empty.

Emits `A2Verif.Gen.ToolState` (tables as `List Nat`, no strings) plus named Booleans that select the variant of the
concrete Lean state machines (`Model/ToolState.lean`, `Model/MinifyState.lean`): does `tokenize` reset
`tokenized_program`, is the result handed out with `mem::take`, which of the seven resets of `minify_stage1` are present.
Raises TranslatorError on anything it cannot parse (unknown `self.x(`, bare `self`, missing struct or field).
"""
import os, re, json, hashlib
from gen import TranslatorError
from gen_c20 import scrub, find_spans, match_close

HERE = os.path.dirname(os.path.abspath(__file__))
CARRY_TABLE = os.path.join(HERE, "toolstate_carry.json")

# (tool name, file, struct)
TOOLS = [
    ("IntegerTokenizer", "src/lang/integer/tokenizer.rs", "Tokenizer"),
    ("ApplesoftTokenizer", "src/lang/applesoft/tokenizer.rs", "Tokenizer"),
    ("MerlinTokenizer", "src/lang/merlin/tokenizer.rs", "Tokenizer"),
    ("Minifier", "src/lang/applesoft/minifier.rs", "Minifier"),
    ("ApplesoftRenumberer", "src/lang/applesoft/renumber.rs", "Renumberer"),
    ("IntegerRenumberer", "src/lang/integer/renumber.rs", "Renumberer"),
    ("Disassembler", "src/lang/merlin/disassembly.rs", "Disassembler"),
    ("Assembler", "src/lang/merlin/assembly.rs", "Assembler"),
    ("MerlinParser", "src/lang/merlin/mod.rs", "MerlinParser"),
    # the track reader objects of the nibble images (WOZ1 / WOZ2 / NIB): `bit_ptr` is the head position, seeded from the
    # image's `head_coords` by `new_rw_obj`, i.e. from wherever the last sector read stopped.  Their entry points are the
    # methods of `impl img::TrackBits for TrackBits`.
    ("TrackBits525", "src/img/disk525.rs", "TrackBits"),
    ("TrackBits35", "src/img/disk35.rs", "TrackBits"),
]
# tools whose entry points are the methods of their trait impls (not only `pub fn`s)
TRAIT_ENTRY_TOOLS = {"TrackBits525": "TrackBits", "TrackBits35": "TrackBits"}
# default methods of traits the tools implement
TRAIT_FILES = [("src/lang/mod.rs", "Navigate"), ("src/lang/linenum.rs", "Renumber")]
# entry points that exist only to keep old dependents compiling / are not tool calls
IGNORED_ENTRIES = {"gather", "renumber_edits", "get_info"}

# methods that do not modify their receiver (everything else called on a field counts as a write of that field)
PURE = set("""get contains contains_key len is_empty iter keys values clone to_string to_owned as_str as_bytes starts_with
ends_with is_some is_none unwrap_or unwrap_or_default to_uppercase to_lowercase to_ascii_uppercase to_ascii_lowercase
trim trim_start trim_end find rfind lines chars bytes split first last cloned copied as_ref unwrap expect is_match
captures map map_or and_then filter eq ne cmp min max to_vec join replace into_iter is_char_boundary ok""".split())


def _methods(s, spans_impl, struct, trait_entries=None):
    """{name: (params_text, body_open, body_close, is_pub, receiver)} for every fn inside an impl of `struct`"""
    out = {}
    for hdr, a, b, c in find_spans(s, r"\bfn\s+\w+"):
        owner = None
        for ih, ib, ic, itrait in spans_impl:
            if ib < a < ic and (owner is None or ib > owner[1]):
                owner = (ih, ib, itrait)
        if owner is None or owner[0] != struct:
            continue
        name = re.match(r"fn\s+(\w+)", hdr).group(1)
        pm = re.search(r"\(", hdr)
        params = hdr[pm.start():] if pm else ""
        recv = None
        rm = re.match(r"\(\s*(&\s*(?:'\w+\s+)?(mut\s+)?self|mut\s+self|self)\b", params)
        if rm:
            recv = "mut" if "mut" in rm.group(1) else "ref"
        pre = s[max(0, a - 40):a]
        is_pub = re.search(r"\bpub(\s*\([^)]*\))?\s*$", pre) is not None
        # tools listed in TRAIT_ENTRY_TOOLS: the entry points are exactly the methods of that trait's impl (their
        # inherent `pub fn`s are the bit-level head primitives the trait methods are built from)
        out[name] = (params, b, c, is_pub if trait_entries is None else owner[2] == trait_entries, recv)
    return out


def _impls(s):
    """[(type the impl is for, body_open, body_close, trait or None)]"""
    res = []
    for hdr, a, b, c in find_spans(s, r"\bimpl\b"):
        h = re.sub(r"^impl\s*(<[^>]*>)?", "", hdr).strip()
        h = re.sub(r"\s+where\b.*$", "", h, flags=re.S)
        h = re.sub(r"<[^<>]*>", "", h)
        h = re.sub(r"\b\w+::", "", h)
        h = re.sub(r"\s+", " ", h).strip()
        m = re.match(r"(\w+) for (\w+)$", h)
        if m:
            res.append((m.group(2), b, c, m.group(1)))
        else:
            res.append((h, b, c, None))
    return res


class Tool:
    def __init__(self, name, rel, struct, repo, trait_methods, receivers):
        self.name, self.rel, self.struct = name, rel, struct
        path = os.path.join(repo, rel)
        if not os.path.exists(path):
            raise TranslatorError("%s: file missing" % rel)
        self.s = scrub(open(path, encoding="utf-8").read())
        s = self.s
        m = re.search(r"\bpub\s+struct\s+%s\b[^{;]*\{" % struct, s)
        if not m:
            raise TranslatorError("%s: struct %s not found" % (rel, struct))
        close = match_close(s, m.end() - 1, "{", "}")
        body = s[m.end():close]
        self.fields = []
        depth = 0
        cur = ""
        for ch in body + ",":
            if ch in "<([{":
                depth += 1
            elif ch in ">)]}":
                depth -= 1
            if ch == "," and depth == 0:
                t = cur.strip()
                cur = ""
                if not t:
                    continue
                fm = re.match(r"(?:#\[[^\]]*\]\s*)*(?:pub(?:\s*\([^)]*\))?\s+)?(\w+)\s*:", t)
                if not fm:
                    raise TranslatorError("%s: field of %s not recognised: %r" % (rel, struct, t[:60]))
                self.fields.append(fm.group(1))
            else:
                cur += ch
        if not self.fields:
            raise TranslatorError("%s: struct %s has no fields" % (rel, struct))
        impls = _impls(s)
        self.methods = _methods(s, impls, struct, TRAIT_ENTRY_TOOLS.get(name))
        self.trait_methods = trait_methods      # name -> (text, params, body_open, body_close)
        self.receivers = receivers              # method name -> {"ref","mut","own"} over all of src/
        if "new" not in self.methods and "create" not in self.methods:
            raise TranslatorError("%s: %s::new / ::create not found" % (rel, struct))

    # ---------------------------------------------------------------------------------------- analysis
    def body_of(self, name):
        if name in self.methods:
            p, b, c, _, _ = self.methods[name]
            return self.s, b, c
        if name in self.trait_methods:
            t, p, b, c = self.trait_methods[name]
            return t, b, c
        return None

    def analyse(self, entry):
        """returns (reset, carried, writes) as ordered lists of field names"""
        st = {"carried": [], "writes": [], "reset": [], "stack": [], "via": [], "cond": 0}
        defined = set()
        self._walk(entry, defined, st, True)
        reset = [f for f in st["reset"] if f not in st["carried"]]
        return reset, st["carried"], st["writes"], st["via"]

    def _note_read(self, f, defined, st):
        if f not in defined:
            if f not in st["carried"]:
                st["carried"].append(f)
            via = st["stack"][1] if len(st["stack"]) > 1 else st["stack"][0]
            if (f, via) not in st["via"]:
                st["via"].append((f, via))

    def _note_write(self, f, st):
        if f not in st["writes"]:
            st["writes"].append(f)

    def _walk(self, name, defined, st, top):
        src = self.body_of(name)
        if src is None:
            raise TranslatorError("%s: %s calls self.%s(..), which is neither a method of the struct nor a known trait default"
                                  % (self.rel, self.struct, name))
        if name in st["stack"]:
            return
        st["stack"].append(name)
        text, b, c = src
        ret = {"snap": None, "callee": len(st["stack"]) > 1}
        self._scan(text, b + 1, c, defined, st, top, ret)
        if ret["callee"] and ret["snap"] is not None:
            # the callee may have returned (successfully) from inside a branch: what it assigned AFTER that point is
            # not assigned on every path back to the caller
            defined.clear(); defined.update(ret["snap"])
            st["cond"] -= 1
        st["stack"].pop()

    def _scan(self, text, lo, hi, defined, st, top, ret=None):
        """scan text[lo:hi]; `defined` is mutated for definitions on this level, restored around nested blocks;
        `top` = this level is the straight-line top level of the entry point (definitions here are resets)"""
        i = lo
        saved = []          # (defined copy, top) per open brace
        cur_top = top
        stmt_start = lo
        while i < hi:
            ch = text[i]
            if ch == "{":
                saved.append((set(defined), cur_top))
                cur_top = False
                stmt_start = i + 1
                i += 1
                continue
            if ch == "}":
                if saved:
                    d, cur_top = saved.pop()
                    defined.clear(); defined.update(d)
                stmt_start = i + 1
                i += 1
                continue
            if ch == ";":
                stmt_start = i + 1
                i += 1
                continue
            if ret is not None and ret["callee"] and ret["snap"] is None and saved and ch == "r" and text.startswith("return", i) \
                    and not (text[i - 1].isalnum() or text[i - 1] == "_") and not (text[i + 6].isalnum() or text[i + 6] == "_") \
                    and not re.match(r"return\s+Err\b", text[i:i + 16]):
                # a successful early return inside a branch of a CALLEE: definitions made from here on hold only on the
                # paths that did not return; they are neither resets nor visible to the caller after the call
                ret["snap"] = set(saved[0][0])
                st["cond"] += 1
            m = re.match(r"self\b", text[i:i + 5]) if ch == "s" and (i == 0 or not (text[i - 1].isalnum() or text[i - 1] == "_")) else None
            if not m:
                i += 1
                continue
            j = i + 4
            k = j
            while k < hi and text[k] in " \t\r\n":
                k += 1
            if k >= hi or text[k] != ".":
                raise TranslatorError("%s: bare `self` in %s (passed on whole?): %r" % (self.rel, self.struct, text[max(lo, i - 30):i + 30].strip()))
            k += 1
            while k < hi and text[k] in " \t\r\n":
                k += 1
            im = re.match(r"[A-Za-z_]\w*", text[k:k + 80])
            if not im:
                raise TranslatorError("%s: cannot read what follows `self.`" % self.rel)
            ident = im.group(0)
            e = k + len(ident)
            e2 = e
            while e2 < hi and text[e2] in " \t\r\n":
                e2 += 1
            if ident not in self.fields:
                if e2 < hi and text[e2] == "(":
                    # method call: arguments are evaluated first
                    close = match_close(text, e2, "(", ")")
                    self._scan(text, e2 + 1, close, defined, st, False)
                    self._walk(ident, defined, st, cur_top)
                    i = close + 1
                    continue
                raise TranslatorError("%s: self.%s is neither a field nor a call" % (self.rel, ident))
            f = ident
            # plain assignment at statement start?
            head = text[stmt_start:i].strip()
            am = re.match(r"=(?!=)", text[e2:e2 + 2]) if e2 < hi else None
            if head == "" and am:
                # right-hand side first
                end = e2 + 1
                depth = 0
                while end < hi:
                    c2 = text[end]
                    if c2 in "([{":
                        depth += 1
                    elif c2 in ")]}":
                        if depth == 0:
                            break
                        depth -= 1
                    elif c2 == ";" and depth == 0:
                        break
                    end += 1
                self._scan(text, e2 + 1, end, defined, st, False)
                self._note_write(f, st)
                defined.add(f)
                if cur_top and st["cond"] == 0 and f not in st["reset"] and f not in st["carried"]:
                    st["reset"].append(f)
                i = end
                continue
            # `self.f.clear();` as a whole statement empties the field whatever it held: a reset like `self.f = ..::new()`
            cm = re.match(r"\s*\.\s*clear\s*\(\s*\)\s*;", text[e:e + 40])
            if head == "" and cm:
                self._note_write(f, st)
                defined.add(f)
                if cur_top and st["cond"] == 0 and f not in st["reset"] and f not in st["carried"]:
                    st["reset"].append(f)
                i = e + cm.end() - 1
                continue
            # anything else reads the field; does it also modify it?
            self._note_read(f, defined, st)
            before = text[max(lo, i - 12):i]
            modifies = re.search(r"&\s*mut\s*$", before) is not None
            rest = text[e2:e2 + 3]
            if re.match(r"(\+|-|\*|/|%|\||&|\^|<<|>>)=", rest):
                modifies = True
            if e2 < hi and text[e2] == "[":
                cl = match_close(text, e2, "[", "]")
                k2 = cl + 1
                while k2 < hi and text[k2] in " \t\r\n":
                    k2 += 1
                if re.match(r"(=(?!=)|(\+|-|\*|/|%|\||&|\^|<<|>>)=)", text[k2:k2 + 3]):
                    modifies = True
            mm = re.match(r"\s*\.\s*([A-Za-z_]\w*)\s*(\()?", text[e:e + 60])
            if mm and mm.group(2) and not self.pure_method(mm.group(1)):
                modifies = True
            if mm and not mm.group(2):
                # sub-field: `self.a.b = x` / `self.a.b.push(..)`: treat any assignment or unknown call as a write of a
                tail = text[e:e + 120]
                if re.match(r"(\s*\.\s*\w+)+\s*(=(?!=)|(\+|-|\*|/|%|\||&|\^|<<|>>)=)", tail):
                    modifies = True
            if modifies:
                self._note_write(f, st)
            i = e
        return

    def pure_method(self, name):
        """a method called on a field leaves the field unchanged if every definition of that name in the repo takes
        `&self`, or (not defined in the repo) if it is in the list of std methods known not to modify their receiver"""
        if name in PURE:
            return True
        return self.receivers.get(name) == {"ref"}

    def is_setter(self, name):
        """a pub fn whose body only assigns fields from its parameters"""
        p, b, c, is_pub, recv = self.methods[name]
        body = self.s[b + 1:c]
        stmts = [x.strip() for x in body.split(";") if x.strip()]
        if not stmts:
            return False
        for x in stmts:
            if not re.fullmatch(r"self\s*\.\s*\w+\s*=\s*[^;{}]*", x, re.S) and not re.fullmatch(r"(let\s+\w+\s*:[^=]*=[^;]*)", x, re.S):
                return False
        return True


def load_trait_methods(repo):
    out = {}
    for rel, trait in TRAIT_FILES:
        path = os.path.join(repo, rel)
        if not os.path.exists(path):
            raise TranslatorError("%s missing" % rel)
        s = scrub(open(path, encoding="utf-8").read())
        m = re.search(r"\bpub\s+trait\s+%s\b[^{]*\{" % trait, s)
        if not m:
            raise TranslatorError("%s: trait %s not found" % (rel, trait))
        close = match_close(s, m.end() - 1, "{", "}")
        for hdr, a, b, c in find_spans(s, r"\bfn\s+\w+"):
            if m.end() <= a < close:
                name = re.match(r"fn\s+(\w+)", hdr).group(1)
                out[name] = (s, hdr, b, c)
    return out


def load_receivers(repo):
    """method name -> set of receiver kinds, over every fn with a self receiver in src/"""
    out = {}
    for d, _, fs in os.walk(os.path.join(repo, "src")):
        for f in fs:
            if not f.endswith(".rs"):
                continue
            s = scrub(open(os.path.join(d, f), encoding="utf-8", errors="replace").read())
            for m in re.finditer(r"\bfn\s+(\w+)\s*(?:<[^>]*>)?\s*\(\s*(&\s*(?:'\w+\s+)?(?:mut\s+)?self|mut\s+self|self)\b", s):
                r = m.group(2)
                kind = "mut" if re.search(r"&\s*(?:'\w+\s+)?mut", r) else ("ref" if r.startswith("&") else "own")
                out.setdefault(m.group(1), set()).add(kind)
    return out


def load_carry_table():
    if not os.path.exists(CARRY_TABLE):
        raise TranslatorError("reviewed table %s missing" % CARRY_TABLE)
    try:
        t = json.load(open(CARRY_TABLE))
    except Exception as ex:
        raise TranslatorError("toolstate_carry.json unreadable: %r" % (ex,))
    ent = {}
    for e in t.get("carried", []):
        if not e.get("key") or not e.get("why") or e.get("class") not in ("parameter", "mode", "dead-read", "scratch"):
            raise TranslatorError("bad entry in toolstate_carry.json: %r" % (e,))
        ent[e["key"]] = e
    return ent


def nat_list(xs):
    return "[" + ", ".join(str(x) for x in xs) + "]"


def generate(repo):
    traits = load_trait_methods(repo)
    table = load_carry_table()
    receivers = load_receivers(repo)
    tools = [Tool(n, rel, st, repo, traits, receivers) for n, rel, st in TOOLS]
    rows = []           # (tool id, entry id, name, reset, carried, writes)
    setters = []
    notes = []
    per_tool = {}
    for ti, t in enumerate(tools):
        ents = []
        for name in sorted(t.methods):
            p, b, c, is_pub, recv = t.methods[name]
            if not is_pub or recv is None or name in IGNORED_ENTRIES:
                continue
            if t.is_setter(name):
                setters.append((ti, name))
                continue
            ents.append(name)
        # trait entry points implemented by the struct (e.g. Renumber::gather_defs) are reached through the pub fns
        res = {}
        for name in ents:
            res[name] = t.analyse(name)
        per_tool[t.name] = (t, ents, res)
    # config fields: written by no entry point of the tool
    unexplained = []
    allowed = []
    for ti, t in enumerate(tools):
        _, ents, res = per_tool[t.name]
        written = set()
        for name in ents:
            written |= set(res[name][2])
        config = [f for f in t.fields if f not in written]
        per_tool[t.name] = (t, ents, res, config)
        for ei, name in enumerate(ents):
            reset, carried, writes, via = res[name]
            fid = lambda f: t.fields.index(f)
            hist = [f for f in carried if f not in config]
            for f, v in via:
                if f in config:
                    continue
                key = "%s::%s::%s@%s" % (t.name, name, f, v)
                if key in table:
                    allowed.append((ti, ei, fid(f), key, table[key]["class"]))
                else:
                    unexplained.append((ti, ei, fid(f), key))
            rows.append((ti, ei, name, [fid(f) for f in reset], [fid(f) for f in carried], [fid(f) for f in writes], [fid(f) for f in hist]))

    def flag(tool, entry, field, kind):
        t, ents, res, config = per_tool[tool]
        if entry not in res:
            raise TranslatorError("%s: entry point %s of %s not found" % (t.rel, entry, t.struct))
        if field not in t.fields:
            raise TranslatorError("%s: field %s of %s not found" % (t.rel, field, t.struct))
        reset, carried, writes, via = res[entry]
        return field in reset if kind == "reset" else field in carried

    L = ["/-! GENERATED by /verif/translator/gen_toolstate.py from %s -- do not edit; regenerated on every run." % ", ".join(t.rel for t in tools),
         "What each entry point of the long-lived tool objects resets, may read from an earlier call (`carried`) and may write.",
         "Field ids = position in the struct declaration; entry ids = position in the sorted list of pub fns with a `self`",
         "receiver that are not pure setters. -/",
         "namespace A2Verif.Gen.ToolState", ""]
    for ti, t in enumerate(tools):
        _, ents, res, config = per_tool[t.name]
        L.append("-- tool %d = %s (%s): fields %s" % (ti, t.name, t.rel, " ".join("%d=%s" % (i, f) for i, f in enumerate(t.fields))))
        L.append("--    entries %s; setters %s" % (" ".join("%d=%s" % (i, e) for i, e in enumerate(ents)) or "-",
                                                 " ".join(n for (x, n) in setters if x == ti) or "-"))
    L.append("")
    L.append("def toolCount : Nat := %d" % len(tools))
    L.append("/-- number of fields per tool -/")
    L.append("def fieldCount : List Nat := %s" % nat_list([len(t.fields) for t in tools]))
    L.append("/-- per tool: fields no entry point writes (configuration: token maps, settings, flags set by setters) -/")
    L.append("def configFields : List (List Nat) := [%s]" % ", ".join(nat_list([per_tool[t.name][0].fields.index(f) for f in per_tool[t.name][3]]) for t in tools))
    L.append("/-- (tool, entry, reset, carried, writes): see the module comment -/")
    L.append("def entries : List (Nat × Nat × List Nat × List Nat × List Nat) := [")
    L.append(",\n".join("  (%d, %d, %s, %s, %s)" % (r[0], r[1], nat_list(r[3]), nat_list(r[4]), nat_list(r[5])) for r in rows))
    L.append("]")
    L.append("/-- (tool, entry, field): carried non-configuration fields that have a reviewed entry in translator/toolstate_carry.json -/")
    L.append("def allowedCarry : List (Nat × Nat × Nat) := [%s]" % ", ".join("(%d, %d, %d)" % a[:3] for a in allowed))
    L.append("/-- (tool, entry, field): carried non-configuration fields nobody has reviewed -/")
    L.append("def unexplainedCarry : List (Nat × Nat × Nat) := [%s]" % ", ".join("(%d, %d, %d)" % u[:3] for u in unexplained))
    for a in allowed:
        L.append("-- ALLOWED %s (%s): %s" % (a[3], a[4], table[a[3]]["why"][:200]))
    for u in unexplained:
        L.append("-- UNEXPLAINED %s" % u[3])
    L.append("")
    # named ids used by the hand-written models
    ids = {t.name: i for i, t in enumerate(tools)}
    for tn in ("IntegerTokenizer", "ApplesoftTokenizer", "MerlinTokenizer", "Minifier"):
        L.append("def tool%s : Nat := %d" % (tn, ids[tn]))
        t, ents, res, config = per_tool[tn]
        for en in (["tokenize", "detokenize"] if tn != "Minifier" else ["minify"]):
            if en not in ents:
                raise TranslatorError("%s: entry point %s not found" % (t.rel, en))
            L.append("def entry%s_%s : Nat := %d" % (tn, en, ents.index(en)))
    L.append("")
    L.append("/-- `integer::Tokenizer::tokenize` assigns `tokenized_program` before anything reads it -/")
    L.append("def integerTokenizeResetsProgram : Bool := %s" % str(flag("IntegerTokenizer", "tokenize", "tokenized_program", "reset")).lower())
    t = per_tool["IntegerTokenizer"][0]
    p, b, c, _, _ = t.methods["tokenize"]
    body = t.s[b:c]
    takes = re.search(r"(?:std\s*::\s*)?mem\s*::\s*take\s*\(\s*&\s*mut\s+self\s*\.\s*tokenized_program\s*\)", body) is not None
    clones = re.search(r"self\s*\.\s*tokenized_program\s*\.\s*clone\s*\(\s*\)", body) is not None
    if takes == clones:
        raise TranslatorError("%s: how tokenize hands out tokenized_program is not recognised (clone / mem::take)" % t.rel)
    L.append("/-- the result is moved out with `mem::take` (buffer left empty after a successful call) instead of cloned -/")
    L.append("def integerTokenizeTakesResult : Bool := %s" % str(takes).lower())
    L.append("/-- `applesoft::Tokenizer::tokenize` assigns `tokenized_program` / `curr_addr` before anything reads them -/")
    L.append("def applesoftTokenizeResetsProgram : Bool := %s" % str(flag("ApplesoftTokenizer", "tokenize", "tokenized_program", "reset")).lower())
    L.append("def applesoftTokenizeResetsAddr : Bool := %s" % str(flag("ApplesoftTokenizer", "tokenize", "curr_addr", "reset")).lower())
    L.append("/-- the resets at the head of `Minifier::minify` (`minify_stage1`) -/")
    for lean, field in [("Program", "minified_program"), ("Deleted", "deleted_lines"), ("AllLines", "all_lines"), ("LineMap", "line_map"),
                        ("ForbidsNext", "forbids_combining_next"), ("Refs", "linenum_refs"), ("ForbidsAny", "forbids_combining_any")]:
        L.append("def minifierResets%s : Bool := %s" % (lean, str(flag("Minifier", "minify", field, "reset")).lower()))
    L.append("/-- the track readers: does the entry point rotate the disk to the reference bit (`self.reset()`, i.e. `bit_ptr = 0`)")
    L.append("before anything reads the head position?  `chs_map` / `chss_map` list the sectors \"in time order\" (geometry JSON),")
    L.append("`to_nibbles` dumps one revolution (track dump) -/")
    for tn, lean in (("TrackBits525", "trackBits525"), ("TrackBits35", "trackBits35")):
        for en, suffix in (("chs_map", "ChsMapResets"), ("chss_map", "ChssMapResets"), ("to_nibbles", "ToNibblesResets")):
            L.append("def %s%s : Bool := %s" % (lean, suffix, str(flag(tn, en, "bit_ptr", "reset")).lower()))
    L.append("/-- `ends_with_str` is read by stage 3 before it is assigned (the read is dead: `combining` is false then) -/")
    L.append("def minifierCarriesEndsWithStr : Bool := %s" % str(flag("Minifier", "minify", "ends_with_str", "carried")).lower())
    paths = [os.path.join(repo, t.rel) for t in tools] + [os.path.join(repo, r) for r, _ in TRAIT_FILES] + [CARRY_TABLE]
    h = hashlib.sha256()
    for p_ in paths:
        h.update(open(p_, "rb").read())
    dg = h.hexdigest()[:16]
    L += ["", "def sourceDigest : List Nat := %s" % nat_list([ord(ch) for ch in dg]), "", "end A2Verif.Gen.ToolState", ""]
    return {"ToolState": "\n".join(L)}, {"ToolState": dg}


if __name__ == "__main__":
    import sys
    ms, ds = generate(sys.argv[1] if len(sys.argv) > 1 else "/repo")
    print(ms["ToolState"])
