//! Shared utilities for all harness families: deterministic PRNG, output protocol, panic capture.
//!
//! Output protocol (one record per line, TAB separated):
//!   Q <request> <impl answer>        request for the Lean driver + what the real code answered
//!   O PASS|FAIL <oracle> <sig> <case>  direct oracle on the real code (FAIL = property violated)
//!   S <text>                         a sample case (for the evidence file)
//!   D <key> <count>                  input-distribution counter
//!   N <evaluations> <distinct_nontrivial>
use std::collections::{BTreeMap, HashSet};
use std::io::Write;
use std::sync::Mutex;

pub struct Rng(pub u64);
impl Rng {
    pub fn new(seed: u64) -> Self { Rng(seed.wrapping_mul(0x9E3779B97F4A7C15).wrapping_add(0x1234567)) }
    pub fn next(&mut self) -> u64 {
        self.0 = self.0.wrapping_add(0x9E3779B97F4A7C15);
        let mut z = self.0;
        z = (z ^ (z >> 30)).wrapping_mul(0xBF58476D1CE4E5B9);
        z = (z ^ (z >> 27)).wrapping_mul(0x94D049BB133111EB);
        z ^ (z >> 31)
    }
    pub fn below(&mut self, n: usize) -> usize { if n == 0 { 0 } else { (self.next() % n as u64) as usize } }
    pub fn range(&mut self, lo: usize, hi: usize) -> usize { lo + self.below(hi - lo + 1) }
    pub fn chance(&mut self, pct: usize) -> bool { self.below(100) < pct }
    pub fn byte(&mut self) -> u8 { (self.next() & 0xff) as u8 }
    pub fn bytes(&mut self, n: usize) -> Vec<u8> { (0..n).map(|_| self.byte()).collect() }
    pub fn pick<'a, T>(&mut self, xs: &'a [T]) -> &'a T { &xs[self.below(xs.len())] }
    /// fork an independent stream (so that case i does not depend on how much case i-1 consumed)
    pub fn fork(&mut self, salt: u64) -> Rng { Rng::new(self.next() ^ salt.wrapping_mul(0xD6E8FEB86659FD93)) }
}

/// Structured payload generator shared by the families: besides random bytes it produces the shapes on which
/// container encodings take special paths (TD0 repeated-pattern and RLE sectors, IMD compressed sectors, GCR
/// checksums, zero padding): uniform, 2-/3-/4-periodic, runs, text made of line ends only, one differing byte,
/// sector-aligned mixtures of these.  Returns the bytes and the name of the shape (for distribution counters).
pub fn gen_data(rng: &mut Rng, len: usize) -> (Vec<u8>, &'static str) {
    let a = rng.byte();
    let b = a.wrapping_add(1 + rng.below(254) as u8);
    match rng.below(12) {
        0 => (vec![a; len], "uniform"),
        1 => ((0..len).map(|i| if i % 2 == 0 { a } else { b }).collect(), "two-periodic"),
        2 => ((0..len).map(|i| if i % 2 == 0 { 0x0d } else { 0x0a }).collect(), "crlf-only"),
        3 => { let k = rng.range(3, 5); let pat = rng.bytes(k); ((0..len).map(|i| pat[i % k]).collect(), "k-periodic") }
        4 => {
            // runs of equal bytes of random lengths (RLE friendly), some runs two-periodic
            let mut v = Vec::with_capacity(len);
            while v.len() < len {
                let n = rng.range(1, 300).min(len - v.len());
                let (x, y) = (rng.byte(), rng.byte());
                let two = rng.chance(30);
                for i in 0..n { v.push(if two && i % 2 == 1 { y } else { x }); }
            }
            (v, "runs")
        }
        5 => {
            // every sector-sized piece takes its own shape
            let q = *rng.pick(&[128usize, 256, 512, 1024]);
            let mut v = Vec::with_capacity(len);
            while v.len() < len {
                let n = q.min(len - v.len());
                let (x, y) = (rng.byte(), rng.byte());
                match rng.below(4) {
                    0 => v.extend(std::iter::repeat(x).take(n)),
                    1 => v.extend((0..n).map(|i| if i % 2 == 0 { x } else { y })),
                    2 => { let mut t = vec![x; n]; let k = rng.below(n); t[k] = y; v.extend(t) }
                    _ => v.extend(rng.bytes(n)),
                }
            }
            (v, "sector-mixture")
        }
        6 => { let mut v = vec![a; len]; if len > 0 { let k = rng.below(len); v[k] = b; } (v, "uniform-but-one") }
        7 => { let mut v: Vec<u8> = (0..len).map(|i| if i % 2 == 0 { a } else { b }).collect(); if len > 0 { let k = rng.below(len); v[k] = v[k].wrapping_add(1); } (v, "two-periodic-but-one") }
        8 => (vec![0u8; len], "zeros"),
        _ => (rng.bytes(len), "random"),
    }
}

pub fn hx(b: &[u8]) -> String { if b.is_empty() { "-".to_string() } else { hex::encode_upper(b) } }
pub fn unhx(s: &str) -> Vec<u8> { if s == "-" { vec![] } else { hex::decode(s).expect("hex") } }

pub fn fnv(data: &[u8]) -> u64 {
    let mut h: u64 = 0xcbf29ce484222325;
    for b in data { h ^= *b as u64; h = h.wrapping_mul(0x100000001b3); }
    h
}

static LAST_PANIC: Mutex<String> = Mutex::new(String::new());

pub fn install_panic_hook() {
    std::panic::set_hook(Box::new(|info| {
        let loc = match info.location() { Some(l) => format!("{}:{}", l.file(), l.line()), None => "?".to_string() };
        let msg = if let Some(s) = info.payload().downcast_ref::<&str>() { s.to_string() }
            else if let Some(s) = info.payload().downcast_ref::<String>() { s.clone() } else { "?".to_string() };
        let mut g = LAST_PANIC.lock().unwrap_or_else(|e| e.into_inner());
        *g = format!("{} [{}]", loc, msg.replace('\n', " ").replace('\t', " "));
    }));
}

/// Outcome of running a piece of real code: a value, or the panic site
pub fn guarded<T>(f: impl FnOnce() -> T) -> Result<T, String> {
    match std::panic::catch_unwind(std::panic::AssertUnwindSafe(f)) {
        Ok(v) => Ok(v),
        Err(_) => {
            let g = LAST_PANIC.lock().unwrap_or_else(|e| e.into_inner());
            Err(g.clone())
        }
    }
}

/// strip the repo prefix and line number noise from a panic site so it can serve as a finding key
pub fn panic_site(p: &str) -> String {
    let s = p.split(" [").next().unwrap_or(p);
    s.trim_start_matches("/repo/").to_string()
}

pub struct Out {
    w: Box<dyn Write>,
    dist: BTreeMap<String, u64>,
    seen: HashSet<u64>,
    pub evaluations: u64,
    pub nontrivial: u64,
    samples: usize,
    pub max_samples: usize,
    /// when set, only this case index is executed (replay)
    pub only: Option<usize>,
    pub fails: u64,
}

impl Out {
    pub fn new(path: &str, only: Option<usize>) -> Self {
        let w: Box<dyn Write> = if path == "-" { Box::new(std::io::stdout()) } else {
            Box::new(std::io::BufWriter::new(std::fs::File::create(path).expect("create out"))) };
        Out { w, dist: BTreeMap::new(), seen: HashSet::new(), evaluations: 0, nontrivial: 0, samples: 0, max_samples: 6, only, fails: 0 }
    }
    pub fn wants(&self, idx: usize) -> bool { match self.only { Some(k) => k == idx, None => true } }
    pub fn q(&mut self, req: &str, ans: &str) { writeln!(self.w, "Q\t{}\t{}", req, ans).unwrap(); }
    /// oracle verdict: `sig` is a stable signature of the failure class (used for known findings),
    /// `case` a replayable description (must contain `idx=<n>`)
    pub fn oracle(&mut self, pass: bool, name: &str, sig: &str, case: &str) {
        if !pass { self.fails += 1; }
        writeln!(self.w, "O\t{}\t{}\t{}\t{}", if pass { "PASS" } else { "FAIL" }, name, sig, case.replace('\t', " ").replace('\n', " ")).unwrap();
    }
    pub fn sample(&mut self, s: &str) {
        if self.samples < self.max_samples { self.samples += 1; writeln!(self.w, "S\t{}", s.replace('\t', " ").replace('\n', " ")).unwrap(); }
    }
    pub fn count(&mut self, key: &str) { *self.dist.entry(key.to_string()).or_insert(0) += 1; }
    pub fn count_n(&mut self, key: &str, n: u64) { *self.dist.entry(key.to_string()).or_insert(0) += n; }
    /// record one evaluated case; `canon` is its canonical form (for distinctness),
    /// `nontrivial` the family's own rule
    pub fn case(&mut self, canon: &[u8], nontrivial: bool) {
        self.evaluations += 1;
        if nontrivial && self.seen.insert(fnv(canon)) { self.nontrivial += 1; }
    }
    pub fn finish(&mut self) {
        let d: Vec<(String, u64)> = self.dist.iter().map(|(k, v)| (k.clone(), *v)).collect();
        for (k, v) in d { writeln!(self.w, "D\t{}\t{}", k, v).unwrap(); }
        writeln!(self.w, "N\t{}\t{}", self.evaluations, self.nontrivial).unwrap();
        self.w.flush().unwrap();
    }
}

pub struct Ctx {
    pub tier_thorough: bool,
    pub seed: u64,
    pub out: Out,
}
impl Ctx {
    /// number of cases: quick vs thorough
    pub fn n(&self, quick: usize, thorough: usize) -> usize { if self.tier_thorough { thorough } else { quick } }
}

/// make a child process die (SIGKILL) when this harness process dies, so that a check that is
/// interrupted or timed out never leaves language servers or drivers running
pub fn die_with_parent(cmd: &mut std::process::Command) {
    use std::os::unix::process::CommandExt;
    unsafe { cmd.pre_exec(|| { libc::prctl(libc::PR_SET_PDEATHSIG, libc::SIGKILL); Ok(()) }); }
}
