//! harness family c14 — "Tokenized programs are faithful and re-readable".
//!
//! For generated VALID Applesoft / Integer BASIC / Merlin sources the real a2kit code is run:
//! `t = tokenize(src, addr)`, `s = detokenize(t)`, `t2 = tokenize(s, addr)`.
//!   direct oracles (real code only):
//!     * `s` is accepted again (`verify_str` + `tokenize`),
//!     * `t2 == t` modulo blanks at the head of REM / DATA payloads,
//!     * structure of `t`: link fields = address of the following line for the load address,
//!       line numbers in order of appearance, Integer length bytes exact, end marker;
//!   model-vs-implementation requests (Lean driver family `c14`):
//!     * `asmA/asmI`  framing of the tokenized lines (link fields, length bytes, overflow panic),
//!     * `wfA/wfI`    the model's structural predicate must say `true <line numbers>`,
//!     * `detokA/I`   model detokenizer == real detokenizer byte for byte, on the valid streams and on
//!                    mutated / random byte strings (outcome classes ok / err / panic).
//! Case indices: Applesoft `idx = 0..`, Integer `idx = 100000..`, Merlin `idx = 200000..`,
//! raw detokenizer streams `idx = 300000..`; SESSIONS on one long-lived tokenizer object (accepted programs mixed with
//! programs rejected on a late line; every result compared with a fresh object and with the Lean state machine of the
//! object, `c14 sessI` / `c14 sessA`): Integer `idx = 500000..`, Applesoft `510000..`, Merlin `520000..`.
use crate::util::*;
use a2kit::lang::applesoft::tokenizer::Tokenizer as ATok;
use a2kit::lang::integer::tokenizer::Tokenizer as ITok;
use a2kit::lang::merlin::tokenizer::Tokenizer as MTok;

// ------------------------------------------------------------------------------------------------
// small helpers

fn accepted_a(src: &str) -> bool { a2kit::lang::verify_str(tree_sitter_applesoft::language(), src).is_ok() }
fn accepted_i(src: &str) -> bool { a2kit::lang::verify_str(tree_sitter_integerbasic::language(), src).is_ok() }
fn accepted_m(src: &str) -> bool { a2kit::lang::verify_str(tree_sitter_merlin6502::language(), src).is_ok() }

fn tok_a(src: &str, addr: u16) -> Result<Result<Vec<u8>, String>, String> {
    guarded(|| ATok::new().tokenize(src, addr).map_err(|e| e.to_string()))
}
fn detok_a(t: &[u8]) -> Result<Result<String, String>, String> {
    guarded(|| ATok::new().detokenize(t).map_err(|e| e.to_string()))
}
fn tok_i(src: &str) -> Result<Result<Vec<u8>, String>, String> {
    guarded(|| ITok::new().tokenize(src.to_string()).map_err(|e| e.to_string()))
}
fn detok_i(t: &[u8]) -> Result<Result<String, String>, String> {
    guarded(|| ITok::new().detokenize(t).map_err(|e| e.to_string()))
}
fn tok_m(src: &str) -> Result<Result<Vec<u8>, String>, String> {
    guarded(|| MTok::new().tokenize(src.to_string()).map_err(|e| e.to_string()))
}
fn detok_m(t: &Vec<u8>) -> Result<Result<String, String>, String> {
    guarded(|| MTok::new().detokenize(t).map_err(|e| e.to_string()))
}

/// canonical answer of a detokenizer run, as the Lean driver prints it
fn show_detok(r: &Result<Result<String, String>, String>) -> String {
    match r {
        Ok(Ok(s)) => format!("ok {}", hx(s.as_bytes())),
        Ok(Err(_)) => "err".to_string(),
        Err(_) => "panic".to_string(),
    }
}

/// split an Applesoft token stream into (line number, body) by scanning for the 00 terminators
/// (harness-side reader, independent of the Lean model); None if the stream is not of that shape
fn split_a(t: &[u8]) -> Option<Vec<(u16, Vec<u8>)>> {
    let mut i = 0;
    let mut out = Vec::new();
    loop {
        if i + 2 == t.len() && t[i] == 0 && t[i + 1] == 0 { return Some(out); }
        if i + 4 > t.len() { return None; }
        let num = t[i + 2] as u16 + 256 * t[i + 3] as u16;
        let mut j = i + 4;
        while j < t.len() && t[j] != 0 { j += 1; }
        if j >= t.len() { return None; }
        out.push((num, t[i + 4..j].to_vec()));
        i = j + 1;
    }
}

/// follow the link fields as the ROM does; returns the line numbers visited if every link is the
/// address of the next line (byte before it is the 00 terminator) and the walk ends on 00 00 at the end
fn walk_links_a(t: &[u8], base: usize) -> Option<Vec<u16>> {
    let mut off = 0usize;
    let mut nums = Vec::new();
    loop {
        if off + 2 > t.len() { return None; }
        let link = t[off] as usize + 256 * t[off + 1] as usize;
        if link == 0 { return if off + 2 == t.len() { Some(nums) } else { None }; }
        if off + 4 > t.len() { return None; }
        nums.push(t[off + 2] as u16 + 256 * t[off + 3] as u16);
        if link < base + off + 5 { return None; }
        let next = link - base;
        if next > t.len() || t[next - 1] != 0 { return None; }
        if t[off + 4..next - 1].iter().any(|b| *b == 0) { return None; }
        off = next;
    }
}

/// follow the Integer BASIC length bytes; returns (line number, body without the EOL token)
fn walk_len_i(t: &[u8]) -> Option<Vec<(u16, Vec<u8>)>> {
    let mut off = 0usize;
    let mut out = Vec::new();
    while off < t.len() {
        let len = t[off] as usize;
        if len < 4 || off + len > t.len() { return None; }
        if t[off + len - 1] != 1 { return None; }
        out.push((t[off + 1] as u16 + 256 * t[off + 2] as u16, t[off + 3..off + len - 1].to_vec()));
        off += len;
    }
    Some(out)
}

/// harness-side framing of Applesoft lines (independent of the Lean model): None on 16-bit overflow
fn assemble_a(base: u16, lines: &[(u16, Vec<u8>)]) -> Option<Vec<u8>> {
    let mut out = Vec::new();
    let mut addr = base as usize;
    for (n, b) in lines {
        addr += b.len() + 5;
        if addr > 65535 { return None; }
        out.push((addr & 0xff) as u8); out.push((addr >> 8) as u8);
        out.push((*n & 0xff) as u8); out.push((*n >> 8) as u8);
        out.extend_from_slice(b);
        out.push(0);
    }
    out.push(0); out.push(0);
    Some(out)
}

/// remove the blanks directly after REM / DATA tokens of an Applesoft line body
fn strip_head_a(b: &[u8]) -> Vec<u8> {
    let mut out = Vec::new();
    let mut i = 0;
    while i < b.len() {
        let c = b[i];
        out.push(c);
        i += 1;
        if c == 0x22 {
            while i < b.len() { out.push(b[i]); i += 1; if b[i - 1] == 0x22 { break; } }
        } else if c == 0xB2 {
            while i < b.len() && b[i] == 0x20 { i += 1; }
            while i < b.len() { out.push(b[i]); i += 1; }
        } else if c == 0x83 {
            while i < b.len() && b[i] == 0x20 { i += 1; }
            let mut q = 0;
            while i < b.len() {
                if b[i] == 0x3A && q % 2 == 0 { break; }
                if b[i] == 0x22 { q += 1; }
                out.push(b[i]);
                i += 1;
            }
        }
    }
    out
}

/// remove the (negative ASCII) blanks directly after the REM token of an Integer BASIC line body
fn strip_head_i(b: &[u8]) -> Vec<u8> {
    let mut out = Vec::new();
    let mut i = 0;
    while i < b.len() {
        let c = b[i];
        out.push(c);
        i += 1;
        if c == 0x28 {
            while i < b.len() { out.push(b[i]); i += 1; if b[i - 1] == 0x29 { break; } }
        } else if c == 0x5D {
            while i < b.len() && b[i] == 0xA0 { i += 1; }
            while i < b.len() { out.push(b[i]); i += 1; }
        } else if (0xB0..=0xB9).contains(&c) {
            let mut k = 0;
            while i < b.len() && k < 2 { out.push(b[i]); i += 1; k += 1; }
        } else if c >= 0x80 {
            while i < b.len() && b[i] >= 0x80 { out.push(b[i]); i += 1; }
        }
    }
    out
}

/// stable signature of a panic site: file below `src/`, no line number
fn psig(p: &str) -> String {
    let site = p.split(" [").next().unwrap_or(p);
    let site = match site.find("src/") { Some(i) => &site[i..], None => site };
    format!("panic:{}", site.split(':').next().unwrap_or(site))
}

const I_KEYWORDS: [&str; 50] = ["REM", "RUN", "DEL", "LIST", "NEW", "CLR", "AUTO", "MAN", "LOAD", "SAVE", "CON", "HIMEM", "LOMEM", "LET", "DIM", "TAB", "END",
    "INPUT", "FOR", "NEXT", "RETURN", "GOSUB", "GOTO", "IF", "PRINT", "POKE", "COLOR", "PLOT", "HLIN", "VLIN", "VTAB", "POP", "NODSP", "NOTRACE", "DSP",
    "TRACE", "PR", "IN", "CALL", "TEXT", "GR", "NOT", "PEEK", "RND", "SGN", "ABS", "PDL", "LEN", "ASC", "SCRN"];

/// items of an Integer BASIC line body, by the token structure (names are runs of negative ASCII that
/// start with a letter; `B0..B9` at the start of an item is a number token)
enum ItemI { Tok(u8), Num, Name(String), Str(Vec<u8>), Rem(Vec<u8>) }

fn items_i(b: &[u8]) -> Vec<ItemI> {
    let mut out = Vec::new();
    let mut i = 0;
    while i < b.len() {
        let c = b[i];
        i += 1;
        if c == 0x28 {
            let st = i;
            while i < b.len() && b[i] != 0x29 { i += 1; }
            out.push(ItemI::Str(b[st..i].to_vec()));
            i += 1;
        } else if c == 0x5D {
            out.push(ItemI::Rem(b[i..].to_vec()));
            i = b.len();
        } else if (0xB0..=0xB9).contains(&c) {
            i += 2;
            out.push(ItemI::Num);
        } else if c >= 0x80 {
            let mut name = String::new();
            name.push((c - 0x80) as char);
            while i < b.len() && b[i] >= 0x80 { name.push((b[i] - 0x80) as char); i += 1; }
            out.push(ItemI::Name(name));
        } else {
            out.push(ItemI::Tok(c));
        }
    }
    out
}

/// failure class of an Integer BASIC round-trip failure of ONE line, decided by the structure of its
/// token stream:
/// * `IF` token directly followed by a number token: the external grammar reads `IF8…` of the listing as
///   a variable name (the typed form with a leading zero, `IF 08`, is accepted) → `if-number-reparsed`;
/// * a variable name that begins with a keyword (`THEN REM W`, `THEN RUN 29423` are read as the names
///   `REMW`, `RUN29423`; the listing is re-read as the statement) → `name-begins-with-keyword`;
/// * a byte in a string / REM payload that the detokenizer prints in a form the tokenizer does not
///   reproduce → `escaped-byte-not-reproduced`;
/// * otherwise the generic signature.
fn classify_i(t: &[u8], generic: &str) -> String {
    let mut escape_class = false;
    let mut kw_name = false;
    let mut if_num = false;
    if let Some(lines) = walk_len_i(t) {
        for (_, b) in lines {
            let items = items_i(&b);
            for (k, it) in items.iter().enumerate() {
                match it {
                    ItemI::Str(p) => { if p.iter().any(|x| *x == 0x80 || (0xE1..=0xFA).contains(x) || *x == 0xA2 || *x == 0xDC) { escape_class = true; } }
                    ItemI::Rem(p) => { if p.iter().any(|x| *x == 0x80 || (0xE1..=0xFA).contains(x) || *x == 0xDC) { escape_class = true; } }
                    ItemI::Name(n) => { if I_KEYWORDS.iter().any(|kw| n.starts_with(kw)) { kw_name = true; } }
                    ItemI::Tok(0x60) => { if let Some(ItemI::Num) = items.get(k + 1) { if_num = true; } }
                    _ => {}
                }
            }
        }
    }
    if if_num { "c14/integer/if-number-reparsed".to_string() }
    else if kw_name { "c14/integer/name-begins-with-keyword".to_string() }
    else if escape_class { "c14/integer/escaped-byte-not-reproduced".to_string() }
    else { generic.to_string() }
}

/// code part of an Applesoft program text, normalised: per line, blanks removed and upper case outside
/// strings, `?` read as PRINT, string contents dropped, everything after the first REM / DATA dropped
/// (payloads are compared through the token bytes).  Used to check that the listing says the same
/// thing as the source, not merely that it re-tokenizes to the same bytes.
fn norm_code_a(src: &str) -> Vec<String> {
    let mut out = Vec::new();
    for line in src.lines() {
        if line.trim_start().is_empty() { continue; }
        let mut n = String::new();
        let mut in_str = false;
        for c in line.chars() {
            if c == '"' { in_str = !in_str; n.push('"'); continue; }
            if in_str || c == ' ' { continue; }
            if c == '?' { n += "PRINT"; } else { n.push(c.to_ascii_uppercase()); }
            if n.ends_with("REM") || n.ends_with("DATA") { break; }
        }
        out.push(n);
    }
    out
}

/// Signature of an Integer BASIC program-level failure, found line by line (lines are independent):
/// the failure is attributed to one of the known ambiguities of the external grammar only if every
/// failing line is of that kind; any other failing line decides the signature.
fn integer_sig(src: &str, generic: &str) -> String {
    let known = ["c14/integer/name-begins-with-keyword", "c14/integer/if-number-reparsed"];
    let mut sigs: Vec<String> = Vec::new();
    for line in src.lines() {
        if line.trim().is_empty() { continue; }
        let l = format!("{}\n", line);
        if !accepted_i(&l) { continue; }
        let t = match tok_i(&l) { Ok(Ok(t)) => t, _ => continue };
        let s = match detok_i(&t) { Ok(Ok(s)) => s, _ => { sigs.push(generic.to_string()); continue; } };
        if !accepted_i(&s) { sigs.push(classify_i(&t, generic)); continue; }
        let same = match tok_i(&s) {
            Ok(Ok(t2)) => {
                let a = walk_len_i(&t).map(|l| l.into_iter().map(|(n, b)| (n, strip_head_i(&b))).collect::<Vec<_>>());
                let b = walk_len_i(&t2).map(|l| l.into_iter().map(|(n, b)| (n, strip_head_i(&b))).collect::<Vec<_>>());
                a.is_some() && a == b
            }
            _ => false,
        };
        if !same { sigs.push(classify_i(&t, generic)); }
    }
    if let Some(s) = sigs.iter().find(|s| !known.contains(&s.as_str())) { return s.clone(); }
    sigs.first().cloned().unwrap_or(generic.to_string())
}

/// Merlin listing modulo the amount of column padding: runs of blanks collapsed (as the driver op `detokM` does)
fn show_detok_m(r: &Result<Result<String, String>, String>) -> String {
    match r {
        Ok(Ok(s)) => {
            let mut out: Vec<u8> = Vec::new();
            for b in s.bytes() { if b == 32 && out.last() == Some(&32) { continue; } out.push(b); }
            format!("ok {}", hx(&out))
        }
        Ok(Err(_)) => "err".to_string(),
        Err(_) => "panic".to_string(),
    }
}

fn nat_list(v: &[u16]) -> String {
    if v.is_empty() { "-".to_string() } else { v.iter().map(|n| n.to_string()).collect::<Vec<_>>().join(",") }
}

// ------------------------------------------------------------------------------------------------
// source generators

struct Gen { r: Rng, lower: usize, tight: usize, inner: usize, neg: bool }

const HEXCH: &[u8] = b"0123456789ABCDEFabcdef";

const NAMES: [&str; 22] = ["A", "B", "I", "J", "K", "X", "Y", "Z", "X1", "Y2", "AB", "N9", "Q", "ZZ", "LAST", "C3PO", "COUNT", "NAME", "W8", "PI", "MAX", "HI"];
/// names that embed a keyword (valid only where the split reads as an expression)
const KWNAMES: [&str; 12] = ["SCORE", "TOTAL", "HOMER", "ATOM", "LETTER", "BEND", "FRONT", "GRID", "XORY", "BANDC", "ANOTB", "CATB"];
const SPCH: &[u8] = b"+-*/^=<>().;%$#?&'@![]{}|_`~,:";

impl Gen {
    fn new(r: Rng) -> Self {
        let mut g = Gen { r, lower: 0, tight: 0, inner: 0, neg: false };
        g.lower = *g.r.pick(&[0usize, 0, 100, 50]);
        g.tight = *g.r.pick(&[0usize, 20, 60, 100]);
        g.inner = *g.r.pick(&[0usize, 0, 0, 8]);
        g
    }
    fn case(&mut self, s: &str) -> String {
        let l = self.lower;
        s.chars().map(|c| if self.r.chance(l) { c.to_ascii_lowercase() } else { c }).collect()
    }
    /// keyword with case / inner-blank variants (`inner_ok` = the grammar allows blanks inside)
    fn kw(&mut self, s: &str) -> String {
        let mut out = String::new();
        let n = s.chars().count();
        for (i, c) in s.chars().enumerate() {
            out.push(c);
            if i + 1 < n && self.inner > 0 && self.r.chance(self.inner) && s != "ATN" { out.push(' '); }
        }
        self.case(&out)
    }
    /// separator between two lexical items
    fn sp(&mut self) -> &'static str {
        if self.r.chance(self.tight) { "" } else if self.r.chance(12) { "  " } else { " " }
    }
    fn name(&mut self) -> String {
        let n = if self.r.chance(6) { self.r.pick(&KWNAMES).to_string() } else if self.r.chance(80) { self.r.pick(&NAMES).to_string() } else {
            let mut s = String::new();
            s.push((b'A' + self.r.below(26) as u8) as char);
            for _ in 0..self.r.below(4) {
                if self.r.chance(30) { s.push((b'0' + self.r.below(10) as u8) as char); } else { s.push((b'A' + self.r.below(26) as u8) as char); }
            }
            s
        };
        self.case(&n)
    }
    fn int(&mut self, max: usize) -> String {
        let v = match self.r.below(6) { 0 => self.r.below(10), 1 => self.r.below(256), 2 => max, 3 => 0, _ => self.r.below(max + 1) };
        let mut s = v.to_string();
        // leading zeros: the value, not the typed digits, decides what is stored
        if self.r.chance(12) { s = format!("{}{}", self.r.pick(&["0", "00", "000"]), s); }
        if self.inner > 0 && s.len() > 1 && self.r.chance(10) { format!("{} {}", &s[..1], &s[1..]) } else { s }
    }
    fn linenum(&mut self) -> String { self.int(63999) }
    /// text of a string / REM / DATA payload; `forbid` = bytes that must not be produced
    fn text(&mut self, maxlen: usize, forbid: &[u8], allow_colon_comma: bool, allow_quote: bool) -> String {
        let mut s = String::new();
        let n = self.r.below(maxlen + 1);
        for _ in 0..n {
            match self.r.below(14) {
                0 => {
                    // escape of an arbitrary byte
                    let mut b = self.r.byte();
                    if self.r.chance(40) { b = *self.r.pick(&[0x0au8, 0x0d, 0x04, 0x07, 0x7f, 0x80, 0xff, 0x5c, 0x8d]); }
                    if forbid.contains(&b) { continue; }
                    if self.r.chance(50) { s += &format!("\\x{:02x}", b); } else { s += &format!("\\x{:02X}", b); }
                }
                1 => { s.push('\\'); if self.r.chance(30) { s += "x5"; } if self.r.chance(20) { s += "\\x5Cx4"; } }
                8 => {
                    // a literal backslash followed by text that looks like a hex escape (every hex digit, both cases)
                    let h1 = *self.r.pick(HEXCH) as char;
                    let h2 = *self.r.pick(HEXCH) as char;
                    if self.neg {
                        // Integer BASIC: negative backslash, negative lower case x (only writable as escapes), digits
                        let neg = |c: char| -> String { if c.is_ascii_lowercase() { format!("\\x{:02x}", c as u8 + 128) } else { c.to_string() } };
                        s += &format!("\\xdc\\xf8{}{}", neg(h1), neg(h2));
                    } else {
                        match self.r.below(4) {
                            0 | 1 => s += &format!("\\x5Cx{}{}", h1, h2),
                            2 => s += &format!("\\x5cx{}", h1),
                            _ => s += &format!("\\x5c\\x5cx{}{}", h1, h2),
                        }
                    }
                }
                2 => s.push(' '),
                3 => {
                    let c = *self.r.pick(SPCH);
                    if (c == b':' || c == b',') && !allow_colon_comma { continue; }
                    s.push(c as char);
                }
                4 => { if allow_quote { s += "\"\""; } }
                5 => s.push((b'0' + self.r.below(10) as u8) as char),
                6 => s.push((b'a' + self.r.below(26) as u8) as char),
                7 => { let k = *self.r.pick(&["PRINT", "rem", "DATA", "TO", "GOTO", "AT", "then", "REM"]); s += k; }
                _ => s.push((b'A' + self.r.below(26) as u8) as char),
            }
        }
        s
    }
}

// ---- Applesoft ---------------------------------------------------------------------------------

struct AG { g: Gen }
impl AG {
    fn real(&mut self) -> String {
        let g = &mut self.g;
        match g.r.below(7) {
            0 => format!("{}.{}", g.r.below(100), g.r.below(1000)),
            1 => format!(".{}", g.r.below(100)),
            2 => format!("{}.", g.r.below(1000)),
            3 => format!("{}{}{}", g.r.below(100), g.case("E"), g.r.below(38)),
            4 => format!("{}.{}{}{}{}", g.r.below(10), g.r.below(100), g.case("E"), g.r.pick(&["+", "-", ""]), g.r.below(38)),
            5 => format!("{}.{} {} {}", g.r.below(10), g.r.below(10), g.case("E"), g.r.below(10)),
            _ => ".".to_string(),
        }
    }
    fn subscript(&mut self, d: usize) -> String {
        let n = 1 + self.g.r.below(2);
        let mut s = String::from("(");
        for i in 0..n { if i > 0 { s += ","; } s += &self.aexpr(d + 1); }
        s + ")"
    }
    fn avar(&mut self, d: usize) -> String {
        let mut s = self.g.name();
        if self.g.r.chance(25) { s += "%"; }
        if self.g.r.chance(20) && d < 3 { s += self.g.sp(); s += &self.subscript(d); }
        s
    }
    fn svar(&mut self, d: usize) -> String {
        let mut s = self.g.name() + "$";
        if self.g.r.chance(20) && d < 3 { s += &self.subscript(d); }
        s
    }
    fn var(&mut self, d: usize) -> String { if self.g.r.chance(30) { self.svar(d) } else { self.avar(d) } }
    fn strlit(&mut self, closed: bool) -> String {
        let t = self.g.text(10, &[0x00, 0x22], true, false);
        if closed { format!("\"{}\"", t) } else { format!("\"{}", t) }
    }
    fn aexpr(&mut self, d: usize) -> String {
        let k = if d >= 3 { self.g.r.below(4) } else { self.g.r.below(12) };
        match k {
            0 | 1 => self.g.int(65535),
            2 => self.real(),
            3 | 4 => self.avar(d),
            5 => {
                let f = *self.g.r.pick(&["ABS", "ATN", "COS", "EXP", "INT", "LOG", "PDL", "PEEK", "RND", "SGN", "SIN", "SQR", "TAN", "USR", "FRE", "POS"]);
                format!("{}{}({})", self.g.kw(f), self.g.sp(), self.aexpr(d + 1))
            }
            6 => {
                match self.g.r.below(5) {
                    0 => format!("{}({})", self.g.kw("LEN"), self.sexpr(d + 1)),
                    1 => format!("{}({})", self.g.kw("ASC"), self.sexpr(d + 1)),
                    2 => format!("{}({})", self.g.kw("VAL"), self.sexpr(d + 1)),
                    3 => format!("{}{}{},{})", self.g.kw("SCRN("), self.g.sp(), self.aexpr(d + 1), self.aexpr(d + 1)),
                    _ => format!("{}{}{}({})", self.g.kw("FN"), self.g.sp(), self.g.name(), self.aexpr(d + 1)),
                }
            }
            7 => { let op = *self.g.r.pick(&["-", "+", "NOT"]); format!("{}{}{}", self.g.kw(op), self.g.sp(), self.aexpr(d + 1)) }
            8 | 9 => {
                let op = *self.g.r.pick(&["+", "-", "*", "/", "^", "AND", "OR", "=", "<", ">", "<=", ">=", "<>", "=<", "=>", "><", "< =", "> ="]);
                format!("{}{}{}{}{}", self.aexpr(d + 1), self.g.sp(), self.g.kw(op), self.g.sp(), self.aexpr(d + 1))
            }
            10 => { let op = *self.g.r.pick(&["=", "<", ">", "<>"]); format!("{}{}{}{}{}", self.sexpr(d + 1), self.g.sp(), op, self.g.sp(), self.sexpr(d + 1)) }
            _ => format!("({})", self.aexpr(d + 1)),
        }
    }
    fn sexpr(&mut self, d: usize) -> String {
        let k = if d >= 3 { self.g.r.below(2) } else { self.g.r.below(7) };
        match k {
            0 => self.strlit(true),
            1 => self.svar(d),
            2 => format!("{}({})", self.g.kw("CHR$"), self.aexpr(d + 1)),
            3 => {
                match self.g.r.below(4) {
                    0 => format!("{}({},{})", self.g.kw("LEFT$"), self.sexpr(d + 1), self.aexpr(d + 1)),
                    1 => format!("{}({},{})", self.g.kw("RIGHT$"), self.sexpr(d + 1), self.aexpr(d + 1)),
                    2 => format!("{}({},{},{})", self.g.kw("MID$"), self.sexpr(d + 1), self.aexpr(d + 1), self.aexpr(d + 1)),
                    _ => format!("{}({},{})", self.g.kw("MID$"), self.sexpr(d + 1), self.aexpr(d + 1)),
                }
            }
            4 => format!("{}({})", self.g.kw("STR$"), self.aexpr(d + 1)),
            5 => format!("{}{}+{}{}", self.sexpr(d + 1), self.g.sp(), self.g.sp(), self.sexpr(d + 1)),
            _ => format!("({})", self.sexpr(d + 1)),
        }
    }
    fn expr(&mut self, d: usize) -> String { if self.g.r.chance(35) { self.sexpr(d) } else { self.aexpr(d) } }
    fn k1(&mut self, kw: &str, arg: String) -> String { format!("{}{}{}", self.g.kw(kw), self.g.sp(), arg) }
    fn list_of(&mut self, n: usize, mut f: impl FnMut(&mut Self) -> String) -> String {
        let mut s = String::new();
        for i in 0..n { if i > 0 { s += ","; s += self.g.sp(); } s += &f(self); }
        s
    }
    fn data_item(&mut self) -> String {
        match self.g.r.below(8) {
            0 => { let t = self.g.text(8, &[0x00, 0x22], true, false); format!("\"{}\"", t) }
            1 => {
                // literal: first char not blank/quote/comma/colon
                let first = (b'A' + self.g.r.below(26) as u8) as char;
                let t = self.g.text(8, &[0x00, 0x22, 0x3a, 0x2c], false, true);
                format!("{}{}", first, t)
            }
            2 => format!("{}{}", self.g.r.pick(&["", "-", "+", "- "]), self.g.r.below(70000)),
            3 => format!("{}{}", self.g.r.pick(&["", "-", "+"]), { let r = self.real(); r.to_uppercase() }),
            4 => String::new(),
            5 => format!(" {} ", self.g.r.below(100)),
            6 => { let t = self.g.text(5, &[0x00, 0x22, 0x3a, 0x2c], false, false); format!("{}{} ", self.g.case("Item"), t) }
            _ => self.g.case("literal with blanks"),
        }
    }
    /// (statement, is_terminal) — terminal statements (REM, unterminated string) must end the line
    fn stmt(&mut self, d: usize) -> (String, bool) {
        let k = self.g.r.below(62);
        let s = match k {
            0 | 1 | 2 => {
                let l = if self.g.r.chance(25) { self.g.kw("LET") + self.g.sp() } else { String::new() };
                if self.g.r.chance(35) { format!("{}{}{}={}{}", l, self.svar(0), self.g.sp(), self.g.sp(), self.sexpr(0)) }
                else { format!("{}{}{}={}{}", l, self.avar(0), self.g.sp(), self.g.sp(), self.aexpr(0)) }
            }
            3 => { let a = self.aexpr(1); let mut s = self.k1("CALL", a); if self.g.r.chance(20) { s += ","; s += &self.expr(1); } s }
            4 => self.g.kw("CLEAR"),
            5 => { let a = self.aexpr(1); self.k1("COLOR=", a) }
            6 => {
                let kw = *self.g.r.pick(&["CLEAR", "CONT", "END", "FLASH", "GR", "HGR", "HGR2", "HOME", "INVERSE", "LOAD", "NEW", "NORMAL", "NOTRACE",
                    "POP", "RESTORE", "RESUME", "RETURN", "SAVE", "SHLOAD", "STOP", "TEXT", "TRACE"]);
                self.g.kw(kw)
            }
            7 | 8 => {
                let n = 1 + self.g.r.below(4);
                let items = self.list_of(n, |s| s.data_item());
                let pad = if self.g.r.chance(50) { " " } else { "" };
                let tail = *self.g.r.pick(&["", "", " ", "  "]);
                format!("{}{}{}{}", self.g.kw("DATA"), pad, items, tail)
            }
            9 => format!("{}{}{}{}{}({})={}", self.g.kw("DEF"), self.g.sp(), self.g.kw("FN"), self.g.sp(), self.g.name(), self.g.name(), self.aexpr(1)),
            10 => format!("{}{}{},{}", self.g.kw("DEL"), self.g.sp(), self.g.linenum(), self.g.linenum()),
            11 => { let n = 1 + self.g.r.below(3); let l = self.list_of(n, |s| { let mut v = s.g.name(); match s.g.r.below(3) { 0 => v += "%", 1 => v += "$", _ => {} }; v + &s.subscript(1) }); self.k1("DIM", l) }
            12 | 13 => {
                let kw = *self.g.r.pick(&["DRAW", "XDRAW"]);
                let a = self.aexpr(1); let mut s = self.k1(kw, a);
                if self.g.r.chance(50) { s += &format!("{}{}{}{},{}", self.g.sp(), self.g.kw("AT"), self.g.sp(), self.aexpr(1), self.aexpr(1)); }
                s
            }
            14 | 15 => {
                let mut s = format!("{}{}{}{}={}{}{}{}{}{}", self.g.kw("FOR"), self.g.sp(), self.g.name(), self.g.sp(), self.g.sp(), self.aexpr(1), self.g.sp(), self.g.kw("TO"), self.g.sp(), self.aexpr(1));
                if self.g.r.chance(40) { s += &format!("{}{}{}{}", self.g.sp(), self.g.kw("STEP"), self.g.sp(), self.aexpr(1)); }
                s
            }
            16 => { let n = 1 + self.g.r.below(3); let l = self.list_of(n, |s| s.var(1)); self.k1("GET", l) }
            17 | 18 => { let kw = *self.g.r.pick(&["GOSUB", "GOTO"]); let l = self.g.linenum(); self.k1(kw, l) }
            19 => { let kw = *self.g.r.pick(&["HCOLOR=", "HIMEM:", "LOMEM:", "HTAB", "VTAB", "IN#", "PR#", "ROT=", "SCALE=", "SPEED="]); let a = self.aexpr(1); self.k1(kw, a) }
            20 | 21 => {
                let kw = *self.g.r.pick(&["HLIN", "VLIN"]);
                format!("{}{}{},{}{}{}{}{}", self.g.kw(kw), self.g.sp(), self.aexpr(1), self.aexpr(1), self.g.sp(), self.g.kw("AT"), self.g.sp(), self.aexpr(1))
            }
            22 | 23 => {
                let mut s = self.g.kw("HPLOT") + self.g.sp();
                if self.g.r.chance(30) { s += &self.g.kw("TO"); s += self.g.sp(); }
                s += &format!("{},{}", self.aexpr(1), self.aexpr(1));
                for _ in 0..self.g.r.below(3) { s += &format!("{}{}{}{},{}", self.g.sp(), self.g.kw("TO"), self.g.sp(), self.aexpr(1), self.aexpr(1)); }
                s
            }
            24 | 25 | 26 => {
                let c = self.expr(1);
                let head = format!("{}{}{}{}", self.g.kw("IF"), self.g.sp(), c, self.g.sp());
                match self.g.r.below(3) {
                    0 => format!("{}{}{}{}", head, self.g.kw("THEN"), self.g.sp(), self.g.linenum()),
                    1 => format!("{}{}{}{}", head, self.g.kw("GOTO"), self.g.sp(), self.g.linenum()),
                    _ => {
                        if d < 2 { let (st, term) = self.stmt(d + 1); return (format!("{}{}{}{}", head, self.g.kw("THEN"), self.g.sp(), st), term); }
                        format!("{}{}{}{}", head, self.g.kw("THEN"), self.g.sp(), self.g.kw("RETURN"))
                    }
                }
            }
            27 | 28 => {
                let mut s = self.g.kw("INPUT") + self.g.sp();
                if self.g.r.chance(50) { s += &self.strlit(true); s += ";"; }
                let n = 1 + self.g.r.below(3);
                s + &self.list_of(n, |s| s.var(1))
            }
            29 => {
                let mut s = self.g.kw("LIST");
                match self.g.r.below(5) {
                    0 => {}
                    1 => { s += self.g.sp(); s += &self.g.linenum(); }
                    2 => { s += &format!(" {}-{}", self.g.linenum(), self.g.linenum()); }
                    3 => { s += &format!(" {},{}", self.g.linenum(), self.g.linenum()); }
                    _ => { s += &format!(" {}-", self.g.linenum()); }
                }
                s
            }
            30 | 31 => { let mut s = self.g.kw("NEXT"); let n = self.g.r.below(3); if n > 0 { s += self.g.sp(); s += &self.list_of(n, |s| s.g.name()); } s }
            32 | 33 => {
                let kw = *self.g.r.pick(&["GOTO", "GOSUB"]);
                let n = 1 + self.g.r.below(4);
                format!("{}{}{}{}{}{}{}", self.g.kw("ON"), self.g.sp(), self.aexpr(1), self.g.sp(), self.g.kw(kw), self.g.sp(), self.list_of(n, |s| s.g.linenum()))
            }
            34 => format!("{}{}{}{}{}", self.g.kw("ONERR"), self.g.sp(), self.g.kw("GOTO"), self.g.sp(), self.g.linenum()),
            35 | 36 => { let kw = *self.g.r.pick(&["PLOT", "POKE"]); format!("{}{}{},{}", self.g.kw(kw), self.g.sp(), self.aexpr(1), self.aexpr(1)) }
            37..=42 => {
                let mut s = if self.g.r.chance(15) { "?".to_string() } else { self.g.kw("PRINT") };
                s += self.g.sp();
                for _ in 0..self.g.r.below(5) {
                    match self.g.r.below(8) {
                        0 => s += ",",
                        1 | 2 => s += ";",
                        3 => { let f = *self.g.r.pick(&["TAB(", "SPC("]); s += &format!("{}{})", self.g.kw(f), self.aexpr(2)); s += ";"; }
                        _ => { s += &self.expr(1); if self.g.r.chance(60) { s += ";"; } else { s += self.g.sp(); } }
                    }
                }
                if self.g.r.chance(12) { s += &self.strlit(false); return (s, true); }
                s
            }
            43 => { let n = 1 + self.g.r.below(3); let l = self.list_of(n, |s| s.var(1)); self.k1("READ", l) }
            44 => { let kw = *self.g.r.pick(&["RECALL", "STORE"]); let mut v = self.g.name(); if self.g.r.chance(30) { v += "%"; } self.k1(kw, v) }
            45..=48 => {
                let t = self.g.text(16, &[0x00], true, true);
                let pad = *self.g.r.pick(&["", " ", " ", "  "]);
                let s = format!("{}{}{}", self.g.kw("REM"), pad, t);
                return (s, true);
            }
            49 => { let mut s = self.g.kw("RUN"); if self.g.r.chance(50) { s += self.g.sp(); s += &self.g.linenum(); } s }
            50 => { let mut s = format!("{}{}{},{}", self.g.kw("WAIT"), self.g.sp(), self.aexpr(1), self.aexpr(1)); if self.g.r.chance(40) { s += ","; s += &self.aexpr(1); } s }
            51..=54 => {
                // ampersand forms
                match self.g.r.below(6) {
                    0 => format!("&{}{}", self.g.sp(), self.strlit(true)),
                    1 => format!("&{}({})", self.g.sp(), self.list_of(2, |s| s.expr(1))),
                    2 => format!("&{}{}({})", self.g.sp(), self.g.name(), self.list_of(2, |s| s.expr(1))),
                    3 => { let kw = *self.g.r.pick(&["PRINT", "DRAW", "HOME", "GET", "LIST"]); format!("&{}{}{}", self.g.sp(), self.g.kw(kw), self.list_of(1, |s| s.expr(1))) }
                    4 => format!("&{}{}", self.g.sp(), self.g.name()),
                    _ => format!("&{}{};{}", self.g.sp(), self.g.name(), self.list_of(2, |s| s.expr(1))),
                }
            }
            _ => {
                if self.g.r.chance(35) { format!("{}{}={}{}", self.svar(0), self.g.sp(), self.g.sp(), self.sexpr(0)) }
                else { format!("{}{}={}{}", self.avar(0), self.g.sp(), self.g.sp(), self.aexpr(0)) }
            }
        };
        (s, false)
    }
    fn line(&mut self, num: u16) -> String {
        let mut s = String::new();
        if self.g.r.chance(10) { s += " "; }
        s += &num.to_string();
        s += *self.g.r.pick(&[" ", " ", "", "  "]);
        if self.g.r.chance(4) { s += ":"; }
        let n = 1 + self.g.r.below(3);
        for i in 0..n {
            let (st, term) = self.stmt(0);
            s += &st;
            if term { break; }
            if i + 1 < n { s += self.g.sp(); s += if self.g.r.chance(6) { "::" } else { ":" }; s += self.g.sp(); }
            else if self.g.r.chance(5) { s += ":"; }
        }
        if self.g.r.chance(8) { s += "  "; }
        s
    }
}

fn line_numbers(r: &mut Rng, n: usize, max: usize) -> Vec<u16> {
    let mut v = Vec::new();
    let style = r.below(4);
    let mut cur = r.below(100);
    for _ in 0..n {
        match style {
            0 | 1 => { v.push(cur.min(max) as u16); cur += 1 + r.below(30); }
            2 => v.push(r.below(max + 1) as u16),               // any order, duplicates possible
            _ => { v.push(cur.min(max) as u16); if r.chance(70) { cur += 10; } }
        }
    }
    v
}

fn pick_addr(r: &mut Rng) -> u16 {
    match r.below(10) {
        0 | 1 | 2 => 0x801,
        3 => *r.pick(&[0x0000u16, 0x0001, 0x00ff, 0x0100, 0x0803, 0x4000, 0x6000]),
        4 => *r.pick(&[0xFFF0u16, 0xFF00, 0xFFFF, 0xFFFA, 0xFE00, 0xFFD0]),
        _ => (r.next() & 0xffff) as u16,
    }
}

// ------------------------------------------------------------------------------------------------

fn run_applesoft(ctx: &mut Ctx, rng: &mut Rng) {
    let n = ctx.n(3500, 40000);
    for idx in 0..n {
        let mut r = rng.fork(idx as u64);
        if !ctx.out.wants(idx) { continue; }
        let nlines = 1 + r.below(6);
        let nums = line_numbers(&mut r, nlines, 63999);
        let addr = pick_addr(&mut r);
        let mut ag = AG { g: Gen::new(r.fork(1)) };
        let mut src = String::new();
        let whole = r.chance(10); // sometimes keep lines the parser rejects (whole program is then skipped)
        let mut kept = Vec::new();
        for (i, n) in nums.iter().enumerate() {
            let mut l = ag.line(*n);
            let mut tries = 0;
            while !whole && tries < 6 && !accepted_a(&l) { ctx.out.count("applesoft/line-rejected"); l = ag.line(*n); tries += 1; }
            if !whole && !accepted_a(&l) { continue; }
            kept.push(*n);
            src += &l;
            src += if r.chance(10) { "\r\n" } else { "\n" };
            if r.chance(4) && i + 1 < nums.len() { src += "\n"; }
        }
        if kept.is_empty() { ctx.out.count("applesoft/no-accepted-line"); continue; }
        applesoft_case(ctx, idx, &src, addr, Some(&kept));
    }
}

fn applesoft_case(ctx: &mut Ctx, idx: usize, src: &str, addr: u16, nums: Option<&[u16]>) {
    let case = format!("idx={} lang=applesoft addr={} src={:?}", idx, addr, src);
    if !accepted_a(src) {
        ctx.out.count("applesoft/rejected-by-verify");
        if std::env::var("A2V_C14_DEBUG").is_ok() { for l in src.lines() { if !accepted_a(l) { eprintln!("REJ-A {:?}", l); } } }
        return;
    }
    let t0 = match tok_a(src, 2049) {
        Ok(Ok(t)) => t,
        Ok(Err(_)) => { ctx.out.count("applesoft/rejected-by-tokenize"); return; }
        Err(p) => { ctx.out.oracle(false, "tokenize-no-panic", &psig(&p), &case); return; }
    };
    ctx.out.count("applesoft/accepted");
    ctx.out.sample(&case);
    let lines0 = match split_a(&t0) {
        Some(l) => l,
        None => { ctx.out.oracle(false, "structure", "c14/applesoft/stream-not-line-structured", &case); return; }
    };
    // framing at the requested load address: model assembleA vs real tokenize
    let treal = tok_a(src, addr);
    let req = format!("c14 asmA {} {}", addr, lines0.iter().map(|(n, b)| format!("{}:{}", n, hx(b))).collect::<Vec<_>>().join(" "));
    let ans = match &treal { Ok(Ok(t)) => format!("ok {}", hx(t)), Ok(Err(_)) => "err".to_string(), Err(_) => "panic".to_string() };
    ctx.out.q(&req, &ans);
    let (t, base) = match treal {
        Ok(Ok(t)) => (t, addr),
        _ => {
            // address arithmetic overflowed u16 (debug profile): the program does not fit below 64K at this address
            let fits = addr as usize + t0.len() - 2 <= 65535;
            if fits { ctx.out.oracle(false, "tokenize-at-address", "c14/applesoft/tokenize-fails-at-address", &case); return; }
            ctx.out.count("applesoft/address-overflow-panic");
            (t0.clone(), 2049u16)
        }
    };
    // structure
    let walked = walk_links_a(&t, base as usize);
    let scanned: Option<Vec<u16>> = split_a(&t).map(|l| l.iter().map(|x| x.0).collect());
    let expect_nums: Vec<u16> = match nums { Some(n) => n.to_vec(), None => scanned.clone().unwrap_or_default() };
    let structure_ok = walked.is_some() && walked == scanned && walked.as_deref() == Some(&expect_nums[..]);
    ctx.out.oracle(structure_ok, "structure", if walked.is_none() { "c14/applesoft/link-field-wrong" } else { "c14/applesoft/line-numbers-wrong" }, &case);
    ctx.out.q(&format!("c14 wfA {} {}", base, hx(&t)), &format!("true {}", nat_list(&expect_nums)));
    // detokenize
    let d = detok_a(&t);
    ctx.out.q(&format!("c14 detokA {}", hx(&t)), &show_detok(&d));
    let s = match d {
        Ok(Ok(s)) => s,
        Ok(Err(_)) => { ctx.out.oracle(false, "detokenize", "c14/applesoft/detokenize-refuses", &case); return; }
        Err(p) => { ctx.out.oracle(false, "detokenize", &psig(&p), &case); return; }
    };
    // re-readable and faithful
    let long_line = lines0.iter().any(|(_, b)| b.len() >= 255);
    let many = lines0.len() > 5000;
    if long_line { ctx.out.count("applesoft/line-over-255-bytes"); }
    let acc = accepted_a(&s);
    ctx.out.oracle(acc, "reaccepted", if long_line { "c14/applesoft/long-line-detokenized-rejected" } else { "c14/applesoft/detokenized-rejected" }, &case);
    let same_text = norm_code_a(src) == norm_code_a(&s);
    ctx.out.oracle(same_text, "listing-text", "c14/applesoft/listing-text-differs", &format!("{} detok={:?}", case, s));
    if acc {
        match tok_a(&s, 2049) {   // bodies do not depend on the load address; 2049 avoids the 64K overflow
            Ok(Ok(t2)) => {
                // reference re-tokenizer of the model on the REAL listing vs the real tokenizer (head blanks stripped),
                // and the model's `stripHead` vs the harness-side one
                if let Some(l2) = split_a(&t2) {
                    let stripped: Vec<(u16, Vec<u8>)> = l2.into_iter().map(|(n, b)| (n, strip_head_a(&b))).collect();
                    if let Some(exp) = assemble_a(2049, &stripped) { ctx.out.q(&format!("c14 retokA 2049 {}", hx(s.as_bytes())), &format!("ok {}", hx(&exp))); }
                }
                let stripped0: Vec<(u16, Vec<u8>)> = lines0.iter().map(|(n, b)| (*n, strip_head_a(b))).collect();
                if let Some(exp) = assemble_a(2049, &stripped0) { ctx.out.q(&format!("c14 stripA 2049 {}", hx(&t0)), &format!("ok {}", hx(&exp))); }
                if !long_line && !many && t0.len() <= 65533 {
                    ctx.out.q(&format!("c14 classA 2049 {}", hx(&t0)), "true");
                    ctx.out.q(&format!("c14 rtA 2049 {}", hx(&t0)), "holds");
                }
                let a: Option<Vec<(u16, Vec<u8>)>> = split_a(&t).map(|l| l.into_iter().map(|(n, b)| (n, strip_head_a(&b))).collect());
                let b: Option<Vec<(u16, Vec<u8>)>> = split_a(&t2).map(|l| l.into_iter().map(|(n, b)| (n, strip_head_a(&b))).collect());
                let same = a.is_some() && a == b;
                let sig = if long_line || many { "c14/applesoft/long-line-retokenize-differs" } else { "c14/applesoft/retokenize-differs" };
                ctx.out.oracle(same, "roundtrip", sig, &format!("{} detok={:?}", case, s));
                if t2 == t { ctx.out.count("applesoft/roundtrip-identical"); } else if same { ctx.out.count("applesoft/roundtrip-modulo-head-blanks"); }
            }
            Ok(Err(_)) => ctx.out.oracle(false, "roundtrip", "c14/applesoft/detokenized-not-tokenizable", &case),
            Err(p) => ctx.out.oracle(false, "roundtrip", &psig(&p), &case),
        }
    }
    let nontrivial = lines0.iter().any(|(_, b)| b.iter().any(|c| *c >= 128 || *c == 0x22));
    for (_, b) in &lines0 {
        if b.contains(&0x83) { ctx.out.count("applesoft/lines-with-DATA"); }
        if b.contains(&0xB2) { ctx.out.count("applesoft/lines-with-REM"); }
        if b.contains(&0x22) { ctx.out.count("applesoft/lines-with-string"); }
    }
    ctx.out.count_n("applesoft/lines", lines0.len() as u64);
    ctx.out.case(src.as_bytes(), nontrivial);
}

// ---- Integer BASIC -----------------------------------------------------------------------------

struct IG { g: Gen }
impl IG {
    fn new(r: Rng) -> Self { let mut g = Gen::new(r); g.neg = true; IG { g } }
    fn iname(&mut self) -> String {
        let n = if self.g.r.chance(85) { self.g.r.pick(&["A", "B", "I", "J", "K", "X", "Y", "Z", "X1", "Y2", "N9", "Q", "ZZ", "C3", "W8", "PI", "SUM", "CNT", "LEVEL", "HIGH", "BALL", "SCORE", "TOTAL"]).to_string() } else { self.g.name() };
        self.g.case(&n)
    }
    fn sname(&mut self) -> String { self.iname() + "$" }
    fn int(&mut self) -> String { self.g.int(32767) }
    fn strlit(&mut self) -> String { format!("\"{}\"", self.g.text(10, &[0x01, 0x29, 0x22], true, false)) }
    fn avar(&mut self, d: usize) -> String {
        let n = self.iname();
        if self.g.r.chance(20) && d < 3 { format!("{}({})", n, self.aexpr(d + 1)) } else { n }
    }
    fn svar(&mut self, d: usize) -> String {
        let n = self.sname();
        if self.g.r.chance(15) && d < 3 { format!("{}({})", n, self.aexpr(d + 1)) } else { n }
    }
    fn sexpr(&mut self, d: usize) -> String {
        match self.g.r.below(4) {
            0 | 1 => self.strlit(),
            2 => self.svar(d),
            _ => if d < 3 { format!("{}({},{})", self.sname(), self.aexpr(d + 1), self.aexpr(d + 1)) } else { self.sname() },
        }
    }
    fn aexpr(&mut self, d: usize) -> String {
        let k = if d >= 3 { self.g.r.below(3) } else { self.g.r.below(11) };
        match k {
            0 | 1 => self.int(),
            2 | 3 => self.avar(d),
            4 => { let f = *self.g.r.pick(&["ABS", "PDL", "PEEK", "RND", "SGN"]); format!("{}{}({})", self.g.kw(f), self.g.sp(), self.aexpr(d + 1)) }
            5 => match self.g.r.below(3) {
                0 => format!("{}{})", self.g.kw("LEN("), self.sexpr(d + 1)),
                1 => format!("{}{})", self.g.kw("ASC("), self.sexpr(d + 1)),
                _ => format!("{}{},{})", self.g.kw("SCRN("), self.aexpr(d + 1), self.aexpr(d + 1)),
            },
            6 => { let op = *self.g.r.pick(&["-", "+", "NOT"]); format!("{}{}{}", self.g.kw(op), self.g.sp(), self.aexpr(d + 1)) }
            7 | 8 => {
                let op = *self.g.r.pick(&["+", "-", "*", "/", "^", "MOD", "AND", "OR", "=", "#", "<", ">", "<=", ">=", "<>"]);
                format!("{}{}{}{}{}", self.aexpr(d + 1), self.g.sp(), self.g.kw(op), self.g.sp(), self.aexpr(d + 1))
            }
            9 => { let op = *self.g.r.pick(&["=", "#"]); format!("{}{}{}", self.sexpr(d + 1), op, self.sexpr(d + 1)) }
            _ => format!("({})", self.aexpr(d + 1)),
        }
    }
    fn k1(&mut self, kw: &str, arg: String) -> String { format!("{}{}{}", self.g.kw(kw), self.g.sp(), arg) }
    fn stmt(&mut self, d: usize) -> (String, bool) {
        let k = self.g.r.below(44);
        let s = match k {
            0 | 1 | 2 => {
                let l = if self.g.r.chance(25) { self.g.kw("LET") + self.g.sp() } else { String::new() };
                if self.g.r.chance(30) { format!("{}{}{}={}{}", l, self.svar(0), self.g.sp(), self.g.sp(), self.sexpr(0)) }
                else { format!("{}{}{}={}{}", l, self.avar(0), self.g.sp(), self.g.sp(), self.aexpr(0)) }
            }
            3 => { let kw = *self.g.r.pick(&["CALL", "COLOR=", "GOSUB", "GOTO", "IN#", "PR#", "TAB", "VTAB", "HIMEM:", "LOMEM:"]); let a = self.aexpr(1); self.k1(kw, a) }
            4 => { let kw = *self.g.r.pick(&["END", "GR", "TEXT", "RETURN", "POP", "TRACE", "NOTRACE", "LIST", "CLR", "NEW", "CON", "RUN", "MAN", "LOAD", "SAVE"]); self.g.kw(kw) }
            5 | 6 => {
                let mut s = self.g.kw("DIM") + self.g.sp();
                for i in 0..1 + self.g.r.below(3) {
                    if i > 0 { s += ","; }
                    let n = if self.g.r.chance(40) { self.sname() } else { self.iname() };
                    s += &format!("{}({})", n, self.aexpr(2));
                }
                s
            }
            7 => { let kw = *self.g.r.pick(&["DSP", "NODSP"]); let n = if self.g.r.chance(40) { self.sname() } else { self.iname() }; self.k1(kw, n) }
            8 | 9 => {
                let mut s = format!("{}{}{}{}={}{}{}{}{}{}", self.g.kw("FOR"), self.g.sp(), self.iname(), self.g.sp(), self.g.sp(), self.aexpr(1), self.g.sp(), self.g.kw("TO"), self.g.sp(), self.aexpr(1));
                if self.g.r.chance(40) { s += &format!("{}{}{}{}", self.g.sp(), self.g.kw("STEP"), self.g.sp(), self.aexpr(1)); }
                s
            }
            10 | 11 => { let kw = *self.g.r.pick(&["HLIN", "VLIN"]); format!("{}{}{},{}{}{}{}{}", self.g.kw(kw), self.g.sp(), self.aexpr(1), self.aexpr(1), self.g.sp(), self.g.kw("AT"), self.g.sp(), self.aexpr(1)) }
            12 | 13 | 14 => {
                let head = format!("{}{}{}{}{}{}", self.g.kw("IF"), self.g.sp(), self.aexpr(1), self.g.sp(), self.g.kw("THEN"), self.g.sp());
                if self.g.r.chance(40) || d >= 2 { format!("{}{}", head, self.aexpr(2)) }
                else { let (st, term) = self.stmt(d + 1); return (format!("{}{}", head, st), term); }
            }
            15 | 16 => {
                let mut s = self.g.kw("INPUT") + self.g.sp();
                if self.g.r.chance(40) { s += &self.strlit(); s += ","; }
                for i in 0..1 + self.g.r.below(3) { if i > 0 { s += ","; } if self.g.r.chance(30) { s += &self.svar(1); } else { s += &self.avar(1); } }
                s
            }
            17 => format!("{}{}{},{}", self.g.kw("LIST"), self.g.sp(), self.int(), self.int()),
            18 => { let f = *self.g.r.pick(&["DEL", "AUTO", "RUN", "LIST"]); format!("{} {}", self.g.kw(f), self.int()) }
            19 | 20 => { let mut s = self.g.kw("NEXT") + self.g.sp(); for i in 0..1 + self.g.r.below(2) { if i > 0 { s += ","; } s += &self.iname(); } s }
            21 | 22 => { let kw = *self.g.r.pick(&["PLOT", "POKE"]); format!("{}{}{},{}", self.g.kw(kw), self.g.sp(), self.aexpr(1), self.aexpr(1)) }
            23..=29 => {
                let mut s = self.g.kw("PRINT");
                let n = self.g.r.below(5);
                if n > 0 { s += self.g.sp(); }
                for i in 0..n {
                    if i > 0 { s += *self.g.r.pick(&[";", ";", ",", ";;", ",;"]); }
                    if self.g.r.chance(45) { s += &self.sexpr(1); } else { s += &self.aexpr(1); }
                }
                if n > 0 && self.g.r.chance(25) { s += *self.g.r.pick(&[";", ","]); }
                s
            }
            30..=33 => {
                let t = self.g.text(16, &[0x01], true, true);
                let pad = *self.g.r.pick(&["", " ", " ", "  "]);
                return (format!("{}{}{}", self.g.kw("REM"), pad, t), true);
            }
            _ => {
                if self.g.r.chance(30) { format!("{}{}={}{}", self.svar(0), self.g.sp(), self.g.sp(), self.sexpr(0)) }
                else { format!("{}{}={}{}", self.avar(0), self.g.sp(), self.g.sp(), self.aexpr(0)) }
            }
        };
        (s, false)
    }
    fn line(&mut self, num: u16) -> String {
        let mut s = String::new();
        if self.g.r.chance(10) { s += " "; }
        s += &num.to_string();
        s += *self.g.r.pick(&[" ", " ", "", "  "]);
        let n = 1 + self.g.r.below(3);
        for i in 0..n {
            let (st, term) = self.stmt(0);
            s += &st;
            if term || i + 1 == n { break; }
            s += self.g.sp(); s += ":"; s += self.g.sp();
        }
        if self.g.r.chance(8) { s += " "; }
        s
    }
}

fn run_integer(ctx: &mut Ctx, rng: &mut Rng) {
    let n = ctx.n(3500, 40000);
    for k in 0..n {
        let idx = 100000 + k;
        let mut r = rng.fork(idx as u64);
        if !ctx.out.wants(idx) { continue; }
        let nlines = 1 + r.below(6);
        let nums = line_numbers(&mut r, nlines, 32767);
        let mut ig = IG::new(r.fork(1));
        let mut src = String::new();
        let whole = r.chance(10);
        let mut kept = Vec::new();
        for n in nums.iter() {
            let mut l = ig.line(*n);
            let mut tries = 0;
            while !whole && tries < 6 && !accepted_i(&l) { ctx.out.count("integer/line-rejected"); l = ig.line(*n); tries += 1; }
            if !whole && !accepted_i(&l) { continue; }
            kept.push(*n);
            src += &l;
            src += if r.chance(10) { "\r\n" } else { "\n" };
        }
        if kept.is_empty() { ctx.out.count("integer/no-accepted-line"); continue; }
        integer_case(ctx, idx, &src, Some(&kept));
    }
}

fn integer_case(ctx: &mut Ctx, idx: usize, src: &str, nums: Option<&[u16]>) {
    let case = format!("idx={} lang=integer src={:?}", idx, src);
    if !accepted_i(src) {
        ctx.out.count("integer/rejected-by-verify");
        if std::env::var("A2V_C14_DEBUG").is_ok() { for l in src.lines() { if !accepted_i(l) { eprintln!("REJ-I {:?}", l); } } }
        return;
    }
    let t = match tok_i(src) {
        Ok(Ok(t)) => t,
        Ok(Err(_)) => { ctx.out.count("integer/rejected-by-tokenize"); return; }
        Err(p) => { ctx.out.oracle(false, "tokenize-no-panic", &psig(&p), &case); return; }
    };
    ctx.out.count("integer/accepted");
    ctx.out.sample(&case);
    let walked = walk_len_i(&t);
    let expect_nums: Vec<u16> = match (nums, &walked) { (Some(n), _) => n.to_vec(), (None, Some(w)) => w.iter().map(|x| x.0).collect(), _ => vec![] };
    let structure_ok = match &walked { Some(w) => w.iter().map(|x| x.0).collect::<Vec<_>>() == expect_nums, None => false };
    ctx.out.oracle(structure_ok, "structure", if walked.is_none() { "c14/integer/line-length-wrong" } else { "c14/integer/line-numbers-wrong" }, &case);
    if let Some(w) = &walked {
        ctx.out.q(&format!("c14 asmI {}", w.iter().map(|(n, b)| format!("{}:{}", n, hx(b))).collect::<Vec<_>>().join(" ")), &format!("ok {}", hx(&t)));
    }
    ctx.out.q(&format!("c14 wfI {}", hx(&t)), &format!("true {}", nat_list(&expect_nums)));
    let d = detok_i(&t);
    ctx.out.q(&format!("c14 detokI {}", hx(&t)), &show_detok(&d));
    let s = match d {
        Ok(Ok(s)) => s,
        Ok(Err(_)) => { ctx.out.oracle(false, "detokenize", "c14/integer/detokenize-refuses", &case); return; }
        Err(p) => { ctx.out.oracle(false, "detokenize", &psig(&p), &case); return; }
    };
    let acc = accepted_i(&s);
    ctx.out.oracle(acc, "reaccepted", &integer_sig(src, "c14/integer/detokenized-rejected"), &format!("{} detok={:?}", case, s));
    if acc {
        match tok_i(&s) {
            Ok(Ok(t2)) => {
                let a = walk_len_i(&t).map(|l| l.into_iter().map(|(n, b)| (n, strip_head_i(&b))).collect::<Vec<_>>());
                let b = walk_len_i(&t2).map(|l| l.into_iter().map(|(n, b)| (n, strip_head_i(&b))).collect::<Vec<_>>());
                let same = a.is_some() && a == b;
                ctx.out.oracle(same, "roundtrip", &integer_sig(src, "c14/integer/retokenize-differs"), &format!("{} detok={:?}", case, s));
                if t2 == t { ctx.out.count("integer/roundtrip-identical"); } else if same { ctx.out.count("integer/roundtrip-modulo-head-blanks"); }
            }
            Ok(Err(_)) => ctx.out.oracle(false, "roundtrip", &integer_sig(src, "c14/integer/detokenized-not-tokenizable"), &case),
            Err(p) => ctx.out.oracle(false, "roundtrip", &psig(&p), &case),
        }
    }
    if let Some(w) = &walked {
        for (_, b) in w {
            if b.contains(&0x5D) { ctx.out.count("integer/lines-with-REM"); }
            if b.contains(&0x28) { ctx.out.count("integer/lines-with-string"); }
        }
        ctx.out.count_n("integer/lines", w.len() as u64);
    }
    ctx.out.case(src.as_bytes(), t.len() > 5);
}

// ---- Merlin ------------------------------------------------------------------------------------

fn merlin_line(r: &mut Rng) -> String {
    let labels = ["START", "LOOP", ":L1", "]VAR", "DONE", "PTR", "MSG", "COUT", "A1L"];
    let ops = ["LDA", "STA", "JSR", "JMP", "BNE", "BEQ", "LDX", "LDY", "INX", "DEY", "RTS", "CLC", "ADC", "SBC", "CMP", "AND", "ORA", "EOR", "PHA", "PLA", "NOP", "BCC", "BCS", "INC", "DEC"];
    let args = ["#$00", "#$FF", "$FDED", "PTR", "(PTR),Y", "$C000,X", "#<MSG", "#>MSG", "LOOP", ":L1", "#'A'", "#\"A\"", "PTR+1", "$10", "($20,X)", "#%01010101", "]VAR"];
    let cmts = ["; comment", ";load it", "; a b  c", ";"];
    match r.below(12) {
        0 => format!("* {}", r.pick(&["heading comment", "---", " spaced  out", "*****"])),
        1 => r.pick(&cmts).to_string(),
        2 => format!("{} EQU {}", r.pick(&labels[..1]), r.pick(&["$300", "$FDED", "$06", "*"])),
        3 => format!(" ORG {}", r.pick(&["$300", "$8000", "$2000"])),
        4 => format!("{} ASC {}", r.pick(&["MSG", ""]), r.pick(&["\"HELLO WORLD\"", "'hello'", "\"A B\",00", "\"X\""])),
        5 => format!(" {} {}", r.pick(&["HEX", "DFB", "DA", "DS"]), r.pick(&["00", "01", "10"])),
        _ => {
            let implied = ["INX", "DEY", "RTS", "CLC", "PHA", "PLA", "NOP"];
            let lab = if r.chance(40) { r.pick(&labels).to_string() } else { String::new() };
            let op = *r.pick(&ops);
            let sep1 = *r.pick(&[" ", "  ", "\t", "   "]);
            let mut s = format!("{}{}{}", lab, sep1, op);
            if !implied.contains(&op) { s += *r.pick(&[" ", "  ", "\t"]); s += *r.pick(&args); }
            if r.chance(35) { s += *r.pick(&[" ", "   ", "\t"]); s += *r.pick(&cmts); }
            s
        }
    }
}

fn run_merlin(ctx: &mut Ctx, rng: &mut Rng) {
    let n = ctx.n(1200, 10000);
    for k in 0..n {
        let idx = 200000 + k;
        let mut r = rng.fork(idx as u64);
        if !ctx.out.wants(idx) { continue; }
        let mut src = String::new();
        for _ in 0..1 + r.below(6) {
            src += &merlin_line(&mut r);
            src += "\n";
            if r.chance(5) { src += "\n"; }
        }
        let case = format!("idx={} lang=merlin src={:?}", idx, src);
        if !accepted_m(&src) { ctx.out.count("merlin/rejected-by-verify"); continue; }
        let t = match tok_m(&src) {
            Ok(Ok(t)) => t,
            Ok(Err(_)) => { ctx.out.count("merlin/rejected-by-tokenize"); continue; }
            Err(p) => { ctx.out.oracle(false, "tokenize-no-panic", &psig(&p), &case); continue; }
        };
        ctx.out.count("merlin/accepted");
        ctx.out.sample(&case);
        // structure: negative ASCII except blanks, every line ends in 8D
        let shape = t.iter().all(|b| *b >= 0x80 || *b == 0x20) && t.last() == Some(&0x8d)
            && t.iter().filter(|b| **b == 0x8d).count() == src.lines().count();
        ctx.out.oracle(shape, "structure", "c14/merlin/stream-shape-wrong", &case);
        // model of the line format / detokenizer / column formatter vs the real functions
        ctx.out.q(&format!("c14 wfM {}", hx(&t)), "true");
        ctx.out.q(&format!("c14 detokM {}", hx(&t)), &show_detok_m(&detok_m(&t)));
        {
            // and on damaged streams (outcome classes ok / err)
            let mut d = t.clone();
            match r.below(5) {
                0 => { let i = r.below(d.len()); d[i] = r.byte(); }
                1 => { let i = r.below(d.len()); d[i] = *r.pick(&[0xa0u8, 0x8d, 0x20, 0x09, 0xbb, 0x41, 0x00, 0xff, 0x80]); }
                2 => { let n = r.below(d.len() + 1); d.truncate(n); }
                3 => { let i = r.below(d.len()); let k = 1 + r.below(12); for _ in 0..k { d.insert(i, 0xa0 + r.below(0x5f) as u8); } }
                _ => { let i = r.below(d.len()); d.insert(i, 0xa0); d.insert(i, 0xa0); }
            }
            ctx.out.q(&format!("c14 detokM {}", hx(&d)), &show_detok_m(&detok_m(&d)));
        }
        match detok_m(&t) {
            Ok(Ok(s)) => {
                let acc = accepted_m(&s);
                ctx.out.oracle(acc, "reaccepted", "c14/merlin/detokenized-rejected", &format!("{} detok={:?}", case, s));
                if acc {
                    match tok_m(&s) {
                        Ok(Ok(t2)) => ctx.out.oracle(t2 == t, "roundtrip", "c14/merlin/retokenize-differs", &format!("{} detok={:?}", case, s)),
                        Ok(Err(_)) => ctx.out.oracle(false, "roundtrip", "c14/merlin/detokenized-not-tokenizable", &case),
                        Err(p) => ctx.out.oracle(false, "roundtrip", &psig(&p), &case),
                    }
                }
            }
            Ok(Err(_)) => ctx.out.oracle(false, "detokenize", "c14/merlin/detokenize-refuses", &case),
            Err(p) => ctx.out.oracle(false, "detokenize", &psig(&p), &case),
        }
        ctx.out.case(src.as_bytes(), t.iter().any(|b| *b == 0xa0));
    }
}

// ---- raw streams: detokenizers on arbitrary bytes (model vs implementation only) ------------------

fn run_raw(ctx: &mut Ctx, rng: &mut Rng) {
    let seeds_a: [&str; 6] = ["10 PRINT \"HELLO\":REM hi\n20 DATA 1,\"a:b\",c : GOTO 10\n", "10 FOR I=1 TO 10:NEXT\n", "1 REM \\x5Cx41\\\\\n",
        "10 A$=\"\\x0d\\x8d\"+CHR$(4):IF A THEN 10\n", "5 ?\"unterminated\n", "10 DATA \"q\"\"r\", lit : REM x\n"];
    let seeds_i: [&str; 5] = ["10 PRINT \"HELLO\";A,B$\n20 REM hi there\n", "10 FOR I=1 TO 10:NEXT I\n", "1 IF A#1 THEN 10:A=LEN(B$)+ASC(\"A\")\n",
        "10 DIM A$(10),B(5):INPUT \"X\",A$\n", "32767 A=32767:B=-1\n"];
    let n = ctx.n(5000, 60000);
    for k in 0..n {
        let idx = 300000 + k;
        let mut r = rng.fork(idx as u64);
        if !ctx.out.wants(idx) { continue; }
        let applesoft = k % 2 == 0;
        let base: Vec<u8> = if applesoft {
            tok_a(*r.pick(&seeds_a), 2049).ok().and_then(|x| x.ok()).unwrap_or_default()
        } else {
            tok_i(*r.pick(&seeds_i)).ok().and_then(|x| x.ok()).unwrap_or_default()
        };
        let mut t = base.clone();
        match r.below(8) {
            0 => { let n = r.below(40); t = r.bytes(n); }
            1 => { let n = r.below(t.len() + 1); t.truncate(n); }
            2 | 3 => { for _ in 0..1 + r.below(3) { if !t.is_empty() { let i = r.below(t.len()); t[i] = r.byte(); } } }
            4 => { if !t.is_empty() { let i = r.below(t.len()); t[i] = *r.pick(&[0u8, 1, 0x22, 0x28, 0x29, 0x5c, 0xdc, 0xf8, 0x78, 0xb2, 0x83, 0x5d, 0xff, 0x80, 0xb0, 0x3a]); } }
            5 => { if !t.is_empty() { let i = r.below(t.len()); let k = 1 + r.below(4); let ins = r.bytes(k); for (j, b) in ins.iter().enumerate() { t.insert(i + j, *b); } } }
            6 => {
                // escape-related tails
                let tails: [&[u8]; 12] = [&[0x28, 0x80, 0xA2, 0xE1, 0xFA, 0xFB, 0x29, 0x01], &[0x5D, 0xA2, 0xEB, 0x80, 0x01], &[0x28, 0xdc, 0xf8, 0x01], &[0x5D, 0xdc, 0xf8, 0xb4, 0x29, 0x01, 0x05],&[0x22, 0x41], &[0x5c, 0x78, 0x34], &[0x5c, 0x78, 0x34, 0x31], &[0x28, 0xc1], &[0xdc, 0xf8, 0xb4, 0x01], &[0x28, 0xdc, 0xf8, 0xb4, 0xb1, 0x29, 0x01],
                    &[0x28, 0xdc, 0xf8, 0x34, 0xb1, 0x29, 0x01], &[0xb2, 0x5c, 0x78, 0x41, 0x42, 0x00, 0x00, 0x00]];
                let n = r.below(t.len() + 1); t.truncate(n); t.extend_from_slice(*r.pick(&tails));
            }
            _ => { if t.len() > 2 { let n = t.len() - 1 - r.below(2); t.truncate(n); } }
        }
        if applesoft {
            let d = detok_a(&t);
            ctx.out.count(&format!("raw/applesoft/{}", show_detok(&d).split(' ').next().unwrap_or("")));
            ctx.out.q(&format!("c14 detokA {}", hx(&t)), &show_detok(&d));
        } else {
            let d = detok_i(&t);
            ctx.out.count(&format!("raw/integer/{}", show_detok(&d).split(' ').next().unwrap_or("")));
            ctx.out.q(&format!("c14 detokI {}", hx(&t)), &show_detok(&d));
        }
        ctx.out.case(&t, t != base);
    }
}


// ---- fixed seeds: hand-written programs (always run first) ----------------------------------------

fn run_fixed(ctx: &mut Ctx) {
    let a: [(&str, u16); 14] = [
        ("10 PRINT CHR$(4);\"PREFIX\": INPUT PR$\n", 2049),
        ("10 HOME\n20 PRI NT \"HELLO\"  ", 2049),
        ("10 DATA aliteral, \"a string\", 1  : PRINT A$\n", 2049),
        ("10 data 1.5 e 4 , 100000: print a$\n", 0x4000),
        ("10 x = 1e6*(fn cub(x0) + (atn(x1) + cos(x2))*5)\n", 0),
        ("10 if x then a$ = a$ + \"hello\n", 2049),
        ("10 hgr: hcolor=2\n20 x=5:y=5\n30 plot x,y\r\n40 hplot to x+5,y+5", 2049),
        ("10 print \"\\x0d1\\x0d2\\x0a\\x0a\"", 2049),
        ("10 data \":\",\\x5Cxff : rem \\\\\\\\", 2049),
        ("10 rem \\x0a\\x0aAAA\\x0a\\x0a", 2049),
        ("10 & PR USNG > \"0.00\";A$", 2049),
        ("10 FOR I = A TO B: HLIN 1,2 AT N: SCORE = TOTAL + 1\n", 0x801),
        ("100 REM\n90 REM  two blanks\n90 DATA   x\n", 0xFFF0),
        ("10 HOME\n20 PRINT\n", 0xFFF0),
    ];
    for (i, (src, addr)) in a.iter().enumerate() {
        let idx = 400000 + i;
        if ctx.out.wants(idx) { applesoft_case(ctx, idx, src, *addr, None); }
    }
    let i_: [&str; 12] = [
        // defects found by this family (see design/C14.md): lower case / NUL / quote via escape, is_hex underflow
        "93 REM  f\\xebmUUZ \n", "10 PRINT \"A\\x80B\"\n", "10 PRINT \"A\\xa2B\"\n", "61 REM X\n71 REM YG \\\\xf8\n81 END\n",
        "10 PRINT \"HELLO\"\n", "10 FOR I = 1 TO 10: PRINT I: NEXT I\n", "20 IF A#1 AND B>=2 THEN 100\n", "30 DIM A$(20),B(5): A$=\"X\"\n",
        "40 REM  lower case remark\\x8a\n", "50 PRINT A$(1,2);LEN(A$);ASC(\"Q\")\n", "32767 GOTO 32767\n", "10 input \"name\",n$: print \"hi \";n$\n",
    ];
    for (i, src) in i_.iter().enumerate() {
        let idx = 410000 + i;
        if ctx.out.wants(idx) { integer_case(ctx, idx, src, None); }
    }
}

/// Escapes that produce a byte which is structural in its own context (00, the closing quote, the
/// DATA colon, the Integer EOL) cannot be represented by the token format; such sources are outside
/// the generated language.  They are only *counted* here (distribution keys `edge/...`), so that the
/// evidence shows what a2kit does with them; they are not oracle verdicts.
fn run_edge(ctx: &mut Ctx) {
    if ctx.out.only.is_some() { return; }
    let a = ["10 PRINT \"A\\x00B\"\n", "10 PRINT \"A\\x22B\"\n", "10 REM A\\x00B\n", "10 DATA A\\x3aB\n", "10 DATA \\x22A:B\n"];
    for src in a.iter() {
        if !accepted_a(src) { ctx.out.count("edge/applesoft/structural-escape/rejected"); continue; }
        let ok = match tok_a(src, 2049) {
            Ok(Ok(t)) => match detok_a(&t) { Ok(Ok(s)) => accepted_a(&s) && matches!(tok_a(&s, 2049), Ok(Ok(ref t2)) if *t2 == t), _ => false },
            _ => false,
        };
        ctx.out.count(if ok { "edge/applesoft/structural-escape/roundtrip-ok" } else { "edge/applesoft/structural-escape/roundtrip-fails" });
    }
    let i = ["10 PRINT \"A\\x01B\"\n", "10 PRINT \"A\\x29B\"\n", "10 REM A\\x01B\n"];
    for src in i.iter() {
        if !accepted_i(src) { ctx.out.count("edge/integer/structural-escape/rejected"); continue; }
        let ok = match tok_i(src) {
            Ok(Ok(t)) => match detok_i(&t) { Ok(Ok(s)) => accepted_i(&s) && matches!(tok_i(&s), Ok(Ok(ref t2)) if *t2 == t), _ => false },
            _ => false,
        };
        ctx.out.count(if ok { "edge/integer/structural-escape/roundtrip-ok" } else { "edge/integer/structural-escape/roundtrip-fails" });
    }
}

/// Deterministic streams for two fine points of the formats.
/// (1) a literal backslash followed by text that looks like a hex escape must be listed with the
///     backslash escaped — every pair of hex digits in both cases, in strings, REM and DATA (Applesoft)
///     and strings / REM (Integer BASIC, negative ASCII);
/// (2) the header byte of an Integer BASIC number token is `B0 +` the first digit of the VALUE, whatever
///     was typed (leading zeros, blanks).
fn run_formats(ctx: &mut Ctx) {
    let mut k = 0usize;
    for (i1, h1) in HEXCH.iter().enumerate() {
        for (i2, h2) in HEXCH.iter().enumerate() {
            // quick tier: a quarter of the pairs (every digit in both positions, several partners); thorough: all
            if !ctx.tier_thorough && (i1 + i2) % 4 != 0 { k += 5; continue; }
            let (c1, c2) = (*h1 as char, *h2 as char);
            let srcs = [format!("10 PRINT \"\\x5Cx{}{}\";A\n", c1, c2), format!("20 REM \\x5Cx{}{}\n", c1, c2), format!("30 DATA \\x5Cx{}{},1\n", c1, c2)];
            for src in srcs.iter() {
                let idx = 420000 + k;
                k += 1;
                if ctx.out.wants(idx) { applesoft_case(ctx, idx, src, 2049, None); }
            }
            let neg = |c: char| -> String { if c.is_ascii_lowercase() { format!("\\x{:02x}", c as u8 + 128) } else { c.to_string() } };
            let srcs = [format!("10 PRINT \"\\xdc\\xf8{}{}\";A\n", neg(c1), neg(c2)), format!("20 REM \\xdc\\xf8{}{}\n", neg(c1), neg(c2))];
            for src in srcs.iter() {
                let idx = 420000 + k;
                k += 1;
                if ctx.out.wants(idx) { integer_case(ctx, idx, src, None); }
            }
        }
    }
    let lits = ["0", "7", "007", "0100", "00", "32767", "032767", "10", "010", "0009", "100", "1 0", "01 0", "0 0 5", "9999", "00012345"];
    for (i, lit) in lits.iter().enumerate() {
        let idx = 430000 + i;
        if !ctx.out.wants(idx) { continue; }
        let value: u32 = lit.replace(' ', "").parse().unwrap();
        for (j, src) in [format!("1 A={}\n", lit), format!("2 GOTO {}\n", lit), format!("3 PRINT {};{}\n", lit, lit)].iter().enumerate() {
            let case = format!("idx={} lang=integer src={:?}", idx, src);
            match tok_i(src) {
                Ok(Ok(t)) => {
                    // number token = the three bytes after the statement token(s)
                    let off = if j == 0 { 5 } else { 4 };
                    if t.len() >= off + 3 {
                        ctx.out.q(&format!("c14 numI {}", value), &hx(&t[off..off + 3]));
                        let first_digit = value.to_string().as_bytes()[0] - b'0';
                        ctx.out.oracle(t[off] == 0xB0 + first_digit && t[off + 1] as u32 + 256 * t[off + 2] as u32 == value,
                            "number-token", "c14/integer/number-header-not-from-value", &case);
                    }
                    integer_case(ctx, idx, src, None);
                }
                _ => ctx.out.oracle(false, "number-token", "c14/integer/number-literal-rejected", &case),
            }
        }
    }
}

// ---- sessions: ONE tokenizer object for several programs (what the language servers do) -----------
//
// Case indices `idx = 500000..` Integer BASIC, `510000..` Applesoft, `520000..` Merlin.  A session is a sequence of
// 2-6 calls on one object mixing accepted programs, programs rejected on their FIRST line, and programs rejected on a
// LATER line (the early return leaves the lines tokenized so far in the object).  Oracle `object-reuse`: every result
// equals what a FRESH object answers for the same input; the structure oracle (line numbers of the result = line
// numbers of the source) is applied to what the reused object answered.  Model tie: the whole session is replayed
// through the Lean state machine of the object (`c14 sessI` / `c14 sessA`, variant = what the translator reads from
// the current source), which must produce the same sequence of results.

fn show_tok(r: &Result<Result<Vec<u8>, String>, String>) -> String {
    match r { Ok(Ok(t)) => format!("ok {}", hx(t)), Ok(Err(_)) => "err".to_string(), Err(_) => "panic".to_string() }
}

/// the line as the model's state machine sees it: `num:body` as the walk of that single line produced it, `R` if the
/// tokenizer refuses the line on its own
fn line_token_i(line: &str) -> Option<String> {
    if line.trim().is_empty() { return None; }
    Some(match tok_i(&format!("{}\n", line)) {
        Ok(Ok(t)) => match walk_len_i(&t) { Some(w) if w.len() == 1 => format!("{}:{}", w[0].0, hx(&w[0].1)), _ => "R".to_string() },
        _ => "R".to_string(),
    })
}
fn line_token_a(line: &str) -> Option<String> {
    if line.trim_start().is_empty() { return None; }
    Some(match tok_a(&format!("{}\n", line), 2049) {
        Ok(Ok(t)) => match split_a(&t) { Some(w) if w.len() == 1 => format!("{}:{}", w[0].0, hx(&w[0].1)), _ => "R".to_string() },
        _ => "R".to_string(),
    })
}

/// what kind of program a session call gets
#[derive(Clone, Copy, PartialEq, Debug)]
enum CallKind { Accepted, RejectedLateNumber, RejectedLateLong, RejectedFirst }

fn pick_call_kind(r: &mut Rng, last: bool) -> CallKind {
    // the last call of a session is an accepted program more often (it is the one that shows the contamination)
    match r.below(if last { 14 } else { 10 }) { 0 | 1 | 2 => CallKind::RejectedLateNumber, 3 | 4 => CallKind::RejectedLateLong, 5 => CallKind::RejectedFirst, _ => CallKind::Accepted }
}

fn session_program_i(r: &mut Rng, kind: CallKind, ctx: &mut Ctx) -> (String, Vec<u16>) {
    let nlines = 1 + r.below(6);
    let mut nums = line_numbers(r, nlines, 32767);
    if r.chance(60) { nums.sort(); nums.dedup(); }
    let mut ig = IG::new(r.fork(1));
    let mut lines: Vec<(u16, String)> = Vec::new();
    for n in nums.iter() {
        let mut l = ig.line(*n);
        let mut tries = 0;
        while tries < 6 && !(accepted_i(&l) && matches!(tok_i(&format!("{}\n", l)), Ok(Ok(_)))) { ctx.out.count("session/integer/line-regenerated"); l = ig.line(*n); tries += 1; }
        if !(accepted_i(&l) && matches!(tok_i(&format!("{}\n", l)), Ok(Ok(_)))) { l = format!("{} END", n); }
        lines.push((*n, l));
    }
    let bad_num = |r: &mut Rng, n: u16| format!("{} {}={}", n, r.pick(&["A", "X", "K9"]), r.range(32768, 99999));
    let bad_long = |r: &mut Rng, n: u16| if r.chance(50) { format!("{} PRINT \"{}\"", n, "X".repeat(r.range(125, 160))) } else { format!("{} REM {}", n, "Z".repeat(r.range(125, 200))) };
    let newnum = r.below(32767) as u16;
    match kind {
        CallKind::Accepted => {}
        CallKind::RejectedFirst => { let l = if r.chance(50) { bad_num(r, newnum) } else { bad_long(r, newnum) }; lines.insert(0, (newnum, l)); }
        CallKind::RejectedLateNumber => { let k = r.range(1, lines.len()); let l = bad_num(r, newnum); lines.insert(k, (newnum, l)); }
        CallKind::RejectedLateLong => { let k = r.range(1, lines.len()); let l = bad_long(r, newnum); lines.insert(k, (newnum, l)); }
    }
    let mut src = String::new();
    for (_, l) in &lines { src += l; src += if r.chance(8) { "\r\n" } else { "\n" }; if r.chance(4) { src += "\n"; } }
    (src, lines.iter().map(|x| x.0).collect())
}

fn run_sessions_integer(ctx: &mut Ctx, rng: &mut Rng) {
    let n = ctx.n(200, 8000);
    for k in 0..n {
        let idx = 500000 + k;
        let mut r = rng.fork(idx as u64);
        if !ctx.out.wants(idx) { continue; }
        let ncalls = r.range(2, 6);
        let mut shared = ITok::new();
        let mut history: Vec<String> = Vec::new();
        let mut req = String::from("c14 sessI");
        let mut ans: Vec<String> = Vec::new();
        let mut canon = String::new();
        let mut late = false;
        for c in 0..ncalls {
            let kind = pick_call_kind(&mut r, c + 1 == ncalls);
            let (src, nums) = session_program_i(&mut r, kind, ctx);
            let rs = guarded(|| shared.tokenize(src.clone()).map_err(|e| e.to_string()));
            let rf = tok_i(&src);
            let case = format!("idx={} lang=integer call={} kind={:?} src={:?} reused={} fresh={} earlier-calls=[{}]", idx, c, kind, src, show_tok(&rs), show_tok(&rf), history.join(" ; "));
            ctx.out.oracle(show_tok(&rs) == show_tok(&rf), "object-reuse", "c14/integer/object-reuse/result-differs", &case);
            if let Ok(Ok(t)) = &rs {
                // the property itself, on what the reused object answered
                let walked = walk_len_i(t);
                let ok = match &walked { Some(w) => w.iter().map(|x| x.0).collect::<Vec<_>>() == nums, None => false };
                ctx.out.oracle(ok, "structure", if walked.is_none() { "c14/integer/object-reuse/line-length-wrong" } else { "c14/integer/object-reuse/line-numbers-wrong" }, &case);
            }
            if matches!(rf, Ok(Err(_))) && kind != CallKind::RejectedFirst && kind != CallKind::Accepted { late = true; }
            ctx.out.count(&format!("session/integer/{:?}/{}", kind, match &rf { Ok(Ok(_)) => "ok", Ok(Err(_)) => "err", Err(_) => "panic" }));
            if c > 0 { req += " |"; }
            for l in src.lines() { if let Some(t) = line_token_i(l) { req += " "; req += &t; } }
            ans.push(show_tok(&rs));
            history.push(format!("{:?}", src));
            canon += &src; canon.push('\u{1}');
        }
        ctx.out.q(&req, &ans.join(" | "));
        ctx.out.count("session/integer");
        ctx.out.case(canon.as_bytes(), late);
    }
}

fn session_program_a(r: &mut Rng, kind: CallKind, ctx: &mut Ctx) -> (String, Vec<u16>) {
    let nlines = 1 + r.below(6);
    let mut nums = line_numbers(r, nlines, 63999);
    if r.chance(60) { nums.sort(); nums.dedup(); }
    let mut ag = AG { g: Gen::new(r.fork(1)) };
    let mut lines: Vec<(u32, String)> = Vec::new();
    for n in nums.iter() {
        let mut l = ag.line(*n);
        let mut tries = 0;
        while tries < 6 && !accepted_a(&l) { ctx.out.count("session/applesoft/line-regenerated"); l = ag.line(*n); tries += 1; }
        if !accepted_a(&l) { l = format!("{} END", n); }
        lines.push((*n as u32, l));
    }
    // the only refusal of the Applesoft tokenizer: a primary line number that is not a u16
    let bad = |r: &mut Rng| { let n = r.range(65536, 99999) as u32; (n, format!("{} {}", n, r.pick(&["PRINT", "END", "X=1", "REM NOPE"]))) };
    match kind {
        CallKind::Accepted => {}
        CallKind::RejectedFirst => { let b = bad(r); lines.insert(0, b); }
        _ => { let k = r.range(1, lines.len()); let b = bad(r); lines.insert(k, b); }
    }
    let mut src = String::new();
    for (_, l) in &lines { src += l; src += if r.chance(8) { "\r\n" } else { "\n" }; if r.chance(4) { src += "\n"; } }
    (src, lines.iter().filter(|x| x.0 < 65536).map(|x| x.0 as u16).collect())
}

fn run_sessions_applesoft(ctx: &mut Ctx, rng: &mut Rng) {
    let n = ctx.n(150, 6000);
    for k in 0..n {
        let idx = 510000 + k;
        let mut r = rng.fork(idx as u64);
        if !ctx.out.wants(idx) { continue; }
        let ncalls = r.range(2, 6);
        let mut shared = ATok::new();
        let mut history: Vec<String> = Vec::new();
        let mut req = String::from("c14 sessA");
        let mut ans: Vec<String> = Vec::new();
        let mut canon = String::new();
        let mut late = false;
        for c in 0..ncalls {
            let kind = pick_call_kind(&mut r, c + 1 == ncalls);
            let (src, nums) = session_program_a(&mut r, kind, ctx);
            // addresses near 64K make the link computation overflow: a panic in the middle of a program
            let addr = pick_addr(&mut r);
            let rs = guarded(|| shared.tokenize(&src, addr).map_err(|e| e.to_string()));
            let rf = tok_a(&src, addr);
            let case = format!("idx={} lang=applesoft call={} kind={:?} addr={} src={:?} reused={} fresh={} earlier-calls=[{}]", idx, c, kind, addr, src, show_tok(&rs), show_tok(&rf), history.join(" ; "));
            ctx.out.oracle(show_tok(&rs) == show_tok(&rf), "object-reuse", "c14/applesoft/object-reuse/result-differs", &case);
            if let Ok(Ok(t)) = &rs {
                let ok = walk_links_a(t, addr as usize) == Some(nums.clone());
                ctx.out.oracle(ok, "structure", "c14/applesoft/object-reuse/link-field-wrong", &case);
            }
            if !matches!(rf, Ok(Ok(_))) && kind != CallKind::RejectedFirst { late = true; }
            ctx.out.count(&format!("session/applesoft/{:?}/{}", kind, match &rf { Ok(Ok(_)) => "ok", Ok(Err(_)) => "err", Err(_) => "panic" }));
            if c > 0 { req += " |"; }
            req += &format!(" {}", addr);
            for l in src.lines() { if let Some(t) = line_token_a(l) { req += " "; req += &t; } }
            ans.push(show_tok(&rs));
            history.push(format!("{}:{:?}", addr, src));
            canon += &src; canon.push('\u{1}');
        }
        ctx.out.q(&req, &ans.join(" | "));
        ctx.out.count("session/applesoft");
        ctx.out.case(canon.as_bytes(), late);
    }
}

fn run_sessions_merlin(ctx: &mut Ctx, rng: &mut Rng) {
    let n = ctx.n(80, 3000);
    for k in 0..n {
        let idx = 520000 + k;
        let mut r = rng.fork(idx as u64);
        if !ctx.out.wants(idx) { continue; }
        let ncalls = r.range(2, 6);
        let mut shared = MTok::new();
        let mut history: Vec<String> = Vec::new();
        let mut canon = String::new();
        let mut late = false;
        for c in 0..ncalls {
            let crlf = r.chance(25);
            let mut lines: Vec<String> = (0..1 + r.below(6)).map(|_| merlin_line(&mut r)).collect();
            let kind = pick_call_kind(&mut r, c + 1 == ncalls);
            let long = |r: &mut Rng| if r.chance(50) { format!("* {}", "X".repeat(r.range(127, 180))) } else { format!("LOOP LDA #$00 ; {}", "Y".repeat(r.range(127, 180))) };
            match kind {
                CallKind::Accepted => {}
                CallKind::RejectedFirst => { let l = long(&mut r); lines.insert(0, l); }
                _ => { let k = r.range(1, lines.len()); let l = long(&mut r); lines.insert(k, l); }
            }
            let src = lines.join(if crlf { "\r\n" } else { "\n" }) + if crlf { "\r\n" } else { "\n" };
            let rs = guarded(|| shared.tokenize(src.clone()).map_err(|e| e.to_string()));
            let rf = tok_m(&src);
            let case = format!("idx={} lang=merlin call={} kind={:?} src={:?} reused={} fresh={} earlier-calls=[{}]", idx, c, kind, src, show_tok(&rs), show_tok(&rf), history.join(" ; "));
            ctx.out.oracle(show_tok(&rs) == show_tok(&rf), "object-reuse", "c14/merlin/object-reuse/result-differs", &case);
            if !matches!(rf, Ok(Ok(_))) && kind != CallKind::RejectedFirst { late = true; }
            ctx.out.count(&format!("session/merlin/{:?}/{}", kind, match &rf { Ok(Ok(_)) => "ok", Ok(Err(_)) => "err", Err(_) => "panic" }));
            if let (Ok(Ok(t)), true) = (&rs, accepted_m(&src)) {
                // listing through the reused object vs a fresh one.  `detokenize` ends lines with the separator the LAST
                // `tokenize` saw (documented carry, design/C14.md): compared modulo CRLF/LF, differences counted
                let shape = t.iter().all(|b| *b >= 0x80 || *b == 0x20) && t.last() == Some(&0x8d) && t.iter().filter(|b| **b == 0x8d).count() == src.lines().count();
                ctx.out.oracle(shape, "structure", "c14/merlin/object-reuse/stream-shape-wrong", &case);
                let ds = guarded(|| shared.detokenize(t).map_err(|e| e.to_string()));
                let df = detok_m(t);
                let norm = |x: &Result<Result<String, String>, String>| match x { Ok(Ok(s)) => format!("ok {}", s.replace("\r\n", "\n")), Ok(Err(_)) => "err".to_string(), Err(_) => "panic".to_string() };
                ctx.out.oracle(norm(&ds) == norm(&df), "object-reuse", "c14/merlin/object-reuse/listing-differs", &case);
                if let (Ok(Ok(a)), Ok(Ok(b))) = (&ds, &df) { if a != b { ctx.out.count("session/merlin/listing-line-separator-carried"); } }
            }
            history.push(format!("{:?}", src));
            canon += &src; canon.push('\u{1}');
        }
        ctx.out.count("session/merlin");
        ctx.out.case(canon.as_bytes(), late);
    }
}

pub fn run(ctx: &mut Ctx) {
    if let Ok(f) = std::env::var("A2V_C14_PROBE") {
        // debugging aid: one source line per line of the file, prefixed by `A ` / `I ` / `M `
        for l in std::fs::read_to_string(f).unwrap_or_default().lines() {
            let (lang, src) = l.split_at(2);
            let src = format!("{}\n", src);
            match lang {
                "A " => eprintln!("{:?} accepted={} tok={:?}", src, accepted_a(&src), tok_a(&src, 2049).map(|r| r.map(|t| hx(&t)))),
                "I " => eprintln!("{:?} accepted={} tok={:?}", src, accepted_i(&src), tok_i(&src).map(|r| r.map(|t| hx(&t)))),
                _ => eprintln!("{:?} accepted={} tok={:?}", src, accepted_m(&src), tok_m(&src).map(|r| r.map(|t| hx(&t)))),
            }
        }
        return;
    }
    let mut rng = Rng::new(ctx.seed);
    run_fixed(ctx);
    run_edge(ctx);
    run_formats(ctx);
    let mut ra = rng.fork(1);
    run_applesoft(ctx, &mut ra);
    let mut ri = rng.fork(2);
    run_integer(ctx, &mut ri);
    let mut rm = rng.fork(3);
    run_merlin(ctx, &mut rm);
    let mut rr = rng.fork(4);
    run_raw(ctx, &mut rr);
    let mut rs = rng.fork(5);
    run_sessions_integer(ctx, &mut rs);
    let mut rs = rng.fork(6);
    run_sessions_applesoft(ctx, &mut rs);
    let mut rs = rng.fork(7);
    run_sessions_merlin(ctx, &mut rs);
}
