//! harness family c14 (stub until the family is built)
use crate::util::*;

pub fn run(_ctx: &mut Ctx) {}
