//! harness family c06id (property C06: "… loading the bytes again, with or without the file-extension hint, yields the same
//! file system"): identification of the file system on a saved image — the chain of `create_fs_from_bytestream` /
//! `try_img` of src/lib.rs and the `test_img` of every file system.
//!
//! 1. **General oracle** `reload-same-file-system`: for every (file system × container × kind) of `fs.rs::all_cfgs`, a
//!    volume with a few random files is saved and loaded again with its extension hint and without: the same file
//!    system (and, for DOS 3.x, the same sector count) must be found.  Failure sig
//!    `c06/ident/<fs>-on-<container>/misidentified`.
//! 2. **Directed scenarios** (the known finding `c06/ident/vtoc-lookalike`, design/C06.md §5.2): a file whose data
//!    lands on track 17 sector 0 in DOS order and passes `dos3x::test_img_16` — ProDOS on DO (hint `do`, none), CP/M on
//!    DO (hint `do`, none), ProDOS on PO (hint `dsk`, none), Pascal on PO (none).  One sig for the class; the case text
//!    names the configuration.
//! 3. **Tie of the Lean model** `Reload.Ident` (`Model/Reload.lean`, driver family `c06`): for the saved bytes of every
//!    flat image (DO, D13, PO, IMG), for mutants of them (one byte changed inside what the tests read: VTOC sector,
//!    block 2, the Pascal directory, the boot sector) and for the look-alike images:
//!    `c06 try <container> …` = what `from_bytes` of that container + the first four tests of `try_img` (the real
//!    `test_img` functions, called in order) answer, and `c06 ident <hint> …` = what `create_fs_from_bytestream`
//!    answers with the hint of a single flat container.  The request carries the segments of the image the tests read
//!    (bytes 0‥12287, track 17 sector 0 in D13 and DO order), the rest is zero in the model.
use crate::util::*;
use super::fs::{all_cfgs, make_volume, Fs, VolCfg};
use a2kit::fs::{dos3x, fat, pascal, prodos, DiskFS};
use a2kit::img::{self, names, DiskImage};

fn fs_id(f: Fs) -> &'static str {
    match f { Fs::Dos33 => "dos33", Fs::Dos32 => "dos32", Fs::Prodos => "prodos", Fs::Pascal => "pascal", Fs::Cpm2 => "cpm2", Fs::Cpm3 => "cpm3", Fs::Fat => "fat" }
}

/// the file system a2kit found, in the vocabulary of the model (`later` = CP/M or MS-DOS 1.x: decided by tests the
/// model does not transcribe)
fn class_of(d: &mut Box<dyn DiskFS>) -> String {
    let name = match d.stat() { Ok(s) => s.fs_name, Err(e) => return format!("stat-error:{}", e) };
    match name.as_str() {
        "a2 dos" => if d.get_img().kind() == names::A2_DOS32_KIND { "dos32".into() } else { "dos33".into() },
        "prodos" => "prodos".into(),
        "a2 pascal" => "pascal".into(),
        "fat" => "fat".into(),
        "cpm" => "cpm".into(),
        other => other.to_string(),
    }
}

/// what the history's own file system is called by `class_of`
fn expected_class(f: Fs) -> &'static str {
    match f { Fs::Dos33 => "dos33", Fs::Dos32 => "dos32", Fs::Prodos => "prodos", Fs::Pascal => "pascal", Fs::Cpm2 | Fs::Cpm3 => "cpm", Fs::Fat => "fat" }
}

fn file_name(fs: Fs, k: usize) -> String {
    match fs { Fs::Cpm2 | Fs::Cpm3 | Fs::Fat => format!("F{}.BIN", k), _ => format!("F{}", k) }
}

fn put_file(d: &mut dyn DiskFS, name: &str, chunks: &[Vec<u8>]) -> Result<(), String> {
    let mut f = d.new_fimg(None, true, name).map_err(|e| e.to_string())?;
    let cl = f.chunk_len;
    let mut eof = 0;
    for (i, c) in chunks.iter().enumerate() {
        let mut c = c.clone();
        c.truncate(cl);
        eof = i * cl + c.len();
        f.chunks.insert(i, c);
    }
    f.set_eof(eof);
    d.put(&f).map(|_| ()).map_err(|e| e.to_string())
}

/// a sector that passes `test_img_16`
fn fake_vtoc() -> Vec<u8> {
    let mut v = vec![0u8; 256];
    v[1] = 17; v[2] = 15; v[3] = 3; v[6] = 254; v[0x27] = 122; v[0x30] = 17; v[0x31] = 1; v[0x34] = 35; v[0x35] = 16; v[0x36] = 0; v[0x37] = 1;
    v
}

/// the segments of a flat image the identification tests can read
fn segments(b: &[u8]) -> String {
    let mut s = String::new();
    let mut seg = |off: usize, len: usize| {
        if off < b.len() {
            let end = (off + len).min(b.len());
            s.push_str(&format!(" {}:{}", off, hx(&b[off..end])));
        }
    };
    seg(0, 12288);
    seg(17 * 3328, 256);
    seg(69632, 256);
    s
}

/// `from_bytes` of one flat container, then the first four tests of `try_img` in its order
fn real_try(cont: &str, b: &[u8]) -> String {
    let img: Option<Box<dyn DiskImage>> = match cont {
        "d13" => img::dsk_d13::D13::from_bytes(b).ok().map(|x| Box::new(x) as Box<dyn DiskImage>),
        "do" => img::dsk_do::DO::from_bytes(b).ok().map(|x| Box::new(x) as Box<dyn DiskImage>),
        "po" => img::dsk_po::PO::from_bytes(b).ok().map(|x| Box::new(x) as Box<dyn DiskImage>),
        "img" => img::dsk_img::Img::from_bytes(b).ok().map(|x| Box::new(x) as Box<dyn DiskImage>),
        _ => None,
    };
    let mut img = match img { Some(i) => i, None => return "reject".into() };
    if dos3x::Disk::test_img(&mut img) { return if img.kind() == names::A2_DOS32_KIND { "dos32".into() } else { "dos33".into() }; }
    if prodos::Disk::test_img(&mut img) { return "prodos".into(); }
    if pascal::Disk::test_img(&mut img) { return "pascal".into(); }
    if fat::Disk::test_img(&mut img) { return "fat".into(); }
    "later".into()
}

/// `create_fs_from_bytestream` with the extension of a single flat container, in the vocabulary of the model
fn real_ident(hint: &str, b: &Vec<u8>) -> String {
    // does the container take the bytes at all?
    let accepted = match hint {
        "d13" => img::dsk_d13::D13::from_bytes(b).is_ok(),
        "do" => img::dsk_do::DO::from_bytes(b).is_ok(),
        "po" => img::dsk_po::PO::from_bytes(b).is_ok(),
        _ => img::dsk_img::Img::from_bytes(b).is_ok(),
    };
    if !accepted { return "none".into(); }
    match a2kit::create_fs_from_bytestream(b, Some(hint)) {
        Ok(mut d) => {
            let c = class_of(&mut d);
            // CP/M and MS-DOS 1.x (FAT without a boot signature) are found by tests the model does not transcribe
            if c == "cpm" { return "later".into(); }
            if c == "fat" && !(b.len() >= 512 && b[510] == 0x55 && b[511] == 0xAA) { return "later".into(); }
            c
        }
        Err(_) => "later".into(),
    }
}

fn tie(ctx: &mut Ctx, b: &Vec<u8>, chain: bool) {
    let segs = segments(b);
    for cont in ["d13", "do", "po", "img"] {
        let r = guarded(|| real_try(cont, b)).unwrap_or_else(|p| format!("panic:{}", panic_site(&p)));
        ctx.out.q(&format!("c06 try {} {}{}", cont, b.len(), segs), &r);
    }
    if !chain { return; }
    for hint in ["d13", "do", "po", "img"] {
        let r = guarded(|| real_ident(hint, b)).unwrap_or_else(|p| format!("panic:{}", panic_site(&p)));
        ctx.out.q(&format!("c06 ident {} {}{}", hint, b.len(), segs), &r);
    }
}

/// one byte changed inside what some test reads; mostly a byte a test looks at, with a value near its threshold
fn mutate(b: &Vec<u8>, rng: &mut Rng) -> (Vec<u8>, String) {
    let mut m = b.clone();
    const VTOC: [usize; 9] = [1, 2, 3, 6, 0x27, 0x34, 0x35, 0x36, 0x37];
    const KEY: [usize; 12] = [0, 1, 2, 3, 4, 5, 6, 7, 0x23, 0x24, 0x29, 0x2A];
    const PAS: [usize; 14] = [0, 1, 2, 3, 4, 5, 6, 7, 14, 15, 16, 17, 26, 32];
    const BPB: [usize; 16] = [11, 12, 13, 14, 15, 16, 17, 18, 19, 20, 22, 23, 32, 33, 510, 511];
    let (base, offs, what): (usize, &[usize], &str) = match rng.below(7) {
        0 => (69632, &VTOC, "vtoc16"),
        1 => (17 * 3328, &VTOC, "vtoc13"),
        2 => (1024, &KEY, "block2"),
        3 => (1024, &PAS, "pascal-dir"),
        4 => (0, &BPB, "boot"),
        5 => (5 * 512 + 256, &KEY, "block2-do-order"),
        _ => (5 * 512, &PAS, "pascal-do-order"),
    };
    let p = if rng.chance(75) { base + *rng.pick(offs) } else { base + rng.below(64) };
    if p < m.len() {
        let near: [u8; 14] = [0, 1, 2, 3, 6, 12, 13, 15, 16, 17, 21, 35, 0x27, 0xF1];
        m[p] = match rng.below(4) { 0 => m[p].wrapping_add(1), 1 => m[p].wrapping_sub(1), 2 => *rng.pick(&near), _ => rng.byte() };
    }
    (m, format!("{}@{}", what, p))
}

struct Look { fs: Fs, container: &'static str, hints: &'static [Option<&'static str>], name: &'static str, nchunks: usize }

pub fn run(ctx: &mut Ctx) {
    let mut rng = Rng::new(ctx.seed ^ 0xC06D);
    let cfgs: Vec<VolCfg> = all_cfgs(ctx.tier_thorough);
    let per_cfg = ctx.n(1, 3);
    let mutants = ctx.n(4, 10);
    let mut idx = 0usize;

    // 1 + 3: ordinary volumes
    for cfg in &cfgs {
        for rep in 0..per_cfg {
            let mut r = rng.fork(idx as u64);
            let me = idx;
            idx += 1;
            if !ctx.out.wants(me) { continue; }
            let tag = format!("idx={} {}/{}/{} rep={}", me, fs_id(cfg.fs), cfg.container, cfg.kind_name, rep);
            let mut d = match guarded(|| make_volume(cfg)) { Ok(Ok(d)) => d, _ => { ctx.out.count("skipped:make-volume"); continue; } };
            let nfiles = r.range(0, 3);
            let mut canon = tag.clone().into_bytes();
            let mut put_ok = 0;
            for k in 0..nfiles {
                let nch = r.range(1, 6);
                let chunks: Vec<Vec<u8>> = (0..nch).map(|_| { let (c, _) = gen_data(&mut r, 1024); c }).collect();
                let name = file_name(cfg.fs, k);
                canon.extend(format!(" {}:{}", name, nch).bytes());
                if let Ok(Ok(())) = guarded(|| put_file(d.as_mut(), &name, &chunks)) { put_ok += 1; }
            }
            let exts = d.get_img().file_extensions();
            let bytes = match guarded(|| d.get_img().to_bytes()) { Ok(b) => b, Err(_) => { ctx.out.count("skipped:to-bytes"); continue; } };
            let want = expected_class(cfg.fs);
            for hint in [Some(exts[0].clone()), None] {
                let label = match &hint { Some(h) => format!("hint={}", h), None => "hint=none".to_string() };
                let got = match guarded(|| a2kit::create_fs_from_bytestream(&bytes, hint.as_deref()).map_err(|e| e.to_string())) {
                    Ok(Ok(mut d2)) => class_of(&mut d2),
                    Ok(Err(e)) => format!("not-recognised:{}", e),
                    Err(p) => format!("panic:{}", panic_site(&p)),
                };
                ctx.out.oracle(got == want, "reload-same-file-system", &format!("c06/ident/{}-on-{}/misidentified", fs_id(cfg.fs), cfg.container),
                    &format!("{} {} files={} found={} expected={}", tag, label, put_ok, got, want));
                ctx.out.count(&format!("ident:{}-on-{}:{}", fs_id(cfg.fs), cfg.container, if hint.is_some() { "hint" } else { "no-hint" }));
            }
            ctx.out.case(&canon, put_ok > 0);
            ctx.out.sample(&format!("{} files={}", tag, put_ok));
            // the model tie, flat containers only
            // (the 32 MB ProDOS volume is left to the oracle: the model would build a 33 million element list)
            if matches!(cfg.container, "do" | "d13" | "po" | "img") && bytes.len() <= 4_000_000 {
                tie(ctx, &bytes, true);
                for _ in 0..mutants {
                    let (m, what) = mutate(&bytes, &mut r);
                    ctx.out.count(&format!("mutant:{}", what.split('@').next().unwrap_or("")));
                    tie(ctx, &m, false);
                }
            }
        }
    }

    // 2: the VTOC look-alike (known finding)
    let looks = [
        Look { fs: Fs::Prodos, container: "do", hints: &[Some("do"), None], name: "FAKE", nchunks: 200 },
        Look { fs: Fs::Cpm2, container: "do", hints: &[Some("do"), None], name: "FAKE.BIN", nchunks: 100 },
        Look { fs: Fs::Prodos, container: "po", hints: &[Some("dsk"), None], name: "FAKE", nchunks: 200 },
        Look { fs: Fs::Pascal, container: "po", hints: &[None], name: "FAKE", nchunks: 200 },
    ];
    for lk in &looks {
        let me = idx;
        idx += 1;
        if !ctx.out.wants(me) { continue; }
        let cfg = match cfgs.iter().find(|c| c.fs == lk.fs && c.container == lk.container && c.kind == names::A2_DOS33_KIND) { Some(c) => c, None => continue };
        let tag = format!("idx={} vtoc-lookalike {}/{}", me, fs_id(lk.fs), lk.container);
        let mut d = match guarded(|| make_volume(cfg)) { Ok(Ok(d)) => d, _ => { ctx.out.count("skipped:make-volume"); continue; } };
        // every 256-byte piece of every chunk is the look-alike: whichever piece lands on track 17 sector 0 will do
        let mut chunk = Vec::new();
        for _ in 0..4 { chunk.extend(fake_vtoc()); }
        let chunks: Vec<Vec<u8>> = (0..lk.nchunks).map(|_| chunk.clone()).collect();
        if !matches!(guarded(|| put_file(d.as_mut(), lk.name, &chunks)), Ok(Ok(()))) { ctx.out.count("skipped:lookalike-put"); continue; }
        let bytes = match guarded(|| d.get_img().to_bytes()) { Ok(b) => b, Err(_) => continue };
        let want = expected_class(lk.fs);
        for hint in lk.hints {
            let got = match guarded(|| a2kit::create_fs_from_bytestream(&bytes, *hint).map_err(|e| e.to_string())) {
                Ok(Ok(mut d2)) => class_of(&mut d2),
                Ok(Err(e)) => format!("not-recognised:{}", e),
                Err(p) => format!("panic:{}", panic_site(&p)),
            };
            ctx.out.oracle(got == want, "reload-same-file-system", "c06/ident/vtoc-lookalike",
                &format!("{} hint={} found={} expected={} (a file whose data passes dos3x::test_img_16 on track 17 sector 0)", tag, hint.unwrap_or("none"), got, want));
        }
        ctx.out.case(tag.as_bytes(), true);
        ctx.out.count("scenario:vtoc-lookalike");
        tie(ctx, &bytes, true);
    }
}
