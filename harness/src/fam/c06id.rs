//! harness family c06id: identification of the file system on a saved image (`try_img` chain of src/lib.rs) — stub
use crate::util::*;

pub fn run(ctx: &mut Ctx) { ctx.out.case(b"c06id-stub", false); }
