//! harness family c13: file packing encodings are exact inverse pairs.
//!
//! Every case runs the REAL a2kit packers in-process (under `guarded`), emits
//!  * `Q` lines: the same call evaluated by the Lean model (`a2drv`, `Drv/C13.lean`), byte for byte
//!    (chunks, eof, fs_type, aux, access after packing; unpacked bytes; load address), and
//!  * `O` lines: the property stated directly on the real code: `unpack(pack(x)) == x` (with the
//!    load address) or `pack` refused an unrepresentable input; a representable input must not be
//!    refused; nothing may panic.
//! Sections (case index ranges are fixed so that `--only idx` replays one case):
//!   bin/tok/raw packers, text, records, JSON, escapes.
use crate::util::*;
use a2kit::commands::ItemType;
use a2kit::fs::FileImage;

#[derive(Clone, Copy, PartialEq, Debug)]
pub enum Fs { Dos, Prodos, Pascal, Cpm, Fat }
pub const ALL_FS: [Fs; 5] = [Fs::Dos, Fs::Prodos, Fs::Pascal, Fs::Cpm, Fs::Fat];
impl Fs {
    pub fn name(&self) -> &'static str {
        match self { Fs::Dos => "dos", Fs::Prodos => "prodos", Fs::Pascal => "pascal", Fs::Cpm => "cpm", Fs::Fat => "fat" }
    }
    /// directory name used in failure signatures (the a2kit module name)
    pub fn module(&self) -> &'static str {
        match self { Fs::Dos => "dos3x", Fs::Prodos => "prodos", Fs::Pascal => "pascal", Fs::Cpm => "cpm", Fs::Fat => "fat" }
    }
}

pub fn new_fimg(fs: Fs, chunk_len: usize) -> FileImage {
    match fs {
        Fs::Dos => a2kit::fs::dos3x::new_fimg(chunk_len, "TEST").expect("new_fimg"),
        Fs::Prodos => a2kit::fs::prodos::new_fimg(chunk_len, false, "TEST").expect("new_fimg"),
        Fs::Pascal => a2kit::fs::pascal::new_fimg(chunk_len, false, "TEST").expect("new_fimg"),
        Fs::Cpm => a2kit::fs::cpm::new_fimg(chunk_len, false, "TEST.TXT").expect("new_fimg"),
        Fs::Fat => a2kit::fs::fat::new_fimg(chunk_len, false, "TEST.TXT").expect("new_fimg"),
    }
}

/// data given either literally (hex) or as a pattern `@len,a,b` (byte i = (a*i+b) mod 256) so
/// that 64 KiB inputs do not have to travel through the protocol
#[derive(Clone)]
pub struct Data { pub spec: String, pub bytes: Vec<u8> }
impl Data {
    pub fn lit(b: Vec<u8>) -> Data { Data { spec: hx(&b), bytes: b } }
    pub fn pat(len: usize, a: usize, b: usize) -> Data {
        Data { spec: format!("@{},{},{}", len, a, b), bytes: (0..len).map(|i| ((a * i + b) % 256) as u8).collect() }
    }
    pub fn gen(rng: &mut Rng, len: usize) -> Data {
        if len <= 600 { Data::lit(rng.bytes(len)) } else { let a = rng.range(1, 255); let b = rng.below(256); Data::pat(len, a, b) }
    }
}

/// panic site as a stable key: path from `src/` on, without the line number
pub fn site(p: &str) -> String {
    let s = p.split(" [").next().unwrap_or(p);
    let s = match s.find("src/") { Some(i) => &s[i..], None => s };
    s.split(':').next().unwrap_or(s).to_string()
}

pub fn digest(b: &[u8]) -> String {
    if b.len() <= 24 { format!("{}:{}", b.len(), hx(b)) } else { format!("{}:#{:016X}", b.len(), fnv(b)) }
}

/// canonical rendering of the fields a packer may touch; chunks in key order
pub fn img_digest(f: &FileImage) -> String {
    let mut keys: Vec<usize> = f.chunks.keys().cloned().collect();
    keys.sort_unstable();
    let mut canon: Vec<u8> = Vec::new();
    for k in &keys {
        let c = &f.chunks[k];
        canon.extend_from_slice(&(*k as u64).to_le_bytes());
        canon.extend_from_slice(&(c.len() as u64).to_le_bytes());
        canon.extend_from_slice(c);
    }
    format!("eof={} typ={} aux={} acc={} n={} ch={}", hx(&f.eof), hx(&f.fs_type), hx(&f.aux), hx(&f.access), keys.len(), digest(&canon))
}

pub fn init_spec(f: &FileImage) -> String {
    format!("{}/{}/{}/{}", hx(&f.eof), hx(&f.fs_type), hx(&f.aux), hx(&f.access))
}

fn res_bytes(r: Result<Result<Vec<u8>, Box<dyn std::error::Error>>, String>) -> (String, Option<Vec<u8>>, Option<String>) {
    match r {
        Err(p) => ("panic".to_string(), None, Some(p)),
        Ok(Err(_)) => ("err".to_string(), None, None),
        Ok(Ok(v)) => (format!("ok:{}", digest(&v)), Some(v), None),
    }
}

/// which behaviour the code under test exhibits for the two length fields that can wrap
/// (`w` = wraps silently, `c` = refuses); decided by probing the real code once
pub struct Variant { pub dos: char, pub prodos: char, pub deduce: char, pub pas: char }
impl Variant {
    pub fn probe() -> Variant {
        let zeros = vec![0u8; 65536];
        let mut f = new_fimg(Fs::Dos, 256);
        let dos = match guarded(|| f.pack_bin(&zeros, Some(0x300), None)) { Ok(Ok(())) => 'w', _ => 'c' };
        let zeros = vec![0u8; 1 << 24];
        let mut f = new_fimg(Fs::Prodos, 512);
        let prodos = match guarded(|| f.pack_bin(&zeros, Some(0x300), None)) { Ok(Ok(())) => 'w', _ => 'c' };
        let mut f = new_fimg(Fs::Prodos, 512);
        let deduce = match guarded(|| f.pack_tok(&[], ItemType::ApplesoftTokens, None)) { Err(_) => 'p', _ => 't' };
        // Pascal text decoder: a DLE followed by a count below 32 (`p` = panics, `s` = saturates)
        let pas = {
            use a2kit::fs::TextConversion;
            match guarded(|| a2kit::fs::pascal::types::TextConverter::new(vec![]).to_utf8(&[0x10, 5, 0x41])) { Err(_) => 'p', _ => 's' }
        };
        Variant { dos, prodos, deduce, pas }
    }
    pub fn spec(&self) -> String { format!("{}{}{}{}", self.dos, self.prodos, self.deduce, self.pas) }
}

const CHUNKS: [usize; 8] = [1, 2, 3, 7, 128, 256, 512, 1024];

fn pick_len(rng: &mut Rng, chunk: usize, sel: usize) -> usize {
    match sel % 12 {
        0 => 0,
        1 => 1,
        2 => rng.range(2, 5),
        3 => chunk.saturating_sub(1),
        4 => chunk,
        5 => chunk + 1,
        6 => 2 * chunk + rng.below(3) - 1,
        7 => 65530 + rng.below(10),          // around 64 KiB - header
        8 => 65536 + rng.below(3) - 1,       // 64 KiB ± 1
        9 => { let k = rng.below(3); [65534usize, 65538, 70000][k] }
        10 => rng.range(6, 600),
        _ => rng.range(600, 5000),
    }
}

fn pick_addr(rng: &mut Rng, sel: usize) -> Option<usize> {
    match sel % 9 {
        0 => Some(0),
        1 => Some(0xFFFF),
        2 => Some(0x10000),
        3 => None,
        4 => Some(0x801),
        5 => Some(0x10001 + rng.below(1 << 20)),
        6 => Some(usize::MAX - rng.below(3)),
        _ => Some(rng.below(0x10000)),
    }
}

fn addr_spec(a: Option<usize>) -> String { match a { Some(v) => v.to_string(), None => "none".to_string() } }

/// a token stream that looks like a tokenized Applesoft program loaded at `base`:
/// lines `link(2) lineno(2) tokens.. 00`, end marker 00 00
fn gen_tokens(rng: &mut Rng, base: usize, lines: usize) -> Vec<u8> {
    let mut out: Vec<u8> = Vec::new();
    let mut addr = base;
    for l in 0..lines {
        let n = rng.range(1, 12);
        let next = addr + 4 + n + 1;
        out.extend_from_slice(&((next & 0xffff) as u16).to_le_bytes());
        out.extend_from_slice(&(((l + 1) * 10) as u16).to_le_bytes());
        for _ in 0..n { out.push(rng.range(1, 255) as u8); }
        out.push(0);
        addr = next;
    }
    out.extend_from_slice(&[0, 0]);
    out
}

// ------------------------------------------------------------------------------------------------
// section A: bin / tok / raw
// ------------------------------------------------------------------------------------------------

fn case_bin(ctx: &mut Ctx, idx: usize, rng: &mut Rng, var: &Variant, fs: Fs, sel: usize) {
    let chunk = CHUNKS[(sel / 7) % CHUNKS.len()];
    let len = pick_len(rng, chunk, sel);
    let data = Data::gen(rng, len);
    let addr = pick_addr(rng, sel / 3 + sel);
    let trailing: Vec<u8> = if sel % 5 == 4 { let n = rng.range(1, 9); rng.bytes(n) } else { vec![] };
    let mut f = new_fimg(fs, chunk);
    let init = init_spec(&f);
    let req = format!("c13 bin {} {} {} {} {} {} {}", fs.name(), var.spec(), chunk, init, data.spec, addr_spec(addr), hx(&trailing));
    let tr = if trailing.is_empty() { None } else { Some(trailing.as_slice()) };
    let packed = guarded(|| f.pack_bin(&data.bytes, addr, tr));
    let case = format!("idx={} bin fs={} chunk={} len={} addr={} trailing={} data={}", idx, fs.name(), chunk, len, addr_spec(addr), trailing.len(), data.spec.chars().take(80).collect::<String>());
    ctx.out.count(&format!("bin:{}", fs.name()));
    // what the property demands, stated independently of the model
    let addr_ok = match addr { Some(a) => a < 0x10000, None => false };
    let representable = match fs {
        Fs::Dos => addr_ok && len < 0x10000,
        Fs::Prodos => addr_ok && len + trailing.len() < (1 << 24),
        _ => true,
    };
    let expect: Vec<u8> = match fs { Fs::Dos => data.bytes.clone(), _ => [data.bytes.clone(), trailing.clone()].concat() };
    let ans;
    match packed {
        Err(p) => {
            ans = "panic".to_string();
            ctx.out.oracle(false, "pack_bin-does-not-panic", &format!("panic:{}", site(&p)), &case);
        }
        Ok(Err(_)) => {
            ans = "err".to_string();
            ctx.out.count("bin:refused");
            ctx.out.oracle(!representable, "pack_bin-accepts-representable", &format!("{}/pack_bin/refused-representable", fs.module()), &case);
        }
        Ok(Ok(())) => {
            let la = guarded(|| f.get_load_address());
            let (un_s, un, un_p) = res_bytes(guarded(|| f.unpack_bin()));
            ans = format!("ok {} la={} un={}", img_digest(&f), match &la { Ok(v) => v.to_string(), Err(_) => "panic".to_string() }, un_s);
            if let Some(p) = un_p { ctx.out.oracle(false, "unpack_bin-does-not-panic", &format!("panic:{}", site(&p)), &case); }
            let same = un.as_ref() == Some(&expect);
            let sig = if !representable && fs == Fs::Dos { "dos3x/pack_bin/length-wraps-u16".to_string() }
                else if !representable && fs == Fs::Prodos && addr_ok { "prodos/pack_bin/eof-wraps-24bit".to_string() }
                else { format!("{}/pack_bin/roundtrip-differs", fs.module()) };
            ctx.out.oracle(same, "unpack_bin(pack_bin(x))==x", &sig, &case);
            if matches!(fs, Fs::Dos | Fs::Prodos) && chunk >= 3 {
                let la_ok = match (&la, addr) { (Ok(v), Some(a)) => *v as usize == a, _ => false };
                ctx.out.oracle(la_ok, "load-address-recovered", &format!("{}/pack_bin/load-address-lost", fs.module()), &case);
            }
        }
    }
    ctx.out.q(&req, &ans);
    ctx.out.case(req.as_bytes(), len > 0);
    ctx.out.sample(&case);
}

fn case_tok(ctx: &mut Ctx, idx: usize, rng: &mut Rng, var: &Variant, fs: Fs, sel: usize) {
    let chunk = CHUNKS[(sel / 5) % CHUNKS.len()];
    let lang_sel = sel % 3;
    let (lang, lang_s) = match lang_sel { 0 => (ItemType::ApplesoftTokens, "a"), 1 => (ItemType::IntegerTokens, "i"), _ => (ItemType::MerlinTokens, "o") };
    // well-formed programs, arbitrary bytes, and long streams
    let shape = (sel / 3) % 6;
    let data = match shape {
        0 => { let n = rng.range(1, 6); Data::lit(gen_tokens(rng, 0x801, n)) }
        1 => { let b = rng.range(0x100, 0xF000); let n = rng.range(0, 3); Data::lit(gen_tokens(rng, b, n)) }
        2 => { let n = rng.below(12); Data::lit(rng.bytes(n)) }
        3 => { let s3 = 7 + rng.below(3); let l = pick_len(rng, chunk, s3); let a = rng.range(1, 255); let b = rng.range(1, 255); Data::pat(l, a, b) }
        4 => { let l = rng.range(0, 8); let b = rng.range(1, 255) as u8; Data::lit(vec![b; l]) }
        _ => { let n = rng.range(20, 200); let mut t = gen_tokens(rng, 0x801, n); let k = rng.range(5, t.len()); t.truncate(k); Data::lit(t) }
    };
    let len = data.bytes.len();
    let trailing: Vec<u8> = if sel % 7 == 6 { let n = rng.range(1, 5); rng.bytes(n) } else { vec![] };
    let mut f = new_fimg(fs, chunk);
    let init = init_spec(&f);
    let req = format!("c13 tok {} {} {} {} {} {} {}", fs.name(), var.spec(), chunk, init, data.spec, lang_s, hx(&trailing));
    let tr = if trailing.is_empty() { None } else { Some(trailing.as_slice()) };
    let packed = guarded(|| f.pack_tok(&data.bytes, lang, tr));
    let case = format!("idx={} tok fs={} chunk={} len={} lang={} trailing={} data={}", idx, fs.name(), chunk, len, lang_s, trailing.len(), data.spec.chars().take(80).collect::<String>());
    ctx.out.count(&format!("tok:{}", fs.name()));
    let supported = matches!(fs, Fs::Dos | Fs::Prodos) && lang_sel < 2;
    let representable = supported && match fs { Fs::Dos => len < 0x10000, _ => len + trailing.len() < (1 << 24) };
    let expect: Vec<u8> = match fs { Fs::Dos => data.bytes.clone(), _ => [data.bytes.clone(), trailing.clone()].concat() };
    let ans;
    match packed {
        Err(p) => {
            ans = "panic".to_string();
            // ProDOS/Applesoft computes the load address from the token stream with unchecked indexing
            let sig = if site(&p).starts_with("src/lang/applesoft/mod.rs") { "prodos/pack_tok/deduce_address-panics".to_string() } else { format!("panic:{}", site(&p)) };
            ctx.out.oracle(false, "pack_tok-does-not-panic", &sig, &case);
        }
        Ok(Err(_)) => {
            ans = "err".to_string();
            ctx.out.count("tok:refused");
            ctx.out.oracle(!representable, "pack_tok-accepts-representable", &format!("{}/pack_tok/refused-representable", fs.module()), &case);
        }
        Ok(Ok(())) => {
            let (un_s, un, un_p) = res_bytes(guarded(|| f.unpack_tok()));
            ans = format!("ok {} un={}", img_digest(&f), un_s);
            if let Some(p) = un_p { ctx.out.oracle(false, "unpack_tok-does-not-panic", &format!("panic:{}", site(&p)), &case); }
            let same = un.as_ref() == Some(&expect);
            let sig = if !representable && fs == Fs::Dos { "dos3x/pack_tok/length-wraps-u16".to_string() }
                else { format!("{}/pack_tok/roundtrip-differs", fs.module()) };
            ctx.out.oracle(same, "unpack_tok(pack_tok(x))==x", &sig, &case);
        }
    }
    ctx.out.q(&req, &ans);
    ctx.out.case(req.as_bytes(), len > 0 && supported);
    ctx.out.sample(&case);
}

fn case_raw(ctx: &mut Ctx, idx: usize, rng: &mut Rng, var: &Variant, fs: Fs, sel: usize) {
    let chunk = CHUNKS[(sel / 3) % CHUNKS.len()];
    let len = pick_len(rng, chunk, sel);
    let data = Data::gen(rng, len);
    let trunc = sel % 2 == 0;
    let mut f = new_fimg(fs, chunk);
    let init = init_spec(&f);
    let req = format!("c13 raw {} {} {} {} {} {}", fs.name(), var.spec(), chunk, init, data.spec, if trunc { 1 } else { 0 });
    let packed = guarded(|| f.pack_raw(&data.bytes));
    let case = format!("idx={} raw fs={} chunk={} len={} trunc={} data={}", idx, fs.name(), chunk, len, trunc, data.spec.chars().take(80).collect::<String>());
    ctx.out.count(&format!("raw:{}", fs.name()));
    let ans;
    match packed {
        Err(p) => {
            ans = "panic".to_string();
            ctx.out.oracle(false, "pack_raw-does-not-panic", &format!("panic:{}", site(&p)), &case);
        }
        Ok(Err(_)) => {
            ans = "err".to_string();
            ctx.out.oracle(false, "pack_raw-accepts-representable", &format!("{}/pack_raw/refused-representable", fs.module()), &case);
        }
        Ok(Ok(())) => {
            let (un_s, un, un_p) = res_bytes(guarded(|| f.unpack_raw(trunc)));
            let seq = f.sequence();
            ans = format!("ok {} un={} seq={}", img_digest(&f), un_s, digest(&seq));
            if let Some(p) = un_p { ctx.out.oracle(false, "unpack_raw-does-not-panic", &format!("panic:{}", site(&p)), &case); }
            ctx.out.oracle(un.as_ref() == Some(&data.bytes), "unpack_raw(pack_raw(x))==x", &format!("{}/pack_raw/roundtrip-differs", fs.module()), &case);
            ctx.out.oracle(seq == data.bytes, "sequence(desequence(x))==x", "fimg/sequence-desequence-differs", &case);
        }
    }
    ctx.out.q(&req, &ans);
    ctx.out.case(req.as_bytes(), len > 0);
    ctx.out.sample(&case);
}

/// the 16 MiB ProDOS boundary (oracle only: such inputs are not sent through the line protocol)
fn case_prodos_16m(ctx: &mut Ctx, idx: usize, which: usize) {
    let len: usize = (1 << 24) - 1 + which;       // 2^24-1 (largest ProDOS file), 2^24
    let data: Vec<u8> = (0..len).map(|i| (i % 251) as u8).collect();
    let mut f = new_fimg(Fs::Prodos, 512);
    let case = format!("idx={} bin fs=prodos chunk=512 len={} addr=8192 data=i%251", idx, len);
    let representable = len < (1 << 24);
    match guarded(|| f.pack_bin(&data, Some(0x2000), None)) {
        Err(p) => ctx.out.oracle(false, "pack_bin-does-not-panic", &format!("panic:{}", site(&p)), &case),
        Ok(Err(_)) => ctx.out.oracle(!representable, "pack_bin-accepts-representable", "prodos/pack_bin/refused-representable", &case),
        Ok(Ok(())) => {
            let un = guarded(|| f.unpack_bin());
            let same = match un { Ok(Ok(v)) => v == data, _ => false };
            ctx.out.oracle(same, "unpack_bin(pack_bin(x))==x", if representable { "prodos/pack_bin/roundtrip-differs" } else { "prodos/pack_bin/eof-wraps-24bit" }, &case);
        }
    }
    ctx.out.count("bin:prodos-16MiB");
    ctx.out.case(case.as_bytes(), true);
}

// ------------------------------------------------------------------------------------------------
// section B: text
// ------------------------------------------------------------------------------------------------

fn printable_line(rng: &mut Rng, len: usize, indent: usize) -> String {
    let mut s = String::new();
    for _ in 0..indent { s.push(' '); }
    for k in 0..len {
        // mostly letters, some blanks and punctuation; the first character after the indent is not a blank
        let c = match rng.below(10) { 0 if k > 0 => b' ', 1 => rng.range(0x21, 0x2f) as u8, 2 => rng.range(0x5b, 0x7e) as u8, _ => rng.range(0x41, 0x5a) as u8 };
        s.push(c as char);
    }
    s
}

/// (text, in_domain): in_domain = non-empty, printable-ASCII lines each ending in `\n`
fn gen_text(rng: &mut Rng, sel: usize) -> (String, bool, &'static str) {
    let mut t = String::new();
    match sel % 16 {
        0..=4 => { // ordinary program-like text
            let n = rng.range(1, 40);
            for _ in 0..n { let l = rng.below(60); let ind = if rng.chance(40) { rng.below(12) } else { 0 }; t += &printable_line(rng, l, ind); t.push('\n'); }
            (t, true, "lines")
        }
        5 => { // several pages of Pascal text, lines that straddle the 1 KiB boundary
            let n = rng.range(30, 160);
            for _ in 0..n { let l = rng.range(20, 90); let ind = rng.below(6); t += &printable_line(rng, l, ind); t.push('\n'); }
            (t, true, "pages")
        }
        6 => { // long lines around the page size
            let n = rng.range(1, 4);
            for _ in 0..n { let l = rng.range(1000, 1030); t += &printable_line(rng, l, 0); t.push('\n'); let l2 = rng.below(30); t += &printable_line(rng, l2, 0); t.push('\n'); }
            (t, true, "long-lines")
        }
        7 => { // deep indents around the 223 cap, blank-only lines, empty lines
            let n = rng.range(1, 8);
            for _ in 0..n {
                match rng.below(4) {
                    0 => { let ind = rng.range(220, 230); let l = rng.below(5); t += &printable_line(rng, l, ind); }
                    1 => { let ind = rng.range(1, 40); t += &printable_line(rng, 0, ind); }
                    2 => {}
                    _ => { let l = rng.range(1, 20); let ind = rng.range(1, 3); t += &printable_line(rng, l, ind); }
                }
                t.push('\n');
            }
            (t, true, "indents")
        }
        8 => { // exactly page-filling line lengths
            let n = rng.range(8, 40);
            for _ in 0..n { let l = [15usize, 31, 63, 127, 255, 61, 125][rng.below(7)]; t += &printable_line(rng, l, 0); t.push('\n'); }
            (t, true, "page-fit")
        }
        9 => { let n = rng.range(1, 5); for _ in 0..n { let l = rng.below(30); t += &printable_line(rng, l, 0); t.push('\n'); } let l = rng.range(1, 20); t += &printable_line(rng, l, 0); (t, false, "no-final-newline") }
        10 => { let n = rng.range(1, 6); for _ in 0..n { let l = rng.below(30); let ind = rng.below(4); t += &printable_line(rng, l, ind); t += "\r\n"; } (t, false, "crlf") }
        11 => { // non-ASCII at assorted places
            let n = rng.range(1, 5);
            let at = rng.below(n);
            for k in 0..n {
                if k == at { match rng.below(4) { 0 => { t += "\u{e9}abc"; } 1 => { t += "  \u{e9}"; } 2 => { t += "ab\u{1F600}cd"; } _ => { t += "x\u{a0}"; } } }
                else { let l = rng.below(20); t += &printable_line(rng, l, 0); }
                t.push('\n');
            }
            (t, false, "non-ascii")
        }
        12 => { // control characters, NUL, ^Z, DLE, DEL, lone CR, tabs
            let n = rng.range(1, 5);
            for _ in 0..n { let l = rng.below(10); t += &printable_line(rng, l, 0); t.push([0x00u8, 0x09, 0x0d, 0x10, 0x1a, 0x7f, 0x1f, 0x0c][rng.below(8)] as char); let l = rng.below(10); t += &printable_line(rng, l, 0); t.push('\n'); }
            (t, false, "control")
        }
        13 => { let n = rng.below(3); for _ in 0..n { t += "AB\n"; } let k = rng.range(1, 6); for _ in 0..k { t.push(' '); } (t, false, "trailing-blanks") }
        14 => (String::new(), false, "empty"),
        _ => { let n = rng.range(1, 3); for _ in 0..n { t.push('\n'); } (t, true, "newlines-only") }
    }
}

fn case_txt(ctx: &mut Ctx, idx: usize, rng: &mut Rng, var: &Variant, fs: Fs, sel: usize) {
    let chunk = [128usize, 256, 512, 1024, 100][(sel / 16) % 5];
    let (text, in_domain, shape) = gen_text(rng, sel);
    let mut f = new_fimg(fs, chunk);
    let init = init_spec(&f);
    let req = format!("c13 txt {} {} {} {} {}", fs.name(), var.spec(), chunk, init, hx(text.as_bytes()));
    let packed = guarded(|| f.pack_txt(&text));
    let show: String = text.chars().take(60).collect::<String>().escape_default().to_string();
    let case = format!("idx={} txt fs={} chunk={} shape={} len={} text={}", idx, fs.name(), chunk, shape, text.len(), show);
    ctx.out.count(&format!("txt:{}", fs.name()));
    ctx.out.count(&format!("txt-shape:{}", shape));
    let non_ascii = !text.is_ascii();
    // Pascal cannot store a line that does not fit a 1 KiB page
    let pascal_too_long = fs == Fs::Pascal && text.split('\n').any(|l| l.len() + 4 > 1024);
    let ans;
    match packed {
        Err(p) => {
            ans = "panic".to_string();
            ctx.out.oracle(false, "pack_txt-does-not-panic", &format!("panic:{}", site(&p)), &case);
        }
        Ok(Err(_)) => {
            ans = "err".to_string();
            ctx.out.count("txt:refused");
            let acceptable = !in_domain || pascal_too_long;
            ctx.out.oracle(acceptable, "pack_txt-accepts-representable", &format!("{}/pack_txt/refused-representable", fs.module()), &case);
        }
        Ok(Ok(())) => {
            let un = guarded(|| f.unpack_txt());
            let (un_s, un_v) = match un {
                Err(p) => { ctx.out.oracle(false, "unpack_txt-does-not-panic", &format!("panic:{}", site(&p)), &case); ("panic".to_string(), None) }
                Ok(Err(_)) => ("err".to_string(), None),
                Ok(Ok(s)) => (format!("ok:{}", digest(s.as_bytes())), Some(s)),
            };
            ans = format!("ok {} un={}", img_digest(&f), un_s);
            if non_ascii {
                ctx.out.oracle(false, "pack_txt-refuses-non-ascii", &format!("{}/pack_txt/non-ascii-accepted", fs.module()), &case);
            }
            if in_domain {
                ctx.out.oracle(un_v.as_deref() == Some(text.as_str()), "unpack_txt(pack_txt(t))==t", &format!("{}/pack_txt/roundtrip-differs", fs.module()), &case);
            }
        }
    }
    ctx.out.q(&req, &ans);
    ctx.out.case(req.as_bytes(), in_domain && !text.is_empty());
    ctx.out.sample(&case);
}

/// the converters themselves (they are also used with other terminators by the record code) and
/// the decoders on arbitrary bytes
fn case_conv(ctx: &mut Ctx, idx: usize, rng: &mut Rng, var: &Variant, fs: Fs, sel: usize) {
    use a2kit::fs::TextConversion;
    let term: Vec<u8> = match (fs, sel % 3) { (_, 0) => vec![], (Fs::Dos, _) => vec![0x8d], (Fs::Cpm, 1) | (Fs::Fat, 1) => vec![0x0d, 0x0a], _ => vec![0x0d] };
    let (text, _, _) = gen_text(rng, sel / 3);
    let text: String = text.chars().take(400).collect();
    let enc = |t: &str| -> Result<Option<Vec<u8>>, String> {
        match fs {
            Fs::Dos => guarded(|| a2kit::fs::dos3x::types::TextConverter::new(term.clone()).from_utf8(t)),
            Fs::Prodos => guarded(|| a2kit::fs::prodos::types::TextConverter::new(term.clone()).from_utf8(t)),
            Fs::Pascal => guarded(|| a2kit::fs::pascal::types::TextConverter::new(term.clone()).from_utf8(t)),
            _ => guarded(|| a2kit::fs::cpm::types::TextConverter::new(term.clone()).from_utf8(t)),
        }
    };
    let a = match enc(&text) { Err(_) => "panic".to_string(), Ok(None) => "err".to_string(), Ok(Some(v)) => format!("ok:{}", digest(&v)) };
    ctx.out.q(&format!("c13 conv {} {} {}", fs.name(), hx(&term), hx(text.as_bytes())), &a);
    // decoder on arbitrary bytes
    let n = rng.below(40);
    let src: Vec<u8> = (0..n).map(|_| match rng.below(6) { 0 => 0x10, 1 => 0x0d, 2 => rng.byte(), 3 => 0x8d, 4 => rng.range(0, 0x30) as u8, _ => rng.range(0x20, 0x7e) as u8 }).collect();
    let dec = match fs {
        Fs::Dos => guarded(|| a2kit::fs::dos3x::types::TextConverter::new(vec![]).to_utf8(&src)),
        Fs::Prodos => guarded(|| a2kit::fs::prodos::types::TextConverter::new(vec![]).to_utf8(&src)),
        Fs::Pascal => guarded(|| a2kit::fs::pascal::types::TextConverter::new(vec![]).to_utf8(&src)),
        _ => guarded(|| a2kit::fs::cpm::types::TextConverter::new(vec![]).to_utf8(&src)),
    };
    let d = match dec { Err(_) => "panic".to_string(), Ok(None) => "err".to_string(), Ok(Some(s)) => format!("ok:{}", digest(s.as_bytes())) };
    ctx.out.q(&format!("c13 toutf8 {} {} {}", fs.name(), hx(&src), var.pas), &d);
    ctx.out.count("conv");
    ctx.out.case(format!("{} {} {}", idx, hx(text.as_bytes()), hx(&src)).as_bytes(), !text.is_empty());
}

// ------------------------------------------------------------------------------------------------
// section E: hex escapes
// ------------------------------------------------------------------------------------------------

fn case_esc(ctx: &mut Ctx, idx: usize, rng: &mut Rng, sel: usize) {
    let n = rng.below(24);
    let shape = sel % 6;
    let bytes: Vec<u8> = (0..n).map(|_| match shape {
        0 => rng.byte(),
        1 => rng.range(0xa0, 0xfe) as u8,                                 // negative printable (DOS names)
        2 => rng.range(0x20, 0x7e) as u8,
        3 => [0x5cu8, b'x', b'4', b'1', b'F', b'f', 0xdc, 0xf8][rng.below(8)],   // backslashes and hex digits
        4 => [0xdcu8, 0xf8, 0xb4, 0xb1, 0xc1, 0xe1][rng.below(6)],        // the same in negative ASCII
        _ => rng.range(0xc1, 0xda) as u8,                                 // negative upper case
    }).collect();
    // fixed seeds: a literal backslash-x-hex-hex in positive and in negative ASCII
    let bytes: Vec<u8> = match sel { 0 => vec![0x5c, b'x', b'4', b'1'], 1 => vec![0xc8, 0xdc, 0xf8, 0xb4, 0xb1], 2 => vec![0x5c], _ => bytes };
    let n = bytes.len();
    let case = format!("idx={} esc bytes={}", idx, hx(&bytes));
    // does the code under test escape a literal backslash?
    let esc_bs = a2kit::escaped_ascii_from_bytes(&vec![0x5c], true, false).len() > 1;
    ctx.out.count(if esc_bs { "variant:escape-backslash" } else { "variant:literal-backslash" });
    for (cc, inv) in [(true, true), (true, false), (false, false), (false, true)] {
        let e = guarded(|| a2kit::escaped_ascii_from_bytes(&bytes, cc, inv));
        let a = match &e { Ok(s) => digest(s.as_bytes()), Err(_) => "panic".to_string() };
        ctx.out.q(&format!("c13 esc {} {} {} {}", esc_bs as u8, cc as u8, inv as u8, hx(&bytes)), &a);
        if let Ok(s) = e {
            for caps in [true, false] {
                let back = guarded(|| a2kit::parse_escaped_ascii(&s, inv, caps));
                let b = match &back { Ok(v) => digest(v), Err(_) => "panic".to_string() };
                ctx.out.q(&format!("c13 unesc {} {} {}", inv as u8, caps as u8, hx(s.as_bytes())), &b);
                // the pair a2kit itself uses for DOS 3.x file names: escape(cc, inverted) / parse(inverted, caps)
                if cc && inv && caps {
                    let same = back.as_ref().ok() == Some(&bytes);
                    let lower = bytes.iter().any(|b| (0xe1..=0xfa).contains(b));
                    let lit = bytes.windows(4).any(|w| w[0] == 0xdc && w[1] == 0xf8 && ((w[2] & 0x7f) as char).is_ascii_hexdigit() && ((w[3] & 0x7f) as char).is_ascii_hexdigit() && w[2] >= 0xa0 && w[3] >= 0xa0);
                    let sig = if lit { "escape/literal-backslash-x-not-escaped" } else if lower { "escape/dos-name-lower-case-folded" } else { "escape/roundtrip-differs" };
                    // lower-case folding is what `caps` asks for; it is reported in the distribution, not as a failure
                    if lower { ctx.out.count("esc:lower-case-folded"); } else { ctx.out.oracle(same, "parse_escaped(escape(b))==b", sig, &case); }
                }
                if cc && !inv && !caps {
                    let same = back.as_ref().ok() == Some(&bytes);
                    let lit = bytes.windows(4).any(|w| w[0] == 0x5c && w[1] == b'x' && (w[2] as char).is_ascii_hexdigit() && (w[3] as char).is_ascii_hexdigit());
                    ctx.out.oracle(same, "parse_escaped(escape(b))==b", if lit { "escape/literal-backslash-x-not-escaped" } else { "escape/roundtrip-differs" }, &case);
                }
            }
        }
    }
    // parse on arbitrary ASCII strings
    let m = rng.below(20);
    let s: String = (0..m).map(|_| [b'\\', b'x', b'X', b'4', b'a', b'F', b'g', b' ', b'z', b'\\'][rng.below(10)] as char).collect();
    for (inv, caps) in [(true, true), (false, false), (true, false), (false, true)] {
        let back = guarded(|| a2kit::parse_escaped_ascii(&s, inv, caps));
        let b = match &back { Ok(v) => digest(v), Err(_) => "panic".to_string() };
        ctx.out.q(&format!("c13 unesc {} {} {}", inv as u8, caps as u8, hx(s.as_bytes())), &b);
    }
    ctx.out.count("esc");
    ctx.out.case(case.as_bytes(), n > 0);
    ctx.out.sample(&case);
}

// ------------------------------------------------------------------------------------------------
// section C: random-access records
// ------------------------------------------------------------------------------------------------

fn render_recs(m: &std::collections::HashMap<usize, String>) -> String {
    let mut keys: Vec<usize> = m.keys().cloned().collect();
    keys.sort_unstable();
    if keys.is_empty() { return "-".to_string(); }
    keys.iter().map(|k| format!("{}:{}", k, digest(m[k].as_bytes()))).collect::<Vec<String>>().join(",")
}

/// printable text of exactly `len` bytes, made of lines, ending in a newline
fn record_text(rng: &mut Rng, len: usize) -> String {
    let mut s = String::new();
    for k in 0..len {
        if k + 1 == len || (k > 0 && rng.chance(8)) { s.push('\n'); } else { s.push(rng.range(0x21, 0x7e) as u8 as char); }
    }
    s
}

/// `s` = from_fimg wants every chunk a record could touch (HEAD), `z` = holes read as zeros (repaired)
fn rec_variant() -> char {
    let mut recs = a2kit::fs::Records::new(128);
    recs.add_record(1, "A\n");
    let mut f = new_fimg(Fs::Dos, 256);
    let _ = f.pack_rec(&recs);
    match f.unpack_rec(Some(128)) { Ok(r) if r.map.get(&1).map(|s| s.as_str()) == Some("A\n") => 'z', _ => 's' }
}

fn case_rec(ctx: &mut Ctx, idx: usize, rng: &mut Rng, fs: Fs, sel: usize) {
    let chunk = match fs { Fs::Dos => [256usize, 256, 128, 100][sel % 4], _ => [512usize, 512, 256, 1024][sel % 4] };
    let rec_len = [2usize, 3, 5, 17, 64, 127, 128, 129, 255, 256, 257, 300, 512, 40][(sel / 4) % 14];
    let n = rng.range(1, 5);
    let overlong = sel % 11 == 10;     // one record longer than the record length (documented to corrupt neighbours)
    let mut recs = a2kit::fs::Records::new(rec_len);
    let mut stored: Vec<(usize, String)> = Vec::new();
    for _ in 0..(if overlong { 1 } else { n }) {
        // record numbers whose bytes straddle / touch a chunk boundary, or small ones
        let num = match rng.below(4) {
            0 => rng.below(8),
            _ => { let c = rng.range(1, 6) * chunk; (c / rec_len + rng.below(3)).saturating_sub(1) }
        };
        if stored.iter().any(|(k, _)| *k == num) { continue; }
        let len = if overlong { rec_len + rng.range(1, 3) } else { match rng.below(4) { 0 => rec_len, 1 => 1, _ => rng.range(1, rec_len) } };
        let text = record_text(rng, len);
        recs.add_record(num, &text);
        stored.push((num, text));
    }
    stored.sort();
    let mut f = new_fimg(fs, chunk);
    let init = init_spec(&f);
    let un_len: Option<usize> = if fs == Fs::Prodos && sel % 3 == 0 { None } else { Some(rec_len) };
    let spec = stored.iter().map(|(k, t)| format!("{}:{}", k, hx(t.as_bytes()))).collect::<Vec<String>>().join(",");
    let req = format!("c13 rec {} {} {} {} {} {} {}", rec_variant(), fs.name(), chunk, init, rec_len, spec, addr_spec(un_len));
    let case = format!("idx={} rec fs={} chunk={} rec_len={} records={}", idx, fs.name(), chunk, rec_len,
        stored.iter().map(|(k, t)| format!("{}:{}", k, t.len())).collect::<Vec<String>>().join(","));
    ctx.out.count(&format!("rec:{}", fs.name()));
    let supported = matches!(fs, Fs::Dos | Fs::Prodos);
    let packed = guarded(|| f.pack_rec(&recs));
    let ans;
    match packed {
        Err(p) => { ans = "panic".to_string(); ctx.out.oracle(false, "pack_rec-does-not-panic", &format!("panic:{}", site(&p)), &case); }
        Ok(Err(_)) => { ans = "err".to_string(); ctx.out.oracle(!supported, "pack_rec-accepts-representable", &format!("{}/pack_rec/refused-representable", fs.module()), &case); }
        Ok(Ok(())) => {
            let un = guarded(|| f.unpack_rec(un_len));
            let un_s = match &un {
                Err(p) => { ctx.out.oracle(false, "unpack_rec-does-not-panic", &format!("panic:{}", site(p)), &case); "panic".to_string() }
                Ok(Err(_)) => "err".to_string(),
                Ok(Ok(r)) => format!("ok:{}", render_recs(&r.map)),
            };
            ans = format!("ok {} un={}", img_digest(&f), un_s);
            if !overlong {
                let all = match &un { Ok(Ok(r)) => stored.iter().all(|(k, t)| r.map.get(k) == Some(t)), _ => false };
                ctx.out.oracle(all, "unpack_rec(pack_rec(rs)) contains rs", &format!("{}/pack_rec/stored-record-not-returned", fs.module()), &case);
            }
        }
    }
    if !overlong || stored.len() == 1 { ctx.out.q(&req, &ans); }
    ctx.out.case(req.as_bytes(), supported && !overlong);
    ctx.out.sample(&case);
}

// ------------------------------------------------------------------------------------------------
// section D: JSON
// ------------------------------------------------------------------------------------------------

#[derive(Clone)]
enum T { Z, S(String), N(usize), A(Vec<T>), O(Vec<(String, T)>) }

fn t_render(t: &T) -> String {
    match t {
        T::Z => "z".to_string(),
        T::S(s) => format!("s{}", hx(s.as_bytes())),
        T::N(n) => format!("n{}", n),
        T::A(xs) => format!("a[{}]", xs.iter().map(t_render).collect::<Vec<String>>().join("|")),
        T::O(kvs) => format!("o{{{}}}", kvs.iter().map(|(k, v)| format!("{}={}", hx(k.as_bytes()), t_render(v))).collect::<Vec<String>>().join(",")),
    }
}
fn t_to_json(t: &T) -> json::JsonValue {
    match t {
        T::Z => json::JsonValue::Null,
        T::S(s) => json::JsonValue::String(s.clone()),
        T::N(n) => json::JsonValue::Number((*n).into()),
        T::A(xs) => json::JsonValue::Array(xs.iter().map(t_to_json).collect()),
        T::O(kvs) => { let mut o = json::JsonValue::new_object(); for (k, v) in kvs { o[k.as_str()] = t_to_json(v); } o }
    }
}
fn json_to_t(j: &json::JsonValue) -> T {
    if j.is_null() { T::Z }
    else if let Some(s) = j.as_str() { T::S(s.to_string()) }
    else if j.is_number() { T::N(j.as_usize().unwrap_or(usize::MAX)) }
    else if j.is_array() { T::A(j.members().map(json_to_t).collect()) }
    else if j.is_object() { T::O(j.entries().map(|(k, v)| (k.to_string(), json_to_t(v))).collect()) }
    else { T::Z }
}

fn full_digest(f: &FileImage) -> String {
    format!("ver={} fs={} cl={} {} accd={} cr={} md={} vs={} mv={} path={}", hx(f.fimg_version.as_bytes()), hx(f.file_system.as_bytes()), f.chunk_len,
        img_digest(f), hx(&f.accessed), hx(&f.created), hx(&f.modified), hx(&f.version), hx(&f.min_version), hx(f.full_path.as_bytes()))
}
fn fimg_eq(a: &FileImage, b: &FileImage) -> bool {
    a.fimg_version == b.fimg_version && a.file_system == b.file_system && a.chunk_len == b.chunk_len && a.eof == b.eof && a.fs_type == b.fs_type
        && a.aux == b.aux && a.access == b.access && a.accessed == b.accessed && a.created == b.created && a.modified == b.modified
        && a.version == b.version && a.min_version == b.min_version && a.full_path == b.full_path && a.chunks == b.chunks
}

fn gen_fimg(rng: &mut Rng, sel: usize) -> FileImage {
    let fs = ALL_FS[sel % 5];
    let mut f = new_fimg(fs, [128usize, 256, 512, 1024, 7][rng.below(5)]);
    // contents: packed data, or a sparse chunk map
    match (sel / 5) % 4 {
        0 => { let n = rng.below(700); let d = rng.bytes(n); let _ = f.pack_raw(&d); }
        1 => { let _ = f.pack_txt("10 PRINT \"HELLO\"\n20 END\n"); }
        2 => { // sparse, keys that sort differently as strings ("10" < "9")
            let n = rng.range(1, 6);
            for _ in 0..n { let k = [0usize, 1, 2, 9, 10, 11, 99, 100, 255, 256, 65535, 65536, 1 << 20][rng.below(13)]; let l = rng.below(20); f.chunks.insert(k, rng.bytes(l)); }
            f.eof = { let n = f.eof.len(); rng.bytes(n) };
        }
        _ => {}
    }
    match rng.below(8) { 0 => f.fimg_version = "2.0.0".to_string(), 1 => f.fimg_version = "2.1.5".to_string(), 2 => f.fimg_version = "3.0.0".to_string(), 3 => f.fimg_version = "10.2.33".to_string(), _ => {} }
    if f.fimg_version == "2.0.0" && rng.chance(70) { f.accessed = vec![]; f.full_path = String::new(); }
    else if rng.chance(30) { f.full_path = ["A\"B", "DIR/SUB\\X", "caf\u{e9}", "T\tAB", "", "x y"][rng.below(6)].to_string(); }
    if rng.chance(30) { let l = rng.below(5); f.created = rng.bytes(l); let l = rng.below(5); f.aux = rng.bytes(l); }
    f
}

fn fimg_to_t(f: &FileImage) -> T {
    let mut keys: Vec<usize> = f.chunks.keys().cloned().collect();
    keys.sort_unstable();
    let h = |b: &Vec<u8>| T::S(hex::encode_upper(b));
    T::O(vec![
        ("fimg_version".to_string(), T::S(f.fimg_version.clone())), ("file_system".to_string(), T::S(f.file_system.clone())),
        ("chunk_len".to_string(), T::N(f.chunk_len)), ("eof".to_string(), h(&f.eof)), ("fs_type".to_string(), h(&f.fs_type)),
        ("aux".to_string(), h(&f.aux)), ("access".to_string(), h(&f.access)), ("accessed".to_string(), h(&f.accessed)),
        ("created".to_string(), h(&f.created)), ("modified".to_string(), h(&f.modified)), ("version".to_string(), h(&f.version)),
        ("min_version".to_string(), h(&f.min_version)), ("full_path".to_string(), T::S(f.full_path.clone())),
        ("chunks".to_string(), T::O(keys.iter().map(|k| (k.to_string(), T::S(hex::encode_upper(&f.chunks[k])))).collect())),
    ])
}

fn mutate_tree(rng: &mut Rng, t: &mut T, sel: usize) -> &'static str {
    let T::O(kvs) = t else { return "none" };
    match sel % 14 {
        0 | 1 => "none",
        12 => { let v = [0usize, 1, 0x10000, 0x10001, 70000][rng.below(5)]; kvs[2].1 = T::N(v); "chunk-len-range" }
        13 => { if let T::O(cs) = &mut kvs[13].1 { let k = [0xffffffusize, 0x1000000, 0xfffffe][rng.below(3)]; cs.push((k.to_string(), T::S("00".to_string()))); } "chunk-index-range" }
        2 => { let p = rng.below(kvs.len()); kvs.remove(p); "drop-field" }
        3 => { let p = rng.below(kvs.len()); kvs[p].1 = T::N(7); "field-number" }
        4 => { let p = rng.range(3, 11); if let T::S(s) = &mut kvs[p].1 { s.push('A'); } "hex-odd" }
        5 => { let p = rng.range(3, 11); if let T::S(s) = &mut kvs[p].1 { *s = s.to_lowercase(); s.push_str("ff"); } "hex-lower" }
        6 => { let v = ["abc", "2.1", "2..0", "1.9.9", "2.1.0.5", "02.01.00", "", "2.x.0", "+2.+1.+0"][rng.below(9)]; kvs[0].1 = T::S(v.to_string()); "version" }
        7 => { if let T::O(cs) = &mut kvs[13].1 { if !cs.is_empty() { cs[0].0 = format!("x{}", cs[0].0); } } "chunk-key" }
        8 => { if let T::O(cs) = &mut kvs[13].1 { if !cs.is_empty() { let k = format!("+{}", cs[0].0); let v = cs[0].1.clone(); cs.push((k, v)); } } "chunk-dup" }
        9 => { if let T::O(cs) = &mut kvs[13].1 { if !cs.is_empty() { cs[0].1 = T::N(3); } } "chunk-number" }
        10 => { if let T::O(cs) = &mut kvs[13].1 { if !cs.is_empty() { if let T::S(s) = &mut cs[0].1 { s.push('G'); } } } "chunk-hex-bad" }
        _ => { kvs[13].1 = T::A(vec![]); "chunks-array" }
    }
}

/// `l` = `from_json` panics on a malformed version string and checks no ranges (snapshot),
/// `b` = malformed version / out-of-range chunk length or index are errors (after the C12 repairs)
fn json_variant() -> char {
    match guarded(|| FileImage::from_json("{\"fimg_version\":\"abc\"}")) { Err(_) => 'l', _ => 'b' }
}

fn case_json_fimg(ctx: &mut Ctx, idx: usize, rng: &mut Rng, sel: usize) {
    let f = gen_fimg(rng, sel);
    let mut keys: Vec<usize> = f.chunks.keys().cloned().collect();
    keys.sort_unstable();
    let chunks = if keys.is_empty() { "-".to_string() } else { keys.iter().map(|k| format!("{}:{}", k, hx(&f.chunks[k]))).collect::<Vec<String>>().join(",") };
    let case = format!("idx={} json-fimg fs={} ver={} chunks={} path={:?}", idx, f.file_system, f.fimg_version, keys.len(), f.full_path);
    // to_json, compared as a tree; then from_json(to_json(x)) == x
    let js = guarded(|| f.to_json(None));
    let (tree_s, back) = match &js {
        Err(p) => { ctx.out.oracle(false, "to_json-does-not-panic", &format!("panic:{}", site(p)), &case); ("panic".to_string(), "panic".to_string()) }
        Ok(s) => {
            let tree = match json::parse(s) { Ok(j) => t_render(&json_to_t(&j)), Err(_) => "unparsable".to_string() };
            let back = match guarded(|| FileImage::from_json(s)) { Err(_) => "panic", Ok(Err(_)) => "err", Ok(Ok(g)) => if fimg_eq(&f, &g) { "same" } else { "differs" } };
            (tree, back.to_string())
        }
    };
    ctx.out.q(&format!("c13 fimg2json {} {} {} {} {} {} {} {} {} {} {} {} {} {} {}", json_variant(), hx(f.fimg_version.as_bytes()), hx(f.file_system.as_bytes()), f.chunk_len,
        hx(&f.eof), hx(&f.fs_type), hx(&f.aux), hx(&f.access), hx(&f.accessed), hx(&f.created), hx(&f.modified), hx(&f.version), hx(&f.min_version),
        hx(f.full_path.as_bytes()), chunks), &format!("{} back={}", digest(tree_s.as_bytes()), back));
    // the property: a file image written as JSON parses back to an equal value (format 2.1 and later, or
    // an older image that has no path / access time, which format 2.0 does not carry)
    let v = FileImage::version_tuple(&f.fimg_version);
    if v >= (2, 1, 0) || (f.accessed.is_empty() && f.full_path.is_empty() && v >= (2, 0, 0)) {
        ctx.out.oracle(back == "same", "from_json(to_json(x))==x", "fimg/json/roundtrip-differs", &case);
        let pretty = guarded(|| FileImage::from_json(&f.to_json(Some(2))));
        ctx.out.oracle(matches!(&pretty, Ok(Ok(g)) if fimg_eq(&f, g)), "from_json(to_json_pretty(x))==x", "fimg/json/pretty-roundtrip-differs", &case);
    }
    // from_json on the same tree with one mutation
    let mut t = fimg_to_t(&f);
    let m = mutate_tree(rng, &mut t, sel / 3);
    let text = json::stringify(t_to_json(&t));
    let r = match guarded(|| FileImage::from_json(&text)) { Err(_) => "panic".to_string(), Ok(Err(_)) => "err".to_string(), Ok(Ok(g)) => format!("ok {}", full_digest(&g)) };
    ctx.out.q(&format!("c13 json2fimg {} {}", json_variant(), t_render(&t)), &r);
    ctx.out.count(&format!("json-fimg:{}", m));
    ctx.out.case(case.as_bytes(), !keys.is_empty());
    ctx.out.sample(&case);
}

fn case_json_recs(ctx: &mut Ctx, idx: usize, rng: &mut Rng, sel: usize) {
    let rec_len = [2usize, 64, 128, 300, 65535, 0, 70000][sel % 7];
    let n = rng.range(1, 5);
    let mut recs = a2kit::fs::Records::new(rec_len);
    let mut stored: Vec<(usize, String)> = Vec::new();
    for _ in 0..n {
        let num = [0usize, 1, 9, 10, 11, 100, 4000][rng.below(7)];
        if stored.iter().any(|(k, _)| *k == num) { continue; }
        let text = match rng.below(6) { 0 => String::new(), 1 => "\n".to_string(), 2 => "A\n\nB\n".to_string(), _ => { let l = rng.range(1, 40); record_text(rng, l) } };
        recs.add_record(num, &text);
        stored.push((num, text));
    }
    stored.sort();
    let spec = stored.iter().map(|(k, t)| format!("{}:{}", k, hx(t.as_bytes()))).collect::<Vec<String>>().join(",");
    let case = format!("idx={} json-recs rec_len={} records={}", idx, rec_len, stored.iter().map(|(k, t)| format!("{}:{}", k, t.len())).collect::<Vec<String>>().join(","));
    // to_json iterates the HashMap, i.e. in arbitrary order (that is C20's business): compare the
    // tree with the `records` entries sorted by numeric key
    let js = recs.to_json(None);
    let mut tree = match json::parse(&js) { Ok(j) => json_to_t(&j), Err(_) => T::Z };
    if let T::O(kvs) = &mut tree { for (k, v) in kvs.iter_mut() { if k == "records" { if let T::O(rs) = v { rs.sort_by_key(|(k, _)| k.parse::<usize>().unwrap_or(0)); } } } }
    let back = match guarded(|| a2kit::fs::Records::from_json(&js)) {
        Err(_) => "panic", Ok(Err(_)) => "err",
        Ok(Ok(r)) => if r.record_len == rec_len && r.map.len() == stored.len() && stored.iter().all(|(k, t)| r.map.get(k) == Some(t)) { "same" } else { "differs" }
    };
    ctx.out.q(&format!("c13 recs2json {} {}", rec_len, spec), &format!("{} back={}", digest(t_render(&tree).as_bytes()), back));
    ctx.out.oracle(back == "same", "Records::from_json(to_json(x))==x", "recs/json/roundtrip-differs", &case);
    // from_json on a mutated tree
    let mut t = T::O(vec![("fimg_type".to_string(), T::S("rec".to_string())), ("record_length".to_string(), T::N(rec_len)),
        ("records".to_string(), T::O(stored.iter().map(|(k, t)| (k.to_string(), T::A(t.lines().map(|l| T::S(l.to_string())).collect()))).collect()))]);
    if let T::O(kvs) = &mut t {
        match (sel / 7) % 8 {
            0 | 1 => {}
            2 => { kvs[0].1 = T::S("fimg".to_string()); }
            3 => { let p = rng.below(3); kvs.remove(p); }
            4 => { if let T::O(rs) = &mut kvs[2].1 { rs[0].0 = "k".to_string(); } }
            5 => { if let T::O(rs) = &mut kvs[2].1 { rs[0].1 = T::A(vec![T::S("A".to_string()), T::N(1)]); } }
            6 => { kvs[2].1 = T::O(vec![]); }
            _ => { if let T::O(rs) = &mut kvs[2].1 { rs[0].1 = T::S("not-an-array".to_string()); let k = format!("+{}", rs[0].0); rs.push((k, T::A(vec![T::S("DUP".to_string())]))); } }
        }
    }
    let text = json::stringify(t_to_json(&t));
    let r = match guarded(|| a2kit::fs::Records::from_json(&text)) { Err(_) => "panic".to_string(), Ok(Err(_)) => "err".to_string(),
        Ok(Ok(r)) => format!("ok len={} {}", r.record_len, render_recs(&r.map)) };
    ctx.out.q(&format!("c13 json2recs {}", t_render(&t)), &r);
    ctx.out.count("json-recs");
    ctx.out.case(case.as_bytes(), true);
    ctx.out.sample(&case);
}

// ------------------------------------------------------------------------------------------------
// section F: re-use of one FileImage object (pack A, then pack B into the same object)
// ------------------------------------------------------------------------------------------------

fn rel_len(rng: &mut Rng, la: usize, rel: usize, chunk: usize) -> usize {
    match rel { 0 => 0, 1 => rng.below(la.max(1)), 2 => la + rng.range(1, 2 * chunk), _ => la }
}

fn case_reuse(ctx: &mut Ctx, idx: usize, rng: &mut Rng, var: &Variant, fs: Fs, sel: usize) {
    let chunk = [256usize, 512, 128, 7][(sel / 20) % 4];
    let kind = ["bin", "raw", "txt", "tok", "rec"][sel % 5];
    let rel = (sel / 5) % 4;
    let rel_s = ["empty", "shorter", "longer", "same-length"][rel];
    let supported = match kind { "tok" | "rec" => matches!(fs, Fs::Dos | Fs::Prodos), _ => true };
    if !supported { return; }
    let mut f = new_fimg(fs, chunk);       // the re-used object
    let mut fresh = new_fimg(fs, chunk);   // reference: B packed into a new image
    let init = init_spec(&f);
    let head = format!("c13 reuse {} {} {} {} {}", fs.name(), var.spec(), chunk, init, kind);
    let sig = format!("{}/pack_{}/stale-state-after-repack", fs.module(), kind);
    // (request tail, A ok?, outcome of B on the re-used object, outcome of B on the fresh object, rendered answer, unpack equals B?)
    let (tail, a_ok, ans, same_as_fresh, un_is_b): (String, bool, String, bool, bool) = match kind {
        "bin" => {
            let la = rng.range(1, 3 * chunk);
            let a = Data::gen(rng, la);
            let b = { let l = rel_len(rng, la, rel, chunk); Data::gen(rng, l) };
            let (aa, ab) = (rng.below(0x10000), rng.below(0x10000));
            let a_ok = matches!(guarded(|| f.pack_bin(&a.bytes, Some(aa), None)), Ok(Ok(())));
            let r1 = guarded(|| f.pack_bin(&b.bytes, Some(ab), None));
            let r2 = guarded(|| fresh.pack_bin(&b.bytes, Some(ab), None));
            let (ans, same, isb) = match (&r1, &r2) {
                (Ok(Ok(())), Ok(Ok(()))) => {
                    let la = guarded(|| f.get_load_address());
                    let (un_s, un, _) = res_bytes(guarded(|| f.unpack_bin()));
                    let (_, un2, _) = res_bytes(guarded(|| fresh.unpack_bin()));
                    (format!("ok {} la={} un={}", img_digest(&f), match &la { Ok(v) => v.to_string(), Err(_) => "panic".to_string() }, un_s),
                     img_digest(&f) == img_digest(&fresh) && f.to_json(None) == fresh.to_json(None) && un == un2, un.as_ref() == Some(&b.bytes))
                }
                (Ok(Err(_)), Ok(Err(_))) => ("err".to_string(), true, true),
                (Err(_), _) => ("panic".to_string(), false, false),
                _ => ("mixed".to_string(), false, false),
            };
            (format!("{} {} {} {}", a.spec, aa, b.spec, ab), a_ok, ans, same, isb)
        }
        "raw" => {
            let la = rng.range(1, 3 * chunk);
            let a = Data::gen(rng, la);
            let b = { let l = rel_len(rng, la, rel, chunk); Data::gen(rng, l) };
            let a_ok = matches!(guarded(|| f.pack_raw(&a.bytes)), Ok(Ok(())));
            let r1 = guarded(|| f.pack_raw(&b.bytes));
            let r2 = guarded(|| fresh.pack_raw(&b.bytes));
            let (ans, same, isb) = match (&r1, &r2) {
                (Ok(Ok(())), Ok(Ok(()))) => {
                    let (un_s, un, _) = res_bytes(guarded(|| f.unpack_raw(false)));
                    let (_, un2, _) = res_bytes(guarded(|| fresh.unpack_raw(false)));
                    let (_, unt, _) = res_bytes(guarded(|| f.unpack_raw(true)));
                    (format!("ok {} un={} seq={}", img_digest(&f), un_s, digest(&f.sequence())),
                     img_digest(&f) == img_digest(&fresh) && f.to_json(None) == fresh.to_json(None) && un == un2 && f.end() == fresh.end(),
                     un.as_ref() == Some(&b.bytes) && unt.as_ref() == Some(&b.bytes))
                }
                (Ok(Err(_)), Ok(Err(_))) => ("err".to_string(), true, true),
                (Err(_), _) => ("panic".to_string(), false, false),
                _ => ("mixed".to_string(), false, false),
            };
            (format!("{} {}", a.spec, b.spec), a_ok, ans, same, isb)
        }
        "txt" => {
            let sh = rng.below(5); let (ta, _, _) = gen_text(rng, sh);
            let ta: String = ta.chars().take(1500).collect::<String>();
            let ta = if ta.ends_with('\n') { ta } else { format!("{}\n", ta) };
            let tb = match rel { 0 => String::new(), 1 => { let l = rng.range(1, ta.len().max(2) - 1); record_text(rng, l) }, 2 => { let l = ta.len() + rng.range(1, 600); record_text(rng, l) }, _ => record_text(rng, ta.len()) };
            let a_ok = matches!(guarded(|| f.pack_txt(&ta)), Ok(Ok(())));
            let r1 = guarded(|| f.pack_txt(&tb));
            let r2 = guarded(|| fresh.pack_txt(&tb));
            let (ans, same, isb) = match (&r1, &r2) {
                (Ok(Ok(())), Ok(Ok(()))) => {
                    let un = guarded(|| f.unpack_txt());
                    let un2 = guarded(|| fresh.unpack_txt());
                    let s1 = match &un { Ok(Ok(s)) => Some(s.clone()), _ => None };
                    let s2 = match &un2 { Ok(Ok(s)) => Some(s.clone()), _ => None };
                    let un_s = match &un { Err(_) => "panic".to_string(), Ok(Err(_)) => "err".to_string(), Ok(Ok(s)) => format!("ok:{}", digest(s.as_bytes())) };
                    (format!("ok {} un={}", img_digest(&f), un_s),
                     img_digest(&f) == img_digest(&fresh) && f.to_json(None) == fresh.to_json(None) && s1 == s2,
                     tb.is_empty() || s1.as_deref() == Some(tb.as_str()))
                }
                (Ok(Err(_)), Ok(Err(_))) => ("err".to_string(), true, true),
                (Err(_), _) => ("panic".to_string(), false, false),
                _ => ("mixed".to_string(), false, false),
            };
            (format!("{} {}", hx(ta.as_bytes()), hx(tb.as_bytes())), a_ok, ans, same, isb)
        }
        "tok" => {
            let (lang, lang_s) = if sel % 2 == 0 { (ItemType::ApplesoftTokens, "a") } else { (ItemType::IntegerTokens, "i") };
            let na = rng.range(2, 12);
            let a = gen_tokens(rng, 0x801, na);
            let b = match rel { 0 => vec![], 1 => { let n = rng.range(1, na - 1); gen_tokens(rng, 0x801, n) }, 2 => { let n = na + rng.range(1, 20); gen_tokens(rng, 0x801, n) }, _ => { let mut t = gen_tokens(rng, 0x801, na + 4); t.truncate(a.len()); while t.len() < a.len() { t.push(0); } t } };
            let a_ok = matches!(guarded(|| f.pack_tok(&a, lang, None)), Ok(Ok(())));
            let r1 = guarded(|| f.pack_tok(&b, lang, None));
            let r2 = guarded(|| fresh.pack_tok(&b, lang, None));
            let (ans, same, isb) = match (&r1, &r2) {
                (Ok(Ok(())), Ok(Ok(()))) => {
                    let (un_s, un, _) = res_bytes(guarded(|| f.unpack_tok()));
                    let (_, un2, _) = res_bytes(guarded(|| fresh.unpack_tok()));
                    (format!("ok {} un={}", img_digest(&f), un_s),
                     img_digest(&f) == img_digest(&fresh) && f.to_json(None) == fresh.to_json(None) && un == un2, un.as_ref() == Some(&b))
                }
                (Ok(Err(_)), Ok(Err(_))) => ("err".to_string(), true, true),
                (Err(_), _) => ("panic".to_string(), false, false),
                _ => ("mixed".to_string(), false, false),
            };
            (format!("{} {} {}", lang_s, hx(&a), hx(&b)), a_ok, ans, same, isb)
        }
        _ => {
            let (la, lb) = ([64usize, 128, 300][rng.below(3)], [64usize, 128, 300][rng.below(3)]);
            let mk = |rng: &mut Rng, l: usize, n: usize| -> (a2kit::fs::Records, Vec<(usize, String)>) {
                let mut r = a2kit::fs::Records::new(l);
                let mut v: Vec<(usize, String)> = Vec::new();
                for _ in 0..n { let k = rng.below(12); if v.iter().any(|(x, _)| *x == k) { continue; } let tl = rng.range(1, l.min(40)); let t = record_text(rng, tl); r.add_record(k, &t); v.push((k, t)); }
                v.sort();
                (r, v)
            };
            let na = rng.range(2, 5);
            let (ra, va) = mk(rng, la, na);
            let nb = match rel { 0 => 0, 1 => 1, 2 => na + 3, _ => na };
            let (rb, vb) = mk(rng, lb, nb);
            let a_ok = matches!(guarded(|| f.pack_rec(&ra)), Ok(Ok(())));
            let r1 = guarded(|| f.pack_rec(&rb));
            let r2 = guarded(|| fresh.pack_rec(&rb));
            let (ans, same, isb) = match (&r1, &r2) {
                (Ok(Ok(())), Ok(Ok(()))) => {
                    let un = guarded(|| f.unpack_rec(Some(lb)));
                    let un2 = guarded(|| fresh.unpack_rec(Some(lb)));
                    let m1 = match &un { Ok(Ok(r)) => Some(render_recs(&r.map)), _ => None };
                    let m2 = match &un2 { Ok(Ok(r)) => Some(render_recs(&r.map)), _ => None };
                    let un_s = match &un { Err(_) => "panic".to_string(), Ok(Err(_)) => "err".to_string(), Ok(Ok(r)) => format!("ok:{}", render_recs(&r.map)) };
                    let all = match &un { Ok(Ok(r)) => vb.iter().all(|(k, t)| r.map.get(k) == Some(t)), _ => false };
                    (format!("ok {} un={}", img_digest(&f), un_s),
                     img_digest(&f) == img_digest(&fresh) && f.to_json(None) == fresh.to_json(None) && m1 == m2, all)
                }
                (Ok(Err(_)), Ok(Err(_))) => ("err".to_string(), true, true),
                (Err(_), _) => ("panic".to_string(), false, false),
                _ => ("mixed".to_string(), false, false),
            };
            let sp = |v: &Vec<(usize, String)>| if v.is_empty() { "-".to_string() } else { v.iter().map(|(k, t)| format!("{}:{}", k, hx(t.as_bytes()))).collect::<Vec<String>>().join(",") };
            (format!("{} {} {} {} {}", rec_variant(), la, sp(&va), lb, sp(&vb)), a_ok, ans, same, isb)
        }
    };
    let case = format!("idx={} reuse kind={} fs={} chunk={} B={} args={}", idx, kind, fs.name(), chunk, rel_s, tail.chars().take(120).collect::<String>());
    ctx.out.count(&format!("reuse:{}:{}", kind, rel_s));
    if !a_ok { ctx.out.count("reuse:first-pack-refused"); return; }
    ctx.out.oracle(same_as_fresh, "pack B after pack A == pack B into a new image", &sig, &case);
    ctx.out.oracle(un_is_b, "unpack after re-pack returns B", &format!("{}/pack_{}/repack-roundtrip-differs", fs.module(), kind), &case);
    ctx.out.q(&format!("{} {}", head, tail), &ans);
    ctx.out.case(case.as_bytes(), true);
    ctx.out.sample(&case);
}

// ------------------------------------------------------------------------------------------------
// section G: file images AS THE FILE SYSTEMS RETURN THEM (lock bit in the DOS type byte, CP/M attribute
// bits in the extension, access / version bytes of the directory, whole-block chunks, CP/M record eof)
// ------------------------------------------------------------------------------------------------

/// a real small volume of each file system (fresh for every case)
fn make_vol(fs: Fs, cpm3: bool) -> Result<Box<dyn a2kit::fs::DiskFS>, String> {
    use a2kit::img::{names, DiskKind};
    let e = |x: Box<dyn std::error::Error>| x.to_string();
    Ok(match fs {
        Fs::Dos => { let mut d = a2kit::fs::dos3x::Disk::from_img(Box::new(a2kit::img::dsk_do::DO::create(35, 16))).map_err(e)?; d.init33(254, false).map_err(e)?; Box::new(d) }
        Fs::Prodos => { let mut d = a2kit::fs::prodos::Disk::from_img(Box::new(a2kit::img::dsk_po::PO::create(280))).map_err(e)?; d.format("VERIF", true, None).map_err(e)?; Box::new(d) }
        Fs::Pascal => { let mut d = a2kit::fs::pascal::Disk::from_img(Box::new(a2kit::img::dsk_po::PO::create(280))).map_err(e)?; d.format("VERIF", 0xee, None).map_err(e)?; Box::new(d) }
        Fs::Cpm => {
            let kind = names::A2_DOS33_KIND;
            let vers = if cpm3 { [3, 1, 0] } else { [2, 2, 3] };
            let t = chrono::NaiveDate::from_ymd_opt(2000, 1, 1).unwrap().and_hms_opt(0, 0, 0);
            let mut d = a2kit::fs::cpm::Disk::from_img(Box::new(a2kit::img::dsk_do::DO::create(35, 16)), a2kit::bios::dpb::DiskParameterBlock::create(&kind), vers).map_err(e)?;
            if cpm3 { d.format("VERIF", t).map_err(e)?; } else { d.format("", None).map_err(e)?; }
            Box::new(d)
        }
        Fs::Fat => {
            let kind = DiskKind::D525(names::IBM_DSDD_9);
            let boot = a2kit::bios::bpb::BootSector::create(&kind).map_err(e)?;
            let mut d = a2kit::fs::fat::Disk::from_img(Box::new(a2kit::img::dsk_img::Img::create(kind)), Some(boot)).map_err(e)?;
            d.format("VERIF", None).map_err(e)?;
            Box::new(d)
        }
    })
}

fn render_auto(r: &Result<Result<a2kit::fs::UnpackedData, Box<dyn std::error::Error>>, String>) -> String {
    use a2kit::fs::UnpackedData;
    match r {
        Err(_) => "panic".to_string(),
        Ok(Err(_)) => "err".to_string(),
        Ok(Ok(UnpackedData::Binary(b))) => format!("B:{}", digest(b)),
        Ok(Ok(UnpackedData::Text(t))) => format!("T:{}", digest(t.as_bytes())),
        Ok(Ok(UnpackedData::Records(r))) => format!("R:{}", render_recs(&r.map)),
    }
}

/// what `deduce_address` must find for a program made by `gen_tokens(base)`: the load address
fn res_s(r: Result<Result<Vec<u8>, Box<dyn std::error::Error>>, String>) -> (String, Option<Vec<u8>>) {
    match r { Err(_) => ("panic".to_string(), None), Ok(Err(_)) => ("err".to_string(), None), Ok(Ok(v)) => (format!("ok:{}", digest(&v)), Some(v)) }
}

fn valid_utf8(b: &[u8]) -> bool { std::str::from_utf8(b).is_ok() }

fn case_ret(ctx: &mut Ctx, idx: usize, rng: &mut Rng, var: &Variant, fs: Fs, sel: usize, real: bool) {
    let kind = ["bin", "tok", "txt", "raw", "bin", "tok", "txt"][sel % 7];
    if kind == "tok" && !matches!(fs, Fs::Dos | Fs::Prodos) { return; }
    let cpm3 = fs == Fs::Cpm && (sel / 7) % 2 == 1;
    // ---- the image to pack into: from a real volume (block-sized chunks, valid name) or a bare one
    let name = match fs { Fs::Cpm | Fs::Fat => ["TEST.TXT", "PROG.BIN", "A.ASM", "NOEXT", "X.SUB", "Y.BAT"][(sel / 14) % 6], _ => "TEST" };
    let mut vol = if real { match guarded(|| make_vol(fs, cpm3)) { Ok(Ok(v)) => Some(v), _ => { ctx.out.count("ret:no-volume"); return; } } } else { None };
    let mut f = match &vol {
        Some(v) => match v.new_fimg(None, false, name) { Ok(f) => f, Err(_) => { ctx.out.count("ret:no-fimg"); return; } },
        None => {
            let chunk = [256usize, 512, 1024, 128, 7, 3, 100, 2048][(sel / 7) % 8];
            match fs {
                Fs::Cpm => a2kit::fs::cpm::new_fimg(chunk, false, name).expect("new_fimg"),
                Fs::Fat => a2kit::fs::fat::new_fimg(chunk, false, name).expect("new_fimg"),
                _ => new_fimg(fs, chunk),
            }
        }
    };
    let chunk = f.chunk_len;
    let init = init_spec(&f);
    // ---- payload
    let len_sel = match sel % 5 { 0 => 1, 1 => rng.range(2, 40), 2 => chunk.saturating_sub(rng.below(3)).max(1), 3 => chunk + rng.range(1, 5), _ => rng.range(1, 3 * chunk.min(1024)) };
    let mut addr: Option<usize> = None;
    let mut lang_s = "-";
    let mut trailing: Vec<u8> = vec![];
    let mut text = String::new();
    let mut expect_la: Option<usize> = None;
    let data: Data = match kind {
        "bin" => {
            addr = Some(match sel % 4 { 0 => 0x300, 1 => 0x4000, 2 => 0xFFFF, _ => rng.range(1, 0xFFFE) });
            if matches!(fs, Fs::Dos | Fs::Prodos) { expect_la = addr; } else { expect_la = Some(0); }
            if sel % 9 == 8 { let n = rng.range(1, 6); trailing = rng.bytes(n); }
            Data::gen(rng, len_sel)
        }
        "tok" => {
            let applesoft = (sel / 7) % 3 != 2;
            lang_s = if applesoft { "a" } else { "i" };
            let base = match sel % 3 { 0 => 0x801, 1 => 0x4001, _ => rng.range(0x200, 0xBF00) };
            let lines = rng.range(1, 1 + (len_sel / 8).min(60));
            if sel % 9 == 8 { let n = rng.range(1, 4); trailing = rng.bytes(n); }
            let t = gen_tokens(rng, base, lines);
            // the first line ends inside the first chunk (it is at most 17 bytes long)
            expect_la = Some(if applesoft { if fs == Fs::Dos && chunk < 20 { usize::MAX } else { base } } else { 0 });
            Data::lit(t)
        }
        "txt" => {
            let n = rng.range(1, 12);
            for _ in 0..n { let l = rng.below(40); let ind = if rng.chance(30) { rng.below(6) } else { 0 }; text += &printable_line(rng, l, ind); text.push('\n'); }
            expect_la = Some(0);
            Data::lit(text.as_bytes().to_vec())
        }
        _ => {
            expect_la = None;
            // a Pascal TEXT file (pack_raw types it so) whose body has a DLE followed by a count below 32
            if fs == Fs::Pascal && (sel / 7) % 4 == 0 { let mut b = vec![0u8; 1024]; b.extend_from_slice(&[0x41, 0x42, 0x10, (sel % 32) as u8, 0x43, 0x0d]); Data::lit(b) }
            else { Data::gen(rng, len_sel) }
        }
    };
    let tr = if trailing.is_empty() { None } else { Some(trailing.as_slice()) };
    let packed = match kind {
        "bin" => guarded(|| f.pack_bin(&data.bytes, addr, tr)),
        "tok" => guarded(|| f.pack_tok(&data.bytes, if lang_s == "a" { ItemType::ApplesoftTokens } else { ItemType::IntegerTokens }, tr)),
        "txt" => guarded(|| f.pack_txt(&text)),
        _ => guarded(|| f.pack_raw(&data.bytes)),
    };
    if !matches!(packed, Ok(Ok(()))) { ctx.out.count("ret:pack-refused"); return; }
    // ---- the decoration
    let lock = (sel / 3) % 2 == 0;
    let mut tbits: Vec<u8> = match fs {
        Fs::Dos => vec![if lock { 0x80 } else { 0 }],
        Fs::Cpm => if real { vec![if lock { 0x80 } else { 0 }, if (sel / 5) % 2 == 0 { 0x80 } else { 0 }, 0] } else { (0..3).map(|_| if rng.chance(50) { 0x80 } else { 0 }).collect() },
        _ => vec![],
    };
    let mut round = if fs == Fs::Cpm && !cpm3 { 128 } else { 1 };
    let pad: Data;
    let h: FileImage;
    let mut syn_tset: Option<Vec<u8>> = None;
    if let Some(v) = vol.as_mut() {
        // really put it into the volume, lock it, and get it back
        let put = guarded(|| v.put(&f));
        if !matches!(put, Ok(Ok(_))) { ctx.out.count(&format!("ret:put-refused:{}", fs.name())); return; }
        if lock { match guarded(|| v.lock(name)) { Ok(Ok(())) => {}, _ => { ctx.out.count(&format!("ret:lock-unsupported:{}", fs.name())); if matches!(fs, Fs::Dos | Fs::Cpm) { tbits[0] = 0; } } } }
        if fs == Fs::Cpm && tbits[1] == 0x80 { match guarded(|| v.retype(name, "sys", "")) { Ok(Ok(())) => {}, _ => { tbits[1] = 0; } } }
        h = match guarded(|| v.get(name)) { Ok(Ok(h)) => h, _ => {
            ctx.out.oracle(false, "get-after-put", &format!("c13/{}/returned/get-failed", fs.module()), &format!("idx={} ret real fs={} kind={}", idx, fs.name(), kind)); return; } };
        pad = Data::pat(chunk, 0, 0);
    } else {
        pad = match sel % 3 { 0 => Data::pat(chunk, 0, 0), 1 => Data::pat(chunk, 0, 0x1a), _ => { let a = rng.range(1, 255); let b = rng.below(256); Data::pat(chunk, a, b) } };
        if fs == Fs::Cpm && sel % 2 == 0 { round = 1; }
        let mut g = f;
        if let Some(k) = g.chunks.keys().max().cloned() { let c = g.chunks.get_mut(&k).unwrap(); let need = chunk.saturating_sub(c.len()); c.extend_from_slice(&pad.bytes[..need]); }
        for (i, b) in tbits.iter().enumerate() { if i < g.fs_type.len() { g.fs_type[i] |= b; } }
        if fs == Fs::Cpm { let e = g.get_eof(); let r = (e + round - 1) / round * round; g.eof = (r as u32).to_le_bytes().to_vec(); }
        if fs == Fs::Fat {
            // the extension of the directory name, space padded; sometimes OEM code page characters
            let ext = name.split('.').nth(1).unwrap_or("");
            let mut t: Vec<u8> = ext.bytes().chain(std::iter::repeat(b' ')).take(3).collect();
            match sel % 23 { 20 => { t = vec![0x8e, 0x99, 0x9a]; } 21 => { t = vec![0xc3, 0xa9, 0x20]; } 22 => { t = vec![0x54, 0x58, 0xd4]; } _ => {} }
            g.fs_type = t;
            syn_tset = Some(g.fs_type.clone());
        }
        let n = g.access.len(); g.access = rng.bytes(n);
        let n = g.version.len(); g.version = rng.bytes(n);
        let n = g.min_version.len(); g.min_version = rng.bytes(n);
        h = g;
    }
    let state = if tbits.iter().any(|b| *b != 0) || (real && lock) { "locked" } else { "returned" };
    let trunc = sel % 2 == 0;
    // FAT takes the type from the extension of the directory name, not from the image
    let tset = if real && fs == Fs::Fat { hx(&h.fs_type) } else if let Some(t) = &syn_tset { hx(t) } else { "=".to_string() };
    let req = format!("c13 ret {} {} {} {} {} {} {} {} {} {} {} {} {} {} {}", fs.name(), var.spec(), chunk, init, kind,
        if kind == "txt" { hx(text.as_bytes()) } else { data.spec.clone() },
        match kind { "bin" => addr_spec(addr), "tok" => lang_s.to_string(), _ => "-".to_string() }, hx(&trailing),
        hx(&tbits), tset, pad.spec, round, hx(&h.access), if trunc { 1 } else { 0 }, rec_variant());
    let case = format!("idx={} ret {} fs={} kind={} state={} chunk={} len={} addr={} lang={} typ={} acc={} eof={} name={} data={}", idx, if real { "real-volume" } else { "synthetic" },
        fs.name(), kind, state, chunk, data.bytes.len(), addr_spec(addr), lang_s, hx(&h.fs_type), hx(&h.access), hx(&h.eof), name, data.spec.chars().take(60).collect::<String>());
    // ---- the real code on the returned image
    let la = guarded(|| h.get_load_address());
    let (bin_s, bin_v) = res_s(guarded(|| h.unpack_bin()));
    let (tok_s, tok_v) = res_s(guarded(|| h.unpack_tok()));
    let txt_r = guarded(|| h.unpack_txt());
    let (txt_s, txt_v) = match &txt_r { Err(_) => ("panic".to_string(), None), Ok(Err(_)) => ("err".to_string(), None), Ok(Ok(s)) => (format!("ok:{}", digest(s.as_bytes())), Some(s.clone())) };
    let (raw_s, raw_v) = res_s(guarded(|| h.unpack_raw(trunc)));
    let auto = guarded(|| h.unpack());
    let ans = format!("ok {} la={} bin={} tok={} txt={} raw={} auto={}", img_digest(&h), match &la { Ok(v) => v.to_string(), Err(_) => "panic".to_string() },
        bin_s, tok_s, txt_s, raw_s, render_auto(&auto));
    ctx.out.q(&req, &ans);
    ctx.out.count(&format!("ret:{}:{}:{}", if real { "real" } else { "syn" }, fs.name(), kind));
    ctx.out.count(&format!("ret-state:{}", state));
    // ---- the property: what was packed comes back, whatever the file system laid over it
    let sig = |what: &str| format!("c13/{}/{}/{}", fs.module(), state, what);
    let payload: Vec<u8> = match (kind, fs) { ("bin", Fs::Dos) | ("tok", Fs::Dos) => data.bytes.clone(), ("bin", _) | ("tok", _) => [data.bytes.clone(), trailing.clone()].concat(), _ => data.bytes.clone() };
    // CP/M 2 records the length in 128 byte records: the payload is a prefix, less than one record follows
    let same = |got: &Option<Vec<u8>>| -> bool { match got { None => false, Some(g) => if round == 128 { g.len() >= payload.len() && g[..payload.len()] == payload[..] && g.len() - payload.len() < 128 } else { *g == payload } } };
    match kind {
        "bin" => {
            ctx.out.oracle(same(&bin_v), "unpack_bin(returned(pack_bin(x)))==x", &sig("unpack_bin"), &case);
            if chunk >= 3 { ctx.out.oracle(matches!((&la, expect_la), (Ok(v), Some(a)) if *v as usize == a), "load-address-of-returned-image", &sig("load-address"), &case); }
            if matches!(fs, Fs::Dos | Fs::Prodos | Fs::Pascal) {
                ctx.out.oracle(matches!(&auto, Ok(Ok(a2kit::fs::UnpackedData::Binary(b))) if *b == payload), "unpack-selects-the-binary-decoder", &sig("auto-unpack"), &case);
            }
        }
        "tok" => {
            ctx.out.oracle(same(&tok_v), "unpack_tok(returned(pack_tok(x)))==x", &sig("unpack_tok"), &case);
            if expect_la != Some(usize::MAX) { ctx.out.oracle(matches!((&la, expect_la), (Ok(v), Some(a)) if *v as usize == a), "load-address-of-returned-image", &sig("load-address"), &case); }
            ctx.out.oracle(matches!(&auto, Ok(Ok(a2kit::fs::UnpackedData::Binary(b))) if *b == payload), "unpack-selects-the-token-decoder", &sig("auto-unpack"), &case);
        }
        "txt" => {
            ctx.out.oracle(txt_v.as_deref() == Some(text.as_str()), "unpack_txt(returned(pack_txt(t)))==t", &sig("unpack_txt"), &case);
            // an extension with OEM code page bytes cannot come back from `get` (FAT path look-up upper-cases the escaped
            // name, so such a file is listed but not reachable): hand-made images only, compared with the model, no verdict
            if fs == Fs::Fat && !valid_utf8(&h.fs_type) { ctx.out.count("ret:fat-non-utf8-extension"); }
            else { ctx.out.oracle(matches!(&auto, Ok(Ok(a2kit::fs::UnpackedData::Text(t))) if *t == text), "unpack-selects-the-text-decoder", &sig("auto-unpack"), &case); }
        }
        _ => {
            // raw bytes: exact where the directory has an eof and it is asked for, otherwise the data is a prefix
            let exact = trunc && fs != Fs::Dos && round == 1;
            let ok = match &raw_v { None => false, Some(g) => if exact { *g == payload } else { g.len() >= payload.len() && g[..payload.len()] == payload[..] } };
            ctx.out.oracle(ok, "unpack_raw(returned(pack_raw(x)))==x", &sig("unpack_raw"), &case);
        }
    }
    for (nm, p) in [("get_load_address", la.as_ref().err()), ("unpack", auto.as_ref().err()), ("unpack_txt", txt_r.as_ref().err())] {
        if let Some(p) = p {
            // a Pascal TEXT file whose content has a DLE followed by a count below 32 (raw bytes, a foreign or damaged file)
            let sig = if site(p) == "src/fs/pascal/types.rs" { "c13/pascal/returned/text-indent-underflow-panics".to_string() } else { format!("panic:{}", site(p)) };
            ctx.out.oracle(false, &format!("{}-does-not-panic", nm), &sig, &case);
        }
    }
    ctx.out.case(req.as_bytes(), true);
    ctx.out.sample(&case);
}

fn check_newfimg(ctx: &mut Ctx) {
    for fs in ALL_FS {
        let f = new_fimg(fs, 256);
        ctx.out.q(&format!("c13 newfimg {}", fs.name()), &format!("fs={} eof={} aux={}", hx(f.file_system.as_bytes()), hx(&f.eof), hx(&f.aux)));
    }
}

pub fn run(ctx: &mut Ctx) {
    let mut root = Rng::new(ctx.seed);
    let var = Variant::probe();
    if ctx.out.only.is_none() { check_newfimg(ctx); }
    ctx.out.count(&format!("variant:dos-{}", var.dos));
    ctx.out.count(&format!("variant:prodos-{}", var.prodos));
    ctx.out.count(&format!("variant:deduce-{}", var.deduce));
    let mut idx = 0usize;
    // ---- section A: bin/tok/raw -------------------------------------------------------------
    let n_bin = ctx.n(540, 8000);
    for k in 0..n_bin {
        let mut rng = root.fork(idx as u64);
        if ctx.out.wants(idx) { case_bin(ctx, idx, &mut rng, &var, ALL_FS[k % 5], k / 5); }
        idx += 1;
    }
    let n_tok = ctx.n(360, 6000);
    for k in 0..n_tok {
        let mut rng = root.fork(idx as u64);
        // token streams exist for DOS and ProDOS; keep a thin stream on the three that refuse
        let fs = if k % 10 < 8 { [Fs::Dos, Fs::Prodos][k % 2] } else { [Fs::Pascal, Fs::Cpm, Fs::Fat][(k / 10) % 3] };
        if ctx.out.wants(idx) { case_tok(ctx, idx, &mut rng, &var, fs, k / 2); }
        idx += 1;
    }
    let n_raw = ctx.n(300, 4000);
    for k in 0..n_raw {
        let mut rng = root.fork(idx as u64);
        if ctx.out.wants(idx) { case_raw(ctx, idx, &mut rng, &var, ALL_FS[k % 5], k / 5); }
        idx += 1;
    }
    for which in 0..2 {
        if ctx.out.wants(idx) { case_prodos_16m(ctx, idx, which); }
        idx += 1;
    }
    // ---- section B: text --------------------------------------------------------------------
    let n_txt = ctx.n(800, 12000);
    for k in 0..n_txt {
        let mut rng = root.fork(idx as u64);
        if ctx.out.wants(idx) { case_txt(ctx, idx, &mut rng, &var, ALL_FS[k % 5], k / 5); }
        idx += 1;
    }
    let n_conv = ctx.n(300, 5000);
    for k in 0..n_conv {
        let mut rng = root.fork(idx as u64);
        if ctx.out.wants(idx) { case_conv(ctx, idx, &mut rng, &var, ALL_FS[k % 5], k / 5); }
        idx += 1;
    }
    // ---- section C: records -----------------------------------------------------------------
    let n_rec = ctx.n(500, 8000);
    for k in 0..n_rec {
        let mut rng = root.fork(idx as u64);
        let fs = if k % 12 < 10 { [Fs::Dos, Fs::Prodos][k % 2] } else { [Fs::Pascal, Fs::Cpm, Fs::Fat][(k / 12) % 3] };
        if ctx.out.wants(idx) { case_rec(ctx, idx, &mut rng, fs, k / 2); }
        idx += 1;
    }
    // ---- section D: JSON --------------------------------------------------------------------
    let n_json = ctx.n(400, 6000);
    for k in 0..n_json {
        let mut rng = root.fork(idx as u64);
        if ctx.out.wants(idx) { case_json_fimg(ctx, idx, &mut rng, k); }
        idx += 1;
    }
    let n_jrec = ctx.n(250, 4000);
    for k in 0..n_jrec {
        let mut rng = root.fork(idx as u64);
        if ctx.out.wants(idx) { case_json_recs(ctx, idx, &mut rng, k); }
        idx += 1;
    }
    // ---- section E: escapes -----------------------------------------------------------------
    let n_esc = ctx.n(300, 5000);
    for k in 0..n_esc {
        let mut rng = root.fork(idx as u64);
        if ctx.out.wants(idx) { case_esc(ctx, idx, &mut rng, k); }
        idx += 1;
    }
    // ---- section F: re-use -------------------------------------------------------------------
    let n_reuse = ctx.n(500, 6000);
    for k in 0..n_reuse {
        let mut rng = root.fork(idx as u64);
        if ctx.out.wants(idx) { case_reuse(ctx, idx, &mut rng, &var, ALL_FS[k % 5], k / 5); }
        idx += 1;
    }
    // ---- section G: images as the file systems return them ---------------------------------------
    let n_ret = ctx.n(1400, 20000);
    for k in 0..n_ret {
        let mut rng = root.fork(idx as u64);
        if ctx.out.wants(idx) { case_ret(ctx, idx, &mut rng, &var, ALL_FS[k % 5], k / 5, false); }
        idx += 1;
    }
    let n_real = ctx.n(160, 3000);
    for k in 0..n_real {
        let mut rng = root.fork(idx as u64);
        if ctx.out.wants(idx) { case_ret(ctx, idx, &mut rng, &var, ALL_FS[k % 5], k / 5, true); }
        idx += 1;
    }
}
