//! harness family c17: the Applesoft minifier on generated valid programs, levels 0-3.
//!
//! Direct oracle (real code only; the observer is an independent ROM-style scanner, not tree-sitter):
//!   the result exists and is accepted again (`lang::verify_str`, ascending line numbers, tokenizes),
//!   every reference that resolved in the input resolves in the output, strings and DATA payloads
//!   are the same sequence, variables keep their two-character identity, and the sequence of
//!   reserved words the Apple II ROM would see is unchanged (REM aside).
//! Tie: the abstract structure of the input (what the minifier's passes look at) goes to the Lean
//!   model `A2Verif.Model.Minify`; its output lines / retargeted references / merged lengths are
//!   compared with what the real minifier produced.  Shortening rule and guard table likewise.
//! Sessions (`run_session`, appended after all other cases): ONE `Minifier` for several programs and levels, as the
//!   language server uses it; every result must equal that of a fresh object (`c17/object-reuse/result-differs`) and all
//!   oracles above plus the tie are applied to what the reused object answered.
use crate::util::*;
use a2kit::lang;
use a2kit::lang::applesoft::minifier::Minifier;
use a2kit::lang::applesoft::tokenizer::Tokenizer;
use std::collections::{BTreeMap, BTreeSet};

// ------------------------------------------------------------------------------------------------
// Apple II ROM reserved words in table order (token = 128 + index) and the tree-sitter node kinds
// ------------------------------------------------------------------------------------------------
const ROM: [(&str, &str); 107] = [
    ("END", "tok_end"), ("FOR", "tok_for"), ("NEXT", "tok_next"), ("DATA", "tok_data"), ("INPUT", "tok_input"),
    ("DEL", "tok_del"), ("DIM", "tok_dim"), ("READ", "tok_read"), ("GR", "tok_gr"), ("TEXT", "tok_text"),
    ("PR#", "tok_prn"), ("IN#", "tok_inn"), ("CALL", "tok_call"), ("PLOT", "tok_plot"), ("HLIN", "tok_hlin"),
    ("VLIN", "tok_vlin"), ("HGR2", "tok_hgr2"), ("HGR", "tok_hgr"), ("HCOLOR=", "tok_hcoloreq"), ("HPLOT", "tok_hplot"),
    ("DRAW", "tok_draw"), ("XDRAW", "tok_xdraw"), ("HTAB", "tok_htab"), ("HOME", "tok_home"), ("ROT=", "tok_roteq"),
    ("SCALE=", "tok_scaleeq"), ("SHLOAD", "tok_shload"), ("TRACE", "tok_trace"), ("NOTRACE", "tok_notrace"),
    ("NORMAL", "tok_normal"), ("INVERSE", "tok_inverse"), ("FLASH", "tok_flash"), ("COLOR=", "tok_coloreq"),
    ("POP", "tok_pop"), ("VTAB", "tok_vtab"), ("HIMEM:", "tok_himem"), ("LOMEM:", "tok_lomem"), ("ONERR", "tok_onerr"),
    ("RESUME", "tok_resume"), ("RECALL", "tok_recall"), ("STORE", "tok_store"), ("SPEED=", "tok_speedeq"),
    ("LET", "tok_let"), ("GOTO", "tok_goto"), ("RUN", "tok_run"), ("IF", "tok_if"), ("RESTORE", "tok_restore"),
    ("&", "tok_amp"), ("GOSUB", "tok_gosub"), ("RETURN", "tok_return"), ("REM", "tok_rem"), ("STOP", "tok_stop"),
    ("ON", "tok_on"), ("WAIT", "tok_wait"), ("LOAD", "tok_load"), ("SAVE", "tok_save"), ("DEF", "tok_def"),
    ("POKE", "tok_poke"), ("PRINT", "tok_print"), ("CONT", "tok_cont"), ("LIST", "tok_list"), ("CLEAR", "tok_clear"),
    ("GET", "tok_get"), ("NEW", "tok_new"), ("TAB(", "tok_tabp"), ("TO", "tok_to"), ("FN", "tok_fn"),
    ("SPC(", "tok_spcp"), ("THEN", "tok_then"), ("AT", "tok_at"), ("NOT", "tok_not"), ("STEP", "tok_step"),
    ("+", "tok_plus"), ("-", "tok_minus"), ("*", "tok_times"), ("/", "tok_div"), ("^", "tok_pow"), ("AND", "tok_and"),
    ("OR", "tok_or"), (">", "tok_gtr"), ("=", "tok_eq"), ("<", "tok_less"), ("SGN", "tok_sgn"), ("INT", "tok_int"),
    ("ABS", "tok_abs"), ("USR", "tok_usr"), ("FRE", "tok_fre"), ("SCRN(", "tok_scrnp"), ("PDL", "tok_pdl"),
    ("POS", "tok_pos"), ("SQR", "tok_sqr"), ("RND", "tok_rnd"), ("LOG", "tok_log"), ("EXP", "tok_exp"), ("COS", "tok_cos"),
    ("SIN", "tok_sin"), ("TAN", "tok_tan"), ("ATN", "tok_atn"), ("PEEK", "tok_peek"), ("LEN", "tok_len"),
    ("STR$", "tok_str"), ("VAL", "tok_val"), ("ASC", "tok_asc"), ("CHR$", "tok_chr"), ("LEFT$", "tok_left"),
    ("RIGHT$", "tok_right"), ("MID$", "tok_mid"),
];
const T_DATA: u8 = 131;
const T_REM: u8 = 178;
const T_GOTO: u8 = 171;
const T_GOSUB: u8 = 176;
const T_THEN: u8 = 196;
const T_RUN: u8 = 172;
const T_AT: u8 = 197;
const T_PRINT: u8 = 186;

fn kind_code(kind: &str) -> Option<u8> {
    ROM.iter().position(|(_, k)| *k == kind).map(|i| 128 + i as u8)
}

#[derive(Clone, Debug, PartialEq)]
enum RT {
    Kw(u8),
    Str(Vec<u8>),
    Data(Vec<u8>),
    Var(String),
    Num(String),
    Ch(u8),
}

/// What the Apple II would make of the text of one line (after its line number): reserved words are
/// matched greedily in table order at every position outside strings, blanks ignored.
fn rom_scan(body: &str) -> Vec<RT> {
    let b: Vec<u8> = body.bytes().collect();
    let mut raw: Vec<RT> = Vec::new();
    let mut i = 0;
    while i < b.len() {
        let c = b[i];
        if c == b' ' { i += 1; continue; }
        if c == b'"' {
            let mut j = i + 1;
            let mut s = Vec::new();
            while j < b.len() && b[j] != b'"' { s.push(b[j]); j += 1; }
            raw.push(RT::Str(s));
            i = if j < b.len() { j + 1 } else { j };
            continue;
        }
        if c == b'?' { raw.push(RT::Kw(T_PRINT)); i += 1; continue; }
        if (b'0'..=b';').contains(&c) { raw.push(RT::Ch(c)); i += 1; continue; }
        // try the reserved words
        let mut matched: Option<(u8, usize)> = None;
        for (t, (word, _)) in ROM.iter().enumerate() {
            let w = word.as_bytes();
            let mut j = i;
            let mut k = 0;
            while k < w.len() {
                while j < b.len() && b[j] == b' ' && k > 0 { j += 1; }
                if j < b.len() && b[j].to_ascii_uppercase() == w[k] { j += 1; k += 1; } else { break; }
            }
            if k == w.len() {
                let code = 128 + t as u8;
                if code == T_AT {
                    // ROM special cases: ATN wins over AT N, and A TO over AT O
                    if j < b.len() && (b[j].to_ascii_uppercase() == b'N' || b[j].to_ascii_uppercase() == b'O') { continue; }
                }
                matched = Some((code, j));
                break;
            }
        }
        match matched {
            Some((code, j)) => {
                raw.push(RT::Kw(code));
                i = j;
                if code == T_REM { break; }
                if code == T_DATA {
                    let mut s = Vec::new();
                    let mut inq = false;
                    while i < b.len() && (inq || b[i] != b':') {
                        if b[i] == b'"' { inq = !inq; }
                        s.push(b[i]);
                        i += 1;
                    }
                    raw.push(RT::Data(s));
                }
            }
            None => { raw.push(RT::Ch(c.to_ascii_uppercase())); i += 1; }
        }
    }
    // group identifier and number characters
    let mut out: Vec<RT> = Vec::new();
    let mut k = 0;
    while k < raw.len() {
        if let RT::Ch(c) = raw[k] {
            if c.is_ascii_alphabetic() {
                let mut s = String::new();
                while k < raw.len() {
                    if let RT::Ch(d) = raw[k] { if d.is_ascii_alphanumeric() { s.push(d as char); k += 1; continue; } }
                    break;
                }
                if k < raw.len() { if let RT::Ch(d) = raw[k] { if d == b'$' || d == b'%' { s.push(d as char); k += 1; } } }
                out.push(RT::Var(s));
                continue;
            }
            if c.is_ascii_digit() || c == b'.' {
                let mut s = String::new();
                while k < raw.len() {
                    if let RT::Ch(d) = raw[k] { if d.is_ascii_digit() || d == b'.' { s.push(d as char); k += 1; continue; } }
                    break;
                }
                out.push(RT::Num(s));
                continue;
            }
        }
        out.push(raw[k].clone());
        k += 1;
    }
    out
}

/// line number and the rest of a text line
fn split_line(line: &str) -> Option<(usize, &str)> {
    let t = line.trim_start();
    let mut digits = String::new();
    let mut end = 0;
    for (i, ch) in t.char_indices() {
        if ch.is_ascii_digit() { digits.push(ch); end = i + 1; } else if ch == ' ' { end = i + 1; } else { break; }
    }
    if digits.is_empty() { return None; }
    digits.parse::<usize>().ok().map(|n| (n, &t[end..]))
}

struct Obs {
    nums: Vec<usize>,
    refs: Vec<usize>,
    kws: Vec<u8>,
    lits: Vec<(u8, Vec<u8>)>,
    vars: Vec<(String, char, bool)>,
    per_line: Vec<(usize, Vec<RT>)>,
}

fn var_sig(v: &str) -> (String, char) {
    let (name, suf) = match v.chars().last() { Some('$') => (&v[..v.len() - 1], '$'), Some('%') => (&v[..v.len() - 1], '%'), _ => (v, ' ') };
    (name.chars().take(2).collect::<String>().to_uppercase(), suf)
}

fn line_refs(toks: &[RT]) -> Vec<usize> {
    let mut refs = Vec::new();
    let mut k = 0;
    while k < toks.len() {
        if let RT::Kw(c) = toks[k] {
            if c == T_GOTO || c == T_GOSUB || c == T_THEN || c == T_RUN {
                let mut j = k + 1;
                loop {
                    match toks.get(j) {
                        Some(RT::Num(s)) if !s.contains('.') => { if let Ok(n) = s.parse::<usize>() { refs.push(n); } j += 1; }
                        _ => break,
                    }
                    match toks.get(j) { Some(RT::Ch(b',')) if c != T_THEN && c != T_RUN => { j += 1; } _ => break }
                }
                k = j;
                continue;
            }
        }
        k += 1;
    }
    refs
}

fn observe(prog: &str) -> Obs {
    let mut o = Obs { nums: vec![], refs: vec![], kws: vec![], lits: vec![], vars: vec![], per_line: vec![] };
    for line in prog.lines() {
        if line.trim().is_empty() { continue; }
        if let Some((n, body)) = split_line(line) {
            let toks = rom_scan(body);
            o.nums.push(n);
            o.refs.extend(line_refs(&toks));
            for (k, t) in toks.iter().enumerate() {
                match t {
                    RT::Kw(c) => if *c != T_REM { o.kws.push(*c) },
                    RT::Str(s) => o.lits.push((b'S', s.clone())),
                    RT::Data(s) => o.lits.push((b'D', s.clone())),
                    // a name directly followed by `(` is an array (or FN) reference: part of its identity
                    RT::Var(v) => { let (n2, suf) = var_sig(v); o.vars.push((n2, suf, matches!(toks.get(k + 1), Some(RT::Ch(b'('))))); }
                    _ => {}
                }
            }
            o.per_line.push((n, toks));
        } else {
            o.nums.push(usize::MAX);
        }
    }
    o
}

// ------------------------------------------------------------------------------------------------
// the abstract structure the minifier's passes see (tree-sitter parse of one line)
// ------------------------------------------------------------------------------------------------
#[derive(Default, Clone, Debug)]
struct Abs {
    num: usize,
    rem: bool,
    rem_nested: bool,
    toks: Vec<u8>,
    data: bool,
    refs: Vec<usize>,
    ends_str: bool,
}

fn new_parser() -> tree_sitter::Parser {
    let mut p = tree_sitter::Parser::new();
    p.set_language(&tree_sitter_applesoft::language()).expect("grammar");
    p
}

/// emulate which nodes pass 1 visits (minifier.rs visit_pass1) and collect what it records
fn abs_walk(node: tree_sitter::Node, src: &str, a: &mut Abs, stop: &mut bool) {
    if *stop { return; }
    let kind = node.kind();
    if kind == "linenum" {
        if let Some(n) = lang::node_integer::<usize>(&node, src) {
            match node.parent() { Some(p) if p.kind() == "line" => a.num = n, _ => a.refs.push(n) }
        }
        return;
    }
    if let Some(c) = kind_code(kind) { a.toks.push(c); }
    if kind.starts_with("name_") && !kind.ends_with("amp") { return; }
    if kind == "statement" {
        if let Some(tok) = node.named_child(0) {
            if tok.kind() == "tok_rem" {
                if let Some(prev) = node.prev_named_sibling() { if prev.kind() == "statement" { return; } }
                match node.parent() { Some(p) if p.kind() == "line" => a.rem = true, _ => a.rem_nested = true }
                *stop = true;
                return;
            }
            if tok.kind() == "tok_data" { a.data = true; return; }
            if tok.kind() == "tok_amp" { return; }
        }
    }
    if kind == "str" { return; }
    if node.named_child_count() == 0 { return; }
    let mut c = node.walk();
    for ch in node.children(&mut c) { abs_walk(ch, src, a, stop); }
}

/// pass 3 (`visit_pass3`): does the line end with a `str` node?
fn ends_with_str(node: tree_sitter::Node, done: &mut Option<bool>) {
    if done.is_some() { return; }
    if node.kind() == "str" {
        let mut curr = node;
        while curr.kind() != "line" {
            if curr.next_sibling().is_some() { return; }
            match curr.parent() { Some(p) => curr = p, None => break }
        }
        *done = Some(true);
        return;
    }
    let mut c = node.walk();
    for ch in node.children(&mut c) { ends_with_str(ch, done); }
}

fn abstract_line(parser: &mut tree_sitter::Parser, line: &str) -> Abs {
    let src = String::from(line) + "\n";
    let tree = parser.parse(&src, None).expect("parse");
    let mut a = Abs::default();
    let mut stop = false;
    let root = tree.root_node();
    let mut c = root.walk();
    for ch in root.children(&mut c) {
        if ch.kind() == "line" {
            let mut c2 = ch.walk();
            for g in ch.children(&mut c2) { abs_walk(g, &src, &mut a, &mut stop); }
            let mut d = None;
            ends_with_str(ch, &mut d);
            a.ends_str = d.unwrap_or(false);
        }
    }
    a
}

// ------------------------------------------------------------------------------------------------
// the real code
// ------------------------------------------------------------------------------------------------
#[derive(Clone, Debug, PartialEq)]
enum Res { Ok(String), Err(String), Panic(String) }

fn minify(src: &str, level: usize) -> Res {
    match guarded(|| {
        let mut m = Minifier::new();
        m.set_level(level);
        m.minify(src).map_err(|e| e.to_string())
    }) {
        Ok(Ok(s)) => Res::Ok(s),
        Ok(Err(e)) => Res::Err(e),
        Err(p) => Res::Panic(panic_site(&p)),
    }
}

fn verifies(src: &str) -> bool {
    guarded(|| lang::verify_str(tree_sitter_applesoft::language(), src).is_ok()).unwrap_or(false)
}

fn tokenizes(src: &str) -> bool {
    guarded(|| { let mut t = Tokenizer::new(); t.tokenize(src, 2049).is_ok() }).unwrap_or(false)
}

// ------------------------------------------------------------------------------------------------
// generator
// ------------------------------------------------------------------------------------------------
/// PRINT items that start with a reserved word (every function / string function token, FN, NOT)
const ITEM_STARTS: [&str; 29] = [
    "ABS(X)", "ASC(A$)", "ATN(X)", "COS(X)", "EXP(X)", "FN Z(X)", "FRE(0)", "INT(X)", "LEN(A$)", "LOG(X)", "PDL(0)", "PEEK(X)",
    "POS(0)", "RND(1)", "SCRN(1,2)", "SGN(X)", "SIN(X)", "SQR(X)", "TAN(X)", "USR(X)", "VAL(A$)", "CHR$(65)", "LEFT$(A$,1)",
    "MID$(A$,1)", "RIGHT$(A$,1)", "STR$(X)", "SPC(3)", "TAB(3)", "NOT X",
];
/// shapes of the item that ends in the variable `@`: alone, tail of binary / unary expressions
const LEFT_SHAPES: [&str; 8] = ["@", "X+@", "-@", "NOT @", "(X)*@", "X OR @", "1<@", "X-(Y)/@"];

/// shapes of the FOLLOWING item built around the reserved-word-led operand `#`: alone, and as the left-most leaf of
/// binary arithmetic / relational / logical / string expressions (then the next named sibling of the name is a
/// `binary_aexpr` / `binary_sexpr`, not an `fcall`) -- what the name runs into is the FIRST TERMINAL of the item
const RIGHT_SHAPES: [&str; 10] = ["#", "#*2", "#+1", "#<1", "# AND Y", "# OR Y", "#*2+Y", "#^2-1", "#+B$", "#=B$"];

/// two-character name prefixes that would complete a reserved word with the first characters of
/// `item` (`CO`+`SIN(` = COS, `XI`+`FRE(` = IF): computed from the ROM table
fn hazard_prefixes(item: &str) -> Vec<String> {
    let text: String = item.chars().filter(|c| *c != ' ').collect::<String>().to_uppercase();
    let mut v: Vec<String> = Vec::new();
    for (kw, _) in ROM.iter() {
        for j in 1..=2usize {
            if j >= kw.len() || !text.starts_with(&kw[j..]) { continue; }
            let x = &kw[..j];
            if !x.chars().all(|c| c.is_ascii_alphanumeric()) { continue; }
            if j == 2 { if x.as_bytes()[0].is_ascii_alphabetic() { v.push(x.to_string()); } }
            else { for l in ["X", "Q", "B"] { v.push(format!("{}{}", l, x)); } }
        }
    }
    v.sort();
    v.dedup();
    v
}

/// (long variable name, following item) pairs that are hazardous when run together, all valid
fn juxt_hazards() -> Vec<(String, String)> {
    let mut v = Vec::new();
    for item in ITEM_STARTS.iter() {
        for pre in hazard_prefixes(item) {
            let name = format!("{}QQQ", pre);
            if verifies(&format!("10 PRINT X+{} {}\n", name, item)) { v.push((name, item.to_string())); }
        }
    }
    v
}

fn find_name<'t>(node: tree_sitter::Node<'t>, src: &str, name: &str) -> Option<tree_sitter::Node<'t>> {
    if node.kind().starts_with("name_") && lang::node_text(&node, src).replace(' ', "").eq_ignore_ascii_case(name) { return Some(node); }
    let mut c = node.walk();
    for ch in node.children(&mut c) { if let Some(n) = find_name(ch, src, name) { return Some(n); } }
    None
}

/// what `needs_guard`'s climb finds for the first occurrence of variable `name` in `line`, in the
/// vocabulary of the Lean model (`MinifyVars.Next`): `none`, `sub`, a token code, `node1` / `node0`
fn climb_next(parser: &mut tree_sitter::Parser, line: &str, name: &str) -> Option<String> {
    let src = String::from(line) + "\n";
    let tree = parser.parse(&src, None)?;
    let mut node = find_name(tree.root_node(), &src, name)?;
    while node.next_named_sibling().is_none() {
        match node.parent() { Some(p) => node = p, None => return Some("none".into()) }
    }
    let next = node.next_named_sibling().unwrap();
    if let Some(c) = kind_code(next.kind()) { return Some(c.to_string()); }
    if next.kind() == "subscript" { return Some("sub".into()); }
    Some(if node.next_sibling() == Some(next) { "node1".into() } else { "node0".into() })
}

const REALS: [&str; 44] = [
    "X", "Y", "I", "J", "N", "K", "AB", "ABC", "ABD", "ABCDE", "ABX", "ABXYZ", "COX", "COXYZ", "LOX", "LOXYZ", "GEX", "GEXYZ",
    "LEX", "LIXY", "LIXYZ", "NOX", "NOXYZ", "POX", "POXYZ", "INX", "INXYZ", "GOX", "GOXYZ", "XAB", "XABCD", "XFY", "XFYZZ", "XTZ",
    "XTZZZ", "STX", "STXYZ", "HELLO", "XA1B2", "B2C3", "SCALE", "CUBE", "WIDTH", "XIB",
];
const BAD_NAMES: [&str; 8] = ["TOTAL", "SCORE", "ATNX", "FNX", "COUNTER", "ZZTOP", "XSTEP", "IFY"];
const STRS: [&str; 8] = ["A$", "B$", "ABC$", "ABD$", "NAME$", "NA$", "XTQ$", "LOW$"];
const INTS: [&str; 5] = ["I%", "AB%", "ABC%", "COUNT%", "XAB%"];
const TEXTS: [&str; 14] = [
    "HELLO", "GOTO 100", "REM NOT A COMMENT", "PRINT:END", "A,B;C", " LEAD", "TRAIL ", "IF X THEN 10", "DATA 1,2", "?", "", "X=1:Y=2",
    "ON ERR", "ATN TO STEP",
];
const DATAW: [&str; 9] = ["APPLE", "GOTO", "REM X", "A B", "THEN 10", "FOR", "X=1", "PRINT", "ON"];

struct Gen<'a> {
    r: &'a mut Rng,
    nums: Vec<usize>,
    rem_lines: Vec<usize>,
    juxt: bool,
    haz: &'a [(String, String)],
}

impl<'a> Gen<'a> {
    fn casefix(&mut self, s: &str) -> String { if self.r.chance(8) { s.to_lowercase() } else { s.to_string() } }
    fn sp(&mut self) -> &'static str { if self.r.chance(70) { " " } else if self.r.chance(50) { "" } else { "  " } }
    fn real(&mut self) -> String {
        if self.r.chance(3) { let s = *self.r.pick(&BAD_NAMES); return s.to_string(); }
        let s = *self.r.pick(&REALS);
        self.casefix(s)
    }
    fn avar(&mut self, depth: usize) -> String {
        let base = if self.r.chance(12) { let s = *self.r.pick(&INTS); self.casefix(s) } else { self.real() };
        if depth > 0 && self.r.chance(12) { format!("{}({})", base, self.aexpr(depth - 1)) } else { base }
    }
    fn svar(&mut self) -> String { let s = *self.r.pick(&STRS); self.casefix(s) }
    fn num(&mut self) -> String {
        match self.r.below(6) { 0 => "0".into(), 1 => "1".into(), 2 => format!("{}", self.r.below(256)), 3 => "3.14".into(), 4 => ".5".into(), _ => format!("{}", self.r.below(40000)) }
    }
    fn text(&mut self) -> String { let s = *self.r.pick(&TEXTS); s.to_string() }
    fn strlit(&mut self, open_ok: bool) -> String {
        let t = self.text();
        if open_ok && self.r.chance(35) { format!("\"{}", t.trim_end()) } else { format!("\"{}\"", t) }
    }
    fn aexpr(&mut self, depth: usize) -> String {
        match self.r.below(if depth == 0 { 2 } else { 8 }) {
            0 => self.num(),
            1 => self.avar(depth),
            2 | 3 => { let op = *self.r.pick(&["+", "-", "*", "/", "^"]); format!("{}{}{}{}{}", self.avar(depth - 1), self.sp(), op, self.sp(), self.aexpr(depth - 1)) }
            4 => format!("({})", self.aexpr(depth - 1)),
            5 => { let f = *self.r.pick(&["ABS", "INT", "SGN", "PEEK", "RND", "SQR", "ATN"]); format!("{}({})", f, self.aexpr(depth - 1)) }
            6 => format!("LEN({})", self.svar()),
            _ => format!("- {}", self.avar(depth - 1)),
        }
    }
    fn cond(&mut self, depth: usize) -> String {
        let base = match self.r.below(4) {
            0 => self.avar(1),
            1 => format!("{} = {}", self.svar(), self.strlit(false)),
            _ => { let op = *self.r.pick(&["=", "<", ">", "<=", ">=", "<>"]); format!("{}{}{}{}{}", self.aexpr(1), self.sp(), op, self.sp(), self.avar(1)) }
        };
        if depth > 0 && self.r.chance(30) { let op = *self.r.pick(&["AND", "OR"]); format!("{} {} {}", base, op, self.cond(depth - 1)) } else { base }
    }
    fn sexpr(&mut self, open_ok: bool) -> String {
        match self.r.below(6) {
            0 | 1 => self.strlit(open_ok),
            2 => self.svar(),
            3 => format!("CHR$({})", self.r.below(128)),
            4 => format!("LEFT$({},{})", self.svar(), self.r.range(1, 5)),
            _ => format!("{} + {}", self.svar(), self.strlit(open_ok)),
        }
    }
    fn target(&mut self) -> usize {
        let k = self.r.below(100);
        if k < 55 && !self.rem_lines.is_empty() { *self.r.pick(&self.rem_lines) }
        else if k < 92 { *self.r.pick(&self.nums) }
        else { let n = *self.r.pick(&self.nums); n + 1 + self.r.below(3) }
    }
    /// one statement; `last` = it ends the line (an unterminated string is allowed there)
    fn stmt(&mut self, last: bool, depth: usize) -> String {
        let k = self.r.below(100);
        match k {
            0..=15 => {
                let mut s = if self.r.chance(10) { "?".to_string() } else { "PRINT".to_string() };
                if self.r.chance(8) && !self.haz.is_empty() {
                    // items run together: the left one ends in a long variable (alone or as the tail of a
                    // compound expression), the right one starts with a reserved word
                    let (name, item) = if self.r.chance(75) { let h = self.r.pick(self.haz); (h.0.clone(), h.1.clone()) }
                        else { (self.real(), (*self.r.pick(&ITEM_STARTS)).to_string()) };
                    let left = (*self.r.pick(&LEFT_SHAPES)).replace('@', &self.casefix(&name));
                    self.juxt = true;
                    let lead = if self.r.chance(30) { format!("{};", self.sexpr(false)) } else { String::new() };
                    return format!("{} {}{}{}{}", s, lead, left, self.sp(), item);
                }
                let n = self.r.below(4);
                for i in 0..n {
                    s += self.sp();
                    let open = last && i + 1 == n;
                    s += &(if self.r.chance(50) { self.sexpr(open) } else { self.aexpr(2) });
                    if i + 1 < n {
                        if self.r.chance(3) { self.juxt = true; s += " "; } else { s += *self.r.pick(&[";", ",", ";", ";;", " ; "]); }
                    } else if self.r.chance(25) && !s.ends_with(|c: char| c != '"' && !c.is_ascii_alphanumeric() && c != ')' && c != '$') {
                        if !(open && !s.ends_with('"')) || s.ends_with('"') { s += ";"; }
                    }
                }
                s
            }
            16..=23 => format!("{}{}={}{}", self.svar(), self.sp(), self.sp(), self.sexpr(last)),
            24..=33 => { let l = if self.r.chance(15) { "LET " } else { "" }; format!("{}{}{}={}{}", l, self.avar(2), self.sp(), self.sp(), self.aexpr(2)) }
            34..=41 => format!("GOTO {}", self.target()),
            42..=49 => format!("GOSUB {}", self.target()),
            50..=55 => format!("IF {} THEN {}", self.cond(1), self.target()),
            56..=58 => format!("IF {} GOTO {}", self.cond(1), self.target()),
            59..=63 => if depth > 0 { format!("IF {} THEN {}", self.cond(1), self.stmt(last, depth - 1)) } else { "RETURN".into() },
            64..=69 => {
                let g = *self.r.pick(&["GOTO", "GOSUB"]);
                let n = self.r.range(1, 3);
                let ts: Vec<String> = (0..n).map(|_| self.target().to_string()).collect();
                format!("ON {} {} {}", self.aexpr(1), g, ts.join(","))
            }
            70 => format!("ONERR GOTO {}", self.target()),
            71 => format!("RUN {}", self.target()),
            72..=76 => {
                let st = if self.r.chance(40) { format!(" STEP {}", self.aexpr(1)) } else { String::new() };
                format!("FOR {} = {} TO {}{}", self.real(), self.aexpr(1), self.aexpr(1), st)
            }
            77..=78 => if self.r.chance(50) { "NEXT".into() } else { format!("NEXT {}", self.real()) },
            79..=80 => format!("READ {}", if self.r.chance(50) { self.svar() } else { self.avar(1) }),
            81 => format!("INPUT {};{}", self.strlit(false), self.svar()),
            82 => format!("DIM {}({})", self.real(), self.r.range(1, 20)),
            83 => format!("POKE {},{}", self.aexpr(1), self.aexpr(1)),
            84 => format!("HLIN {},{} AT {}", self.aexpr(1), self.aexpr(1), self.aexpr(1)),
            85 => format!("HPLOT {},{} TO {},{}", self.aexpr(1), self.aexpr(1), self.aexpr(1), self.aexpr(1)),
            86 => format!("VTAB {}", self.aexpr(1)),
            87 => format!("DRAW {} AT {},{}", self.aexpr(1), self.aexpr(1), self.aexpr(1)),
            88 => "RETURN".into(),
            89 => "END".into(),
            90 => (*self.r.pick(&["HOME", "TEXT", "GR", "POP", "RESTORE", "STOP", "RESUME", "NORMAL"])).to_string(),
            91 => format!("GET {}", self.svar()),
            92 => format!("CALL {}", self.aexpr(1)),
            93 => if self.r.chance(30) { (*self.r.pick(&["LIST", "LIST 10,20", "DEL 10,20"])).to_string() } else { "HOME".into() },
            94 => format!("DEF FN {}({}) = {}", self.real(), "X", self.aexpr(1)),
            _ => "TEXT".into(),
        }
    }
    fn data_stmt(&mut self) -> String {
        let n = self.r.range(1, 4);
        let mut items = Vec::new();
        for i in 0..n {
            let it = match self.r.below(4) {
                0 => self.num(),
                1 => { let w = *self.r.pick(&DATAW); w.to_string() }
                2 => self.strlit(i + 1 == n),
                _ => format!(" {} ", self.r.below(100)),
            };
            items.push(it);
        }
        format!("DATA{}{}", self.sp(), items.join(","))
    }
    fn rem_text(&mut self) -> String { let t = self.text(); format!("REM{}{}", self.sp(), t) }
    fn line_body(&mut self, is_rem: bool) -> String {
        if is_rem { return self.rem_text(); }
        if self.r.chance(3) { return format!("IF {} THEN {}", self.cond(0), self.rem_text()); }
        let n = self.r.range(1, 3);
        let mut parts: Vec<String> = Vec::new();
        let data_last = self.r.chance(10);
        let trail_rem = !data_last && self.r.chance(15);
        for i in 0..n {
            let last = i + 1 == n && !data_last && !trail_rem;
            parts.push(self.stmt(last, 1));
        }
        if data_last { parts.push(self.data_stmt()); }
        if trail_rem { parts.push(self.rem_text()); }
        let mut s = String::new();
        if self.r.chance(4) { s += ":"; }
        for (i, p) in parts.iter().enumerate() {
            if i > 0 { s += *self.r.pick(&[":", ":", " : ", "::", ": "]); }
            s += p;
        }
        if self.r.chance(4) && !s.ends_with('"') && !data_last { s += ":"; }
        s
    }
}

fn gen_program(r: &mut Rng, discards: &mut u64, haz: &[(String, String)]) -> (String, bool) { gen_program_at(r, discards, haz, None) }

/// `start`: force the first line number (sessions: programs of one session share number ranges, so that line numbers
/// of one program coincide with branch targets / deleted REM lines of another)
fn gen_program_at(r: &mut Rng, discards: &mut u64, haz: &[(String, String)], start: Option<usize>) -> (String, bool) {
    let n = r.range(2, 9);
    let start0 = *r.pick(&[1usize, 5, 10, 10, 100, 1000, 63000]);
    let start = start.unwrap_or(start0);
    let step = *r.pick(&[1usize, 5, 10, 10, 10, 100]);
    let nums: Vec<usize> = (0..n).map(|i| start + i * step).collect();
    // which lines are REM-only: chains, first / last line forced now and then
    let mut is_rem = vec![false; n];
    for i in 0..n {
        let p = if i > 0 && is_rem[i - 1] { 45 } else { 22 };
        is_rem[i] = r.chance(p);
    }
    if r.chance(25) { is_rem[0] = true; }
    if r.chance(25) { is_rem[n - 1] = true; }
    let rem_lines: Vec<usize> = (0..n).filter(|i| is_rem[*i]).map(|i| nums[i]).collect();
    let mut g = Gen { r, nums: nums.clone(), rem_lines, juxt: false, haz };
    let mut prog = String::new();
    for i in 0..n {
        let mut line = String::new();
        let mut ok = false;
        for _try in 0..6 {
            let body = g.line_body(is_rem[i]);
            line = format!("{}{}{}", nums[i], g.sp(), body);
            if line.len() <= 120 && verifies(&line) { ok = true; break; }
            *discards += 1;
        }
        if !ok { line = format!("{} PRINT", nums[i]); }
        prog += &line;
        prog += "\n";
    }
    (prog, g.juxt)
}

/// fixed programs that must always be part of the run (witnesses of DESIGN §9 item 24 and of what
/// was found while building this family)
const FIXED: [&str; 14] = [
    "10 GOSUB 20\n15 X=1\n20 REM SUB\n30 PRINT\n40 RETURN\n",
    "10 PRINT\n20 REM END\n",
    "10 GOTO 30\n20 X=1\n30 REM LAST\n",
    "10 REM FIRST\n20 REM SECOND\n30 GOTO 10\n40 GOSUB 20\n50 END\n",
    "10 ON LOX GOTO 10,50\n50 END\n",
    "10 ON LOXYZ GOSUB 50\n20 END\n50 RETURN\n",
    "10 DATA \"ABC\n20 PRINT\n30 END\n",
    "10 A$=\"HI\": IF X THEN REM HI\n20 END\n",
    "10 FOR I = ABC TO GEXYZ STEP COX\n20 IF XABCD THEN 40\n30 NEXT: X = XFYZZ OR XTZ AND STXYZ\n40 END\n",
    "10 PRINT \"ABC\"\n20 PRINT \"DEF\n30 A$=\"X\":REM TRAIL\n40 PRINT A$;\"Y\";B$\n50 END\n",
    "10 IF X THEN 60\n20 IF X GOTO 60\n30 ON X GOTO 60,70,80\n60 REM A\n70 REM B\n80 REM C\n90 PRINT\n",
    "10 HELLO=1:HELP=2:HE=3:HELLO$=\"A\":HELLO%=4:XA1B2(1)=5\n20 PRINT HELLO;HELP;HE;HELLO$;HELLO%;XA1B2(1)\n",
    "100 ONERR GOTO 900\n110 RUN 900\n120 GOTO 901\n900 REM HANDLER\n910 RESUME\n",
    "10 HLIN 1,2 AT XABC: DRAW 1 AT ABX,2\n20 LIST\n30 REM X\n40 GOTO 30\n50 END\n",
];
/// hazards kept apart under their own signature prefix: PRINT items run together without separator
/// (repaired by the proposed fix), and a reserved word that spans three nodes (`XS`+`TO`+`P` = `STOP`;
/// no next-token guard can see it: known finding, not repaired)
const SPECIAL: [(&str, &str); 2] = [
    ("10 PRINT XIB FRE(0)\n20 END\n", "c17/print-juxtaposition"),
    ("10 FOR I = XSQ TO P\n20 END\n", "c17/three-node-token"),
];

/// later witnesses (appended after the generated stream so that earlier case numbers stay put):
/// a long variable ending a compound PRINT item that runs into a function call, and `;` between a
/// string variable and `(`
const FIXED2: [(&str, &str); 6] = [
    ("10 PRINT X+COUNT SIN(X)\n20 END\n", "c17/print-juxtaposition"),
    ("10 PRINT -INDEX TAN(X)\n20 END\n", "c17/print-juxtaposition"),
    ("10 PRINT X*ABACUS SGN(X);NOT XIBQQ FRE(0)\n20 END\n", "c17/print-juxtaposition"),
    ("10 PRINT A$;(X)*2\n20 END\n", "c17"),
    ("10 PRINT NAME$;(X);B$;(Y)\n20 END\n", "c17"),
    ("10 PRINT CHR$(65);(X);\"A\";(Y);AB%;(X);ABC;(X)\n20 END\n", "c17"),
];

// ------------------------------------------------------------------------------------------------
// one case
// ------------------------------------------------------------------------------------------------
fn ascending(nums: &[usize]) -> bool { nums.windows(2).all(|w| w[0] < w[1]) && nums.iter().all(|n| *n <= 63999) }

fn natlist(v: &[usize]) -> String { if v.is_empty() { "-".into() } else { v.iter().map(|x| x.to_string()).collect::<Vec<_>>().join(",") } }

fn lit_ids(toks: &[RT], table: &mut Vec<(u8, Vec<u8>)>, add: bool) -> Vec<usize> {
    let mut ids = Vec::new();
    for t in toks {
        let key = match t { RT::Str(s) => (b'S', s.clone()), RT::Data(s) => (b'D', s.clone()), _ => continue };
        match table.iter().position(|k| *k == key) {
            Some(i) => ids.push(i + 1),
            None => if add { table.push(key); ids.push(table.len()); } else { ids.push(9999); }
        }
    }
    ids
}

fn run_case(ctx: &mut Ctx, idx: usize, prog: &str, fam: &str) {
    let results: Vec<Res> = (0..4).map(|l| minify(prog, l)).collect();
    run_case_with(ctx, idx, prog, fam, results, "");
}

/// all oracles and the model tie on the four results `results[level]` of one program, wherever they come from
/// (fresh objects, or one long-lived object in the middle of a session: `note` then says where)
fn run_case_with(ctx: &mut Ctx, idx: usize, prog: &str, fam: &str, results: Vec<Res>, note: &str) {
    let inp = observe(prog);
    let valid_in = verifies(prog) && ascending(&inp.nums) && tokenizes(prog);
    if !valid_in {
        ctx.out.count("input-invalid-skipped");
        return;
    }
    let mut parser = new_parser();
    let in_lines: Vec<&str> = prog.lines().filter(|l| !l.trim().is_empty()).collect();
    let abs: Vec<Abs> = in_lines.iter().map(|l| abstract_line(&mut parser, l)).collect();
    let mut lit_table: Vec<(u8, Vec<u8>)> = Vec::new();
    let in_lits: Vec<Vec<usize>> = inp.per_line.iter().map(|(_, t)| lit_ids(t, &mut lit_table, true)).collect();
    let in_set: BTreeSet<usize> = inp.nums.iter().cloned().collect();
    let mut nontrivial = false;
    // observed variant bits for the tie
    let mut bit_remap = true;
    let mut bit_keeplast = true;
    let mut bit_data = true;
    let mut bit_remtop = true;
    let mut parses = [true; 4];
    let mut lits_bad = [false; 4];
    let last_deletable = abs.last().map(|a| a.rem || a.rem_nested).unwrap_or(false);

    for level in 0..4usize {
        let case = format!("idx={} level={} prog={:?}{}", idx, level, prog, note);
        let res = &results[level];
        ctx.out.count(&format!("level{}", level));
        let out = match res {
            Res::Ok(s) => s.clone(),
            Res::Err(e) => {
                let sig = if level >= 2 && last_deletable && e.contains("Line Number") { "c17/level2/final-rem-error".to_string() }
                    else { format!("{}/error:{}", fam, e.replace(' ', "-")) };
                if sig == "c17/level2/final-rem-error" {
                    bit_keeplast = false;
                    if let Some(a) = abs.last() { if a.rem_nested && !a.rem { bit_remtop = false; } }
                }
                ctx.out.oracle(false, "c17-output-exists", &sig, &case);
                continue;
            }
            Res::Panic(p) => { ctx.out.oracle(false, "c17-output-exists", &format!("panic:{}", p), &case); continue; }
        };
        ctx.out.oracle(true, "c17-output-exists", "-", &case);
        if level == 0 {
            ctx.out.oracle(out == prog, "c17-level0-identity", "c17/level0/changed", &case);
            continue;
        }
        let o = observe(&out);
        // 1 valid again
        let valid = verifies(&out) && ascending(&o.nums) && tokenizes(&out);
        // one root cause, one signature: classify before the individual clauses are checked
        let lone_quote = inp.per_line.iter().any(|(_, t)| matches!(t.last(), Some(RT::Str(s)) if s.is_empty()))
            && prog.lines().any(|l| l.trim_end().ends_with('"') && l.matches('"').count() % 2 == 1);
        let l2_obs = match &results[2] { Res::Ok(s) => Some(observe(s)), _ => None };
        let nested_deleted = level >= 2 && abs.iter().any(|a| a.rem_nested && !a.rem && !o.nums.contains(&a.num)
            && !(level == 3 && l2_obs.as_ref().map_or(false, |x| x.nums.contains(&a.num))));
        let data_absorbed = level == 3 && o.per_line.iter().any(|(_, t)| match t.iter().position(|x| matches!(x, RT::Data(_))) { Some(p) => p + 1 < t.len(), None => false })
            && inp.lits.iter().any(|(k, d)| *k == b'D' && d.iter().filter(|c| **c == b'"').count() % 2 == 1);
        let data_swallow = level == 3 && inp.lits.iter().any(|(k, d)| *k == b'D' && d.iter().filter(|c| **c == b'"').count() % 2 == 1)
            && l2_obs.as_ref().map_or(false, |x| x.lits == inp.lits) && o.lits != inp.lits;
        let root: Option<String> = if nested_deleted { Some("c17/level2/if-then-rem-line-deleted".into()) }
            else if data_absorbed || data_swallow { Some("c17/level3/data-payload-changed".into()) }
            else if lone_quote { Some("c17/lone-quote-dropped".into()) } else { None };
        // statements swallowed by an unterminated DATA string: the output's structure is not comparable
        if data_absorbed || data_swallow { parses[level] = false; }
        let swallowed = data_absorbed || data_swallow;
        // `A$;(X)` (or `A$;LONGNAME` with a guarded name) written as `A$(…`: a scalar turned into an array reference
        let squeeze = |t: &str| t.chars().filter(|c| *c != ' ').collect::<String>();
        let semi_paren = squeeze(&out).matches("$(").count() > squeeze(prog).matches("$(").count();
        let root = if semi_paren { Some("c17/semicolon-before-paren-dropped".to_string()) } else { root };
        let sig_of = |specific: &str| -> String { match &root { Some(r) => r.clone(), None => format!("{}/{}", fam, specific) } };
        let inv_sig = if semi_paren { "c17/semicolon-before-paren-dropped".to_string() }
            else if out.contains(")(") && !prog.contains(")(") { "c17/array-name-parenthesized".to_string() }
            else if root.is_some() { sig_of("") }
            else if o.kws != inp.kws { format!("{}/hidden-token", fam) }
            else { sig_of("output-invalid") };
        ctx.out.oracle(valid, "c17-output-valid", &inv_sig, &case);
        parses[level] = valid && !swallowed;
        if !valid { continue; }
        // 2 references
        let out_set: BTreeSet<usize> = o.nums.iter().cloned().collect();
        let l2_heads: BTreeSet<usize> = match &results[2] { Res::Ok(s) => observe(s).nums.into_iter().collect(), _ => BTreeSet::new() };
        if o.refs.len() != inp.refs.len() {
            ctx.out.oracle(false, "c17-references", &sig_of("references-dropped"), &case);
        } else {
            let mut ok = true;
            let mut sig = sig_of("dangling-reference");
            for (a, b) in inp.refs.iter().zip(o.refs.iter()) {
                if in_set.contains(a) {
                    if !out_set.contains(b) || b < a {
                        ok = false;
                        if level == 3 && l2_heads.contains(b) { sig = "c17/level3/target-merged-away".to_string(); bit_remap = false; }
                    }
                    if a != b { nontrivial = true; }
                } else if a != b { ok = false; sig = sig_of("unresolved-reference-changed"); }
            }
            ctx.out.oracle(ok, "c17-references", &sig, &case);
        }
        // 3 strings and DATA payloads
        let lits_ok = o.lits == inp.lits;
        lits_bad[level] = !lits_ok;
        ctx.out.oracle(lits_ok, "c17-literals", &sig_of("literal-changed"), &case);
        // 4 variables keep their identity
        ctx.out.oracle(o.vars == inp.vars, "c17-variables", &sig_of("variable-identity-changed"), &case);
        if o.vars == inp.vars && out.len() < prog.len() { nontrivial = true; }
        // 5 reserved words as the ROM sees them
        ctx.out.oracle(o.kws == inp.kws, "c17-reserved-words", &sig_of("reserved-words-changed"), &case);
        // variant observations
        if level >= 2 {
            for a in &abs { if a.rem_nested && !a.rem && !out_set.contains(&a.num) && !(level == 3 && l2_heads.contains(&a.num)) { bit_remtop = false; } }
        }
        if level == 3 {
            // was the line after a DATA line appended to it?
            let l2: Vec<usize> = l2_heads.iter().cloned().collect();
            for a in abs.iter().filter(|a| a.data) {
                if let Some(p) = l2.iter().position(|n| *n == a.num) {
                    if p + 1 < l2.len() && !out_set.contains(&l2[p + 1]) { bit_data = false; }
                }
            }
            if out.lines().count() < l2_heads.len() { nontrivial = true; }
        }
    }
    // ---- tie with the Lean model (levels 1-3) ----
    let cfg = format!("{}{}{}{}", bit_remap as u8, bit_keeplast as u8, bit_data as u8, bit_remtop as u8);
    ctx.out.count(&format!("cfg-{}", cfg));
    for level in 1..4usize {
        // an output that does not parse has no abstract structure to compare (already reported above)
        if !parses[level] || (level == 3 && !parses[2]) { ctx.out.count("tie-skipped-unparsable-output"); continue; }
        // lengths / trailing strings of the stage-2 text: level 1 for level 1, level 2 otherwise
        let stage2 = match &results[if level == 1 { 1 } else { 2 }] { Res::Ok(s) => s.clone(), _ => String::new() };
        let mut s2: BTreeMap<usize, (usize, bool)> = BTreeMap::new();
        for l in stage2.lines() {
            let a = abstract_line(&mut parser, l);
            s2.insert(a.num, (l.len(), a.ends_str));
        }
        let mut req = format!("c17 min {} {}", cfg, level);
        for (i, a) in abs.iter().enumerate() {
            let (len, ends) = s2.get(&a.num).cloned().unwrap_or((0, false));
            let toks: Vec<usize> = a.toks.iter().map(|c| *c as usize).collect();
            req += &format!(" {}:{}:{}:{}:{}:{}:{}:{}:{}", a.num, a.rem as u8, a.rem_nested as u8, natlist(&toks), a.data as u8, len,
                ends as u8, natlist(&a.refs), if bit_data && !lits_bad[level] { natlist(&in_lits[i]) } else { "-".to_string() });
        }
        let ans = match &results[level] {
            Res::Ok(s) => {
                let mut v = vec!["ok".to_string()];
                for l in s.lines() {
                    let a = abstract_line(&mut parser, l);
                    let body = split_line(l).map(|x| x.1).unwrap_or("");
                    // (literals that the oracle above already reported as changed are left out of the comparison)
                    let ids = if bit_data && !lits_bad[level] { lit_ids(&rom_scan(body), &mut lit_table, false) } else { vec![] };
                    v.push(format!("{}:{}:{}:{}", a.num, l.len(), natlist(&a.refs), natlist(&ids)));
                }
                v.join(" ")
            }
            Res::Err(_) => "err".to_string(),
            Res::Panic(_) => "panic".to_string(),
        };
        ctx.out.q(&req, &ans);
    }
    for level in 0..4 { ctx.out.case(format!("{}|{}", level, prog).as_bytes(), nontrivial && level > 0); }
    if nontrivial { ctx.out.count("nontrivial-programs"); }
    ctx.out.sample(&format!("idx={} {:?} => L3 {:?}", idx, prog, results[3]));
}

// ------------------------------------------------------------------------------------------------
// shortening rule and guard table against the model
// ------------------------------------------------------------------------------------------------
fn run_short_cases(ctx: &mut Ctx, base: usize) {
    // (template, name position marker `@`, follower kind): the real minifier tells us whether it guarded
    // (template with `@` for the name, its minified text before / after the name, following token kind)
    let followers: [(&str, &str, &str, &str); 8] = [
        ("10 FOR I = @ TO 5", "10FORI=", "TO5", "tok_to"), ("10 FOR I = 1 TO 9 STEP @: NEXT", "10FORI=1TO9STEP", ":NEXT", ""),
        ("10 FOR I = 1 TO @ STEP 2", "10FORI=1TO", "STEP2", "tok_step"), ("10 IF @ THEN 10", "10IF", "THEN10", "tok_then"),
        ("10 ON @ GOTO 10", "10ON", "GOTO10", "tok_goto"), ("10 ON @ GOSUB 10", "10ON", "GOSUB10", "tok_gosub"),
        ("10 X = @ OR Y", "10X=", "ORY", "tok_or"), ("10 X = @ AND Y", "10X=", "ANDY", "tok_and"),
    ];
    let idx = base;
    if !ctx.out.wants(idx) { return; }
    let mut n = 0u64;
    for a in b'A'..=b'Z' {
        for b in (b'A'..=b'Z').chain(b'0'..=b'9') {
            for tail in ["Q", "QQQ"] {
                let name = format!("{}{}{}", a as char, b as char, tail);
                for (tpl, pre, suf, foll) in followers.iter() {
                    let src = tpl.replace('@', &name) + "\n";
                    if !verifies(&src) { continue; }
                    let out = match minify(&src, 1) { Res::Ok(s) => s, _ => continue };
                    n += 1;
                    // what did the real code write for the name?
                    let short2 = &name[0..2];
                    let line = out.trim_end();
                    let written = if line.len() >= pre.len() + suf.len() && line.starts_with(pre) && line.ends_with(suf) {
                        line[pre.len()..line.len() - suf.len()].to_string() } else { line.to_string() };
                    let guarded_real = written != short2;
                    // the output must read the same to the ROM
                    let (i, o) = (observe(&src), observe(&out));
                    let ok = verifies(&out) && i.kws == o.kws && i.vars == o.vars;
                    ctx.out.oracle(ok, "c17-reserved-words", "c17/hidden-token", &format!("idx={} level=1 prog={:?} out={:?}", idx, src, out));
                    if !ok { continue; } // nothing sensible to compare with the model
                    if let Some(code) = if foll.is_empty() { None } else { kind_code(foll) } {
                        ctx.out.q(&format!("c17 guard {} {}", hx(short2.as_bytes()), code), if guarded_real { "1" } else { "0" });
                    } else {
                        // no following sibling at all: never guarded
                        ctx.out.oracle(!guarded_real, "c17-guard-last", "c17/guard-without-follower", &format!("idx={} {}", idx, src.trim()));
                    }
                    ctx.out.q(&format!("c17 short r {} {}", hx(name.as_bytes()), guarded_real as u8), &hx(written.as_bytes()));
                }
            }
        }
    }
    // string / integer names
    for (name, kind) in [("HELLO$", "s"), ("HEL$", "s"), ("HE$", "s"), ("H$", "s"), ("HELLO%", "i"), ("HEL%", "i"), ("HE%", "i"), ("hello$", "s"), ("HELLO", "r"), ("HEL", "r"), ("HE", "r"), ("H", "r")] {
        let src = format!("10 PRINT {}\n", name);
        if let Res::Ok(out) = minify(&src, 1) {
            let written = out.trim_end().trim_start_matches("10PRINT").to_string();
            ctx.out.q(&format!("c17 short {} {} 0", kind, hx(name.as_bytes())), &hx(written.as_bytes()));
            n += 1;
        }
    }
    ctx.out.count_n("short-name-cases", n);
    ctx.out.case(b"short-name-sweep", true);
}

/// PRINT items run together: every item-starting reserved word × the name prefixes that complete a
/// reserved word with it (plus controls; all 936 prefixes in the thorough tier) × every shape of
/// the left item × two name lengths, through the real minifier; oracle = the ROM reads the same,
/// tie = `needs_guard` in full (`c17 guardnode`) on what the climb from the name node finds
fn run_juxt_cases(ctx: &mut Ctx, idx: usize) {
    if !ctx.out.wants(idx) { return; }
    let mut parser = new_parser();
    let mut n = 0u64;
    let mut hazardous = 0u64;
    let mut composite = 0u64;
    let all: Vec<String> = if ctx.tier_thorough {
        let mut v = Vec::new();
        for a in b'A'..=b'Z' { for b in (b'A'..=b'Z').chain(b'0'..=b'9') { v.push(format!("{}{}", a as char, b as char)); } }
        v
    } else { vec!["XQ".into(), "AB".into(), "LO".into(), "ST".into(), "B2".into()] };
    for item in ITEM_STARTS.iter() {
        let hz = hazard_prefixes(item);
        let mut pres: Vec<String> = hz.clone();
        pres.extend(all.iter().cloned());
        pres.sort();
        pres.dedup();
        for pre in pres.iter() {
            for tail in ["QQQ", "Q"] {
                let name = format!("{}{}", pre, tail);
                // every left shape with the bare item (as before); the composite right shapes with two left shapes in the
                // quick tier (hazardous prefixes and one control only), the full product in the thorough tier
                let mut combos: Vec<(&str, &str)> = LEFT_SHAPES.iter().map(|l| (*l, "#")).collect();
                if ctx.tier_thorough || hz.contains(pre) || pre == "XQ" {
                    for r in RIGHT_SHAPES.iter().skip(1) {
                        for l in LEFT_SHAPES.iter().take(if ctx.tier_thorough { LEFT_SHAPES.len() } else { 2 }) { combos.push((*l, *r)); }
                    }
                }
                for (shape, rshape) in combos.iter() {
                    let line = format!("10 PRINT {} {}", shape.replace('@', &name), rshape.replace('#', item));
                    let src = format!("{}\n", line);
                    if !verifies(&src) { continue; }
                    if *rshape != "#" { composite += 1; }
                    let out = match minify(&src, 1) { Res::Ok(s) => s, _ => continue };
                    n += 1;
                    if hz.contains(pre) { hazardous += 1; }
                    let (i, o) = (observe(&src), observe(&out));
                    let ok = verifies(&out) && i.kws == o.kws && i.vars == o.vars;
                    ctx.out.oracle(ok, "c17-reserved-words", "c17/print-juxtaposition/hidden-token",
                        &format!("idx={} level=1 prog={:?} out={:?}", idx, src, out));
                    if !ok { continue; }
                    // did the real code guard?  (`(ab)` written, or a short name left alone)
                    let paren = format!("({})", pre);
                    let text = out.trim_end();
                    let guarded_real = if tail == "QQQ" { text.contains(&paren) } else { text.contains(&name) };
                    if let Some(nx) = climb_next(&mut parser, &line, &name) {
                        ctx.out.q(&format!("c17 guardnode {} {}", hx(name.as_bytes()), nx), if guarded_real { "1" } else { "0" });
                    }
                }
            }
        }
    }
    ctx.out.count_n("juxtaposition-sweep-cases", n);
    ctx.out.count_n("juxtaposition-sweep-hazardous", hazardous);
    ctx.out.count_n("juxtaposition-sweep-composite-right-item", composite);
    ctx.out.case(b"juxtaposition-sweep", hazardous > 0);
}

// ------------------------------------------------------------------------------------------------
// sessions: ONE Minifier object for several programs and levels (what the language server does)
// ------------------------------------------------------------------------------------------------

/// a program whose first pass fails on a LATE line (`Err(LineNumber)`: the primary line number is not a `usize`),
/// so that `minify` returns early and leaves behind what pass 1 collected up to there
fn gen_failing_program(r: &mut Rng, discards: &mut u64, haz: &[(String, String)], start: Option<usize>) -> String {
    let (p, _) = gen_program_at(r, discards, haz, start);
    let mut lines: Vec<String> = p.lines().map(|l| l.to_string()).collect();
    let k = r.range(1, lines.len().max(2) - 1).min(lines.len());
    lines.insert(k, format!("{} PRINT", "9".repeat(r.range(21, 30))));
    lines.join("\n") + "\n"
}

fn call_shared(m: &mut Minifier, src: &str, level: usize) -> Res {
    match guarded(|| { m.set_level(level); m.minify(src).map_err(|e| e.to_string()) }) {
        Ok(Ok(s)) => Res::Ok(s),
        Ok(Err(e)) => Res::Err(e),
        Err(p) => Res::Panic(panic_site(&p)),
    }
}

fn short_res(r: &Res) -> String { match r { Res::Ok(s) => format!("Ok({:?})", s), Res::Err(e) => format!("Err({})", e), Res::Panic(p) => format!("Panic({})", p) } }

/// One object, 2-6 programs, each at the four levels in random order.  Oracle `c17-object-reuse`: every result equals
/// the result of a FRESH object on the same (program, level); and all per-result oracles of `run_case_with` (output
/// valid, references resolve, literals, variables, reserved words) plus the model tie are applied to the results the
/// REUSED object gave.
fn run_session(ctx: &mut Ctx, idx: usize, r: &mut Rng, discards: &mut u64, haz: &[(String, String)]) {
    let ncalls = r.range(2, 6);
    let mut shared = Minifier::new();
    let mut history: Vec<String> = Vec::new();
    let session_start = *r.pick(&[1usize, 5, 10, 10, 100]);
    let mut differs = 0;
    // (line numbers an earlier call of this session deleted): a later call that deletes NOTHING (level 0/1, or no
    // deletable REM line) must still not see them -- the case in which a reset hidden behind "nothing to map" is skipped
    let mut deleted_before: BTreeSet<usize> = BTreeSet::new();
    for k in 0..ncalls {
        let start = if r.chance(70) { Some(session_start) } else { None };
        let failing = k + 1 < ncalls && r.chance(15);
        let prog = if failing { gen_failing_program(r, discards, haz, start) } else { gen_program_at(r, discards, haz, start).0 };
        let mut order: Vec<usize> = vec![0, 1, 2, 3];
        for i in (1..4).rev() { let j = r.below(i + 1); order.swap(i, j); }
        // sometimes only the deleting / combining levels (fewer calls between two programs)
        if r.chance(35) { order.retain(|l| *l >= 2); }
        let mut results: Vec<Option<Res>> = vec![None; 4];
        for level in order.iter().cloned() {
            let rs = call_shared(&mut shared, &prog, level);
            let rf = minify(&prog, level);
            let same = rs == rf;
            if !same { differs += 1; }
            let case = format!("idx={} call={} level={} prog={:?} reused={} fresh={} earlier-calls=[{}]", idx, history.len(), level, prog,
                short_res(&rs), short_res(&rf), history.join(" ; "));
            ctx.out.oracle(same, "c17-object-reuse", "c17/object-reuse/result-differs", &case);
            history.push(format!("L{} {:?}", level, prog));
            if let Res::Ok(out) = &rf {
                let (i, o) = (observe(&prog), observe(out));
                let gone: Vec<usize> = i.nums.iter().filter(|n| !o.nums.contains(n)).cloned().collect();
                if gone.is_empty() || level < 2 {
                    if !deleted_before.is_empty() { ctx.out.count("session/call-deleting-nothing-after-deleting-call"); }
                    if i.refs.iter().any(|r| deleted_before.contains(r)) { ctx.out.count("session/call-deleting-nothing-with-reference-to-earlier-deleted-line"); }
                } else if level == 2 { deleted_before.extend(gone); }
            }
            results[level] = Some(rs);
            ctx.out.count(if failing { "session/failed-call" } else { "session/call" });
        }
        if failing { ctx.out.count("session/program-failing-late"); continue; }
        // the per-result oracles and the tie on what the REUSED object answered (levels not called: fresh)
        let full: Vec<Res> = (0..4).map(|l| match &results[l] { Some(x) => x.clone(), None => minify(&prog, l) }).collect();
        let note = format!(" session-call={} earlier-calls=[{}]", k, history[..history.len().saturating_sub(order.len())].join(" ; "));
        run_case_with(ctx, idx, &prog, "c17/object-reuse", full, &note);
    }
    ctx.out.count("sessions");
    if differs > 0 { ctx.out.count("sessions-with-differing-result"); }
}

pub fn run(ctx: &mut Ctx) {
    if let Ok(p) = std::env::var("C17_PROBE") {
        let src = std::fs::read_to_string(p).unwrap();
        for level in 0..4 { println!("--- level {} ---\n{:?}\n[verify {}]", level, minify(&src, level), match minify(&src, level) { Res::Ok(s) => verifies(&s), _ => false }); }
        return;
    }
    let mut rng = Rng::new(ctx.seed);
    let n = ctx.n(3000, 60000);
    let mut discards = 0u64;
    let mut idx = 0usize;
    let haz = juxt_hazards();
    ctx.out.count_n("juxtaposition-hazard-pairs", haz.len() as u64);
    for p in FIXED.iter() {
        if ctx.out.wants(idx) { run_case(ctx, idx, p, "c17"); }
        idx += 1;
    }
    for (p, fam) in SPECIAL.iter() {
        if ctx.out.wants(idx) { run_case(ctx, idx, p, fam); }
        idx += 1;
    }
    run_short_cases(ctx, idx);
    idx += 1;
    for _ in 0..n {
        let mut r = rng.fork(idx as u64);
        if ctx.out.wants(idx) {
            let (prog, juxt) = gen_program(&mut r, &mut discards, &haz);
            if juxt { ctx.out.count("print-juxtaposition"); }
            run_case(ctx, idx, &prog, if juxt { "c17/print-juxtaposition" } else { "c17" });
        }
        idx += 1;
    }
    run_juxt_cases(ctx, idx);
    idx += 1;
    for (p, fam) in FIXED2.iter() {
        if ctx.out.wants(idx) { run_case(ctx, idx, p, fam); }
        idx += 1;
    }
    // sessions on one long-lived object (appended: earlier case numbers stay put)
    let ns = ctx.n(200, 6000);
    let mut rs = Rng::new(ctx.seed).fork(0x5E55);
    for _ in 0..ns {
        let mut r = rs.fork(idx as u64);
        if ctx.out.wants(idx) { run_session(ctx, idx, &mut r, &mut discards, &haz); }
        idx += 1;
    }
    // witnesses with a COMPOSITE following item (binary expression led by a function call / NOT): appended after the sessions
    for p in ["10 PRINT CAKES TAN(X)*2\n20 END\n", "10 PRINT AGENT RND(1)+1\n20 END\n", "10 PRINT COUNT NOT X AND Y\n20 END\n", "10 PRINT X+CAKES TAB(3)\n20 END\n",
              "10 PRINT XIBQQ FN Z(X)*2\n20 DEF FN Z(X) = X\n", "10 PRINT LOAD$;COQQQ SIN(X)<1;XOQQQ RND(1) OR Y\n20 END\n"].iter() {
        if ctx.out.wants(idx) { run_case(ctx, idx, p, "c17/print-juxtaposition"); }
        idx += 1;
    }
    ctx.out.count_n("discarded-invalid-lines", discards);
}
