//! harness family c15: disassembly -> reassembly round trip on the real a2kit Merlin tools.
//!
//! Real code driven: `Disassembler::disassemble`, `Analyzer::analyze`, `Assembler::spot_assemble`.
//! Direct oracles (property C15 stated on the real code):
//!   * accounting   - every input byte is covered by exactly one emitted line (addresses taken from the real
//!                    "all" labeling, lengths from reassembling each line on its own / expanding LUP..HEX..--^)
//!   * reassembly   - whole text + processor declaration through analyzer + spot assembler: equal bytes or an
//!                    explicit error, never different bytes; pure valid-instruction input must succeed
//! Model tie (requests to the Lean driver): `c15 dasm ...` (line list), `c15 spans ...`, `c15 rt ...` (per-line bytes).
use crate::util::*;
use a2kit::lang::merlin::assembly::Assembler;
use a2kit::lang::merlin::diagnostics::Analyzer;
use a2kit::lang::merlin::disassembly::{DasmRange, Disassembler};
use a2kit::lang::merlin::handbook::operations::OperationHandbook;
use a2kit::lang::merlin::settings::Settings;
use a2kit::lang::merlin::{MerlinVersion, ProcessorType, Symbols};
use a2kit::lang::server::Analysis;
use a2kit::lang::Document;
use std::collections::HashMap;
use std::sync::Arc;

#[derive(Clone, Copy, PartialEq, Eq, Hash, Debug)]
pub enum Proc { P6502, P65c02, P65802, P65816 }
#[derive(Clone, Copy, PartialEq, Eq, Hash, Debug)]
pub enum Ver { M8, M16, M16p, M32 }

const PROCS: [Proc; 4] = [Proc::P6502, Proc::P65c02, Proc::P65802, Proc::P65816];

fn ptype(p: Proc) -> ProcessorType {
    match p { Proc::P6502 => ProcessorType::_6502, Proc::P65c02 => ProcessorType::_65c02, Proc::P65802 => ProcessorType::_65802, Proc::P65816 => ProcessorType::_65c816 }
}
fn pname(p: Proc) -> &'static str { match p { Proc::P6502 => "6502", Proc::P65c02 => "65c02", Proc::P65802 => "65802", Proc::P65816 => "65816" } }
fn vtype(v: Ver) -> MerlinVersion {
    match v { Ver::M8 => MerlinVersion::Merlin8, Ver::M16 => MerlinVersion::Merlin16, Ver::M16p => MerlinVersion::Merlin16Plus, Ver::M32 => MerlinVersion::Merlin32 }
}
fn vname(v: Ver) -> &'static str { match v { Ver::M8 => "m8", Ver::M16 => "m16", Ver::M16p => "m16+", Ver::M32 => "m32" } }
/// assembler variants in which processor `p` can be declared; the first is the primary one
fn versions(p: Proc) -> &'static [Ver] {
    match p {
        Proc::P6502 => &[Ver::M8, Ver::M16p],
        Proc::P65c02 => &[Ver::M8, Ver::M32],
        Proc::P65802 => &[Ver::M8],
        Proc::P65816 => &[Ver::M16, Ver::M16p, Ver::M32],
    }
}
fn cfg_name(p: Proc, v: Ver) -> String { if v == versions(p)[0] { pname(p).to_string() } else { format!("{}@{}", pname(p), vname(v)) } }

/// source lines that declare the processor (XC) and, where the pseudo-op exists, the register widths (MX)
fn header(p: Proc, v: Ver, m8: bool, x8: bool) -> String {
    let mut h = String::new();
    match (p, v == Ver::M8) {
        (Proc::P6502, true) => {}
        (Proc::P65c02, true) => h += "         XC\n",
        (Proc::P65802, true) => h += "         XC\n         XC\n",
        (Proc::P65816, true) => panic!("65816 cannot be declared in Merlin 8"),
        (Proc::P6502, false) => h += "         XC    OFF\n",
        (Proc::P65c02, false) => h += "         XC    OFF\n         XC\n",
        (Proc::P65802, false) => panic!("65802 is only reachable in Merlin 8"),
        (Proc::P65816, false) => {}
    }
    if p == Proc::P65816 {
        h += &format!("         MX    %{}{}\n", if m8 { 1 } else { 0 }, if x8 { 1 } else { 0 });
    }
    h
}

pub fn dasm(d: &mut Option<Disassembler>, case: &Case, labeling: &str) -> Result<Result<String, String>, String> {
    let (img, range) = case.image();
    if d.is_none() { *d = Some(Disassembler::new()); }
    let dd = d.as_mut().unwrap();
    let r = guarded(|| {
        let mut cfg = Settings::new();
        cfg.disassembly.brk = case.brk;
        dd.set_config(cfg);
        dd.set_mx(case.m8, case.x8);
        dd.disassemble(&img, range, ptype(case.p), labeling).map_err(|e| e.to_string())
    });
    if r.is_err() { *d = None; }
    r
}

fn analyze(an: &mut Analyzer, text: &str, v: Ver) -> Result<Symbols, String> {
    let mut cfg = Settings::new();
    cfg.version = vtype(v);
    an.set_config(cfg);
    let doc = Document::from_string(text.to_string(), 0);
    an.analyze(&doc).map_err(|e| format!("analyze: {}", e))?;
    let [err, _w, _i] = an.err_warn_info_counts();
    if err > 0 {
        let d = an.get_diags(&doc);
        let all = d.iter().filter(|x| format!("{:?}", x.severity).contains("Error")).map(|x| format!("L{}:{}", x.range.start.line, x.message)).collect::<Vec<String>>().join("/");
        return Err(format!("diag: {}", all));
    }
    Ok(an.get_symbols())
}

struct Tools {
    syms: HashMap<(Proc, Ver), Arc<Symbols>>,
    book: HashMap<u8, a2kit::lang::merlin::MachineOperation>,
    dis: Option<Disassembler>,
    asm: Option<Assembler>,
    ana: Option<Analyzer>,
}
impl Tools {
    fn new() -> Self {
        let mut syms = HashMap::new();
        for p in PROCS { for v in versions(p) {
            let mut an = Analyzer::new();
            let s = match analyze(&mut an, &header(p, *v, true, true), *v) { Ok(s) => s, Err(e) => { eprintln!("header analysis failed for {:?} {:?}: {}", p, v, e); std::process::exit(3); } };
            syms.insert((p, *v), Arc::new(s));
        } }
        Tools { syms, book: OperationHandbook::new().create_dasm_map(), dis: None, asm: None, ana: None }
    }
    fn dasm(&mut self, case: &Case, labeling: &str) -> Result<Result<String, String>, String> {
        dasm(&mut self.dis, case, labeling)
    }
    fn spot(&mut self, text: String, syms: Arc<Symbols>, v: Ver, pc: usize, mx: (bool, bool)) -> Result<Vec<u8>, String> {
        if self.asm.is_none() { self.asm = Some(Assembler::new()); }
        let a = self.asm.as_mut().unwrap();
        let mut cfg = Settings::new();
        cfg.version = vtype(v);
        a.set_config(cfg);
        a.set_mx(mx.0, mx.1);
        a.use_shared_symbols(syms);
        let n = text.lines().count() as isize;
        a.spot_assemble(text, 0, n, Some(pc)).map_err(|e| format!("asm: {}", e))
    }
    /// assemble a few lines on their own (no analyzer pass; symbols carry processor + assembler variant)
    fn asm_lines(&mut self, lines: &str, p: Proc, v: Ver, pc: usize, mx: (bool, bool)) -> Result<Result<Vec<u8>, String>, String> {
        let syms = self.syms.get(&(p, v)).unwrap().clone();
        let text = lines.to_string();
        let r = guarded(|| self.spot(text, syms, v, pc, mx));
        if r.is_err() { self.asm = None; }
        r
    }
    /// the pipeline of `a2kit asm`: analyzer on the whole text, then the spot assembler with its symbols
    fn asm_full(&mut self, text: &str, v: Ver, pc: usize, mx: (bool, bool)) -> Result<Result<Vec<u8>, String>, String> {
        let text = text.to_string();
        let r = guarded(|| {
            if self.ana.is_none() { self.ana = Some(Analyzer::new()); }
            let syms = analyze(self.ana.as_mut().unwrap(), &text, v)?;
            let ds = Arc::new(Assembler::dasm_symbols(Arc::new(syms)));
            self.spot(text, ds, v, pc, mx)
        });
        if r.is_err() { self.asm = None; self.ana = None; }
        r
    }
    /// handbook data: is `op` an instruction of processor `p`, and how many operand bytes does it take
    fn instr_len(&self, op: u8, p: Proc, m8: bool, x8: bool) -> Option<usize> {
        let mo = self.book.get(&op)?;
        if !mo.processors.contains(&ptype(p)) { return None; }
        let digits: Vec<usize> = mo.operand_snippet.bytes().filter(|c| c.is_ascii_digit()).map(|c| (c - b'0') as usize).collect();
        let mut n: usize = digits.iter().sum();
        if mo.m_sensitive && !m8 || mo.x_sensitive && !x8 { n += 1; }
        Some(1 + n)
    }
    /// true iff `bytes` is a concatenation of complete valid instructions of `p`
    fn pure_code(&self, bytes: &[u8], p: Proc, m8: bool, x8: bool, brk: bool) -> bool {
        let mut i = 0;
        while i < bytes.len() {
            if bytes[i] == 0 && !brk { return false; }
            match self.instr_len(bytes[i], p, m8, x8) { Some(n) if i + n <= bytes.len() => i += n, _ => return false }
        }
        true
    }
}

/// which `DasmRange` variant selects the range `[org, org + bytes.len())` of the image
#[derive(Clone, Copy, PartialEq, Debug)]
pub enum Sel { Range, All, BloadDos, BloadProdos }
/// `bytes` is the disassembled range; the image is zeros, then `pre` (the bytes right before the range), `bytes`, `after`
#[derive(Clone)]
pub struct Case { p: Proc, m8: bool, x8: bool, brk: bool, org: usize, bytes: Vec<u8>, kind: &'static str, pre: Vec<u8>, after: Vec<u8>, sel: Sel }
impl Case {
    fn desc(&self, idx: usize) -> String {
        let mut d = format!("idx={} kind={} proc={} mx={}{} brk={} org={:X} bytes={}", idx, self.kind, pname(self.p), self.m8 as u8, self.x8 as u8, self.brk as u8, self.org, hx(&self.bytes));
        if self.sel != Sel::Range || !self.pre.is_empty() || !self.after.is_empty() { d += &format!(" range={:?} before={} after={}", self.sel, hx(&self.pre), hx(&self.after)); }
        d
    }
    /// the image bytes that follow the range (a BLOAD range lies in a zero-filled RAM image)
    fn after_eff(&self) -> Vec<u8> {
        let mut a = self.after.clone();
        if matches!(self.sel, Sel::BloadDos | Sel::BloadProdos) { a.extend_from_slice(&[0, 0, 0, 0]); }
        a
    }
    /// the image handed to the disassembler and the range variant
    fn image(&self) -> (Vec<u8>, DasmRange) {
        let beg = self.org;
        let end = beg + self.bytes.len();
        let mut img = vec![0u8; beg - self.pre.len()];
        img.extend_from_slice(&self.pre);
        img.extend_from_slice(&self.bytes);
        img.extend_from_slice(&self.after);
        let range = match self.sel {
            Sel::Range => DasmRange::Range([beg, end]),
            Sel::All => DasmRange::All,
            Sel::BloadDos | Sel::BloadProdos => {
                img.resize(0xC000, 0);
                let (sa, la) = if self.sel == Sel::BloadDos { (0xaa72, 0xaa60) } else { (0xbeb9, 0xbec8) };
                img[sa] = (beg & 0xff) as u8; img[sa + 1] = (beg >> 8) as u8;
                img[la] = (self.bytes.len() & 0xff) as u8; img[la + 1] = (self.bytes.len() >> 8) as u8;
                if self.sel == Sel::BloadDos { DasmRange::LastBloadDos33 } else { DasmRange::LastBloadProDos }
            }
        };
        (img, range)
    }
    fn canon(&self) -> Vec<u8> {
        let mut v = vec![self.p as u8, self.m8 as u8, self.x8 as u8, self.brk as u8];
        v.extend_from_slice(&(self.org as u32).to_le_bytes());
        v.extend_from_slice(&self.bytes);
        v.push(0xff); v.push(self.sel as u8);
        v.extend_from_slice(&self.pre); v.push(0xfe);
        v.extend_from_slice(&self.after);
        v
    }
}

/// one emitted unit of source: a single line, or the three lines LUP n / HEX .. / --^
struct Group { text: String, first: String }

fn split_cols(line: &str) -> Vec<String> {
    // label column starts at col 0; a leading blank means "no label"
    let mut cols: Vec<String> = Vec::new();
    let has_label = !line.starts_with(' ');
    let mut rest = line.trim_start();
    if !has_label { cols.push(String::new()); }
    // label / mnemonic are blank free; the operand is everything that remains (may contain blanks)
    while cols.len() < 2 {
        match rest.find(' ') {
            Some(i) => { cols.push(rest[..i].to_string()); rest = rest[i..].trim_start(); }
            None => { cols.push(rest.to_string()); rest = ""; }
        }
    }
    cols.push(rest.to_string());
    cols
}

fn groups(text: &str) -> Vec<Group> {
    let lines: Vec<&str> = text.lines().collect();
    let mut ans = Vec::new();
    let mut i = 0;
    while i < lines.len() {
        let c = split_cols(lines[i]);
        if c[1] == "LUP" && i + 2 < lines.len() {
            ans.push(Group { text: format!("{}\n{}\n{}\n", lines[i], lines[i + 1], lines[i + 2]), first: lines[i].to_string() });
            i += 3;
        } else {
            ans.push(Group { text: format!("{}\n", lines[i]), first: lines[i].to_string() });
            i += 1;
        }
    }
    ans
}

/// harness-side reading of `LUP n / HEX h / --^`
fn expand_lup(g: &Group) -> Option<Vec<u8>> {
    let ls: Vec<&str> = g.text.lines().collect();
    if ls.len() != 3 { return None; }
    let (a, b, c) = (split_cols(ls[0]), split_cols(ls[1]), split_cols(ls[2]));
    if a[1] != "LUP" || b[1] != "HEX" || c[1] != "--^" { return None; }
    let n: usize = a[2].parse().ok()?;
    let h = hex::decode(&b[2]).ok()?;
    let mut v = Vec::new();
    for _ in 0..n { v.extend_from_slice(&h); }
    Some(v)
}

fn canon_line(line: &str) -> String {
    let c = split_cols(line);
    if c[2].is_empty() { c[1].clone() } else { format!("{} {}", c[1], c[2]) }
}

/// `label|mnemonic operand` (the label column is kept for the labelled listings)
fn canon_lab(line: &str) -> String {
    let c = split_cols(line);
    if c[2].is_empty() { format!("{}|{}", c[0], c[1]) } else { format!("{}|{} {}", c[0], c[1], c[2]) }
}

/// first `_HEX` in an operand: (text before, value, text after)
fn label_in(op: &str) -> Option<(String, usize, String)> {
    let i = op.find('_')?;
    let rest = &op[i + 1..];
    let n = rest.bytes().take_while(|c| c.is_ascii_hexdigit()).count();
    if n == 0 { return None; }
    Some((op[..i].to_string(), usize::from_str_radix(&rest[..n], 16).ok()?, rest[n..].to_string()))
}
/// first `$HEX` in an operand: (text before, value, text after)
fn number_in(op: &str) -> Option<(String, usize, String)> {
    let i = op.find('$')?;
    let rest = &op[i + 1..];
    let n = rest.bytes().take_while(|c| c.is_ascii_hexdigit()).count();
    if n == 0 { return None; }
    Some((op[..i].to_string(), usize::from_str_radix(&rest[..n], 16).ok()?, rest[n..].to_string()))
}

fn short(s: &str) -> String { s.chars().take(120).collect() }

fn eval_case(ctx: &mut Ctx, tools: &mut Tools, idx: usize, case: &Case) {
    let Case { p, m8, x8, brk, org, .. } = *case;
    let bytes = &case.bytes;
    let end = org + bytes.len();
    // opcode 00 is an instruction for the disassembler only when its `brk` option is on
    let pure = tools.pure_code(bytes, p, m8, x8, brk);
    ctx.out.case(&case.canon(), !bytes.is_empty());
    ctx.out.count(&format!("kind:{}", case.kind));
    ctx.out.count(&format!("proc:{}", pname(p)));
    if pure { ctx.out.count("pure-code"); }
    let pn = pname(p);
    // ---- disassemble (real code) ----
    let none = match tools.dasm(case, "none") {
        Ok(Ok(t)) => t,
        Ok(Err(e)) => { ctx.out.oracle(false, "disassembles", &format!("c15/{}/dasm-error", pn), &format!("{} err={}", case.desc(idx), short(&e))); return; }
        Err(pn_) => { ctx.out.oracle(false, "disassembles", &format!("panic:{}", panic_site(&pn_)), &case.desc(idx)); return; }
    };
    let all = match tools.dasm(case, "all") {
        Ok(Ok(t)) => t,
        Ok(Err(e)) => { ctx.out.oracle(false, "disassembles", &format!("c15/{}/dasm-error", pn), &format!("{} labeling=all err={}", case.desc(idx), short(&e))); return; }
        Err(pn_) => { ctx.out.oracle(false, "disassembles", &format!("panic:{}", panic_site(&pn_)), &format!("{} labeling=all", case.desc(idx))); return; }
    };
    ctx.out.oracle(true, "disassembles", "-", "-");
    if idx % 997 == 0 { ctx.out.sample(&format!("{} => {}", case.desc(idx), none.lines().map(canon_line).collect::<Vec<_>>().join(" / "))); }
    let gs = groups(&none);
    let gl = groups(&all);
    // ---- accounting: addresses from the real "all" labeling ----
    let mut addrs: Vec<usize> = Vec::new();
    let mut acc_ok = gs.len() == gl.len();
    if acc_ok {
        for g in &gl {
            let c = split_cols(&g.first);
            match c[0].strip_prefix('_').and_then(|h| usize::from_str_radix(h, 16).ok()) {
                Some(a) => addrs.push(a),
                None => { acc_ok = false; break; }
            }
        }
    }
    if acc_ok {
        acc_ok = (addrs.is_empty() && bytes.is_empty()) || (!addrs.is_empty() && addrs[0] == org);
        for w in addrs.windows(2) { if w[1] <= w[0] { acc_ok = false; } }
        if let Some(l) = addrs.last() { if *l >= end { acc_ok = false; } }
    }
    if !acc_ok {
        ctx.out.oracle(false, "accounting", &format!("c15/{}/line-addresses-not-a-partition", pn), &format!("{} text={}", case.desc(idx), short(&all.replace('\n', "/"))));
        return;
    }
    // ---- per line: the line's own bytes are the bytes of its span (all assembler variants of this processor) ----
    let mut per_line: Vec<String> = Vec::new();
    for v in versions(p) {
        let cn = cfg_name(p, *v);
        for (k, g) in gs.iter().enumerate() {
            let lo = addrs[k];
            let hi = if k + 1 < addrs.len() { addrs[k + 1] } else { end };
            let want = &bytes[lo - org..hi - org];
            let op = want[0];
            let got = tools.asm_lines(&g.text, p, *v, lo, (m8, x8));
            let mut tag = String::new();
            match &got {
                Ok(Ok(b)) => {
                    tag = hx(b);
                    let pass = b.as_slice() == want;
                    // the last line of a sub-range stands for its span plus bytes that lie beyond the range
                    let beyond = hi == end && b.len() > want.len() && b.starts_with(want) && case.after_eff().starts_with(&b[want.len()..]);
                    ctx.out.oracle(pass, "line-reassembles-to-its-span", &if beyond { format!("c15/{}/reassembly-includes-bytes-beyond-range", cn) } else { format!("c15/{}/reassembly-differs/op={:02X}", cn, op) },
                        &format!("{} line={:?} at={:X} want={} got={}", case.desc(idx), canon_line(&g.first), lo, hx(want), hx(b)));
                }
                Ok(Err(_)) => {
                    tag = "E".to_string();
                    // an explicit refusal: the span must then be accounted for by the harness's own reading
                    match expand_lup(g) {
                        Some(b) => {
                            tag = format!("E:{}", hx(&b));
                            ctx.out.oracle(b.as_slice() == want, "line-reassembles-to-its-span", &format!("c15/{}/lup-span-differs", cn),
                                &format!("{} at={:X} want={} lup={}", case.desc(idx), lo, hx(want), hx(&b)));
                        }
                        None => {
                            // refused single line: allowed by the property unless the input is pure code
                            ctx.out.oracle(!pure, "pure-code-reassembles", &format!("c15/{}/reassembly-refused/op={:02X}", cn, op),
                                &format!("{} line={:?} res={:?}", case.desc(idx), canon_line(&g.first), got));
                        }
                    }
                }
                Err(site) => {
                    ctx.out.oracle(false, "line-reassembles-to-its-span", &format!("panic:{}", panic_site(site)), &format!("{} line={:?}", case.desc(idx), canon_line(&g.first)));
                }
            }
            if *v == versions(p)[0] { per_line.push(tag); }
        }
    }
    // ---- whole text through analyzer + assembler ----
    for v in versions(p) {
        let cn = cfg_name(p, *v);
        let full = [header(p, *v, m8, x8), none.clone()].concat();
        match tools.asm_full(&full, *v, org, (m8, x8)) {
            Ok(Ok(b)) => {
                let pass = &b == bytes;
                let mut op = bytes.first().copied().unwrap_or(0);
                let mut after_mv = false;
                if !pass {
                    let d = b.iter().zip(bytes.iter()).position(|(x, y)| x != y).unwrap_or(b.len().min(bytes.len()));
                    let mut k = 0;
                    for (j, a) in addrs.iter().enumerate() { if *a - org <= d { op = bytes[*a - org]; k = j; } }
                    // every line is right on its own but a block move precedes the first wrong one: the program
                    // counter of the assembler ran away (one signature for the whole class)
                    if gs[..k].iter().any(|g| { let c = split_cols(&g.first); c[1] == "MVN" || c[1] == "MVP" }) { after_mv = true; }
                }
                let beyond = !pass && b.len() > bytes.len() && b.starts_with(bytes) && case.after_eff().starts_with(&b[bytes.len()..]);
                let sig = if beyond { format!("c15/{}/reassembly-includes-bytes-beyond-range", cn) } else if after_mv { format!("c15/{}/reassembly-differs/after-block-move", cn) } else { format!("c15/{}/reassembly-differs/op={:02X}", cn, op) };
                ctx.out.oracle(pass, "reassembles-or-refuses", &sig,
                    &format!("{} got={} text={}", case.desc(idx), hx(&b), short(&none.lines().map(canon_line).collect::<Vec<_>>().join("/"))));
            }
            Ok(Err(e)) => {
                ctx.out.count("refused");
                ctx.out.oracle(!pure, "pure-code-reassembles", &format!("c15/{}/reassembly-refused/op={:02X}", cn, bytes.first().copied().unwrap_or(0)),
                    &format!("{} err={} text={}", case.desc(idx), short(&e), short(&none.lines().map(canon_line).collect::<Vec<_>>().join("/"))));
            }
            Err(site) => ctx.out.oracle(false, "reassembles-or-refuses", &format!("panic:{}", panic_site(&site)), &case.desc(idx)),
        }
    }
    // ---- labelled listings ("some" = what `a2kit dasm` prints, "all") ----
    let some = match tools.dasm(case, "some") {
        Ok(Ok(t)) => t,
        Ok(Err(e)) => { ctx.out.oracle(false, "disassembles", &format!("c15/{}/dasm-error", pn), &format!("{} labeling=some err={}", case.desc(idx), short(&e))); return; }
        Err(pn_) => { ctx.out.oracle(false, "disassembles", &format!("panic:{}", panic_site(&pn_)), &format!("{} labeling=some", case.desc(idx))); return; }
    };
    let none_lines: Vec<&str> = none.lines().collect();
    let mut lab_q: Vec<(String, String)> = Vec::new();
    for (lab, text) in [("some", &some), ("all", &all)] {
        let lines: Vec<&str> = text.lines().collect();
        // (1) same lines as the unlabelled listing; an operand printed as a label must name the operand's own value
        let mut shape_ok = lines.len() == none_lines.len();
        let mut alias: Option<String> = None;
        let mut n_lab_operands = 0;
        if shape_ok {
            for (l, n) in lines.iter().zip(none_lines.iter()) {
                let (cl, cn_) = (split_cols(l), split_cols(n));
                if cl[1] != cn_[1] { shape_ok = false; break; }
                if cl[2] == cn_[2] { continue; }
                // the operand differs from the numeric listing: exactly one `_HEX` in place of one `$HEX`
                match (label_in(&cl[2]), number_in(&cn_[2])) {
                    (Some((pre_l, lv, post_l)), Some((pre_n, nv, post_n))) if pre_l == pre_n && post_l == post_n => {
                        n_lab_operands += 1;
                        // a branch operand is printed with 16 bits in the numeric listing; destinations are <= $FFFF
                        if lv != nv && alias.is_none() { alias = Some(format!("line={:?} numeric={:?}", canon_line(l), canon_line(n))); }
                    }
                    _ => { shape_ok = false; break; }
                }
            }
        }
        if n_lab_operands > 0 { ctx.out.count(&format!("labelled-operands:{}", lab)); }
        ctx.out.oracle(shape_ok, "labelled-listing-has-the-same-lines", &format!("c15/{}/labelled-listing-differs", pn),
            &format!("{} labeling={} text={}", case.desc(idx), lab, short(&text.replace('\n', "/"))));
        if let Some(a) = &alias {
            ctx.out.oracle(false, "label-operand-names-the-operand-value", &format!("c15/{}/label-operand-is-another-address", pn),
                &format!("{} labeling={} {}", case.desc(idx), lab, a));
        } else { ctx.out.oracle(true, "label-operand-names-the-operand-value", "-", "-"); }
        // (2) the labelled text through analyzer + assembler, every assembler variant of this processor.  Column-1
        //     labels alone cannot change a byte, so listings without any label operand are only sampled.
        let rendered = text.lines().map(canon_lab).collect::<Vec<_>>().join(";");
        lab_q.push((format!("c15 ldasm {} cur", lab), if rendered.is_empty() { "-".to_string() } else { rendered }));
        if !(n_lab_operands > 0 || !shape_ok || case.kind.starts_with("label-") || case.kind == "witness" || idx % 8 == 0) { continue; }
        ctx.out.count(&format!("labelled-reassembly:{}", lab));
        for v in versions(p) {
            let cn = cfg_name(p, *v);
            let full = [header(p, *v, m8, x8), (*text).clone()].concat();
            let res = tools.asm_full(&full, *v, org, (m8, x8));
            match &res {
                Ok(Ok(b)) => {
                    let pass = b == bytes;
                    let mut sig = format!("c15/{}/reassembly-differs/labelled/op={:02X}", cn, bytes.first().copied().unwrap_or(0));
                    if !pass {
                        let d = b.iter().zip(bytes.iter()).position(|(x, y)| x != y).unwrap_or(b.len().min(bytes.len()));
                        let mut k = 0;
                        for (j, a) in addrs.iter().enumerate() { if *a - org <= d { k = j; } }
                        let op = bytes[addrs[k] - org];
                        sig = format!("c15/{}/reassembly-differs/labelled/op={:02X}", cn, op);
                        // the wrong line carries a label operand whose value is not the operand: an alias of a long address
                        if shape_ok && k < gs.len() {
                            let lg = groups(text);
                            if let (Some(gl_), Some(gn)) = (lg.get(k), gs.get(k)) {
                                if let (Some((_, lv, _)), Some((_, nv, _))) = (label_in(&split_cols(&gl_.first)[2]), number_in(&split_cols(&gn.first)[2])) {
                                    if lv != nv && nv > 0xffff { sig = format!("c15/{}/reassembly-differs/long-label-alias", cn); }
                                }
                            }
                        }
                    }
                    ctx.out.oracle(pass, "labelled-reassembles-or-refuses", &sig,
                        &format!("{} labeling={} got={} text={}", case.desc(idx), lab, hx(b), short(&text.lines().map(canon_lab).collect::<Vec<_>>().join("/"))));
                }
                Ok(Err(e)) => {
                    ctx.out.count("refused-labelled");
                    ctx.out.oracle(!pure, "pure-code-reassembles", &format!("c15/{}/reassembly-refused/labelled/op={:02X}", cn, bytes.first().copied().unwrap_or(0)),
                        &format!("{} labeling={} err={} text={}", case.desc(idx), lab, short(e), short(&text.lines().map(canon_lab).collect::<Vec<_>>().join("/"))));
                }
                Err(site) => ctx.out.oracle(false, "labelled-reassembles-or-refuses", &format!("panic:{}", panic_site(site)), &format!("{} labeling={}", case.desc(idx), lab)),
            }
            if *v == versions(p)[0] {
                let a = match &res { Ok(Ok(b)) => hx(b), Ok(Err(_)) => "E".to_string(), Err(_) => "panic".to_string() };
                lab_q.push((format!("c15 lasm {} cur {}", lab, vname(*v)), a));
            }
        }
    }
    // ---- model tie ----
    let req_tail = format!("{} {}{} {} {:X} {}{}", pn, m8 as u8, x8 as u8, brk as u8, org, hx(bytes), if case.after_eff().is_empty() { String::new() } else { format!(" +{}", hx(&case.after_eff())) });
    if std::env::var("C15_NO_Q").is_err() {
        let rendered = none.lines().map(canon_line).collect::<Vec<_>>().join(";");
        ctx.out.q(&format!("c15 dasm {}", req_tail), if rendered.is_empty() { "-" } else { &rendered });
        let spans: Vec<String> = addrs.iter().map(|a| format!("{:X}", a)).collect();
        ctx.out.q(&format!("c15 spans {}", req_tail), &if spans.is_empty() { "-".to_string() } else { spans.join(",") });
        ctx.out.q(&format!("c15 rt {}", req_tail), &if per_line.is_empty() { "-".to_string() } else { per_line.join(",") });
        for (head, ans) in &lab_q { ctx.out.q(&format!("{} {}", head, req_tail), ans); }
        if matches!(case.sel, Sel::BloadDos | Sel::BloadProdos) {
            // observed range: first label of the "all" listing .. end of the last line (accounting passed)
            ctx.out.q(&format!("c15 brange {} {} {:X} {:X}", if case.sel == Sel::BloadDos { "dos" } else { "prodos" }, 0xC000, org, bytes.len()), &format!("{:X},{:X}", addrs.first().copied().unwrap_or(org), end));
        }
    }
}

// ------------------------------------------------------------------------------------------------
// generators

const OPERANDS: [u32; 16] = [0, 1, 0x7F, 0x80, 0xFF, 0x100, 0x1234, 0x7FFF, 0x8000, 0xFFFF, 0x10000, 0x12345, 0x120056, 0x123400, 0x7FFFFF, 0xFFFFFF];
const ORGS: [usize; 4] = [0, 0x300, 0x8000, 0xFFF0];

fn le(v: u32, n: usize) -> Vec<u8> { v.to_le_bytes()[..n].to_vec() }

fn gen_cases(ctx: &Ctx, tools: &Tools) -> Vec<Case> {
    let mut cases: Vec<Case> = Vec::new();
    let mut rng = Rng::new(ctx.seed);
    // (A) every opcode x processor, operand classes; single instruction per case.
    for p in PROCS {
        for op in 0..=255u8 {
            let mo = tools.book.get(&op);
            let relative = mo.map(|m| m.relative).unwrap_or(false);
            let sens = mo.map(|m| m.m_sensitive || m.x_sensitive).unwrap_or(false);
            let mxs: Vec<(bool, bool)> = if sens { vec![(true, true), (true, false), (false, true), (false, false)] } else { vec![(true, true)] };
            let orgs: Vec<usize> = if relative { ORGS.to_vec() } else { vec![0x300] };
            for (m8, x8) in &mxs {
                for org in &orgs {
                    let n = tools.instr_len(op, p, *m8, *x8).unwrap_or(3).max(1) - 1;
                    let mut vals: Vec<u32> = OPERANDS.iter().map(|v| if n == 0 { 0 } else if n >= 4 { *v } else { v & ((1u32 << (8 * n)) - 1) }).collect();
                    if relative {
                        vals.extend_from_slice(&[0x7E, 0x81, 0xFE, 0xFD, 0x7FFE, 0x8001, 0xFFFD, 0xFFFE, 0xEF, 0x10, 0x0F, 0xF0]);
                    }
                    vals.sort(); vals.dedup();
                    for v in vals {
                        let mut b = vec![op];
                        b.extend(le(v, n.min(4)));
                        cases.push(Case { p, m8: *m8, x8: *x8, brk: op == 0, org: *org, bytes: b, kind: "single", pre: vec![], after: vec![], sel: Sel::Range });
                    }
                }
            }
        }
    }
    // (B) origins above bank 0 (65816 only)
    for op in [0x10u8, 0x80, 0x82, 0x62, 0xAD, 0xAF, 0x5C, 0x22, 0x4C, 0xA9] {
        for org in [0x10000usize, 0x12345] {
            let n = tools.instr_len(op, Proc::P65816, true, true).unwrap() - 1;
            for v in [0u32, 0x12, 0x1234, 0x123456, 0xFFFFFF] {
                let mut b = vec![op]; b.extend(le(v, n));
                cases.push(Case { p: Proc::P65816, m8: true, x8: true, brk: false, org, bytes: b, kind: "bank1", pre: vec![], after: vec![], sel: Sel::Range });
            }
        }
    }
    // (C) truncated instructions (operand runs past the end of the range)
    for p in PROCS { for op in 0..=255u8 {
        if let Some(n) = tools.instr_len(op, p, true, true) { if n > 1 {
            let b: Vec<u8> = std::iter::once(op).chain((0..n - 2).map(|i| 0x21 + i as u8)).collect();
            cases.push(Case { p, m8: true, x8: true, brk: true, org: 0x300, bytes: b, kind: "truncated", pre: vec![], after: vec![], sel: Sel::Range });
        } }
    } }
    // (D) data runs of every recognised pattern
    let mut pats: Vec<Vec<u8>> = Vec::new();
    for fill in [0x00u8, 0x02, 0xFF, 0x41, 0xC1, 0x20, 0xA0] { for n in [1usize, 2, 3, 4, 5, 17, 256, 300] { pats.push(vec![fill; n]); } }
    for n in [2usize, 3, 4, 5, 7, 8, 33] { pats.push((0..n).map(|i| [0x02u8, 0x03][i % 2]).collect()); pats.push((0..n).map(|i| [0x02u8, 0x41][i % 2]).collect()); }
    for n in [4usize, 5, 7, 8, 9, 12, 13, 41] { pats.push((0..n).map(|i| [0x02u8, 0x03, 0x04, 0x07][i % 4]).collect()); pats.push((0..n).map(|i| [0x41u8, 0x42, 0x43, 0x44][i % 4]).collect()); }
    for s in ["HELLO", "Hello, World.", "A", "AB", "ABAB", "ABCDABCD", "A B", " ", "..", "a,b", "0123456789", "X1"] {
        let pos: Vec<u8> = s.bytes().collect();
        let neg: Vec<u8> = s.bytes().map(|c| c | 0x80).collect();
        for base in [pos.clone(), neg.clone()] {
            pats.push(base.clone());
            let mut z = base.clone(); z.push(0); pats.push(z);
            let mut d = base.clone(); let l = d.len() - 1; d[l] ^= 0x80; pats.push(d.clone());
            d.push(0x02); pats.push(d);
            let mut q = base.clone(); q.push(0x27); pats.push(q);
            let mut q = base.clone(); q.push(0x22); pats.push(q);
            let mut q = base.clone(); q.push(0xA2); pats.push(q);
            let mut q = base.clone(); q.insert(0, 0x02); pats.push(q);
        }
    }
    pats.push(vec![0x27, 0x41]); pats.push(vec![0x22, 0xC1]); pats.push(vec![0x02]); pats.push(vec![0x02, 0x60]); pats.push(vec![0x00]); pats.push(vec![0x00, 0x00]);
    pats.push(vec![]);
    for (i, pat) in pats.iter().enumerate() {
        for p in PROCS {
            // data only starts where the disassembler does not see an instruction: lead with an invalid opcode
            // for that processor where one exists (65816: BRK with brk off)
            let lead: u8 = match p { Proc::P6502 => 0x02, Proc::P65c02 => 0x02, _ => 0x00 };
            cases.push(Case { p, m8: true, x8: true, brk: false, org: ORGS[i % 4], bytes: pat.clone(), kind: "data", pre: vec![], after: vec![], sel: Sel::Range });
            let mut b = vec![lead]; b.extend_from_slice(pat);
            cases.push(Case { p, m8: true, x8: true, brk: false, org: ORGS[(i + 1) % 4], bytes: b, kind: "data", pre: vec![], after: vec![], sel: Sel::Range });
            let mut b = vec![0xEA]; b.extend_from_slice(pat); b.push(0x60);
            cases.push(Case { p, m8: true, x8: true, brk: false, org: ORGS[(i + 2) % 4], bytes: b, kind: "data", pre: vec![], after: vec![], sel: Sel::Range });
        }
    }
    // (W) the concrete witnesses of the three defects proved in Props/C15.lean, and a block move in front of
    //     every kind of relative operand (the assembler's program counter must stay in step)
    for p in [Proc::P65802, Proc::P65816] {
        for b in [vec![0xAFu8, 0x56, 0x34, 0x12], vec![0xAF, 0x34, 0x00, 0x00], vec![0x54, 0x01, 0x02, 0x80, 0xFE],
                  vec![0x44, 0x7B, 0x28, 0x82, 0x00, 0x00], vec![0x54, 0x01, 0x02, 0x62, 0x10, 0x00], vec![0x44, 0x00, 0x00, 0xD0, 0x05, 0xEA],
                  vec![0x54, 0x01, 0x02, 0x54, 0x03, 0x04, 0x10, 0xF8]] {
            cases.push(Case { p, m8: true, x8: true, brk: false, org: 0x300, bytes: b, kind: "witness", pre: vec![], after: vec![], sel: Sel::Range });
        }
    }
    // (L) planted label aliases: 65802/65816 programs with labelled lines at known addresses (first line, a branch
    //     target) and long-operand instructions whose bank is 0 / the program bank / another bank and whose low 16
    //     bits are a labelled address, a labelled address +-1, a line that only "all" labels, or nothing
    let long_ops: Vec<u8> = (0..16u8).map(|h| (h << 4) | 0x0F).chain([0x5C, 0x22]).collect();
    let mut k = 0usize;
    for p in [Proc::P65816, Proc::P65802] {
        for org in [0x0300usize, 0x8000, 0x2000, 0xFFE0, 0x012000] {
            for &lop in &long_ops {
                for bank_class in 0..4usize {
                    for low_class in 0..6usize {
                        k += 1;
                        // thin the product deterministically in the quick tier; every (opcode, bank class, low class) is kept
                        if !ctx.tier_thorough && (k + lop as usize + org / 0x100) % 3 != 0 && org != 0x8000 { continue; }
                        let (m8, x8) = match k % 4 { 0 => (true, true), 1 => (false, true), 2 => (true, false), _ => (false, false) };
                        let l1 = org + if m8 { 2 } else { 3 };
                        let pbank = (org >> 16) as u32;
                        let bank: u32 = match bank_class { 0 => 0, 1 => pbank, 2 => if pbank == 1 { 2 } else { 1 }, _ => [0x7Eu32, 0xFF, 0x02, 0xE0][k % 4] };
                        let low: u32 = (match low_class { 0 => org, 1 => l1, 2 => l1 + 1, 3 => l1 - 1, 4 => l1 + 4, _ => 0x1234 } & 0xffff) as u32;
                        let bank2: u32 = [0u32, 1, 0x7E, pbank][(k / 4) % 4];
                        let low2: u32 = ([org, l1, l1 + 7, 0x4321][(k / 16) % 4] & 0xffff) as u32;
                        let mut b: Vec<u8> = vec![0xA9, 0x00];
                        if !m8 { b.push(0x00); }
                        b.push(lop); b.extend(le(low | (bank << 16), 3));
                        b.push(0xE8);
                        b.extend_from_slice(&[0xD0, 0xF9]);
                        b.push(if k % 2 == 0 { 0x22 } else { 0x5C }); b.extend(le(low2 | (bank2 << 16), 3));
                        b.push(0x60);
                        cases.push(Case { p, m8, x8, brk: false, org, bytes: b, kind: "label-alias", pre: vec![], after: vec![], sel: Sel::Range });
                    }
                }
            }
        }
    }
    // (L2) labels against 8 and 16 bit operands: a program in the zero page, absolute operands that equal labelled
    //      lines, the same low word in another bank, a range that crosses from bank 0 into bank 1 (24 bit labels)
    for p in PROCS {
        for (org, body) in [
            (0x0010usize, vec![0xA5u8, 0x10, 0xAD, 0x10, 0x00, 0xA5, 0x12, 0x4C, 0x12, 0x00, 0x60]),
            (0x0300, vec![0xAD, 0x00, 0x03, 0x4C, 0x03, 0x03, 0x20, 0x06, 0x03, 0xD0, 0xF5, 0x60]),
            (0x0300, vec![0xA2, 0x00, 0xBD, 0x02, 0x03, 0x9D, 0x0B, 0x03, 0xE8, 0xD0, 0xF7, 0x60, 0x6C, 0x00, 0x03]),
            (0xFFF8, vec![0xAD, 0xF8, 0xFF, 0x4C, 0xFB, 0xFF, 0xEA, 0xEA, 0xEA, 0xEA, 0x60]),
        ] {
            cases.push(Case { p, m8: true, x8: true, brk: false, org, bytes: body.clone(), kind: "label-abs", pre: vec![], after: vec![], sel: Sel::Range });
            if matches!(p, Proc::P65802 | Proc::P65816) {
                let mut b = body.clone();
                b.extend_from_slice(&[0xAF, (org & 0xff) as u8, (org >> 8) as u8, 0x00, 0xAF, (org & 0xff) as u8, (org >> 8) as u8, 0x01,
                    0xBF, ((org + 2) & 0xff) as u8, ((org + 2) >> 8) as u8, 0xFF, 0x82, 0x00, 0x00, 0x62, 0xF0, 0xFF]);
                cases.push(Case { p, m8: false, x8: false, brk: false, org, bytes: b, kind: "label-abs", pre: vec![], after: vec![], sel: Sel::Range });
            }
        }
    }
    // (R) sub-ranges of a larger image (`Range([beg,end])` with `end < img.len()`, `All`, the two `LastBload` ranges): text
    //     runs, fills, patterns, instructions and branch targets at and across both ends of the range, with the bytes
    //     just outside chosen adversarially ($00, the opposite / same high-bit polarity, opcodes, pattern continuations)
    {
        let mut k = 0usize;
        let mut push = |cases: &mut Vec<Case>, p: Proc, org: usize, pre: Vec<u8>, bytes: Vec<u8>, after: Vec<u8>, m8: bool, x8: bool| {
            k += 1;
            let org = if pre.len() > org { pre.len() } else { org };
            let sel = if k % 9 == 4 && org + bytes.len() + after.len() < 0xa000 { Sel::BloadDos } else if k % 9 == 8 && org + bytes.len() + after.len() < 0xa000 { Sel::BloadProdos } else { Sel::Range };
            cases.push(Case { p, m8, x8, brk: false, org, bytes, kind: "sub-range", pre, after, sel });
        };
        let texts: [&str; 7] = ["BYE", "E", "HELLO, WORLD.", "A B", "42", "Zz", "ABAB"];
        for p in PROCS {
            for (ti, t) in texts.iter().enumerate() {
                for neg in [false, true] {
                    let body: Vec<u8> = t.bytes().map(|c| if neg { c | 0x80 } else { c }).collect();
                    let hi = if neg { 0x80u8 } else { 0 };
                    // what precedes the text inside the range: nothing, code, an opcode invalid on the 6502 / 65C02
                    for (pi, prefix) in [vec![], vec![0x60u8], vec![0x20, 0x58, 0xFC, 0x60], vec![0xEA, 0x02]].iter().enumerate() {
                        let afters: Vec<Vec<u8>> = vec![vec![0x00], vec![0x45 | (hi ^ 0x80)], vec![0x45 | hi], vec![0x00, 0x00, 0x60], vec![0x20 | (hi ^ 0x80), 0x41],
                            vec![0x02], vec![0x2E | (hi ^ 0x80)], vec![0x8D], vec![]];
                        for (ai, after) in afters.iter().enumerate() {
                            if !ctx.tier_thorough && (ti + pi + ai + p as usize) % 2 == 1 && ai > 1 { continue; }
                            let mut b = prefix.clone(); b.extend_from_slice(&body);
                            let pre: Vec<u8> = match (ti + ai) % 3 { 0 => vec![], 1 => vec![b[0]], _ => vec![0x00, body[0] ^ 0x80] };
                            let org = [0x300usize, 0x8000, 0, 0x2001][(ti + pi + ai) % 4];
                            push(&mut cases, p, org, pre, b, after.clone(), true, true);
                        }
                    }
                }
            }
            // instructions whose operand lies beyond the end of the range, fills and patterns that continue beyond it or
            // begin before it, branches to the first address after / the last address before the range
            let shapes: Vec<(Vec<u8>, Vec<u8>, Vec<u8>)> = vec![
                (vec![], vec![0xEA, 0xA9], vec![0x01, 0x60]), (vec![], vec![0xAD, 0x00], vec![0x03, 0x60]), (vec![], vec![0x4C], vec![0x00, 0x03]),
                (vec![], vec![0xEA, 0xD0], vec![0xFE]), (vec![], vec![0xAF, 0x00, 0x80], vec![0x01]), (vec![], vec![0x54, 0x01], vec![0x02]),
                (vec![], vec![0x22, 0x00], vec![0x80, 0x00]), (vec![], vec![0x82, 0x10], vec![0x00]), (vec![0xA9], vec![0x01, 0x60], vec![0xA9]),
                (vec![0x02, 0x02], vec![0x02, 0x02, 0x02], vec![0x02, 0x02]), (vec![0x02, 0x03], vec![0x02, 0x03, 0x02, 0x03], vec![0x02, 0x03]),
                (vec![0x01, 0x02, 0x03, 0x04], vec![0x01, 0x02, 0x03, 0x04, 0x01, 0x02, 0x03, 0x04], vec![0x01, 0x02, 0x03, 0x04]),
                (vec![0xFF], vec![0xFF, 0xFF, 0xFF, 0xFF], vec![0xFF, 0x00]), (vec![0x00], vec![0x00, 0x00, 0x00], vec![0x00, 0x00]),
                (vec![0xEA], vec![0xD0, 0x02, 0xEA, 0xEA], vec![0x60]), (vec![0xEA], vec![0xEA, 0xD0, 0xFC], vec![0x60]), (vec![0x60], vec![0x4C, 0x05, 0x03, 0xEA, 0x60], vec![0xEA]),
                (vec![0xC1], vec![0x41, 0x42, 0x43], vec![0xC4]), (vec![0x41], vec![0xC1, 0xC2, 0xC3], vec![0x44]), (vec![], vec![0x02, 0x41, 0x41, 0x41], vec![0x41, 0x00]),
            ];
            for (si, (pre, b, after)) in shapes.iter().enumerate() {
                for org in [0x300usize, 0xFFF0] {
                    let (m8, x8) = if si % 2 == 0 { (true, true) } else { (false, false) };
                    push(&mut cases, p, org, pre.clone(), b.clone(), after.clone(), m8, x8);
                }
            }
            // `All` on an image that is the range
            push(&mut cases, p, 0, vec![], vec![0x60, 0x42, 0x59, 0x45], vec![], true, true);
            if let Some(c) = cases.last_mut() { c.sel = Sel::All; }
        }
        // random windows of random byte strings (code / mixtures / bytes)
        let n_win = ctx.n(500, 8000);
        for i in 0..n_win {
            let mut r = rng.fork(0x5000_0000 + i as u64);
            let p = *r.pick(&PROCS);
            let (m8, x8) = (r.chance(60), r.chance(60));
            let total = r.range(4, 40);
            let whole: Vec<u8> = (0..total).map(|_| match r.below(6) { 0 => 0x00, 1 => *r.pick(b"ABEXZ .,019") | if r.chance(50) { 0x80 } else { 0 }, 2 => *r.pick(&[0x02u8, 0x60, 0xEA, 0xA9, 0xAD, 0xD0, 0x4C, 0xAF, 0x20]), _ => r.byte() }).collect();
            let a = r.below(total.min(5));
            let b = r.range(a + 1, total);
            let org = match r.below(4) { 0 => 0x300, 1 => 0x8000, 2 => 0xFFF0 - r.below(8), _ => r.range(a, 0x9000) };
            push(&mut cases, p, org, whole[..a].to_vec(), whole[a..b].to_vec(), whole[b..].to_vec(), m8, x8);
        }
    }
    // (E) random pure code (all valid instructions), random code/data mixtures, random bytes
    let n_rand = ctx.n(700, 20000);
    for i in 0..n_rand {
        let mut r = rng.fork(i as u64);
        let p = *r.pick(&PROCS);
        let (m8, x8) = (r.chance(60), r.chance(60));
        let org = match r.below(6) { 0 => 0, 1 => 0x300, 2 => 0x8000, 3 => 0xFFF0 - r.below(16), 4 => r.below(0x10000), _ => 0x2000 };
        let brk = r.chance(50);
        let style = i % 3;
        let mut b: Vec<u8> = Vec::new();
        let len = r.range(1, 40);
        let valid: Vec<u8> = (0..=255u8).filter(|o| tools.instr_len(*o, p, m8, x8).is_some()).collect();
        while b.len() < len {
            if style == 2 { b.push(r.byte()); continue; }
            if style == 1 && r.chance(25) {
                // a data-ish stretch
                match r.below(5) {
                    0 => { let f = r.byte(); let n = r.range(1, 6); b.extend(std::iter::repeat(f).take(n)); }
                    1 => { let n = r.range(1, 8); let hi = if r.chance(50) { 0x80 } else { 0 }; for _ in 0..n { b.push(*r.pick(b"ABCXYZabz019 .,") | hi); } if r.chance(50) { b.push(0); } }
                    2 => { let pat = r.bytes(2); let n = r.range(1, 4); for _ in 0..n { b.extend_from_slice(&pat); } }
                    3 => { let pat = r.bytes(4); let n = r.range(1, 3); for _ in 0..n { b.extend_from_slice(&pat); } }
                    _ => { b.push(r.byte()); }
                }
                continue;
            }
            let op = *r.pick(&valid);
            let n = tools.instr_len(op, p, m8, x8).unwrap() - 1;
            b.push(op);
            let v: u32 = match r.below(5) { 0 => r.below(0x100) as u32, 1 => r.below(0x10000) as u32, 2 => *r.pick(&OPERANDS), _ => r.next() as u32 };
            b.extend(le(v, n));
        }
        cases.push(Case { p, m8, x8, brk, org, bytes: b, kind: match style { 0 => "random-code", 1 => "random-mixture", _ => "random-bytes" }, pre: vec![], after: vec![], sel: Sel::Range });
    }
    cases
}

pub fn run(ctx: &mut Ctx) {
    let mut tools = Tools::new();
    if let Ok(x) = std::env::var("C15_EXPLORE") {
        // "<proc> <mx> <org> <ver> <hex> [brk]" ; ...
        for spec in x.split(';') {
            let t: Vec<&str> = spec.split_whitespace().collect();
            let p = match t[0] { "6502" => Proc::P6502, "65c02" => Proc::P65c02, "65802" => Proc::P65802, _ => Proc::P65816 };
            let m8 = t[1].as_bytes()[0] == b'1';
            let x8 = t[1].as_bytes()[1] == b'1';
            let org = usize::from_str_radix(t[2], 16).unwrap();
            let ver = match t[3] { "m8" => Ver::M8, "m16" => Ver::M16, "m16+" => Ver::M16p, _ => Ver::M32 };
            let bytes = unhx(t[4]);
            let brk = t.len() > 5;
            println!("== {} ==", spec);
            match tools.dasm(&Case { p, m8, x8, brk, org, bytes: bytes.clone(), kind: "explore", pre: vec![], after: vec![], sel: Sel::Range }, "none") {
                Ok(Ok(txt)) => {
                    print!("{}", txt);
                    let full = [header(p, ver, m8, x8), txt].concat();
                    println!("-> {:?}", tools.asm_full(&full, ver, org, (m8, x8)).map(|r| r.map(|b| hx(&b))));
                }
                other => println!("{:?}", other),
            }
        }
        return;
    }
    let cases = gen_cases(ctx, &tools);
    for (idx, case) in cases.iter().enumerate() {
        if !ctx.out.wants(idx) { continue; }
        eval_case(ctx, &mut tools, idx, case);
    }
}
