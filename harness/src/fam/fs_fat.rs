//! Byte-exact tie of the concrete FAT model (Lean `Model/Fs/Fat.lean`, driver family `fsf`): called from
//! `fs.rs::post_step` after every executed operation on a FAT volume in a flat container (`w.last_op` describes
//! the operation; `None` = nothing executed, queries only).
//!
//! The saved image has already been mirrored into the driver (`fs set`).  The model keeps its own state (image +
//! FAT buffer).  At the first call of a history the model formats a blank image itself and is compared with a
//! freshly formatted real volume of the same configuration (the boot sector — jump, OEM name, BPB, volume id —
//! is a parameter of the model's `format` and comes from that real image).  Then, after every step: the
//! operation with the arguments passed to the real call and the real result class is applied to the model state;
//! the model's flushed image must equal the mirror unit for unit.  Also after every step: `stat().free_blocks`,
//! the catalog rows of the root and of the directory the operation addressed, and after a successful put the
//! fetched file (extension, attribute, eof, number of chunks, checksum of all chunk bytes); `get` of a missing
//! path: the same error class.  Switch off with `A2V_NO_FSFAT=1`.  Once per run: two directed scenarios on the real code
//! (`fat-put-validates-file-image`, `fat-format-reuses-fat-buffer`, `fat-path-through-file`).
use super::fs::{make_volume, Drv, Focus, OpRecord, Verdicts, World};
use crate::util::*;
use a2kit::fs::FileImage;
use std::collections::BTreeMap;

/// result class of a real FAT operation in the vocabulary of the model (`Err.token`)
fn err_tok(e: &str) -> String {
    match e {
        "general" => "general", "read fault" => "readfault", "sector not found" => "sectornotfound", "write fault" => "writefault",
        "write protect" => "writeprotect", "invalid command line parameter" => "invalidswitch", "File allocation table bad" => "badfat",
        "file not found" => "filenotfound", "duplicate file name" => "duplicatefile", "insufficient disk space" => "diskfull",
        "no room in directory" => "directoryfull", "directory not empty" => "directorynotempty", "syntax" => "syntax",
        "first cluster invalid" => "firstclusterinvalid", "incorrect DOS version" => "incorrectdos", "unable to access sector" => "imgerr",
        "PANIC" => "panic",
        _ => return format!("other({})", e.replace(' ', "_")),
    }.to_string()
}
fn res_tok(r: &Result<(), String>) -> String { match r { Ok(()) => "ok".to_string(), Err(e) => format!("err:{}", err_tok(e)) } }

/// `pack_tenths`, `pack_time`, `pack_date` of a2kit's FAT module, recomputed from the (pinned) clock
fn stamp() -> String {
    use chrono::{Datelike, Timelike};
    let now = chrono::Local::now().naive_local();
    let year = now.year().clamp(1980, 2107);
    let date = now.day() as u16 + ((now.month() as u16) << 5) + ((year as u16 - 1980) << 9);
    let time = (now.second() as u16) / 2 + ((now.minute() as u16) << 5) + ((now.hour() as u16) << 11);
    let tenths = (now.and_utc().timestamp_subsec_millis() / 100) as u8 + 10 * (now.second() % 2) as u8;
    format!("{} {} {}", tenths, hx(&time.to_le_bytes()), hx(&date.to_le_bytes()))
}

fn adler(chunks: &BTreeMap<usize, Vec<u8>>) -> u64 {
    let (mut a, mut b) = (1u64, 0u64);
    for (_, c) in chunks { for x in c { a = (a + *x as u64) % 65521; b = (b + a) % 65521; } }
    b * 65536 + a
}
fn get_answer(r: &Result<Result<FileImage, String>, String>) -> String {
    match r {
        Ok(Ok(g)) => { let cs: BTreeMap<usize, Vec<u8>> = g.chunks.iter().map(|(k, v)| (*k, v.clone())).collect(); format!("ok {} {} {} {} {}", hx(&g.fs_type), g.access.first().cloned().unwrap_or(0), g.get_eof(), cs.len(), adler(&cs)) }
        Ok(Err(e)) => format!("err:{}", err_tok(e)),
        Err(_) => "err:panic".to_string(),
    }
}

fn verdict(vd: &mut Verdicts, w: &World, pass: bool, kind: &str, detail: &str) {
    let hist = w.hist.clone();
    for f in [Focus::C01, Focus::C02, Focus::C03, Focus::C05] {
        if pass { vd.v(f, true, "concrete-model", "", &[]); } else { vd.v(f, false, &format!("concrete-model:{}", kind), detail, &hist); }
    }
}

/// send one request to the concrete model; `expect` = the real answer of a query, None = a mutating operation
/// (the driver compares result class and the whole flushed image with the mirror and answers `ok`)
fn tie(drv: &mut Drv, w: &World, vd: &mut Verdicts, req: &str, expect: Option<String>, desc: &str) {
    let ans = drv.ask(&format!("fsf {}", req));
    let want = expect.unwrap_or("ok".to_string());
    if ans == want { verdict(vd, w, true, "", ""); return; }
    let kind = if ans.starts_with("bad result") { "result" } else if ans.starts_with("bad sector") || ans.starts_with("bad flush") { "image" } else { req.split(' ').next().unwrap_or("?") }.to_string();
    let short: String = req.chars().take(160).collect();
    verdict(vd, w, false, &kind, &format!("concrete FAT model disagrees after [{}]: request [{}] model answered [{}] expected [{}]", desc, short, ans, want));
}

/// the freshly formatted real image, run-length described: `a-b=BB` for uniform units, `i:hex` otherwise
fn describe_img(bytes: &[u8]) -> (usize, String) {
    let units: Vec<&[u8]> = bytes.chunks(512).collect();
    let mut items: Vec<String> = Vec::new();
    let mut i = 0;
    while i < units.len() {
        let u = units[i];
        if u.iter().all(|b| *b == u[0]) {
            let mut j = i;
            while j + 1 < units.len() && units[j + 1].iter().all(|b| *b == u[0]) { j += 1; }
            if u[0] != 0 { items.push(format!("{}-{}={:02X}", i, j, u[0])); }
            i = j + 1;
        } else { items.push(format!("{}:{}", i, hx(u))); i += 1; }
    }
    (units.len(), items.join(" "))
}

/// first call of a history: the model formats its own blank image and is compared with a fresh real format.
/// On the fresh real volume the variant bit of the model is probed (is the volume label addressable as a file?);
/// that is also a direct oracle of C05: a name that was never stored must not be fetchable.
fn format_tie(drv: &mut Drv, w: &World, vd: &mut Verdicts) {
    let fresh = guarded(|| make_volume(&w.cfg).map(|mut d| { let label_is_file = d.get("VERIF").is_ok(); (d.get_img().to_bytes(), label_is_file) }));
    match fresh {
        Ok(Ok((bytes, label_is_file))) => {
            vd.v(Focus::C05, !label_is_file, "label-is-not-a-file", "get(\"VERIF\") on a freshly formatted volume labelled VERIF returns a file: the label entry is addressable as a file (get/delete/rename/lock reach it, put of that name is a duplicate)", &["format VERIF".to_string()]);
            let (n, img) = describe_img(&bytes);
            tie(drv, w, vd, &format!("format {} {} {} {} ok {}", n, hx(b"VERIF"), stamp(), if label_is_file { 1 } else { 0 }, img), None, "format");
        }
        _ => vd.out.count("fsfat-format-unavailable"),
    }
}

fn request(op: &OpRecord) -> Option<String> {
    let real = res_tok(&op.result);
    let p = hx(op.spelled.as_bytes());
    Some(match op.kind {
        "put" => {
            let ok = op.result.is_ok();
            let cs = if op.chunks.is_empty() { "-".to_string() } else { op.chunks.iter().map(|(i, c)| if ok { format!("{}:{}", i, hx(c)) } else { format!("{}:-", i) }).collect::<Vec<_>>().join(",") };
            format!("put {} {{CL}} {} {} {} {} {} {}", p, hx(&le_eof(op.eof)), hx(&op.access), hx(&op.created), hx(&op.modified), real, cs)
        }
        "delete" | "lock" | "unlock" => format!("{} {} {}", op.kind, p, real),
        "rename" => format!("rename {} {} {}", p, hx(op.arg2.as_bytes()), real),
        "retype" => format!("retype {} {} {}", p, match op.arg2.as_str() { "sys" | "reg" | "hid" | "vis" => op.arg2.as_str(), _ => "other" }, real),
        "mkdir" => format!("mkdir {} {} {}", p, stamp(), real),
        _ => return None,
    })
}
/// the `eof` vector of a FAT file image (4 bytes, little endian)
fn le_eof(eof: usize) -> Vec<u8> { (eof as u32).to_le_bytes().to_vec() }

fn cat_answer(rows: &[String]) -> String {
    // `universal_row`: "{:4} {:5}  {}" = type, blocks, name
    let items: Vec<String> = rows.iter().map(|r| {
        let typ = r.get(..4).unwrap_or("").trim_end().to_string();
        let rest = r.get(5..).unwrap_or("").trim_start();
        match rest.split_once("  ") { Some((n, name)) => format!("{}:{}:{}", hx(typ.as_bytes()), n, hx(name.as_bytes())), None => match rest.strip_suffix("  ") { Some(n) => format!("{}:{}:-", hx(typ.as_bytes()), n), None => format!("?{}", r.replace(' ', "_")) } }
    }).collect();
    format!("ok {}", if items.is_empty() { "-".to_string() } else { items.join(",") })
}

// ------------------------------------------------------------------------------------------
// directed scenarios on the real code (inputs the generator of fs.rs does not produce): once per run.  Both were defects
// of the pinned tree found by the refinement proofs (fixes 7da7b06, 55a0597, 18164ab); they are strict: a regression is a failing input.

fn report(vd: &mut Verdicts, owners: &[Focus], pass: bool, oracle: &str, detail: &str) {
    for f in owners { vd.v(*f, pass, oracle, detail, &[format!("directed scenario {}", oracle)]); }
}

fn directed(vd: &mut Verdicts) {
    use a2kit::bios::bpb;
    use a2kit::fs::{fat, DiskFS};
    use a2kit::img::{self, names, DiskKind};
    let mk = || -> Result<fat::Disk, String> {
        let kind = DiskKind::D525(names::IBM_SSDD_9);
        let img = Box::new(img::dsk_img::Img::create(kind));
        let boot = bpb::BootSector::create(&kind).map_err(|e| e.to_string())?;
        let mut d = fat::Disk::from_img(img, Some(boot)).map_err(|e| e.to_string())?;
        d.format("VERIF", None).map_err(|e| e.to_string())?;
        Ok(d)
    };
    let fimg = |d: &mut fat::Disk, path: &str, chunks: &[(usize, Vec<u8>)], eof: u32| -> Result<FileImage, String> {
        let mut f = d.new_fimg(None, true, path).map_err(|e| e.to_string())?;
        for (i, c) in chunks { f.chunks.insert(*i, c.clone()); }
        f.eof = eof.to_le_bytes().to_vec();
        Ok(f)
    };
    // A: file images `put` must refuse before it changes anything: a hole (chunks 0,1,3), a length beyond the chunks
    // (one chunk, eof 5000; no chunk, eof 10), a chunk longer than a cluster (700 bytes)
    let owners_a = [Focus::C01, Focus::C03, Focus::C04, Focus::C05];
    let a = guarded(|| -> Result<Option<String>, String> {
        let cases: Vec<(&str, Vec<(usize, Vec<u8>)>, u32)> = vec![
            ("hole: chunks {0,1,3} eof 2048", vec![(0, vec![1; 512]), (1, vec![2; 512]), (3, vec![3; 512])], 2048),
            ("length beyond the chunks: one 512-byte chunk, eof 5000", vec![(0, vec![1; 512])], 5000),
            ("length without a chunk: no chunk, eof 10", vec![], 10),
            ("oversized chunk: one 700-byte chunk, eof 700", vec![(0, vec![7; 700])], 700),
        ];
        for (what, chunks, eof) in cases {
            let mut d = mk()?;
            let keep = fimg(&mut d, "KEEP.BIN", &[(0, vec![0xAA; 512])], 512)?;
            d.put(&keep).map_err(|e| e.to_string())?;
            let free0 = d.stat().map_err(|e| e.to_string())?.free_blocks;
            let bytes0 = d.get_img().to_bytes();
            let f = fimg(&mut d, "BAD.BIN", &chunks, eof)?;
            let r = d.put(&f).map_err(|e| e.to_string());
            let free1 = d.stat().map_err(|e| e.to_string())?.free_blocks;
            let rows = d.catalog_to_vec("/").map_err(|e| e.to_string())?;
            match r {
                Ok(n) => return Ok(Some(format!("{}: put was accepted (Ok({})), catalog {:?}", what, n, rows))),
                Err(e) => if d.get_img().to_bytes() != bytes0 || free1 != free0 {
                    return Ok(Some(format!("{}: put was refused ({}) but the volume changed: free_blocks {} -> {}, catalog {:?}", what, e, free0, free1, rows)));
                }
            }
        }
        Ok(None)
    });
    match a {
        Ok(Ok(None)) => report(vd, &owners_a, true, "fat-put-validates-file-image", ""),
        Ok(Ok(Some(why))) => report(vd, &owners_a, false, "fat-put-validates-file-image", &format!("fresh ibm-ssdd-9 volume labelled VERIF, put KEEP.BIN, then a file image from new_fimg with {}", why)),
        Ok(Err(e)) => vd.out.count(&format!("directed-setup-error:{}", e)),
        Err(p) => report(vd, &owners_a, false, "fat-put-validates-file-image", &format!("panic {}", p)),
    }
    // B: re-format through an object that has been used: the old allocations must be gone
    let owners_b = [Focus::C04, Focus::C06];
    let b = guarded(|| -> Result<Option<String>, String> {
        let mut fresh = mk()?;
        let free_fresh = fresh.stat().map_err(|e| e.to_string())?.free_blocks;
        let bytes_fresh = fresh.get_img().to_bytes();
        let mut d = mk()?;
        let f = fimg(&mut d, "USED.BIN", &[(0, vec![1; 512]), (1, vec![2; 512]), (2, vec![3; 512])], 1536)?;
        d.put(&f).map_err(|e| e.to_string())?;
        d.format("VERIF", None).map_err(|e| e.to_string())?;
        let free1 = d.stat().map_err(|e| e.to_string())?.free_blocks;
        let rows = d.catalog_to_vec("/").map_err(|e| e.to_string())?;
        if free1 != free_fresh || !rows.is_empty() {
            return Ok(Some(format!("after put USED.BIN (3 clusters) and format through the same object: free_blocks {} (fresh volume: {}), catalog {:?}", free1, free_fresh, rows)));
        }
        if d.get_img().to_bytes() != bytes_fresh { return Ok(Some("the re-formatted image differs from a freshly formatted one".to_string())); }
        Ok(None)
    });
    // C: a path does not lead through a file (fix 18164ab): `A` is a file of one zeroed cluster, which read as a directory
    // would be an empty one
    let owners_c = [Focus::C02, Focus::C05];
    let c = guarded(|| -> Result<Option<String>, String> {
        let mut d = mk()?;
        let zeros = vec![0u8; 512];
        let a = fimg(&mut d, "A", &[(0, zeros.clone())], 512)?;
        d.put(&a).map_err(|e| e.to_string())?;
        let bytes0 = d.get_img().to_bytes();
        let x = fimg(&mut d, "A/X.TXT", &[(0, vec![9; 512])], 512)?;
        let r_put = d.put(&x).map_err(|e| e.to_string());
        let r_mkdir = d.create("A/SUB").map_err(|e| e.to_string());
        let r_get = d.get("A/X.TXT").map(|g| g.chunks.len()).map_err(|e| e.to_string());
        let r_del = d.delete("A/X.TXT").map_err(|e| e.to_string());
        let a_now = d.get("A").map_err(|e| e.to_string())?;
        let intact = a_now.chunks.get(&0) == Some(&zeros);
        if r_put.is_ok() || r_mkdir.is_ok() || r_get.is_ok() || r_del.is_ok() || !intact || d.get_img().to_bytes() != bytes0 {
            return Ok(Some(format!("put A/X.TXT => {:?}, mkdir A/SUB => {:?}, get A/X.TXT => {:?}, delete A/X.TXT => {:?}; content of A intact: {}; image unchanged: {}",
                r_put, r_mkdir, r_get, r_del, intact, d.get_img().to_bytes() == bytes0)));
        }
        Ok(None)
    });
    match c {
        Ok(Ok(None)) => report(vd, &owners_c, true, "fat-path-through-file", ""),
        Ok(Ok(Some(why))) => report(vd, &owners_c, false, "fat-path-through-file", &format!("fresh ibm-ssdd-9 volume labelled VERIF, put A (one 512-byte chunk of zeros), then operations on paths below the file A: {}", why)),
        Ok(Err(e)) => vd.out.count(&format!("directed-setup-error:{}", e)),
        Err(p) => report(vd, &owners_c, false, "fat-path-through-file", &format!("panic {}", p)),
    }
    match b {
        Ok(Ok(None)) => report(vd, &owners_b, true, "fat-format-reuses-fat-buffer", ""),
        Ok(Ok(Some(why))) => report(vd, &owners_b, false, "fat-format-reuses-fat-buffer", &format!("fresh ibm-ssdd-9 volume labelled VERIF: {}", why)),
        Ok(Err(e)) => vd.out.count(&format!("directed-setup-error:{}", e)),
        Err(p) => report(vd, &owners_b, false, "fat-format-reuses-fat-buffer", &format!("panic {}", p)),
    }
}

pub fn after_step(drv: &mut Drv, w: &mut World, vd: &mut Verdicts, desc: &str) {
    if std::env::var("A2V_NO_FSFAT").is_ok() || w.cfg.container != "img" { return; }
    { static ONCE: std::sync::Once = std::sync::Once::new(); let mut run = false; ONCE.call_once(|| run = true); if run { directed(vd); } }
    let first = drv.ask("fsf ready") != "yes";
    if first {
        format_tie(drv, w, vd);
        // the label as a path (read-only probe of both sides; the real volume may by now hold a file of that name)
        let res = w.get("verif");
        tie(drv, w, vd, &format!("get {}", hx(b"verif")), Some(get_answer(&res)), desc);
    }
    // the total reader the theorems speak about (`Read.FatT.readT`) against the group's reader (`Read.Fat.read`),
    // both on the mirrored real image: at the start and at every 16th step
    if first || w.hist.len() % 16 == 0 {
        let a = drv.ask("fs read");
        tie(drv, w, vd, "readt", Some(a), desc);
    }
    let op = w.last_op.clone();
    if let Some(op) = &op {
        if let Some(req) = request(op) {
            let req = req.replace("{CL}", &w.chunk_len.to_string());
            tie(drv, w, vd, &req, None, desc);
        }
    }
    // queries: free count, catalog of the root and of the directory addressed, the file just stored.  Free count and
    // catalog are functions of the image, which the operation tie has just compared: ask only after a step that
    // reported success (and once at the start)
    let changed = first || desc.ends_with("=> ok");
    if changed {
        if let Ok(f) = w.free() { tie(drv, w, vd, "free", Some(format!("ok {}", f)), desc); }
        let mut dirs = vec!["/".to_string()];
        if let Some(op) = &op { if let Some(i) = op.spelled.rfind('/') { if i > 0 { dirs.push(op.spelled[..i].to_string()); } } }
        for dpath in dirs {
            match guarded(|| w.disk.catalog_to_vec(&dpath).map_err(|e| e.to_string())) {
                Ok(Ok(rows)) => tie(drv, w, vd, &format!("cat {}", hx(dpath.as_bytes())), Some(cat_answer(&rows)), desc),
                Ok(Err(e)) => tie(drv, w, vd, &format!("cat {}", hx(dpath.as_bytes())), Some(format!("err:{}", err_tok(&e))), desc),
                Err(_) => {}
            }
        }
    }
    if let Some(op) = &op {
        // (large files: the harness's own get-after-put oracle reads them back; the model's `get` of a long chain is slow)
        if op.kind == "put" && op.result.is_ok() && op.chunks.len() <= 48 {
            let res = w.get(&op.spelled);
            tie(drv, w, vd, &format!("get {}", hx(op.spelled.as_bytes())), Some(get_answer(&res)), desc);
        }
    }
    if desc.starts_with("get-missing ") {
        let name = desc.splitn(2, ' ').nth(1).unwrap_or("").split(" => ").next().unwrap_or("").to_string();
        let res = w.get(&name);
        tie(drv, w, vd, &format!("get {}", hx(name.as_bytes())), Some(get_answer(&res)), desc);
    }
}
