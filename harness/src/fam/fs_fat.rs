//! Byte-exact tie of the concrete FAT model (Lean `Model/Fs/Fat.lean`, driver family `fsf`): called from
//! `fs.rs::post_step` after every executed operation on a FAT volume in a flat container (`w.last_op` describes
//! the operation; `None` = nothing executed, queries only).
//!
//! The saved image has already been mirrored into the driver (`fs set`).  The model keeps its own state (image +
//! FAT buffer).  At the first call of a history the model formats a blank image itself and is compared with a
//! freshly formatted real volume of the same configuration (the boot sector — jump, OEM name, BPB, volume id —
//! is a parameter of the model's `format` and comes from that real image).  Then, after every step: the
//! operation with the arguments passed to the real call and the real result class is applied to the model state;
//! the model's flushed image must equal the mirror unit for unit.  Also after every step: `stat().free_blocks`,
//! the catalog rows of the root and of the directory the operation addressed, and after a successful put the
//! fetched file (extension, attribute, eof, number of chunks, checksum of all chunk bytes); `get` of a missing
//! path: the same error class.  Switch off with `A2V_NO_FSFAT=1`.
use super::fs::{make_volume, Drv, Focus, OpRecord, Verdicts, World};
use crate::util::*;
use a2kit::fs::FileImage;
use std::collections::BTreeMap;

/// result class of a real FAT operation in the vocabulary of the model (`Err.token`)
fn err_tok(e: &str) -> String {
    match e {
        "general" => "general", "read fault" => "readfault", "sector not found" => "sectornotfound", "write fault" => "writefault",
        "write protect" => "writeprotect", "invalid command line parameter" => "invalidswitch", "File allocation table bad" => "badfat",
        "file not found" => "filenotfound", "duplicate file name" => "duplicatefile", "insufficient disk space" => "diskfull",
        "no room in directory" => "directoryfull", "directory not empty" => "directorynotempty", "syntax" => "syntax",
        "first cluster invalid" => "firstclusterinvalid", "incorrect DOS version" => "incorrectdos", "unable to access sector" => "imgerr",
        "PANIC" => "panic",
        _ => return format!("other({})", e.replace(' ', "_")),
    }.to_string()
}
fn res_tok(r: &Result<(), String>) -> String { match r { Ok(()) => "ok".to_string(), Err(e) => format!("err:{}", err_tok(e)) } }

/// `pack_tenths`, `pack_time`, `pack_date` of a2kit's FAT module, recomputed from the (pinned) clock
fn stamp() -> String {
    use chrono::{Datelike, Timelike};
    let now = chrono::Local::now().naive_local();
    let year = now.year().clamp(1980, 2107);
    let date = now.day() as u16 + ((now.month() as u16) << 5) + ((year as u16 - 1980) << 9);
    let time = (now.second() as u16) / 2 + ((now.minute() as u16) << 5) + ((now.hour() as u16) << 11);
    let tenths = (now.and_utc().timestamp_subsec_millis() / 100) as u8 + 10 * (now.second() % 2) as u8;
    format!("{} {} {}", tenths, hx(&time.to_le_bytes()), hx(&date.to_le_bytes()))
}

fn adler(chunks: &BTreeMap<usize, Vec<u8>>) -> u64 {
    let (mut a, mut b) = (1u64, 0u64);
    for (_, c) in chunks { for x in c { a = (a + *x as u64) % 65521; b = (b + a) % 65521; } }
    b * 65536 + a
}
fn get_answer(r: &Result<Result<FileImage, String>, String>) -> String {
    match r {
        Ok(Ok(g)) => { let cs: BTreeMap<usize, Vec<u8>> = g.chunks.iter().map(|(k, v)| (*k, v.clone())).collect(); format!("ok {} {} {} {} {}", hx(&g.fs_type), g.access.first().cloned().unwrap_or(0), g.get_eof(), cs.len(), adler(&cs)) }
        Ok(Err(e)) => format!("err:{}", err_tok(e)),
        Err(_) => "err:panic".to_string(),
    }
}

fn verdict(vd: &mut Verdicts, w: &World, pass: bool, kind: &str, detail: &str) {
    let hist = w.hist.clone();
    for f in [Focus::C01, Focus::C02, Focus::C03, Focus::C05] {
        if pass { vd.v(f, true, "concrete-model", "", &[]); } else { vd.v(f, false, &format!("concrete-model:{}", kind), detail, &hist); }
    }
}

/// send one request to the concrete model; `expect` = the real answer of a query, None = a mutating operation
/// (the driver compares result class and the whole flushed image with the mirror and answers `ok`)
fn tie(drv: &mut Drv, w: &World, vd: &mut Verdicts, req: &str, expect: Option<String>, desc: &str) {
    let ans = drv.ask(&format!("fsf {}", req));
    let want = expect.unwrap_or("ok".to_string());
    if ans == want { verdict(vd, w, true, "", ""); return; }
    let kind = if ans.starts_with("bad result") { "result" } else if ans.starts_with("bad sector") || ans.starts_with("bad flush") { "image" } else { req.split(' ').next().unwrap_or("?") }.to_string();
    let short: String = req.chars().take(160).collect();
    verdict(vd, w, false, &kind, &format!("concrete FAT model disagrees after [{}]: request [{}] model answered [{}] expected [{}]", desc, short, ans, want));
}

/// the freshly formatted real image, run-length described: `a-b=BB` for uniform units, `i:hex` otherwise
fn describe_img(bytes: &[u8]) -> (usize, String) {
    let units: Vec<&[u8]> = bytes.chunks(512).collect();
    let mut items: Vec<String> = Vec::new();
    let mut i = 0;
    while i < units.len() {
        let u = units[i];
        if u.iter().all(|b| *b == u[0]) {
            let mut j = i;
            while j + 1 < units.len() && units[j + 1].iter().all(|b| *b == u[0]) { j += 1; }
            if u[0] != 0 { items.push(format!("{}-{}={:02X}", i, j, u[0])); }
            i = j + 1;
        } else { items.push(format!("{}:{}", i, hx(u))); i += 1; }
    }
    (units.len(), items.join(" "))
}

/// first call of a history: the model formats its own blank image and is compared with a fresh real format.
/// On the fresh real volume the variant bit of the model is probed (is the volume label addressable as a file?);
/// that is also a direct oracle of C05: a name that was never stored must not be fetchable.
fn format_tie(drv: &mut Drv, w: &World, vd: &mut Verdicts) {
    let fresh = guarded(|| make_volume(&w.cfg).map(|mut d| { let label_is_file = d.get("VERIF").is_ok(); (d.get_img().to_bytes(), label_is_file) }));
    match fresh {
        Ok(Ok((bytes, label_is_file))) => {
            vd.v(Focus::C05, !label_is_file, "label-is-not-a-file", "get(\"VERIF\") on a freshly formatted volume labelled VERIF returns a file: the label entry is addressable as a file (get/delete/rename/lock reach it, put of that name is a duplicate)", &["format VERIF".to_string()]);
            let (n, img) = describe_img(&bytes);
            tie(drv, w, vd, &format!("format {} {} {} {} ok {}", n, hx(b"VERIF"), stamp(), if label_is_file { 1 } else { 0 }, img), None, "format");
        }
        _ => vd.out.count("fsfat-format-unavailable"),
    }
}

fn request(op: &OpRecord) -> Option<String> {
    let real = res_tok(&op.result);
    let p = hx(op.spelled.as_bytes());
    Some(match op.kind {
        "put" => {
            let ok = op.result.is_ok();
            let cs = if op.chunks.is_empty() { "-".to_string() } else { op.chunks.iter().map(|(i, c)| if ok { format!("{}:{}", i, hx(c)) } else { format!("{}:-", i) }).collect::<Vec<_>>().join(",") };
            format!("put {} {{CL}} {} {} {} {} {} {}", p, hx(&le_eof(op.eof)), hx(&op.access), hx(&op.created), hx(&op.modified), real, cs)
        }
        "delete" | "lock" | "unlock" => format!("{} {} {}", op.kind, p, real),
        "rename" => format!("rename {} {} {}", p, hx(op.arg2.as_bytes()), real),
        "retype" => format!("retype {} {} {}", p, match op.arg2.as_str() { "sys" | "reg" | "hid" | "vis" => op.arg2.as_str(), _ => "other" }, real),
        "mkdir" => format!("mkdir {} {} {}", p, stamp(), real),
        _ => return None,
    })
}
/// the `eof` vector of a FAT file image (4 bytes, little endian)
fn le_eof(eof: usize) -> Vec<u8> { (eof as u32).to_le_bytes().to_vec() }

fn cat_answer(rows: &[String]) -> String {
    // `universal_row`: "{:4} {:5}  {}" = type, blocks, name
    let items: Vec<String> = rows.iter().map(|r| {
        let typ = r.get(..4).unwrap_or("").trim_end().to_string();
        let rest = r.get(5..).unwrap_or("").trim_start();
        match rest.split_once("  ") { Some((n, name)) => format!("{}:{}:{}", hx(typ.as_bytes()), n, hx(name.as_bytes())), None => match rest.strip_suffix("  ") { Some(n) => format!("{}:{}:-", hx(typ.as_bytes()), n), None => format!("?{}", r.replace(' ', "_")) } }
    }).collect();
    format!("ok {}", if items.is_empty() { "-".to_string() } else { items.join(",") })
}

pub fn after_step(drv: &mut Drv, w: &mut World, vd: &mut Verdicts, desc: &str) {
    if std::env::var("A2V_NO_FSFAT").is_ok() || w.cfg.container != "img" { return; }
    let first = drv.ask("fsf ready") != "yes";
    if first {
        format_tie(drv, w, vd);
        // the label as a path (read-only probe of both sides; the real volume may by now hold a file of that name)
        let res = w.get("verif");
        tie(drv, w, vd, &format!("get {}", hx(b"verif")), Some(get_answer(&res)), desc);
    }
    // the total reader the theorems speak about (`Read.FatT.readT`) against the group's reader (`Read.Fat.read`),
    // both on the mirrored real image: at the start and at every 16th step
    if first || w.hist.len() % 16 == 0 {
        let a = drv.ask("fs read");
        tie(drv, w, vd, "readt", Some(a), desc);
    }
    let op = w.last_op.clone();
    if let Some(op) = &op {
        if let Some(req) = request(op) {
            let req = req.replace("{CL}", &w.chunk_len.to_string());
            tie(drv, w, vd, &req, None, desc);
        }
    }
    // queries: free count, catalog of the root and of the directory addressed, the file just stored.  Free count and
    // catalog are functions of the image, which the operation tie has just compared: ask only after a step that
    // reported success (and once at the start)
    let changed = first || desc.ends_with("=> ok");
    if changed {
        if let Ok(f) = w.free() { tie(drv, w, vd, "free", Some(format!("ok {}", f)), desc); }
        let mut dirs = vec!["/".to_string()];
        if let Some(op) = &op { if let Some(i) = op.spelled.rfind('/') { if i > 0 { dirs.push(op.spelled[..i].to_string()); } } }
        for dpath in dirs {
            match guarded(|| w.disk.catalog_to_vec(&dpath).map_err(|e| e.to_string())) {
                Ok(Ok(rows)) => tie(drv, w, vd, &format!("cat {}", hx(dpath.as_bytes())), Some(cat_answer(&rows)), desc),
                Ok(Err(e)) => tie(drv, w, vd, &format!("cat {}", hx(dpath.as_bytes())), Some(format!("err:{}", err_tok(&e))), desc),
                Err(_) => {}
            }
        }
    }
    if let Some(op) = &op {
        // (large files: the harness's own get-after-put oracle reads them back; the model's `get` of a long chain is slow)
        if op.kind == "put" && op.result.is_ok() && op.chunks.len() <= 48 {
            let res = w.get(&op.spelled);
            tie(drv, w, vd, &format!("get {}", hx(op.spelled.as_bytes())), Some(get_answer(&res)), desc);
        }
    }
    if desc.starts_with("get-missing ") {
        let name = desc.splitn(2, ' ').nth(1).unwrap_or("").split(" => ").next().unwrap_or("").to_string();
        let res = w.get(&name);
        tie(drv, w, vd, &format!("get {}", hx(name.as_bytes())), Some(get_answer(&res)), desc);
    }
}
